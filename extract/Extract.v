(* Extraction of the executable model.  ExtrOcamlBasic only (its directives are listed in
   DESIGN.md §8); nat, string and ascii stay the extracted inductives. *)
From Coq Require Import Extraction ExtrOcamlBasic.
From HS Require Import Codec CodecA.
Extraction Language OCaml.
Extraction "model.ml" run_line_all.
