#!/bin/sh
# Build the extracted model runner (offline).  Requires the .vo files of coq/theories.
set -e
cd "$(dirname "$0")"
timeout 600 coqc -Q ../coq/theories HS Extract.v
rm -f Extract.vo Extract.vok Extract.vos Extract.glob .Extract.aux
timeout 600 ocamlfind ocamlopt -w -a -O2 model.mli model.ml driver.ml -o modelrun 2>/dev/null || \
timeout 600 ocamlfind ocamlopt -w -a model.mli model.ml driver.ml -o modelrun
rm -f *.cmi *.cmx *.o
