(* I/O glue only: one case per input line, one result per output line.
   All parsing, evaluation and printing is done by the extracted [Model.run_line_all]. *)
open Model

let ascii_of_char (c : char) : ascii =
  let n = Char.code c in
  let b i = (n lsr i) land 1 = 1 in
  Ascii (b 0, b 1, b 2, b 3, b 4, b 5, b 6, b 7)

let char_of_ascii (a : ascii) : char =
  match a with
  | Ascii (b0, b1, b2, b3, b4, b5, b6, b7) ->
    let v b i = if b then 1 lsl i else 0 in
    Char.chr (v b0 0 + v b1 1 + v b2 2 + v b3 3 + v b4 4 + v b5 5 + v b6 6 + v b7 7)

let coq_of_string (s : Stdlib.String.t) : Model.string =
  let r = ref EmptyString in
  for i = Stdlib.String.length s - 1 downto 0 do r := String (ascii_of_char s.[i], !r) done;
  !r

let string_of_coq (s : Model.string) : Stdlib.String.t =
  let b = Buffer.create 256 in
  let rec go = function
    | EmptyString -> ()
    | String (a, t) -> Buffer.add_char b (char_of_ascii a); go t in
  go s; Buffer.contents b

let () =
  try
    while true do
      let line = input_line stdin in
      print_string (string_of_coq (run_line_all (coq_of_string line)));
      print_newline ()
    done
  with End_of_file -> ()
