(* Integrity.v — property C09: permanent files are never observable half-written.

   A GENERAL theorem: any number of threads, any calls, any schedule, EVERY PREFIX of every
   schedule (a crash is a prefix: the file map survives, see [reopen]).

   Method.  A Hoare-style predicate [Safe i m T Q] over programs, for thread index [i], carrying
   the thread's knowledge [T] of the temp files it created itself (the answers of its own
   [MkTmp]): which of its temp addresses surely exist and what they hold.  Every operation has a
   precondition [oppre] (what the program may do), a set of answers [ansok] that the fault-free
   semantics [exec_op] can produce in a world that agrees with [T], and a successor knowledge
   [opnext].  [step_sound] shows that a step satisfying [oppre] keeps the integrity of the world,
   keeps the temp files of every other thread untouched, and keeps [T] in agreement with the
   world.  [api_safe] shows that every API program obeys the discipline.  The pool invariant
   follows by induction on the schedule. *)
From HS Require Import Base PyVal FS Ops Sched.

(* ================================================================================== *)
(* 1. Integrity of a world                                                            *)
(* ================================================================================== *)

Definition tmpb (a : addr) : bool := match a with ATmp _ _ _ => true | _ => false end.
Definition ownb (i : nat) (a : addr) : bool :=
  match a with ATmp _ t _ => Nat.eqb t i | _ => false end.
(* the permanent addresses of C09 *)
Definition permb (a : addr) : bool :=
  match a with AObj _ | AMeta _ _ | APidRef _ => true | _ => false end.

Lemma ownb_tmpb : forall i a, ownb i a = true -> tmpb a = true.
Proof. destruct a; simpl; intros; congruence. Qed.
Lemma tmpb_permb : forall a, tmpb a = true -> permb a = false.
Proof. destruct a; simpl; intros; congruence. Qed.
Lemma ownb_other : forall i j a, ownb j a = true -> i <> j -> ownb i a = false.
Proof.
  destruct a; simpl; intros H Hne; try discriminate.
  apply Nat.eqb_eq in H. subst. apply Nat.eqb_neq. auto.
Qed.

(* [MV p f b n]: "(b, n) is a version of document (p, f) that somebody supplied" (ghost set) *)
Definition versions := pid -> fmt -> nat -> nat -> Prop.

(* what a file at address [a] may hold *)
Definition good (MV : versions) (a : addr) (v : fcontent) : Prop :=
  match a with
  | AObj c => exists n, v = CData c n n
  | AMeta p f => exists b n, v = CData b n n /\ MV p f b n
  | APidRef p => exists c, v = CCid c
  | _ => True
  end.

Definition IntegrityG (MV : versions) (w : world) : Prop :=
  forall a v, lookup a (fs w) = Some v -> good MV a v.

Definition any_version : versions := fun _ _ _ _ => True.

(* the plain statement: no ghost set *)
Definition Integrity (w : world) : Prop :=
  forall a v, lookup a (fs w) = Some v ->
    match a with
    | AObj c => exists n, v = CData c n n
    | AMeta p f => exists b n, v = CData b n n
    | APidRef p => exists c, v = CCid c
    | _ => True
    end.

Lemma Integrity_any : forall w, Integrity w <-> IntegrityG any_version w.
Proof.
  intros w; split; intros H a v Hl; specialize (H a v Hl); destruct a; simpl in *; auto.
  - destruct H as [b [n H]]. exists b, n. split; [exact H|exact I].
  - destruct H as [b [n [H _]]]. eauto.
Qed.

Lemma IntegrityG_mono : forall (MV MV' : versions) w,
  (forall p f b n, MV p f b n -> MV' p f b n) -> IntegrityG MV w -> IntegrityG MV' w.
Proof.
  intros MV MV' w Hm H a v Hl. specialize (H a v Hl). destruct a; simpl in *; auto.
  destruct H as [b [n [H1 H2]]]. exists b, n. auto.
Qed.

Lemma good_nonperm : forall MV a v, permb a = false -> good MV a v.
Proof. destruct a; simpl; intros; try discriminate; exact I. Qed.

Lemma Integrity_empty : Integrity empty_world.
Proof. intros a v H. simpl in H. discriminate. Qed.

(* ================================================================================== *)
(* 2. fresh_tmp is fresh                                                              *)
(* ================================================================================== *)

Lemma fresh_from_spec : forall ar t m fuel n,
  lookup (ATmp ar t (fresh_from ar t m n fuel)) m = None \/
  (forall k, n <= k < n + fuel -> lookup (ATmp ar t k) m <> None).
Proof.
  induction fuel as [|f IH]; intros n; simpl.
  - right. intros k Hk. lia.
  - destruct (lookup (ATmp ar t n) m) eqn:E.
    + destruct (IH (S n)) as [H|H]; [left; exact H|].
      right. intros k Hk. destruct (Nat.eq_dec k n) as [->|Hne].
      * rewrite E. discriminate.
      * apply H. lia.
    + left. exact E.
Qed.

Lemma NoDup_map_inj : forall (A B : Type) (f : A -> B) l,
  (forall x y, f x = f y -> x = y) -> NoDup l -> NoDup (map f l).
Proof.
  intros A B f l Hinj H. induction H as [|x l Hx Hnd IH]; simpl; constructor; auto.
  intros Hin. apply in_map_iff in Hin. destruct Hin as [y [Hy Hin]].
  apply Hinj in Hy. subst. contradiction.
Qed.

Lemma fresh_tmp_absent : forall ar t m, lookup (fresh_tmp ar t m) m = None.
Proof.
  intros ar t m. unfold fresh_tmp.
  destruct (fresh_from_spec ar t m (S (length m)) 0) as [H|H]; [exact H|].
  exfalso.
  assert (Hinc : incl (map (ATmp ar t) (seq 0 (S (length m)))) (keys m)).
  { intros a Ha. apply in_map_iff in Ha. destruct Ha as [k [<- Hk]].
    apply in_seq in Hk.
    destruct (lookup (ATmp ar t k) m) eqn:E.
    - eapply lookup_Some_In_keys. exact E.
    - exfalso. apply (H k); [lia|exact E]. }
  assert (Hnd : NoDup (map (ATmp ar t) (seq 0 (S (length m))))).
  { apply NoDup_map_inj; [intros x y Hxy; congruence | apply seq_NoDup]. }
  pose proof (NoDup_incl_length Hnd Hinc) as Hlen.
  rewrite map_length, seq_length in Hlen. unfold keys in Hlen. rewrite map_length in Hlen. lia.
Qed.

Lemma fresh_tmp_shape : forall ar t m, exists n, fresh_tmp ar t m = ATmp ar t n.
Proof. intros. unfold fresh_tmp. eauto. Qed.

(* ================================================================================== *)
(* 3. The discipline: what a thread knows, may do, and may be answered                 *)
(* ================================================================================== *)

Definition tmap := addr -> option fcontent.
Definition tempty : tmap := fun _ => None.
Definition tupd (T : tmap) (a : addr) (v : fcontent) : tmap :=
  fun x => if addr_eqb x a then Some v else T x.
Definition tdel (T : tmap) (a : addr) : tmap :=
  fun x => if addr_eqb x a then None else T x.

Lemma tupd_eq : forall T a v, tupd T a v a = Some v.
Proof. intros. unfold tupd. rewrite addr_eqb_refl. reflexivity. Qed.
Lemma tupd_neq : forall T a v x, x <> a -> tupd T a v x = T x.
Proof. intros. unfold tupd. apply addr_eqb_neq in H. rewrite H. reflexivity. Qed.

(* the address an operation writes in place (creating or modifying the file where it stands) *)
Definition inplace_target (o : op) : option addr :=
  match o with
  | WriteChunk a | OpenWr a _ | AppendOpen a | AppendWrite a _ | RewriteWrite a _ | Truncate a _ => Some a
  | _ => None
  end.

Section Discipline.
  Variable MV : versions.
  Variable i : nat.             (* the thread index *)

  (* [T] is sound for world [w]: every temp file of thread i that [T] knows exists and holds
     exactly what [T] says *)
  Definition agree (T : tmap) (w : world) : Prop :=
    forall a v, ownb i a = true -> T a = Some v -> lookup a (fs w) = Some v.

  Definition oppre (o : op) (T : tmap) : Prop :=
    match o with
    | WriteChunk t => ownb i t = true /\ exists b n j, T t = Some (CData b n j)
    | OpenWr t _ => ownb i t = true
    | Rename s d =>
        tmpb d = false /\
        (if ownb i s
         then permb d = true -> exists v, T s = Some v /\ good MV d v
         else tmpb s = false /\ permb d = false)
    | Remove a => tmpb a = true -> ownb i a = true
    | AppendOpen a | AppendWrite a _ | RewriteWrite a _ | Truncate a _ => exists c, a = ACidRef c
    | _ => True
    end.

  Definition ansok (o : op) (T : tmap) (x : ans) : Prop :=
    match o with
    | MkTmp ar _ => exists n, x = AAddr (ATmp ar i n) /\ T (ATmp ar i n) = None
    | WriteChunk _ => x = AUnit
    | ListDir _ => exists l, x = AList l /\ forall a, In a l -> tmpb a = false
    | _ => True
    end.

  Definition opnext (o : op) (T : tmap) (x : ans) : tmap :=
    match o with
    | MkTmp _ init => match x with AAddr a => tupd T a init | _ => T end
    | WriteChunk t => match T t with Some (CData b n j) => tupd T t (CData b n (S j)) | _ => T end
    | OpenWr t c => tupd T t c
    | Rename s _ => if ownb i s then tdel T s else T
    | Remove a => if ownb i a then tdel T a else T
    | _ => T
    end.

  Fixpoint Safe {A} (m : prog A) (T : tmap) (Q : A -> tmap -> Prop) : Prop :=
    match m with
    | Ret a => Q a T
    | Bad => True
    | Vis o k => oppre o T /\ forall x, ansok o T x -> Safe (k x) (opnext o T x) Q
    end.

  (* ---------- soundness of one step ---------- *)

  Lemma owned_by_nontmp : forall p a, owned_by p a = true -> tmpb a = false.
  Proof. intros p a. unfold owned_by. destruct a; simpl; auto; discriminate. Qed.

  Lemma own_neq_nontmp : forall a d, ownb i a = true -> tmpb d = false -> a <> d.
  Proof. intros a d Ha Hd E. subst. apply ownb_tmpb in Ha. congruence. Qed.

  Lemma agree_tdel : forall T w a, agree T w -> agree (tdel T a) w.
  Proof.
    intros T w a H x v Hx Hv. unfold tdel in Hv. destruct (addr_eqb x a); [discriminate|]. auto.
  Qed.

  (* frame: a world whose fs differs only at [d] *)
  Lemma agree_frame : forall T w m',
    agree T w -> (forall a, ownb i a = true -> T a <> None -> lookup a m' = lookup a (fs w)) ->
    agree T (set_fs w m').
  Proof.
    intros T w m' H Hf a v Ha Hv. simpl. rewrite Hf; auto. congruence.
  Qed.

  Theorem step_sound : forall o T w x w',
    agree T w -> oppre o T -> exec_op i o w = Some (x, w') ->
    ansok o T x /\
    agree (opnext o T x) w' /\
    (IntegrityG MV w -> IntegrityG MV w') /\
    (forall a, tmpb a = true -> ownb i a = false -> lookup a (fs w') = lookup a (fs w)).
  Proof.
    intros o T [m L] xans w' Hag Hpre Hex.
    destruct o; simpl in Hex, Hpre; simpl ansok; simpl opnext.
    - (* Probe *) inversion Hex; subst. auto.
    - (* SizeLines *)
      destruct (lookup a m) as [[]|]; inversion Hex; subst; auto.
    - (* Read *)
      destruct (lookup a m); inversion Hex; subst; auto.
    - (* OpenSrc *) inversion Hex; subst. auto.
    - (* MkTmp *)
      inversion Hex; subst; clear Hex.
      destruct (fresh_tmp_shape ar i m) as [n Hn].
      pose proof (fresh_tmp_absent ar i m) as Hab. rewrite Hn in *.
      assert (Hown : ownb i (ATmp ar i n) = true) by (simpl; apply Nat.eqb_refl).
      repeat split.
      + exists n. split; [reflexivity|].
        destruct (T (ATmp ar i n)) eqn:E; auto.
        apply Hag in E; auto. simpl in E. congruence.
      + intros a v Ha Hv. simpl. rewrite lookup_update. unfold tupd in Hv.
        destruct (addr_eqb a (ATmp ar i n)); auto.
      + intros HI a v Hl. simpl in Hl. rewrite lookup_update in Hl.
        destruct (addr_eqb a (ATmp ar i n)) eqn:E.
        * apply addr_eqb_true in E. subst. exact I.
        * apply HI. exact Hl.
      + intros a Ha Hno. simpl. rewrite lookup_update.
        destruct (addr_eqb a (ATmp ar i n)) eqn:E; auto.
        apply addr_eqb_true in E. subst. congruence.
    - (* WriteChunk *)
      destruct Hpre as [Hown [b [n [j HT]]]].
      pose proof (Hag _ _ Hown HT) as Hl. simpl in Hl. rewrite Hl in Hex.
      inversion Hex; subst; clear Hex. rewrite HT.
      repeat split.
      + intros a v Ha Hv. simpl. rewrite lookup_update. unfold tupd in Hv.
        destruct (addr_eqb a t); auto.
      + intros HI a v Hl'. simpl in Hl'. rewrite lookup_update in Hl'.
        destruct (addr_eqb a t) eqn:E.
        * apply addr_eqb_true in E. subst.
          apply good_nonperm. apply tmpb_permb. eapply ownb_tmpb. exact Hown.
        * apply HI. exact Hl'.
      + intros a Ha Hno. simpl. rewrite lookup_update.
        destruct (addr_eqb a t) eqn:E; auto.
        apply addr_eqb_true in E. subst. congruence.
    - (* OpenWr *)
      inversion Hex; subst; clear Hex.
      repeat split.
      + intros a v Ha Hv. simpl. rewrite lookup_update. unfold tupd in Hv.
        destruct (addr_eqb a t); auto.
      + intros HI a v Hl'. simpl in Hl'. rewrite lookup_update in Hl'.
        destruct (addr_eqb a t) eqn:E.
        * apply addr_eqb_true in E. subst.
          apply good_nonperm. apply tmpb_permb. eapply ownb_tmpb. exact Hpre.
        * apply HI. exact Hl'.
      + intros a Ha Hno. simpl. rewrite lookup_update.
        destruct (addr_eqb a t) eqn:E; auto.
        apply addr_eqb_true in E. subst. congruence.
    - (* Rename *)
      destruct Hpre as [Hd Hs].
      destruct (lookup src m) as [c|] eqn:El.
      + inversion Hex; subst; clear Hex.
        split; [exact I|].
        destruct (ownb i src) eqn:Eo.
        * repeat split.
          -- intros a v Ha Hv. simpl. unfold tdel in Hv.
             destruct (addr_eqb a src) eqn:E; [discriminate|].
             rewrite lookup_update_neq by (apply own_neq_nontmp; auto).
             rewrite lookup_delete, E. auto.
          -- intros HI a v Hl'. simpl in Hl'. rewrite lookup_update in Hl'.
             destruct (addr_eqb a dst) eqn:E.
             ++ apply addr_eqb_true in E. subst. inversion Hl'; subst.
                destruct (permb dst) eqn:Ep; [|apply good_nonperm; exact Ep].
                destruct (Hs eq_refl) as [v' [HT Hg]].
                apply Hag in HT; auto. simpl in HT. congruence.
             ++ rewrite lookup_delete in Hl'. destruct (addr_eqb a src); [discriminate|].
                apply HI. exact Hl'.
          -- intros a Ha Hno. simpl.
             rewrite lookup_update_neq by (intros ->; congruence).
             rewrite lookup_delete_neq by (intros ->; congruence). reflexivity.
        * destruct Hs as [Hs Hp]. repeat split.
          -- intros a v Ha Hv. simpl.
             rewrite lookup_update_neq by (apply own_neq_nontmp; auto).
             rewrite lookup_delete_neq by (apply own_neq_nontmp; auto). auto.
          -- intros HI a v Hl'. simpl in Hl'. rewrite lookup_update in Hl'.
             destruct (addr_eqb a dst) eqn:E.
             ++ apply addr_eqb_true in E. subst. apply good_nonperm. exact Hp.
             ++ rewrite lookup_delete in Hl'. destruct (addr_eqb a src); [discriminate|].
                apply HI. exact Hl'.
          -- intros a Ha Hno. simpl.
             rewrite lookup_update_neq by (intros ->; congruence).
             rewrite lookup_delete_neq by (intros ->; congruence). reflexivity.
      + inversion Hex; subst; clear Hex.
        split; [exact I|]. split; [|split; auto].
        destruct (ownb i src); auto. apply agree_tdel. exact Hag.
    - (* Remove *)
      destruct (lookup a m) as [c|] eqn:El.
      + inversion Hex; subst; clear Hex.
        split; [exact I|]. repeat split.
        * destruct (ownb i a) eqn:Eo.
          -- intros x v Hx Hv. simpl. unfold tdel in Hv. rewrite lookup_delete.
             destruct (addr_eqb x a); [discriminate|]. auto.
          -- intros x v Hx Hv. simpl. rewrite lookup_delete_neq; auto.
             intros ->. congruence.
        * intros HI x v Hl'. simpl in Hl'. rewrite lookup_delete in Hl'.
          destruct (addr_eqb x a); [discriminate|]. apply HI. exact Hl'.
        * intros x Hx Hno. simpl. rewrite lookup_delete_neq; auto.
          intros ->. rewrite (Hpre Hx) in Hno. discriminate.
      + inversion Hex; subst; clear Hex.
        split; [exact I|]. split; [|split; auto].
        destruct (ownb i a); auto. apply agree_tdel. exact Hag.
    - (* MkDirs *) inversion Hex; subst. auto.
    - (* ListDir *)
      inversion Hex; subst; clear Hex. split; [|auto].
      eexists. split; [reflexivity|]. intros a Ha. apply filter_In in Ha.
      destruct Ha as [_ Ha]. eapply owned_by_nontmp. exact Ha.
    - (* AppendOpen *)
      destruct Hpre as [c ->].
      destruct (lookup (ACidRef c) m); inversion Hex; subst; clear Hex; auto.
      split; [exact I|]. repeat split.
      + intros x v Hx Hv. simpl. rewrite lookup_update_neq; auto. intros ->. discriminate.
      + intros HI x v Hl'. simpl in Hl'. rewrite lookup_update in Hl'.
        destruct (addr_eqb x (ACidRef c)) eqn:E; [|apply HI; exact Hl'].
        apply addr_eqb_true in E. subst. exact I.
      + intros x Hx Hno. simpl. rewrite lookup_update_neq; auto. intros ->. discriminate.
    - (* AppendWrite *)
      destruct Hpre as [c ->].
      assert (Hgen : forall v0,
        ansok (AppendWrite (ACidRef c) p) T AUnit /\
        agree T (set_fs (mkWorld m L) (update (ACidRef c) v0 m)) /\
        (IntegrityG MV (mkWorld m L) -> IntegrityG MV (set_fs (mkWorld m L) (update (ACidRef c) v0 m))) /\
        (forall a, tmpb a = true -> ownb i a = false ->
           lookup a (fs (set_fs (mkWorld m L) (update (ACidRef c) v0 m))) = lookup a m)).
      { intros v0. split; [exact I|]. repeat split.
        + intros x v Hx Hv. simpl. rewrite lookup_update_neq; auto. intros ->. discriminate.
        + intros HI x v Hl'. simpl in Hl'. rewrite lookup_update in Hl'.
          destruct (addr_eqb x (ACidRef c)) eqn:E; [|apply HI; exact Hl'].
          apply addr_eqb_true in E. subst. exact I.
        + intros x Hx Hno. simpl. rewrite lookup_update_neq; auto. intros ->. discriminate. }
      destruct (lookup (ACidRef c) m) as [[]|]; inversion Hex; subst; clear Hex; auto;
        apply Hgen.
    - (* OpenRW *)
      destruct (lookup a m); inversion Hex; subst; auto.
    - (* RewriteWrite *)
      destruct Hpre as [c ->].
      destruct (lookup (ACidRef c) m) as [[]|]; inversion Hex; subst; clear Hex; auto.
      split; [exact I|]. repeat split.
      + intros x v Hx Hv. simpl. rewrite lookup_update_neq; auto. intros ->. discriminate.
      + intros HI x v Hl'. simpl in Hl'. rewrite lookup_update in Hl'.
        destruct (addr_eqb x (ACidRef c)) eqn:E; [|apply HI; exact Hl'].
        apply addr_eqb_true in E. subst. exact I.
      + intros x Hx Hno. simpl. rewrite lookup_update_neq; auto. intros ->. discriminate.
    - (* Truncate *)
      destruct Hpre as [c ->].
      destruct (lookup (ACidRef c) m) as [[]|]; inversion Hex; subst; clear Hex; auto.
      split; [exact I|]. repeat split.
      + intros x v Hx Hv. simpl. rewrite lookup_update_neq; auto. intros ->. discriminate.
      + intros HI x v Hl'. simpl in Hl'. rewrite lookup_update in Hl'.
        destruct (addr_eqb x (ACidRef c)) eqn:E; [|apply HI; exact Hl'].
        apply addr_eqb_true in E. subst. exact I.
      + intros x Hx Hno. simpl. rewrite lookup_update_neq; auto. intros ->. discriminate.
    - (* Acquire *)
      destruct (memb lock_eqb (cls, i0) L); inversion Hex; subst; clear Hex. auto.
    - (* Release *)
      destruct (memb lock_eqb (cls, i0) L); inversion Hex; subst; clear Hex; auto.
    - (* Peek *) inversion Hex; subst. auto.
    - (* Held *) inversion Hex; subst. auto.
  Qed.
End Discipline.

Arguments Safe MV i {A} m T Q.

(* ================================================================================== *)
(* 4. Combinators                                                                     *)
(* ================================================================================== *)

Section ApiSafe.
  Variable MV : versions.
  Variable i : nat.

  Lemma safe_weaken : forall A (m : prog A) T (Q Q' : A -> tmap -> Prop),
    Safe MV i m T Q -> (forall a T', Q a T' -> Q' a T') -> Safe MV i m T Q'.
  Proof.
    induction m as [a|o k IH|]; simpl; intros T Q Q' H HQ; auto.
    destruct H as [H1 H2]. split; auto. intros x Hx. eapply IH; eauto.
  Qed.

  Lemma safe_bind : forall A B (m : prog A) (f : A -> prog B) T Q1 Q,
    Safe MV i m T Q1 -> (forall a T', Q1 a T' -> Safe MV i (f a) T' Q) -> Safe MV i (bind m f) T Q.
  Proof.
    induction m as [a|o k IH|]; simpl; intros f T Q1 Q H Hf; auto.
    destruct H as [H1 H2]. split; auto. intros x Hx. eapply IH; eauto.
  Qed.

  Lemma safe_mbind : forall A B (m : M A) (f : A -> M B) T Q1 Q,
    Safe MV i m T Q1 ->
    (forall a T', Q1 (Val a) T' -> Safe MV i (f a) T' Q) ->
    (forall e T', Q1 (Exn e) T' -> Q (Exn e) T') ->
    Safe MV i (mbind m f) T Q.
  Proof.
    intros A B m f T Q1 Q H Hf He. unfold mbind. eapply safe_bind; [exact H|].
    intros [a|e] T' HQ; simpl; auto.
  Qed.

  (* a postcondition on the returned value only *)
  Definition post_v {A} (P : A -> Prop) : outcome A -> tmap -> Prop :=
    fun r _ => match r with Val a => P a | Exn _ => True end.

  (* [OkV m P]: m obeys the discipline whatever the thread knows about its temp files, and a
     value it returns satisfies P *)
  Definition OkV {A} (m : M A) (P : A -> Prop) : Prop := forall T, Safe MV i m T (post_v P).

  Notation Ok m := (OkV m (fun _ => True)).

  Lemma post_v_true : forall A (r : outcome A) T, post_v (fun _ => True) r T.
  Proof. intros A [a|e] T; exact I. Qed.

  Lemma okv_ret : forall A (a : A) (P : A -> Prop), P a -> OkV (ret a) P.
  Proof. intros A a P H T. exact H. Qed.
  Lemma ok_ret : forall A (a : A), Ok (ret a).
  Proof. intros A a T. exact I. Qed.
  Lemma okv_raise : forall A e (P : A -> Prop), OkV (raise e) P.
  Proof. intros A e P T. exact I. Qed.
  Lemma okv_bad : forall A (P : A -> Prop), OkV Bad P.
  Proof. intros A P T. exact I. Qed.

  Lemma okv_weaken : forall A (m : M A) (P P' : A -> Prop),
    OkV m P -> (forall a, P a -> P' a) -> OkV m P'.
  Proof.
    intros A m P P' H HP T. eapply safe_weaken; [apply H|].
    intros [a|e] T' HQ; simpl in *; auto.
  Qed.

  Lemma okv_mbind : forall A B (m : M A) (f : A -> M B) (P : A -> Prop) (Q : B -> Prop),
    OkV m P -> (forall a, P a -> OkV (f a) Q) -> OkV (mbind m f) Q.
  Proof.
    intros A B m f P Q Hm Hf T. eapply safe_mbind; [apply Hm| |].
    - intros a T' HP. apply Hf. exact HP.
    - intros e T' _. exact I.
  Qed.

  Lemma ok_mbind : forall A B (m : M A) (f : A -> M B) (Q : B -> Prop),
    Ok m -> (forall a, OkV (f a) Q) -> OkV (mbind m f) Q.
  Proof. intros. eapply okv_mbind; [eassumption|]. intros a _. auto. Qed.

  Lemma okv_catch : forall A (m : M A) (P : A -> Prop),
    OkV m P -> OkV (catch m) (fun r => match r with Val a => P a | Exn _ => True end).
  Proof.
    intros A m P H T. unfold catch. eapply safe_bind; [apply H|].
    intros [a|e] T' HQ; simpl in *; auto.
  Qed.
  Lemma ok_catch : forall A (m : M A), Ok m -> Ok (catch m).
  Proof. intros A m H. eapply okv_weaken; [apply okv_catch; exact H|]. auto. Qed.

  Lemma safe_try_finally : forall A (m : M A) (fin : M unit) T (P : A -> Prop),
    Safe MV i m T (post_v P) -> Ok fin -> Safe MV i (try_finally m fin) T (post_v P).
  Proof.
    intros A m fin T P Hm Hf. unfold try_finally. eapply safe_bind; [exact Hm|].
    intros r T' Hr. eapply safe_bind; [apply Hf|].
    intros [[]|e] T'' _; simpl; auto.
  Qed.

  Lemma okv_try_finally : forall A (m : M A) (fin : M unit) (P : A -> Prop),
    OkV m P -> Ok fin -> OkV (try_finally m fin) P.
  Proof. intros A m fin P Hm Hf T. apply safe_try_finally; auto. Qed.

  (* one operation whose precondition holds whatever T is, and whose answers need no care *)
  Lemma okv_vis : forall A o (k : ans -> M A) (P : A -> Prop),
    (forall T, oppre MV i o T) -> (forall x, OkV (k x) P) -> OkV (Vis o k) P.
  Proof. intros A o k P Hpre Hk T. simpl. split; [apply Hpre|]. intros x _. apply Hk. Qed.

  (* ---------- the typed wrappers ---------- *)

  Lemma ok_probe : forall a, Ok (probe a).
  Proof. intros a. apply okv_vis; [intros; exact I|]. intros []; try apply okv_bad. apply ok_ret. Qed.
  Lemma ok_read : forall a, Ok (read a).
  Proof.
    intros a. apply okv_vis; [intros; exact I|].
    intros []; try apply okv_bad; try apply ok_ret; apply okv_raise.
  Qed.
  Lemma ok_size_lines : forall a, Ok (size_lines a).
  Proof.
    intros a. apply okv_vis; [intros; exact I|].
    intros []; try apply okv_bad; try apply ok_ret; apply okv_raise.
  Qed.
  Lemma ok_peek : forall cls x, Ok (peek cls x).
  Proof. intros. apply okv_vis; [intros; exact I|]. intros []; try apply okv_bad. apply ok_ret. Qed.
  Lemma ok_held : forall cls x, Ok (held cls x).
  Proof. intros. apply okv_vis; [intros; exact I|]. intros []; try apply okv_bad. apply ok_ret. Qed.
  Lemma ok_acquire : forall cls x, Ok (acquire cls x).
  Proof. intros. apply okv_vis; [intros; exact I|]. intros []; try apply okv_bad. apply ok_ret. Qed.
  Lemma ok_release : forall cls x, Ok (release cls x).
  Proof.
    intros. apply okv_vis; [intros; exact I|].
    intros []; try apply okv_bad; try apply ok_ret; apply okv_raise.
  Qed.
  Lemma ok_funlock : forall a, Ok (funlock a).
  Proof. intros. apply okv_vis; [intros; exact I|]. intros []; try apply okv_bad; apply ok_ret. Qed.

  Lemma ok_unit_op : forall o, (forall T, oppre MV i o T) -> Ok (unit_op o).
  Proof.
    intros o H. apply okv_vis; [exact H|].
    intros []; try apply okv_bad; try apply ok_ret; apply okv_raise.
  Qed.
  Lemma ok_swallow_op : forall o, (forall T, oppre MV i o T) -> Ok (swallow_op o).
  Proof.
    intros o H. apply okv_vis; [exact H|]. intros []; try apply okv_bad; apply ok_ret.
  Qed.

  Lemma ok_rewrite_write : forall c p, Ok (rewrite_write (ACidRef c) p).
  Proof.
    intros. apply okv_vis; [intros; simpl; eauto|].
    intros []; try apply okv_bad; try apply ok_ret; apply okv_raise.
  Qed.

  Definition ntl (l : list addr) : Prop := forall a, In a l -> tmpb a = false.

  Lemma okv_listdir : forall p, OkV (listdir p) ntl.
  Proof.
    intros p T. simpl. split; [exact I|]. intros x [l [-> Hl]]. simpl. exact Hl.
  Qed.

  (* preconditions that hold for every T *)
  Lemma pre_rename_del : forall a T, tmpb a = false -> oppre MV i (Rename a (ADel a)) T.
  Proof.
    intros a T H. simpl. split; [reflexivity|].
    assert (Ho : ownb i a = false) by (destruct a; simpl in *; congruence).
    rewrite Ho. auto.
  Qed.
  Lemma pre_remove_nt : forall a T, tmpb a = false -> oppre MV i (Remove a) T.
  Proof. intros a T H. simpl. congruence. Qed.
  Lemma pre_remove_own : forall a T, ownb i a = true -> oppre MV i (Remove a) T.
  Proof. intros a T H. simpl. auto. Qed.

  Lemma ok_unit_remove_own : forall t, ownb i t = true -> Ok (unit_op (Remove t)).
  Proof. intros. apply ok_unit_op. intros. apply pre_remove_own. assumption. Qed.
  Lemma ok_swallow_remove_own : forall t, ownb i t = true -> Ok (swallow_op (Remove t)).
  Proof. intros. apply ok_swallow_op. intros. apply pre_remove_own. assumption. Qed.
  Lemma ok_unit_remove_nt : forall a, tmpb a = false -> Ok (unit_op (Remove a)).
  Proof. intros. apply ok_unit_op. intros. apply pre_remove_nt. assumption. Qed.
  Lemma ok_swallow_remove_nt : forall a, tmpb a = false -> Ok (swallow_op (Remove a)).
  Proof. intros. apply ok_swallow_op. intros. apply pre_remove_nt. assumption. Qed.
  Lemma ok_unit_mkdirs : forall a, Ok (unit_op (MkDirs a)).
  Proof. intros. apply ok_unit_op. intros. exact I. Qed.
  Lemma ok_unit_openrw : forall a, Ok (unit_op (OpenRW a)).
  Proof. intros. apply ok_unit_op. intros. exact I. Qed.
  Lemma ok_unit_opensrc : Ok (unit_op OpenSrc).
  Proof. intros. apply ok_unit_op. intros. exact I. Qed.
  Lemma ok_unit_acquire : forall cls x, Ok (unit_op (Acquire cls x)).
  Proof. intros. apply ok_unit_op. intros. exact I. Qed.
  Lemma ok_unit_truncate : forall c k, Ok (unit_op (Truncate (ACidRef c) k)).
  Proof. intros. apply ok_unit_op. intros. simpl. eauto. Qed.
  Lemma ok_unit_appendopen : forall c, Ok (unit_op (AppendOpen (ACidRef c))).
  Proof. intros. apply ok_unit_op. intros. simpl. eauto. Qed.
  Lemma ok_unit_appendwrite : forall c p, Ok (unit_op (AppendWrite (ACidRef c) p)).
  Proof. intros. apply ok_unit_op. intros. simpl. eauto. Qed.

  Hint Resolve ok_probe ok_read ok_size_lines ok_peek ok_held ok_acquire ok_release ok_funlock
       ok_rewrite_write ok_unit_remove_own ok_swallow_remove_own ok_unit_remove_nt
       ok_swallow_remove_nt ok_unit_mkdirs ok_unit_openrw ok_unit_opensrc ok_unit_acquire
       ok_unit_truncate ok_unit_appendopen ok_unit_appendwrite ok_ret okv_raise okv_bad : okdb.

  Ltac okauto :=
    repeat (intros; first
      [ solve [eauto 3 with okdb]
      | apply ok_mbind
      | apply ok_catch
      | apply okv_try_finally
      | match goal with
        | |- OkV (match ?x with _ => _ end) _ => destruct x
        end ]).
  Ltac okd := solve [okauto].

  (* ---------- the API, bottom up ---------- *)

  Lemma ok_read_cid : forall a, Ok (read_cid a).
  Proof. unfold read_cid. okauto. Qed.
  Hint Resolve ok_read_cid : okdb.
  Lemma ok_read_lines : forall a, Ok (read_lines a).
  Proof. unfold read_lines. okauto. Qed.
  Hint Resolve ok_read_lines : okdb.
  Lemma ok_is_in_refs : forall p a, Ok (is_in_refs p a).
  Proof. unfold is_in_refs. okauto. Qed.
  Hint Resolve ok_is_in_refs : okdb.
  Lemma ok_find_object : forall p, Ok (find_object p).
  Proof. unfold find_object. okauto. Qed.
  Hint Resolve ok_find_object : okdb.
  Lemma ok_open_object : forall c, Ok (open_object c).
  Proof. unfold open_object. okauto. Qed.
  Hint Resolve ok_open_object : okdb.
  Lemma ok_retrieve_object : forall p, Ok (retrieve_object p).
  Proof. unfold retrieve_object. okauto. Qed.
  Hint Resolve ok_retrieve_object : okdb.
  Lemma ok_get_hex_digest : forall p, Ok (get_hex_digest p).
  Proof. unfold get_hex_digest. okauto. Qed.
  Hint Resolve ok_get_hex_digest : okdb.

  Lemma okv_rename_for_deletion : forall a, tmpb a = false ->
    OkV (rename_for_deletion a) (fun d => tmpb d = false).
  Proof.
    intros a H. unfold rename_for_deletion. apply ok_mbind.
    - apply ok_unit_op. intros. apply pre_rename_del. exact H.
    - intros _. apply okv_ret. reflexivity.
  Qed.
  Lemma ok_rename_for_deletion : forall a, tmpb a = false -> Ok (rename_for_deletion a).
  Proof. intros. eapply okv_weaken; [apply okv_rename_for_deletion; assumption|]. auto. Qed.
  Hint Resolve ok_rename_for_deletion : okdb.

  Lemma ntl_nil : ntl [].
  Proof. intros a []. Qed.
  Lemma ntl_cons : forall a l, tmpb a = false -> ntl l -> ntl (a :: l).
  Proof. intros a l H Hl x [<-|Hx]; auto. Qed.
  Lemma ntl_app : forall l1 l2, ntl l1 -> ntl l2 -> ntl (l1 ++ l2).
  Proof. intros l1 l2 H1 H2 x Hx. apply in_app_or in Hx. destruct Hx; auto. Qed.
  Lemma ntl_inv : forall a l, ntl (a :: l) -> tmpb a = false /\ ntl l.
  Proof. intros a l H. split; [apply H; left; reflexivity|]. intros x Hx. apply H. right. exact Hx. Qed.
  Hint Resolve ntl_nil ntl_cons ntl_app : okdb.

  Lemma ok_delete_marked : forall l, ntl l -> Ok (delete_marked l).
  Proof.
    induction l as [|a l IH]; intros H; simpl.
    - apply ok_ret.
    - apply ntl_inv in H. destruct H as [Ha Hl]. apply ok_mbind; [okd|]. intros _. auto.
  Qed.
  Hint Resolve ok_delete_marked : okdb.

  Lemma ok_update_refs_remove : forall c p, Ok (update_refs_remove (ACidRef c) p).
  Proof. intros. unfold update_refs_remove. okauto. Qed.
  Hint Resolve ok_update_refs_remove : okdb.
  Lemma ok_update_refs_add : forall c p, Ok (update_refs_add (ACidRef c) p).
  Proof. intros. unfold update_refs_add. okauto. Qed.
  Hint Resolve ok_update_refs_add : okdb.
  Lemma ok_verify_refs : forall p c, Ok (verify_refs p c).
  Proof. intros. unfold verify_refs. okauto. Qed.
  Hint Resolve ok_verify_refs : okdb.
  Lemma ok_validate : forall c c', Ok (validate_and_check_cid_lock c c').
  Proof. intros. unfold validate_and_check_cid_lock. okauto. Qed.
  Hint Resolve ok_validate : okdb.

  Lemma okv_mark_pid_refs : forall p, OkV (mark_pid_refs p) ntl.
  Proof.
    intros p. unfold mark_pid_refs.
    eapply okv_mbind; [apply okv_catch; apply (okv_rename_for_deletion (APidRef p)); reflexivity|].
    intros [d|e] H; apply okv_ret; auto with okdb.
  Qed.

  Lemma okv_remove_pid_and_handle_cid : forall p c, OkV (remove_pid_and_handle_cid p c) ntl.
  Proof.
    intros p c. unfold remove_pid_and_handle_cid.
    eapply okv_mbind with (P := fun r => match r with Val l => ntl l | Exn _ => True end).
    - apply okv_catch. apply ok_mbind; [okd|]. intros _.
      apply ok_mbind; [okd|]. intros n. destruct (Nat.eqb n 0).
      + eapply okv_mbind; [apply (okv_rename_for_deletion (ACidRef c)); reflexivity|].
        intros d Hd. apply okv_ret. auto with okdb.
      + apply okv_ret. auto with okdb.
    - intros [l|e] H; apply okv_ret; auto with okdb.
  Qed.

  Lemma ok_untag_object : forall p c, Ok (untag_object p c).
  Proof.
    intros p c. unfold untag_object.
    apply ok_mbind; [okd|]. intros h. destruct (negb h); [apply okv_raise|].
    apply ok_mbind; [okd|]. intros r.
    assert (H12 : Ok (l1 <- mark_pid_refs p ;; l2 <- remove_pid_and_handle_cid p c ;; delete_marked (l1 ++ l2))).
    { eapply okv_mbind; [apply okv_mark_pid_refs|]. intros l1 H1.
      eapply okv_mbind; [apply okv_remove_pid_and_handle_cid|]. intros l2 H2.
      auto with okdb. }
    assert (H1 : Ok (l1 <- mark_pid_refs p ;; delete_marked l1)).
    { eapply okv_mbind; [apply okv_mark_pid_refs|]. intros l1 H1. auto with okdb. }
    assert (H2 : Ok (l2 <- remove_pid_and_handle_cid p c ;; delete_marked l2)).
    { eapply okv_mbind; [apply okv_remove_pid_and_handle_cid|]. intros l1 H1'. auto with okdb. }
    destruct r as [c'|e]; [okauto|].
    destruct e; okauto.
  Qed.
  Hint Resolve ok_untag_object : okdb.

  Lemma ok_and_sc : forall m1 m2, Ok m1 -> Ok m2 -> Ok (and_sc m1 m2).
  Proof. intros. unfold and_sc. okauto. Qed.
  Lemma ok_notm : forall m, Ok m -> Ok (notm m).
  Proof. intros. unfold notm. okauto. Qed.
  Hint Resolve ok_and_sc ok_notm : okdb.

  (* ---------- the three staging sequences (these are the substance) ---------- *)

  Lemma own_tmp_self : forall ar n, ownb i (ATmp ar i n) = true.
  Proof. intros. simpl. apply Nat.eqb_refl. Qed.

  Lemma write_refs_tmp_safe : forall content T,
    Safe MV i (write_refs_tmp content) T
      (fun r T' => match r with
                   | Val t => ownb i t = true /\ T' t = Some content /\
                              (forall x v, T x = Some v -> T' x = Some v)
                   | Exn _ => True
                   end).
  Proof.
    intros content T. unfold write_refs_tmp, mktmp, unit_op, mbind, ret, raise. simpl.
    split; [exact I|]. intros x [n [-> Hn]]. simpl.
    split; [(simpl; apply Nat.eqb_refl)|]. intros x _. destruct x; simpl; auto.
    split; [(simpl; apply Nat.eqb_refl)|]. split; [apply tupd_eq|].
    intros x v Hx. unfold tupd. destruct (addr_eqb x (ATmp ArRefs i n)) eqn:E; auto.
    apply addr_eqb_true in E. subst. congruence.
  Qed.

  Lemma safe_rename_own : forall t d T v (Q : outcome unit -> tmap -> Prop),
    ownb i t = true -> tmpb d = false -> T t = Some v -> good MV d v ->
    (forall r T', Q r T') ->
    Safe MV i (unit_op (Rename t d)) T Q.
  Proof.
    intros t d T v Q Hown Hd HT Hg HQ. unfold unit_op. simpl.
    split.
    - split; [exact Hd|]. rewrite Hown. intros _. eauto.
    - intros x _. destruct x; simpl; auto.
  Qed.

  Lemma ok_store_refs_body : forall p c, Ok (store_refs_body p c).
  Proof.
    intros p c. unfold store_refs_body.
    apply ok_mbind; [okd|]. intros _.
    apply ok_mbind; [okd|]. intros _.
    apply ok_mbind; [okd|]. intros c1. destruct c1; [okauto|].
    apply ok_mbind; [okd|]. intros c2. destruct c2; [okauto|].
    apply ok_mbind; [okd|]. intros c3. destruct c3.
    - intros T. eapply safe_mbind; [apply write_refs_tmp_safe| |intros; exact I].
      intros t T1 (Hown & Ht & _).
      eapply safe_mbind with (Q1 := fun _ _ => True); [|intros _ T2 _|intros; exact I].
      + eapply safe_rename_own; eauto; simpl; eauto.
      + assert (Hrest : Ok (m <- is_in_refs p (ACidRef c) ;;
                            (if m then ret tt else update_refs_add (ACidRef c) p) ;;; verify_refs p c))
          by okauto.
        apply Hrest.
    - intros T. eapply safe_mbind; [apply write_refs_tmp_safe| |intros; exact I].
      intros t1 T1 (Hown1 & Ht1 & _).
      eapply safe_mbind; [apply write_refs_tmp_safe| |intros; exact I].
      intros t2 T2 (Hown2 & Ht2 & Hkeep). apply Hkeep in Ht1.
      eapply safe_mbind with (Q1 := fun _ T' => T' = tdel T2 t1); [|intros _ T3 ->|intros; exact I].
      + unfold unit_op. simpl. split.
        * split; [reflexivity|]. rewrite Hown1. intros _. exists (CCid c). split; [exact Ht1|].
          simpl. eauto.
        * intros x _. rewrite Hown1. destruct x; simpl; auto.
      + eapply safe_mbind with (Q1 := fun _ _ => True); [|intros _ T3 _|intros; exact I].
        * unfold unit_op. simpl. split.
          -- split; [reflexivity|]. rewrite Hown2. intros H. discriminate.
          -- intros x _. destruct x; simpl; auto.
        * apply (ok_verify_refs p c).
  Qed.
  Hint Resolve ok_store_refs_body : okdb.

  Lemma ok_tag_object : forall p c, Ok (tag_object p c).
  Proof.
    intros p c. unfold tag_object.
    apply okv_try_finally; [|okauto].
    apply ok_mbind; [okd|]. intros _.
    apply ok_mbind; [okd|]. intros _.
    apply ok_mbind; [okd|]. intros r.
    destruct r as [u|e]; [okauto|]. destruct e; okauto.
  Qed.
  Hint Resolve ok_tag_object : okdb.

  Lemma ok_verify_object : forall pg t sz ck, ownb i t = true -> Ok (verify_object pg t sz ck).
  Proof. intros pg t sz ck H. unfold verify_object. destruct sz, ck, pg; okauto. Qed.
  Hint Resolve ok_verify_object : okdb.

  (* a successful verification leaves the temp file alone *)
  Lemma verify_object_keep : forall pg t sz ck T, ownb i t = true ->
    Safe MV i (verify_object pg t sz ck) T
      (fun r T' => match r with Val _ => T' = T | Exn _ => True end).
  Proof.
    intros pg t sz ck T H. unfold verify_object, unit_op, mbind, ret, raise.
    destruct sz, ck, pg; simpl; auto;
      (split; [auto|]; intros x _; destruct x; simpl; auto).
  Qed.

  Lemma keep_probe : forall a T, Safe MV i (probe a) T (fun _ T' => T' = T).
  Proof. intros a T. unfold probe. simpl. split; [exact I|]. intros x _. destruct x; simpl; auto. Qed.
  Lemma keep_mkdirs : forall a T, Safe MV i (unit_op (MkDirs a)) T (fun _ T' => T' = T).
  Proof. intros a T. unfold unit_op. simpl. split; [exact I|]. intros x _. destruct x; simpl; auto. Qed.

  Lemma write_chunks_safe : forall k T t b n j,
    ownb i t = true -> T t = Some (CData b n j) ->
    Safe MV i (write_chunks t k) T
      (fun r T' => match r with Val _ => T' t = Some (CData b n (j + k)) | Exn _ => True end).
  Proof.
    induction k as [|k IH]; intros T t b n j Hown HT.
    - simpl. rewrite Nat.add_0_r. exact HT.
    - simpl. unfold mbind, unit_op. simpl. split; [split; eauto|].
      intros x ->. simpl. rewrite HT.
      replace (j + S k) with (S j + k) by lia.
      apply (IH (tupd T t (CData b n (S j))) t b n (S j)); auto. apply tupd_eq.
  Qed.

  Lemma ok_delete_object_file : forall c, Ok (delete_object_file c).
  Proof. intros. unfold delete_object_file. okauto. Qed.
  Hint Resolve ok_delete_object_file : okdb.

  Lemma ok_move_and_get_checksums : forall p b n sz ck, Ok (move_and_get_checksums p b n sz ck).
  Proof.
    intros p b n sz ck T. unfold move_and_get_checksums.
    eapply safe_mbind with
      (Q1 := fun r T' => match r with
                         | Val t => ownb i t = true /\ T' t = Some (CData b n 0)
                         | Exn _ => True end); [| |intros; exact I].
    { unfold mktmp. simpl. split; [exact I|]. intros x [k [-> Hk]]. simpl.
      split; [(simpl; apply Nat.eqb_refl)|apply tupd_eq]. }
    intros t T1 [Hown Ht].
    eapply safe_mbind with
      (Q1 := fun r T' => match r with
                         | Val (Val _) => T' t = Some (CData b n n)
                         | _ => True end); [| |intros; exact I].
    { unfold catch. eapply safe_bind; [apply (write_chunks_safe n T1 t b n 0 Hown Ht)|].
      intros [u|e] T' H; simpl; auto. }
    intros w T2 Hw. destruct w as [u|e].
    2:{ assert (H : Ok (swallow_op (Remove t) ;;; @raise cid EGeneric)) by okauto. apply H. }
    eapply safe_mbind with (Q1 := fun _ T' => T' = T2); [apply keep_probe| |intros; exact I].
    intros e T3 ->. destruct (negb e).
    - eapply safe_mbind with
        (Q1 := fun r T' => match r with Val _ => T' = T2 | Exn _ => True end);
        [apply verify_object_keep; exact Hown| |intros; exact I].
      intros _ T3 ->.
      eapply safe_mbind with (Q1 := fun _ T' => T' = T2); [apply keep_mkdirs| |intros; exact I].
      intros _ T3 ->.
      eapply safe_mbind with (Q1 := fun _ _ => True); [| |intros; exact I].
      + unfold catch. eapply safe_bind with (Q1 := fun _ _ => True); [|intros; exact I].
        eapply safe_rename_own; eauto. simpl. eauto.
      + intros r T3 _. destruct r as [u'|err]; [exact I|].
        assert (H : Ok (e2 <- probe (AObj b) ;;
                        if e2
                        then match p with
                             | Some p' =>
                                 d <- get_hex_digest p';;
                                 match d with
                                 | CData b' _ _ =>
                                     if b' =? b then raise err else delete_object_file b;;; raise err
                                 | _ => delete_object_file b;;; raise err
                                 end
                             | None => raise EValueError
                             end
                        else unit_op (Remove t);;; @raise cid err)) by okauto.
        apply H.
    - assert (H : Ok (r <- catch (verify_object match p with Some _ => true | None => false end t sz ck) ;;
                      match r with
                      | Val _ => unit_op (Remove t);;; ret b
                      | Exn ENonMatchingObjSize =>
                          (if match p with Some _ => true | None => false end
                           then ret tt else unit_op (Remove t));;; raise ENonMatchingObjSize
                      | Exn ENonMatchingChecksum =>
                          (if match p with Some _ => true | None => false end
                           then ret tt else unit_op (Remove t));;; raise ENonMatchingChecksum
                      | Exn other => unit_op (Remove t);;; raise other
                      end)).
      { apply ok_mbind; [okauto|]. intros [u'|e']; [okauto|]. destruct e'; okauto. }
      apply H.
  Qed.
  Hint Resolve ok_move_and_get_checksums : okdb.

  Lemma ok_open_source : forall s, Ok (open_source s).
  Proof. intros []; simpl; auto with okdb. Qed.
  Hint Resolve ok_open_source : okdb.

  Lemma ok_store_object : forall p s b n sz ck, Ok (store_object p s b n sz ck).
  Proof. intros p s b n sz ck. unfold store_object. destruct p; okauto. Qed.

  Lemma okv_probe_all : forall l, ntl l -> OkV (probe_all l) ntl.
  Proof.
    induction l as [|a l IH]; intros H; simpl.
    - apply okv_ret. apply ntl_nil.
    - apply ntl_inv in H. destruct H as [Ha Hl].
      apply ok_mbind; [okd|]. intros b.
      eapply okv_mbind; [apply IH; exact Hl|]. intros r Hr.
      apply okv_ret. destruct b; auto with okdb.
  Qed.

  Lemma okv_mark_docs : forall l, ntl l -> OkV (mark_docs l) ntl.
  Proof.
    induction l as [|a l IH]; intros H; simpl.
    - apply okv_ret. apply ntl_nil.
    - apply ntl_inv in H. destruct H as [Ha Hl].
      apply ok_mbind; [okd|]. intros _.
      eapply okv_mbind with (P := ntl).
      + apply okv_try_finally; [|okd].
        apply ok_mbind; [okd|]. intros b. destruct b.
        * eapply okv_mbind; [apply okv_catch; apply okv_rename_for_deletion; exact Ha|].
          intros [d|e] Hd.
          -- apply okv_ret. auto with okdb.
          -- destruct e; try apply okv_raise. apply okv_ret. apply ntl_nil.
        * apply okv_ret. apply ntl_nil.
      + intros d Hd. eapply okv_mbind; [apply IH; exact Hl|]. intros r Hr.
        apply okv_ret. auto with okdb.
  Qed.

  Lemma ok_delete_metadata : forall p f, Ok (delete_metadata p f).
  Proof.
    intros p f. unfold delete_metadata. destruct f as [f'|].
    - okauto.
    - eapply okv_mbind; [apply okv_listdir|]. intros l Hl.
      eapply okv_mbind; [apply okv_probe_all; exact Hl|]. intros l' Hl'.
      eapply okv_mbind; [apply okv_mark_docs; exact Hl'|]. intros ds Hds.
      auto with okdb.
  Qed.
  Hint Resolve ok_delete_metadata : okdb.

  Lemma ok_delete_object : forall p, Ok (delete_object p).
  Proof.
    intros p. unfold delete_object.
    apply okv_try_finally; [|okd].
    apply ok_mbind; [okd|]. intros _.
    apply ok_mbind; [okd|]. intros _.
    apply ok_mbind; [okd|]. intros r.
    assert (Hd : Ok (d <- rename_for_deletion (APidRef p) ;; delete_metadata p None ;;; delete_marked [d])).
    { eapply okv_mbind; [apply (okv_rename_for_deletion (APidRef p)); reflexivity|].
      intros d Hd. apply ok_mbind; [okd|]. intros _. auto with okdb. }
    destruct r as [c|e].
    - apply ok_mbind; [okd|]. intros _.
      apply okv_try_finally; [|okd].
      eapply okv_mbind; [apply (okv_rename_for_deletion (APidRef p)); reflexivity|].
      intros d1 Hd1.
      apply ok_mbind; [okd|]. intros _.
      apply ok_mbind; [okd|]. intros n.
      eapply okv_mbind with (P := ntl).
      + destruct (Nat.eqb n 0).
        * eapply okv_mbind; [apply (okv_rename_for_deletion (ACidRef c)); reflexivity|].
          intros d2 Hd2.
          eapply okv_mbind; [apply (okv_rename_for_deletion (AObj c)); reflexivity|].
          intros d3 Hd3. apply okv_ret. auto with okdb.
        * apply okv_ret. auto with okdb.
      + intros l Hl. apply ok_mbind; [okd|]. intros _. auto with okdb.
    - destruct e; try apply okv_raise; try exact Hd.
      apply ok_mbind; [okd|]. intros c.
      eapply okv_mbind; [apply (okv_rename_for_deletion (APidRef p)); reflexivity|].
      intros d Hd'.
      eapply okv_mbind with (P := ntl).
      + apply okv_try_finally; [|okd].
        apply ok_mbind; [okd|]. intros _.
        apply ok_mbind; [okd|]. intros m.
        apply ok_mbind; [destruct m; okd|]. intros _.
        apply ok_mbind; [okd|]. intros n. destruct (Nat.eqb n 0).
        * eapply okv_mbind; [apply (okv_rename_for_deletion (ACidRef c)); reflexivity|].
          intros d2 Hd2. apply okv_ret. auto with okdb.
        * apply okv_ret. auto with okdb.
      + intros l Hl. apply ok_mbind; [okd|]. intros _. auto with okdb.
  Qed.

  Lemma ok_delete_object_unfixed : forall p, Ok (delete_object_unfixed p).
  Proof.
    intros p. unfold delete_object_unfixed.
    apply okv_try_finally; [|okd].
    apply ok_mbind; [okd|]. intros _.
    apply ok_mbind; [okd|]. intros r.
    destruct r as [c|e]; [apply okv_raise|]. destruct e; try apply okv_raise.
    eapply okv_mbind; [apply (okv_rename_for_deletion (APidRef p)); reflexivity|].
    intros d Hd.
    apply ok_mbind; [okd|]. intros c.
    apply ok_mbind.
    - apply okv_try_finally; [|okd].
      apply ok_mbind; [okd|]. intros _.
      apply ok_mbind; [okd|]. intros m. destruct m; auto with okdb.
    - intros _. apply ok_mbind; [okd|]. intros _. auto with okdb.
  Qed.

  Lemma ok_store_metadata : forall p f s v n, MV p f v n -> Ok (store_metadata p f s v n).
  Proof.
    intros p f s v n HMV T. unfold store_metadata.
    eapply safe_mbind; [apply (ok_acquire LMeta (IDoc (AMeta p f)))| |intros; exact I].
    intros _ T0 _. apply safe_try_finally; [|okauto].
    eapply safe_mbind; [apply (ok_open_source s)| |intros; exact I].
    intros _ T0' _.
    eapply safe_mbind with
      (Q1 := fun r T' => match r with
                         | Val t => ownb i t = true /\ T' t = Some (CData v n 0)
                         | Exn _ => True end); [| |intros; exact I].
    { unfold mktmp. simpl. split; [exact I|]. intros x [k [-> Hk]]. simpl.
      split; [(simpl; apply Nat.eqb_refl)|apply tupd_eq]. }
    intros t T1 [Hown Ht].
    eapply safe_mbind; [apply (write_chunks_safe n T1 t v n 0 Hown Ht)| |intros; exact I].
    intros u0 T2 Ht2. simpl in Ht2.
    eapply safe_mbind with (Q1 := fun _ _ => True); [| |intros; exact I].
    - unfold catch. eapply safe_bind with (Q1 := fun _ _ => True); [|intros; exact I].
      eapply safe_mbind with (Q1 := fun _ T' => T' = T2); [apply keep_mkdirs| |intros; exact I].
      intros _ T3 ->. eapply safe_rename_own; eauto. simpl. eauto.
    - intros r T3 _. destruct r as [u|e]; [exact I|].
      assert (H : Ok (unit_op (Remove t) ;;; @raise value e)) by okauto.
      apply H.
  Qed.

  Lemma ok_retrieve_metadata : forall p f, Ok (retrieve_metadata p f).
  Proof. intros. unfold retrieve_metadata. okauto. Qed.
  Lemma ok_delete_object_only : forall c, Ok (delete_object_only c).
  Proof. intros. unfold delete_object_only. okauto. Qed.
  Hint Resolve ok_delete_object_only : okdb.
  Lemma ok_delete_if_invalid : forall c sz pre ok, Ok (delete_if_invalid c sz pre ok).
  Proof.
    intros. unfold delete_if_invalid.
    apply ok_mbind; [apply ok_catch; destruct sz, pre, ok; okauto|].
    intros [u|e]; [okauto|]. destruct e; okauto.
  Qed.

  Lemma ok_lift_unit : forall m, Ok m -> Ok (lift_unit m).
  Proof. intros. unfold lift_unit. okauto. Qed.

  (* the calls whose metadata versions are registered in the ghost set *)
  Definition call_ok (c : call) : Prop :=
    match c with CStoreMeta p f _ v n => MV p f v n | _ => True end.

  Theorem api_ok : forall c, call_ok c -> Ok (api c).
  Proof.
    intros c Hc. destruct c; simpl.
    - apply ok_store_object.
    - apply ok_lift_unit. apply ok_tag_object.
    - apply ok_lift_unit. apply ok_delete_object.
    - apply ok_lift_unit. apply ok_delete_if_invalid.
    - apply ok_store_metadata. exact Hc.
    - apply ok_retrieve_metadata.
    - apply ok_lift_unit. apply ok_delete_metadata.
    - okauto.
    - okauto.
    - apply okv_raise.
    - apply ok_lift_unit. apply ok_delete_object_unfixed.
  Qed.

  Theorem api_safe : forall c T, call_ok c -> Safe MV i (api c) T (fun _ _ => True).
  Proof.
    intros c T Hc. eapply safe_weaken; [apply (api_ok c Hc)|]. auto.
  Qed.
End ApiSafe.

(* ================================================================================== *)
(* 5. The pool invariant, by induction on the schedule                                *)
(* ================================================================================== *)

Lemma resume_snoc : forall A (l : list ans) (p : prog A) o k a,
  resume p l = Some (Vis o k) -> resume p (l ++ [a]) = Some (k a).
Proof.
  induction l as [|x l IH]; intros p o k a H.
  - assert (Hp : p = Vis o k) by (destruct p; simpl in H; congruence).
    subst p. simpl. destruct (k a); reflexivity.
  - destruct p as [r|o' k'|]; simpl in *; try discriminate. eapply IH. exact H.
Qed.

Lemma nth_error_upd_nth_eq : forall A (l : list A) n x y,
  nth_error l n = Some y -> nth_error (upd_nth n x l) n = Some x.
Proof.
  induction l as [|z l IH]; intros [|n] x y H; simpl in *; try discriminate; auto.
  eapply IH. exact H.
Qed.

Lemma nth_error_upd_nth_neq : forall A (l : list A) n j x,
  n <> j -> nth_error (upd_nth n x l) j = nth_error l j.
Proof.
  induction l as [|z l IH]; intros [|n] [|j] x H; simpl in *; auto; try congruence.
Qed.

Section PoolInv.
  Variable MV : versions.
  Variable A : Type.
  Variable ps : list (prog A).

  (* thread i: its residual program obeys the discipline under a knowledge T that the world
     confirms *)
  Definition thread_inv (w : world) (i : nat) (p : prog A) (h : list ans) : Prop :=
    exists m T, resume p (rev h) = Some m /\ Safe MV i m T (fun _ _ => True) /\ agree i T w.

  Definition pool_inv (c : cfg) : Prop :=
    forall i p h, nth_error ps i = Some p -> nth_error (fst c) i = Some h ->
                  thread_inv (snd c) i p h.

  Lemma pool_inv_init : forall w,
    (forall i p, nth_error ps i = Some p -> Safe MV i p tempty (fun _ _ => True)) ->
    pool_inv (init_cfg ps w).
  Proof.
    intros w Hs i p h Hp Hh. unfold init_cfg in Hh. simpl in Hh.
    rewrite nth_error_map in Hh. rewrite Hp in Hh. simpl in Hh. inversion Hh; subst h.
    exists p, tempty. split; [destruct p; reflexivity|]. split; [apply Hs; exact Hp|].
    intros a v _ H. discriminate.
  Qed.

  Lemma pool_step : forall c i c',
    pool_inv c -> thread_step ps c i = Some c' ->
    pool_inv c' /\ (IntegrityG MV (snd c) -> IntegrityG MV (snd c')).
  Proof.
    intros [hs w] i c' Hinv Hstep. unfold thread_step in Hstep. simpl in Hstep.
    destruct (nth_error ps i) as [p|] eqn:Ep; [|discriminate].
    destruct (nth_error hs i) as [h|] eqn:Eh; [|discriminate].
    destruct (resume p (rev h)) as [[r|o k|]|] eqn:Er; try discriminate.
    destruct (exec_op i o w) as [[a w']|] eqn:Ex; [|discriminate].
    inversion Hstep; subst c'; clear Hstep.
    destruct (Hinv i p h Ep Eh) as [m [T [Hm [Hsafe Hag]]]]. simpl in Hm, Hag.
    rewrite Er in Hm. inversion Hm; subst m; clear Hm.
    simpl in Hsafe. destruct Hsafe as [Hpre Hk].
    destruct (step_sound MV i o T w a w' Hag Hpre Ex) as [Hans [Hag' [Hint Hframe]]].
    split; [|exact Hint].
    intros j q hj Hq Hj. simpl in Hj |- *.
    destruct (Nat.eq_dec i j) as [<-|Hne].
    - rewrite (nth_error_upd_nth_eq _ hs i (a :: h) h Eh) in Hj. inversion Hj; subst hj.
      rewrite Ep in Hq. inversion Hq; subst q.
      exists (k a), (opnext i o T a). split; [|split; [apply Hk; exact Hans|exact Hag']].
      simpl. apply resume_snoc with (o := o). exact Er.
    - rewrite nth_error_upd_nth_neq in Hj by exact Hne.
      destruct (Hinv j q hj Hq Hj) as [m [Tj [Hm [Hsafe Hagj]]]]. simpl in Hm, Hagj.
      exists m, Tj. split; [exact Hm|]. split; [exact Hsafe|].
      intros x v Hx Hv. rewrite Hframe.
      + apply Hagj; assumption.
      + eapply ownb_tmpb. exact Hx.
      + eapply ownb_other; eauto.
  Qed.

  Lemma pool_exec : forall sched c c',
    pool_inv c -> IntegrityG MV (snd c) -> exec ps sched c = Some c' ->
    pool_inv c' /\ IntegrityG MV (snd c').
  Proof.
    induction sched as [|i s IH]; intros c c' Hinv HI Hex; simpl in Hex.
    - inversion Hex; subst. auto.
    - destruct (thread_step ps c i) as [c1|] eqn:Es; [|discriminate].
      destruct (pool_step c i c1 Hinv Es) as [H1 H2].
      eapply IH; [exact H1|apply H2; exact HI|exact Hex].
  Qed.

  (* the operation a thread is about to issue obeys the discipline *)
  Lemma pool_next_op : forall c i p h o k,
    pool_inv c -> nth_error ps i = Some p -> nth_error (fst c) i = Some h ->
    resume p (rev h) = Some (Vis o k) -> exists T, oppre MV i o T.
  Proof.
    intros c i p h o k Hinv Hp Hh Hr.
    destruct (Hinv i p h Hp Hh) as [m [T [Hm [Hsafe _]]]].
    rewrite Hr in Hm. inversion Hm; subst m. simpl in Hsafe. exists T. apply Hsafe.
  Qed.
End PoolInv.

Lemma exec_app : forall A (ps : list (prog A)) s1 s2 c,
  exec ps (s1 ++ s2) c = match exec ps s1 c with Some c1 => exec ps s2 c1 | None => None end.
Proof.
  induction s1 as [|i s1 IH]; intros s2 c; simpl; auto.
  destruct (thread_step ps c i); auto.
Qed.

(* ================================================================================== *)
(* 6. The theorems of C09                                                             *)
(* ================================================================================== *)

(* the versions of document (p, f) that were supplied: those the start world holds, and the
   (v, n) arguments of the store_metadata calls of the pool *)
Definition supplied (calls : list call) (w0 : world) : versions :=
  fun p f b n =>
    lookup (AMeta p f) (fs w0) = Some (CData b n n) \/ exists s, In (CStoreMeta p f s b n) calls.

Lemma Integrity_supplied : forall calls w0, Integrity w0 -> IntegrityG (supplied calls w0) w0.
Proof.
  intros calls w0 H a v Hl. pose proof (H a v Hl) as Ha. destruct a; simpl in *; auto.
  destruct Ha as [b [n ->]]. exists b, n. split; [reflexivity|]. left. exact Hl.
Qed.

Lemma api_pool_safe : forall MV calls,
  (forall c, In c calls -> call_ok MV c) ->
  forall i p, nth_error (map api calls) i = Some p -> Safe MV i p tempty (fun _ _ => True).
Proof.
  intros MV calls Hok i p Hp. rewrite nth_error_map in Hp.
  destruct (nth_error calls i) as [c|] eqn:Ec; [|discriminate]. simpl in Hp. inversion Hp; subst p.
  apply api_safe. apply Hok. eapply nth_error_In. exact Ec.
Qed.

Lemma supplied_call_ok : forall calls w0 c, In c calls -> call_ok (supplied calls w0) c.
Proof. intros calls w0 c Hin. destruct c; simpl; auto. right. eauto. Qed.

(* MAIN THEOREM, with the ghost set of versions: in every configuration reachable by ANY schedule
   of ANY pool of API calls from a start world satisfying Integrity — hence at every instant
   and after a crash at any instant — every permanent file is complete, rightly named, and
   every metadata document is a version that was supplied. *)
Theorem integrity_invariant_versions : forall calls w0 sched c,
  Integrity w0 ->
  exec (map api calls) sched (init_cfg (map api calls) w0) = Some c ->
  IntegrityG (supplied calls w0) (snd c).
Proof.
  intros calls w0 sched c HI Hex.
  eapply pool_exec with (MV := supplied calls w0); [| |exact Hex].
  - apply pool_inv_init. apply api_pool_safe. intros c0 Hc0. apply supplied_call_ok. exact Hc0.
  - simpl. apply Integrity_supplied. exact HI.
Qed.

Theorem integrity_invariant : forall calls w0 sched c,
  Integrity w0 ->
  exec (map api calls) sched (init_cfg (map api calls) w0) = Some c ->
  Integrity (snd c).
Proof.
  intros calls w0 sched c HI Hex. apply Integrity_any.
  eapply IntegrityG_mono; [|eapply integrity_invariant_versions; eauto].
  intros; exact I.
Qed.

(* every prefix of a schedule: a crash point, or the view of a concurrent reader *)
Theorem integrity_every_prefix : forall calls w0 pre post c,
  Integrity w0 ->
  exec (map api calls) (pre ++ post) (init_cfg (map api calls) w0) = Some c ->
  exists c1, exec (map api calls) pre (init_cfg (map api calls) w0) = Some c1 /\
             IntegrityG (supplied calls w0) (snd c1) /\ Integrity (snd c1) /\
             Integrity (reopen (snd c1)).
Proof.
  intros calls w0 pre post c HI Hex. rewrite exec_app in Hex.
  destruct (exec (map api calls) pre (init_cfg (map api calls) w0)) as [c1|] eqn:E; [|discriminate].
  exists c1. split; [reflexivity|]. split; [|split].
  - eapply integrity_invariant_versions; eauto.
  - eapply integrity_invariant; eauto.
  - intros a v Hl. simpl in Hl. eapply (integrity_invariant calls w0 pre c1 HI E). exact Hl.
Qed.

(* ---------- start worlds: every world produced by a sequential history ---------- *)

Lemma run_as_integrity : forall MV i A (m : prog A) T w w' r,
  Safe MV i m T (fun _ _ => True) -> agree i T w -> IntegrityG MV w ->
  run_as i w m = Some (w', r) -> IntegrityG MV w'.
Proof.
  induction m as [a|o k IH|]; intros T w w' r Hs Hag HI Hrun; simpl in Hrun.
  - inversion Hrun; subst. exact HI.
  - destruct (exec_op i o w) as [[x w1]|] eqn:Ex; [|discriminate].
    simpl in Hs. destruct Hs as [Hpre Hk].
    destruct (step_sound MV i o T w x w1 Hag Hpre Ex) as [Hans [Hag' [Hint _]]].
    eapply IH; [apply Hk; exact Hans|exact Hag'|apply Hint; exact HI|exact Hrun].
  - discriminate.
Qed.

Lemma run_seq_integrity : forall c w w' r,
  Integrity w -> run_seq w (api c) = Some (w', r) -> Integrity w'.
Proof.
  intros c w w' r HI Hrun. rewrite <- run_as_0 in Hrun.
  apply Integrity_any. eapply run_as_integrity; [| |apply Integrity_any; exact HI|exact Hrun].
  - apply api_safe with (T := tempty). destruct c; simpl; exact I.
  - intros a v _ H. discriminate.
Qed.

Theorem run_history_integrity : forall h w w' rs,
  Integrity w -> run_history w h = Some (w', rs) -> Integrity w'.
Proof.
  induction h as [|c h IH]; intros w w' rs HI Hrun; simpl in Hrun.
  - inversion Hrun; subst. exact HI.
  - destruct (run_seq w (api c)) as [[w1 r]|] eqn:E; [|discriminate].
    destruct (run_history w1 h) as [[w2 rs']|] eqn:E2; [|discriminate].
    inversion Hrun; subst. eapply IH; [|exact E2]. eapply run_seq_integrity; eauto.
Qed.

(* every world produced by a sequential history from the empty store is an admissible start *)
Corollary start_world_ok : forall h w rs,
  run_history empty_world h = Some (w, rs) -> Integrity w.
Proof. intros h w rs H. eapply run_history_integrity; [apply Integrity_empty|exact H]. Qed.

(* ---------- publication and removal are each ONE operation ---------- *)

(* a pure fact about the file system: the content of an address changes only by a rename onto
   it, a rename away from it, a removal of it, or an operation writing it where it stands *)
Theorem change_needs_rename_or_remove : forall t o w x w' a,
  exec_op t o w = Some (x, w') ->
  lookup a (fs w) <> lookup a (fs w') ->
  (exists s, o = Rename s a) \/ (exists d, o = Rename a d) \/ o = Remove a \/
  inplace_target o = Some a \/ (exists ar init, o = MkTmp ar init /\ tmpb a = true).
Proof.
  intros t o [m L] x w' a Hex Hne.
  destruct o; simpl in Hex;
    try (inversion Hex; subst; simpl in Hne; congruence).
  - destruct (lookup a0 m) as [[]|]; inversion Hex; subst; simpl in Hne; congruence.
  - destruct (lookup a0 m); inversion Hex; subst; simpl in Hne; congruence.
  - inversion Hex; subst; clear Hex. simpl in Hne. rewrite lookup_update in Hne.
    destruct (addr_eqb a (fresh_tmp ar t m)) eqn:E; [|congruence].
    apply addr_eqb_true in E. subst a. right. right. right. right.
    exists ar, init. split; [reflexivity|].
    destruct (fresh_tmp_shape ar t m) as [n ->]. reflexivity.
  - destruct (lookup t0 m) as [[]|]; inversion Hex; subst; simpl in Hne; try congruence.
    rewrite lookup_update in Hne.
    destruct (addr_eqb a t0) eqn:E; [|congruence].
    apply addr_eqb_true in E. subst. simpl. auto.
  - inversion Hex; subst; clear Hex. simpl in Hne. rewrite lookup_update in Hne.
    destruct (addr_eqb a t0) eqn:E; [|congruence].
    apply addr_eqb_true in E. subst. simpl. auto.
  - destruct (lookup src m) eqn:El; inversion Hex; subst; clear Hex; simpl in Hne; [|congruence].
    rewrite lookup_update in Hne.
    destruct (addr_eqb a dst) eqn:E; [apply addr_eqb_true in E; subst; eauto|].
    rewrite lookup_delete in Hne.
    destruct (addr_eqb a src) eqn:E2; [apply addr_eqb_true in E2; subst; eauto|congruence].
  - destruct (lookup a0 m) eqn:El; inversion Hex; subst; clear Hex; simpl in Hne; [|congruence].
    rewrite lookup_delete in Hne.
    destruct (addr_eqb a a0) eqn:E; [apply addr_eqb_true in E; subst; auto|congruence].
  - destruct (lookup a0 m) eqn:El; inversion Hex; subst; clear Hex; simpl in Hne; [congruence|].
    rewrite lookup_update in Hne.
    destruct (addr_eqb a a0) eqn:E; [apply addr_eqb_true in E; subst; simpl; auto|congruence].
  - destruct (lookup a0 m) as [[]|] eqn:El; inversion Hex; subst; clear Hex; simpl in Hne;
      try congruence; rewrite lookup_update in Hne;
      (destruct (addr_eqb a a0) eqn:E; [apply addr_eqb_true in E; subst; simpl; auto|congruence]).
  - destruct (lookup a0 m); inversion Hex; subst; simpl in Hne; congruence.
  - destruct (lookup a0 m) as [[]|] eqn:El; inversion Hex; subst; clear Hex; simpl in Hne;
      try congruence; rewrite lookup_update in Hne;
      (destruct (addr_eqb a a0) eqn:E; [apply addr_eqb_true in E; subst; simpl; auto|congruence]).
  - destruct (lookup a0 m) as [[]|] eqn:El; inversion Hex; subst; clear Hex; simpl in Hne;
      try congruence; rewrite lookup_update in Hne;
      (destruct (addr_eqb a a0) eqn:E; [apply addr_eqb_true in E; subst; simpl; auto|congruence]).
  - destruct (memb lock_eqb (cls, i) L); inversion Hex; subst; simpl in Hne; congruence.
  - destruct (memb lock_eqb (cls, i) L); inversion Hex; subst; simpl in Hne; congruence.
Qed.

(* the discipline forbids in-place writing of a permanent address *)
Lemma oppre_inplace : forall MV i o T a,
  oppre MV i o T -> inplace_target o = Some a -> permb a = false.
Proof.
  intros MV i o T a Hpre Hin. destruct o; simpl in Hin; try discriminate;
    inversion Hin; subst; simpl in Hpre.
  - destruct Hpre as [H _]. apply tmpb_permb. eapply ownb_tmpb. exact H.
  - apply tmpb_permb. eapply ownb_tmpb. exact Hpre.
  - destruct Hpre as [c ->]. reflexivity.
  - destruct Hpre as [c ->]. reflexivity.
  - destruct Hpre as [c ->]. reflexivity.
  - destruct Hpre as [c ->]. reflexivity.
Qed.

(* the thread part of the invariant needs no hypothesis on the start world *)
Lemma api_pool_inv : forall calls w0 sched c,
  exec (map api calls) sched (init_cfg (map api calls) w0) = Some c ->
  @pool_inv (supplied calls w0) _ (map api calls) c.
Proof.
  intros calls w0 sched c Hex.
  assert (Hgen : forall s c0 c1, @pool_inv (supplied calls w0) _ (map api calls) c0 ->
            exec (map api calls) s c0 = Some c1 ->
            @pool_inv (supplied calls w0) _ (map api calls) c1).
  { induction s as [|j s IH]; intros c0 c1 H0 He; simpl in He.
    - inversion He; subst. exact H0.
    - destruct (thread_step (map api calls) c0 j) as [c2|] eqn:Es; [|discriminate].
      eapply IH; [|exact He]. eapply pool_step; eauto. }
  eapply Hgen; [|exact Hex].
  apply pool_inv_init. apply api_pool_safe. intros c0 Hc0. apply supplied_call_ok. exact Hc0.
Qed.

(* in every reachable configuration, the operation any API thread is about to issue never writes a
   permanent address where it stands *)
Theorem api_never_writes_permanent_in_place : forall calls w0 sched c,
  exec (map api calls) sched (init_cfg (map api calls) w0) = Some c ->
  forall i p h o k a,
    nth_error (map api calls) i = Some p -> nth_error (fst c) i = Some h ->
    resume p (rev h) = Some (Vis o k) ->
    inplace_target o = Some a -> permb a = false.
Proof.
  intros calls w0 sched c Hex i p h o k a Hp Hh Hr Hin.
  pose proof (api_pool_inv calls w0 sched c Hex) as Hinv.
  destruct (@pool_next_op _ _ _ _ _ _ _ _ _ Hinv Hp Hh Hr) as [T Hpre].
  eapply oppre_inplace; eauto.
Qed.

(* in every reachable configuration, a rename onto a permanent address that an API thread is about
   to issue has as its source a staging file that this very thread created (write to a temp
   file, then rename into place) *)
Theorem api_publishes_from_own_temp : forall calls w0 sched c,
  exec (map api calls) sched (init_cfg (map api calls) w0) = Some c ->
  forall i p h s d k,
    nth_error (map api calls) i = Some p -> nth_error (fst c) i = Some h ->
    resume p (rev h) = Some (Vis (Rename s d) k) ->
    permb d = true -> exists ar n, s = ATmp ar i n.
Proof.
  intros calls w0 sched c Hex i p h s d k Hp Hh Hr Hperm.
  pose proof (api_pool_inv calls w0 sched c Hex) as Hinv.
  destruct (@pool_next_op _ _ _ _ _ _ _ _ _ Hinv Hp Hh Hr) as [T Hpre].
  simpl in Hpre. destruct Hpre as [_ Hpre].
  destruct (ownb i s) eqn:Eo.
  - destruct s; simpl in Eo; try discriminate. apply Nat.eqb_eq in Eo. subst. eauto.
  - destruct Hpre as [_ Hp']. congruence.
Qed.

(* SINGLE-STEP PUBLICATION: whenever a step of an API thread in a reachable configuration changes
   what a permanent address holds (content appears, is replaced, or disappears), that step is
   one rename onto the address, one rename away from it, or one removal of it. *)
Theorem single_step_publication : forall calls w0 sched c i c' a,
  exec (map api calls) sched (init_cfg (map api calls) w0) = Some c ->
  thread_step (map api calls) c i = Some c' ->
  permb a = true ->
  lookup a (fs (snd c)) <> lookup a (fs (snd c')) ->
  exists p h o k,
    nth_error (map api calls) i = Some p /\ nth_error (fst c) i = Some h /\
    resume p (rev h) = Some (Vis o k) /\
    ((exists s, o = Rename s a) \/ (exists d, o = Rename a d) \/ o = Remove a).
Proof.
  intros calls w0 sched c i c' a Hex Hstep Hperm Hne.
  pose proof Hstep as Hstep'. unfold thread_step in Hstep.
  match type of Hstep with (match ?x with _ => _ end) = _ =>
    destruct x as [p|] eqn:Ep; [|discriminate Hstep] end.
  destruct (nth_error (fst c) i) as [h|] eqn:Eh; [|discriminate Hstep].
  destruct (resume p (rev h)) as [[r|o k|]|] eqn:Er; try discriminate Hstep.
  destruct (exec_op i o (snd c)) as [[x w']|] eqn:Ex; [|discriminate Hstep].
  inversion Hstep; subst c'; clear Hstep. simpl in Hne.
  exists p, h, o, k. repeat split; auto.
  destruct (change_needs_rename_or_remove i o (snd c) x w' a Ex Hne)
    as [H|[H|[H|[H|H]]]]; auto.
  - exfalso.
    pose proof (api_never_writes_permanent_in_place calls w0 sched c Hex i p h o k a Ep Eh Er H).
    congruence.
  - exfalso. destruct H as [ar [init [_ Ht]]]. apply tmpb_permb in Ht. congruence.
Qed.
