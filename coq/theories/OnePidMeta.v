(* OnePidMeta.v — C12 on ONE pid and SEVERAL metadata documents, with the whole-pid
   delete_metadata(pid) in the pool (beyond OneDocDel.v, which has one document and only the
   single-format delete).  PARTIAL results; the general theorem (any number of stores, readers,
   single-format deletes AND whole-pid deletes on several documents) is NOT proved here.

   delete_metadata(pid) = CDelMeta p None: list the metadata directory of p, probe every entry, then
   for EACH entry: take that entry's lock, re-test it, rename it to its deletion marker, release;
   finally remove the markers.  It is not atomic across documents and holds no lock across them.

   §1  [one_pid_metadata_safe_partial]: pools of any number of store_metadata / retrieve_metadata /
       delete_metadata(pid, format) / delete_metadata(pid) calls on one pid, any formats: under every
       schedule every call returns and no lock is left (an instance of Bracket.no_deadlock_fault_free).
       [metadata_never_partial_any_pool]: for ANY pool of API calls, any schedule, every reached
       configuration: every metadata document present is a COMPLETE supplied version (C09's
       Integrity.integrity_invariant_versions) and every retrieve_metadata that has returned has
       returned a not-found error or the complete content of such a version
       ([readers_never_partial_any_pool], new: the reader clause of C12 for every pool, whole-pid
       deletes and delete_object included).
   §2  [one_pid_delete_readers_linearizable_partial]: ONE delete of the pid (delete_metadata(pid),
       delete_metadata(pid, format) or delete_object(pid)) against ANY NUMBER of
       retrieve_metadata calls on ANY documents of that pid (and rejected calls), any start world
       without held locks, every schedule: the final WORLD is the one of the delete run alone, and
       outcomes + world are those of the sequential order

            readers that returned a document, or whose document was absent at the start
            ; the delete ;
            readers that found their document gone

       (a reader's FileNotFoundError read as the not-found ValueError, LinNF.nf_norm_one, as in
       OneDocDel.v).  The delete's linearization point is NOT one of its operations: a reader of
       document B that still sees B after a reader of document A has seen A gone is placed BEFORE
       the delete and the other AFTER it — legitimate because the two readers touch different
       documents and the statement asks for SOME sequential order.
       The proof uses only that the delete is "delete-only" ([DelOnly]: its operations are ListDir,
       Probe, lock operations, Remove, and Rename onto a deletion marker), hence every document is
       at every moment what it was at the start, or absent — and absent stays absent.
   §3  bounded: OnePidQuads.lin_nf_quads12 — 308 quadruples (4 threads, 2 documents, at least one
       whole-pid delete) are linearizable under every schedule (kernel-evaluated explorer). *)
From HS Require Import Base PyVal FS Ops Sched Spec SeqLemmas Bracket Lin Indep IndepMeta OneDoc
  OneDocReaders OneDocDel.
From HS Require LinNF Integrity.

(* ====================================================================================== *)
(* §1  the calls; every call returns, no lock is left                                      *)
(* ====================================================================================== *)

(* store_metadata / retrieve_metadata / delete_metadata(pid, format) / delete_metadata(pid) on ONE
   pid, any formats; calls rejected by the argument checks may be among them *)
Definition one_pid_call (p : pid) (c : call) : Prop :=
  match c with
  | CStoreMeta p' _ _ _ _ => p' = p
  | CRetrMeta p' _ => p' = p
  | CDelMeta p' _ => p' = p
  | CRejected _ => True
  | _ => False
  end.

Theorem one_pid_metadata_safe_partial :
  forall (p : pid) (calls : list call) (w0 : world) (sched : list nat) (c : cfg),
    locks w0 = [] -> refs_typed (fs w0) ->
    (forall ci, In ci calls -> one_pid_call p ci) ->
    exec (map api calls) sched (init_cfg (map api calls) w0) = Some c ->
    stuck (map api calls) c ->
    finished (map api calls) c = true /\ locks (snd c) = [].
Proof.
  intros p calls w0 sched c Hl Hrt _ He Hst.
  edestruct no_deadlock_fault_free as (H1 & H2 & _); [exact Hl | exact Hrt | exact He | exact Hst |]. auto.
Qed.

(* ---------- a reader never sees a partial document, in ANY pool ---------- *)

(* what a retrieve_metadata p f call may return: a not-found error, or the COMPLETE content of a
   supplied version of the document (the start document, or the (v, n) of a store_metadata p f of
   the pool) *)
Definition reader_good (calls : list call) (w0 : world) (p : pid) (f : fmt) (r : outcome value) : Prop :=
  r = Exn EValueError \/ r = Exn EFileNotFound \/
  exists b n, r = Val (VBytes (CData b n n)) /\ Integrity.supplied calls w0 p f b n.

Lemma nfn_reader_good : forall calls w0 p f w r,
  Integrity.IntegrityG (Integrity.supplied calls w0) w ->
  nfn r = rd_result (doc p f w) -> reader_good calls w0 p f r.
Proof.
  intros calls w0 p f w r HI H. unfold reader_good, doc in *.
  destruct (lookup (AMeta p f) (fs w)) as [d0|] eqn:E; simpl in H.
  - right. right. destruct (HI _ _ E) as (b & n & -> & Hs). exists b, n. split; [|exact Hs].
    destruct r as [v|e]; simpl in H; [exact H | destruct e; discriminate H].
  - destruct r as [v|e]; simpl in H; [discriminate H|]. destruct e; try discriminate H; auto.
Qed.

Section AnyPool.
  Variable calls : list call.
  Variable w0 : world.
  Notation ps := (map api calls).
  Hypothesis HI0 : Integrity.Integrity w0.

  Definition QInv (c : cfg) : Prop :=
    forall j p f, nth_error calls j = Some (CRetrMeta p f) ->
      exists h, nth_error (fst c) j = Some h /\
        (RState h None \/
         exists r, resume (reader_prog p f) (rev h) = Some (Ret r) /\ reader_good calls w0 p f r).

  Lemma QInv_reached : forall sched c, exec ps sched (init_cfg ps w0) = Some c -> QInv c.
  Proof.
    induction sched as [|i s IH] using rev_ind; intros c He.
    - simpl in He. inversion He; subst c. intros j p f Hj. exists []. split; [|left; left; reflexivity].
      unfold init_cfg. cbn [fst]. rewrite nth_error_map, nth_error_map, Hj. reflexivity.
    - rewrite Integrity.exec_app in He.
      destruct (exec ps s (init_cfg ps w0)) as [c1|] eqn:E1; [|discriminate He].
      simpl in He. destruct (thread_step ps c1 i) as [c2|] eqn:Est; [|discriminate He].
      inversion He; subst c2. clear He.
      pose proof (IH c1 eq_refl) as HQ.
      pose proof (Integrity.integrity_invariant_versions calls w0 s c1 HI0 E1) as HG.
      pose proof (@thread_step_lt _ _ _ _ _ Est) as Hi.
      apply thread_step_inv in Est. destruct Est as (hist & o & k & x & w' & Hh & Hr & Hex & ->).
      intros j p f Hj. destruct (HQ j p f Hj) as (h & Hhj & Hcase).
      destruct (Nat.eq_dec j i) as [->|Hne].
      + rewrite Hh in Hhj. inversion Hhj; subst h.
        unfold residual in Hr. rewrite Hh, nth_error_map, Hj in Hr. cbn [option_map api] in Hr.
        change (retrieve_metadata p f) with (reader_prog p f) in Hr.
        exists (x :: hist). split.
        { cbn [fst]. apply nth_error_upd_nth_eq. apply nth_error_Some. rewrite Hh. discriminate. }
        destruct Hcase as [HS|(r & Hres & _)]; [|rewrite Hres in Hr; discriminate Hr].
        destruct (reader_step p f _ _ _ _ _ _ _ HS Hr Hex) as (_ & _ & [[_ HS']|(r & Hkx & Hnf)]).
        * left. exact HS'.
        * right. exists r. split; [rewrite (resume_step _ _ _ _ x Hr), Hkx; reflexivity|].
          eapply nfn_reader_good; eauto.
      + exists h. split; [cbn [fst]; rewrite nth_error_upd_nth_neq by exact Hne; exact Hhj | exact Hcase].
  Qed.

  Theorem readers_never_partial_any_pool : forall sched c,
    exec ps sched (init_cfg ps w0) = Some c ->
    forall j p f r, nth_error calls j = Some (CRetrMeta p f) ->
      thread_result ps c j = Some r -> reader_good calls w0 p f r.
  Proof.
    intros sched c He j p f r Hj Hr.
    destruct (QInv_reached sched c He j p f Hj) as (h & Hh & Hcase).
    unfold thread_result in Hr. rewrite nth_error_map, Hj in Hr. cbn [option_map api] in Hr.
    rewrite Hh in Hr. change (retrieve_metadata p f) with (reader_prog p f) in Hr.
    destruct Hcase as [HS|(r' & Hres & Hg)].
    - destruct (RState_Vis p f _ _ HS) as (o & k & E). rewrite E in Hr. discriminate Hr.
    - rewrite Hres in Hr. inversion Hr; subst r'. exact Hg.
  Qed.
End AnyPool.

(* NEVER A PARTIAL DOCUMENT, any pool.  Any pool of API calls whatever (stores, readers, both
   metadata deletes, delete_object, object calls, any pids), any start world whose files are complete
   (Integrity), ANY schedule, EVERY reached configuration: (1) every metadata document present is
   the complete content of a supplied version - the start document, or the (v, n) of a
   store_metadata of that document in the pool (this is Integrity.integrity_invariant_versions);
   (2) every retrieve_metadata call that has returned has returned a not-found error (ValueError,
   or FileNotFoundError when a delete took the document from under it) or the complete content of
   such a version. *)
Theorem metadata_never_partial_any_pool :
  forall (calls : list call) (w0 : world) (sched : list nat) (c : cfg),
    Integrity.Integrity w0 ->
    exec (map api calls) sched (init_cfg (map api calls) w0) = Some c ->
    (forall p f d0, lookup (AMeta p f) (fs (snd c)) = Some d0 ->
       exists b n, d0 = CData b n n /\
         (lookup (AMeta p f) (fs w0) = Some (CData b n n) \/ exists s, In (CStoreMeta p f s b n) calls)) /\
    (forall j p f r, nth_error calls j = Some (CRetrMeta p f) ->
       thread_result (map api calls) c j = Some r ->
       r = Exn EValueError \/ r = Exn EFileNotFound \/
       exists b n, r = Val (VBytes (CData b n n)) /\
         (lookup (AMeta p f) (fs w0) = Some (CData b n n) \/ exists s, In (CStoreMeta p f s b n) calls)).
Proof.
  intros calls w0 sched c HI He. split.
  - intros p f d0 Hl.
    exact (Integrity.integrity_invariant_versions calls w0 sched c HI He (AMeta p f) d0 Hl).
  - intros j p f r Hj Hr. exact (readers_never_partial_any_pool calls w0 HI sched c He j p f r Hj Hr).
Qed.

(* ====================================================================================== *)
(* §2  one whole-pid delete against any number of readers                                  *)
(* ====================================================================================== *)

(* operations that can only take documents away: whatever they write is not a metadata document *)
Definition not_doc (a : addr) : Prop := match a with AMeta _ _ => False | _ => True end.

Definition del_op (o : op) : Prop :=
  match o with
  | WriteChunk a | OpenWr a _ | AppendOpen a | AppendWrite a _ | RewriteWrite a _ | Truncate a _ => not_doc a
  | Rename _ d => not_doc d
  | _ => True
  end.

Fixpoint DelOnly {A} (m : prog A) : Prop :=
  match m with
  | Vis o k => del_op o /\ forall a, DelOnly (k a)
  | _ => True
  end.

Lemma DelOnly_bind : forall A B (m : prog A) (g : A -> prog B),
  DelOnly m -> (forall a, DelOnly (g a)) -> DelOnly (bind m g).
Proof.
  induction m as [a|o k IH|]; simpl; intros g Hm Hg; auto.
  destruct Hm as [Ho Hk]. split; auto.
Qed.

Lemma DelOnly_mbind : forall A B (m : M A) (g : A -> M B),
  DelOnly m -> (forall a, DelOnly (g a)) -> DelOnly (mbind m g).
Proof. intros. unfold mbind. apply DelOnly_bind; auto. intros [a|e]; simpl; auto. Qed.

Lemma DelOnly_catch : forall A (m : M A), DelOnly m -> DelOnly (catch m).
Proof. intros. unfold catch. apply DelOnly_bind; simpl; auto. Qed.

Lemma DelOnly_try_finally : forall A (m : M A) fin,
  DelOnly m -> DelOnly fin -> DelOnly (try_finally m fin).
Proof.
  intros A m fin Hm Hf. unfold try_finally. apply DelOnly_bind; auto.
  intros r. apply DelOnly_bind; auto. intros [u|e]; simpl; auto.
Qed.

Lemma DelOnly_probe : forall a, DelOnly (probe a).
Proof. intros a. simpl. split; auto. intros x; destruct x; simpl; auto. Qed.

Lemma DelOnly_unit_op : forall o, del_op o -> DelOnly (unit_op o).
Proof. intros o H. simpl. split; auto. intros x; destruct x; simpl; auto. Qed.

Lemma DelOnly_swallow_op : forall o, del_op o -> DelOnly (swallow_op o).
Proof. intros o H. simpl. split; auto. intros x; destruct x; simpl; auto. Qed.

Lemma DelOnly_acquire : forall cls x, DelOnly (acquire cls x).
Proof. intros. simpl. split; auto. intros y; destruct y; simpl; auto. Qed.

Lemma DelOnly_release : forall cls x, DelOnly (release cls x).
Proof. intros. simpl. split; auto. intros y; destruct y; simpl; auto. Qed.

Lemma DelOnly_listdir : forall p, DelOnly (listdir p).
Proof. intros. simpl. split; auto. intros y; destruct y; simpl; auto. Qed.

Lemma DelOnly_probe_all : forall l, DelOnly (probe_all l).
Proof.
  induction l as [|a l IH]; [simpl; exact I|]. cbn [probe_all].
  apply DelOnly_mbind; [apply DelOnly_probe|]. intros b.
  apply DelOnly_mbind; [exact IH|]. intros r. simpl. exact I.
Qed.

Lemma DelOnly_rename_for_deletion : forall a, DelOnly (rename_for_deletion a).
Proof.
  intros a. unfold rename_for_deletion. apply DelOnly_mbind.
  - apply DelOnly_unit_op. simpl. exact I.
  - intros _. simpl. exact I.
Qed.

Lemma DelOnly_mark_docs : forall l, DelOnly (mark_docs l).
Proof.
  induction l as [|a l IH]; [simpl; exact I|]. cbn [mark_docs].
  apply DelOnly_mbind; [apply DelOnly_acquire|]. intros _.
  apply DelOnly_mbind.
  - apply DelOnly_try_finally; [|apply DelOnly_release].
    apply DelOnly_mbind; [apply DelOnly_probe|]. intros b. destruct b; [|simpl; exact I].
    apply DelOnly_mbind; [apply DelOnly_catch; apply DelOnly_rename_for_deletion|].
    intros r. destruct r as [d|e]; [simpl; exact I|]. destruct e; simpl; exact I.
  - intros d. apply DelOnly_mbind; [exact IH|]. intros r. simpl. exact I.
Qed.

Lemma DelOnly_delete_marked : forall l, DelOnly (delete_marked l).
Proof.
  induction l as [|a l IH]; [simpl; exact I|]. cbn [delete_marked].
  apply DelOnly_mbind; [apply DelOnly_swallow_op; simpl; exact I|]. intros _. exact IH.
Qed.

Lemma DelOnly_delete_metadata_none : forall p, DelOnly (delete_metadata p None).
Proof.
  intros p. unfold delete_metadata.
  apply DelOnly_mbind; [apply DelOnly_listdir|]. intros l.
  apply DelOnly_mbind; [apply DelOnly_probe_all|]. intros l'.
  apply DelOnly_mbind; [apply DelOnly_mark_docs|]. intros ds.
  apply DelOnly_delete_marked.
Qed.

Lemma DelOnly_delete_metadata_all : forall p, DelOnly (api (CDelMeta p None)).
Proof.
  intros p. cbn [api]. unfold lift_unit.
  apply DelOnly_mbind; [apply DelOnly_delete_metadata_none | intros _; simpl; exact I].
Qed.

(* delete_metadata(pid, format) *)
Lemma DelOnly_delete_metadata_one : forall p f, DelOnly (api (CDelMeta p (Some f))).
Proof.
  intros p f. cbn [api]. unfold lift_unit, delete_metadata.
  apply DelOnly_mbind; [|intros _; simpl; exact I].
  apply DelOnly_mbind; [apply DelOnly_acquire|]. intros _.
  apply DelOnly_try_finally; [|apply DelOnly_release].
  apply DelOnly_mbind; [apply DelOnly_probe|]. intros b. destruct b; [|simpl; exact I].
  apply DelOnly_unit_op. simpl. exact I.
Qed.

(* delete_object(pid): reference files, objects and their markers are no metadata documents *)
Ltac dgo := repeat (cbv beta; match goal with
  | |- DelOnly (Ret _) => exact I
  | |- DelOnly Bad => exact I
  | |- DelOnly (mbind _ _) => apply DelOnly_mbind; [|intros ?]
  | |- DelOnly (try_finally _ _) => apply DelOnly_try_finally
  | |- DelOnly (catch _) => apply DelOnly_catch
  | |- DelOnly (delete_metadata _ None) => apply DelOnly_delete_metadata_none
  | |- DelOnly (delete_marked _) => apply DelOnly_delete_marked
  | |- DelOnly (Vis _ _) => split; [simpl; exact I | intros ?]
  | |- DelOnly (match ?x with _ => _ end) => destruct x
  end).

Lemma DelOnly_delete_object : forall p, DelOnly (api (CDelete p)).
Proof.
  intros p. cbn [api]. unfold lift_unit, delete_object.
  unfold find_object, update_refs_remove, is_in_refs, read_lines, read_cid, rename_for_deletion,
    size_lines, rewrite_write, read, probe, unit_op, acquire, release, funlock, raise, ret.
  dgo.
Qed.

(* a delete-only operation leaves every document as it is, or removes it *)
Lemma del_op_mono : forall t o w x w', del_op o -> exec_op t o w = Some (x, w') ->
  forall p f, doc p f w' = doc p f w \/ doc p f w' = None.
Proof.
  intros t o w x w' Hd He p f. unfold doc.
  destruct o; simpl in Hd; simpl in He;
    repeat (match type of He with context [match ?u with _ => _ end] => destruct u end;
            cbv iota beta in He);
    inversion He; subst; simpl; auto;
    try (rewrite lookup_update_neq
           by (first [unfold fresh_tmp; discriminate | intros E; rewrite <- E in Hd; exact Hd]));
    auto;
    try (rewrite lookup_delete; destruct (addr_eqb (AMeta p f) _); auto).
Qed.

Section DeleteReaders.
  Variable p : pid.
  Variable calls : list call.
  Variable d : nat.                     (* the index of the delete *)
  Variable dc : call.                   (* the delete: any call whose program is delete-only *)
  Variable w0 : world.
  Notation ps := (map api calls).
  Notation D := (api dc).

  Hypothesis Hd : nth_error calls d = Some dc.
  Hypothesis Hdel : DelOnly (api dc).
  Hypothesis Hnr : forall p' f', dc <> CRetrMeta p' f'.
  Hypothesis Hoth : forall j cj, j <> d -> nth_error calls j = Some cj ->
    (exists f, cj = CRetrMeta p f) \/ (exists e, cj = CRejected e).

  (* a reader that has returned: its outcome is the one of reading the START document, or it is a
     not-found error and the document is absent now *)
  Definition rdone (f : fmt) (h : list ans) (w : world) : Prop :=
    exists r, resume (reader_prog p f) (rev h) = Some (Ret r) /\
      (nfn r = rd_result (doc p f w0) \/ (nfn r = Exn EValueError /\ doc p f w = None)).

  Definition RInv (c : cfg) : Prop :=
    length (fst c) = length ps /\
    (exists hist m, nth_error (fst c) d = Some hist /\ Solo d D w0 (rev hist) (snd c) m /\ DelOnly m) /\
    (forall f, doc p f (snd c) = doc p f w0 \/ doc p f (snd c) = None) /\
    (forall j cj, j <> d -> nth_error calls j = Some cj ->
       exists h, nth_error (fst c) j = Some h /\
         ((exists e, cj = CRejected e /\ h = []) \/
          (exists f, cj = CRetrMeta p f /\ (RState h (doc p f (snd c)) \/ rdone f h (snd c))))).

  Lemma RInv_init : RInv (init_cfg ps w0).
  Proof.
    unfold RInv, init_cfg. cbn [fst snd]. split; [apply map_length|]. split.
    { exists [], D. split; [|split; [apply solo_nil | exact Hdel]].
      rewrite nth_error_map, nth_error_map, Hd. reflexivity. }
    split; [intros f; left; reflexivity|].
    intros j cj Hj Hc. exists []. split.
    { rewrite nth_error_map, nth_error_map, Hc. reflexivity. }
    destruct (Hoth j cj Hj Hc) as [[f ->]|[e ->]].
    - right. exists f. split; [reflexivity|]. left. left. reflexivity.
    - left. exists e. auto.
  Qed.

  Lemma RInv_step : forall c j c', RInv c -> thread_step ps c j = Some c' -> RInv c'.
  Proof.
    intros c j c' (Hlen & (hd & md & Hhd & Hsolo & Hdo) & Hmono & Hrd) Hst.
    pose proof (@thread_step_lt _ _ _ _ _ Hst) as Hj.
    apply thread_step_inv in Hst. destruct Hst as (hist & o & k & x & w' & Hh & Hr & He & ->).
    assert (Hjh : j < length (fst c)) by (rewrite Hlen; exact Hj).
    unfold residual in Hr. rewrite Hh in Hr. rewrite nth_error_map in Hr.
    destruct (nth_error calls j) as [cj|] eqn:Hcj; cbn [option_map] in Hr; [|discriminate Hr].
    destruct (Nat.eq_dec j d) as [->|Hne].
    - (* a step of the delete *)
      rewrite Hhd in Hh. inversion Hh; subst hist.
      rewrite Hd in Hcj. inversion Hcj; subst cj.
      rewrite (Solo_resume Hsolo) in Hr. inversion Hr; subst md.
      destruct Hdo as [Hop Hk].
      pose proof (del_op_mono _ _ _ _ _ Hop He) as Hm1.
      unfold RInv. cbn [fst snd]. split; [rewrite upd_nth_length; exact Hlen|]. split.
      { exists (x :: hd), (k x). split; [apply nth_error_upd_nth_eq; exact Hjh|].
        split; [|apply Hk]. simpl. eapply Solo_snoc; eauto. }
      split.
      { intros f. destruct (Hm1 p f) as [E|E]; [rewrite E; apply Hmono | right; exact E]. }
      intros i ci Hi Hc. destruct (Hrd i ci Hi Hc) as (h & Hhi & Hcase).
      exists h. split; [rewrite nth_error_upd_nth_neq by exact Hi; exact Hhi|].
      destruct Hcase as [Hrej|(f & -> & [HS|(r & Hres & Hr2)])]; [left; exact Hrej| |].
      + right. exists f. split; [reflexivity|]. left. exact HS.
      + right. exists f. split; [reflexivity|]. right. exists r. split; [exact Hres|].
        destruct Hr2 as [Hr2|[Hr2 Hn]]; [left; exact Hr2|]. right. split; [exact Hr2|].
        destruct (Hm1 p f) as [E|E]; [rewrite E; exact Hn | exact E].
    - (* a step of a reader *)
      destruct (Hrd j cj Hne Hcj) as (h & Hhj & Hcase). rewrite Hh in Hhj. inversion Hhj; subst h.
      destruct Hcase as [(e & -> & ->)|(f & -> & [HS|(r & Hres & _)])].
      { simpl in Hr. discriminate. }
      2:{ cbn [api] in Hr. unfold reader_prog in Hres. rewrite Hres in Hr. discriminate. }
      cbn [api] in Hr. change (retrieve_metadata p f) with (reader_prog p f) in Hr.
      destruct (reader_step _ _ _ _ _ _ _ _ _ HS Hr He) as (-> & _ & Hk).
      unfold RInv. cbn [fst snd]. split; [rewrite upd_nth_length; exact Hlen|]. split.
      { exists hd, md. split; [rewrite nth_error_upd_nth_neq by (intros E; apply Hne; auto); exact Hhd|].
        split; assumption. }
      split; [exact Hmono|].
      intros i ci Hi Hc. destruct (Nat.eq_dec i j) as [->|Hij].
      + rewrite Hcj in Hc. inversion Hc; subst ci. exists (x :: hist).
        split; [apply nth_error_upd_nth_eq; exact Hjh|]. right. exists f. split; [reflexivity|].
        destruct Hk as [[_ HS']|(r & Hkx & Hnf)]; [left; exact HS'|]. right. exists r. split.
        * rewrite (resume_step _ _ _ _ x Hr). rewrite Hkx. reflexivity.
        * destruct (Hmono f) as [E|E]; [left; rewrite <- E; exact Hnf|].
          right. split; [rewrite Hnf, E; reflexivity | exact E].
      + destruct (Hrd i ci Hi Hc) as (h & Hhi & Hcase). exists h.
        split; [rewrite nth_error_upd_nth_neq by exact Hij; exact Hhi | exact Hcase].
  Qed.

  Lemma RInv_exec : forall sched c c', RInv c -> exec ps sched c = Some c' -> RInv c'.
  Proof.
    induction sched as [|j s IH]; intros c c' HI He; simpl in He.
    - inversion He; subst; exact HI.
    - destruct (thread_step ps c j) as [c1|] eqn:E; [|discriminate].
      eapply IH; [|exact He]. eapply RInv_step; eauto.
  Qed.

  (* ---------- the sequential order ---------- *)

  Lemma seq_run_app : forall l1 l2 w w1 rs1 w2 rs2,
    seq_run calls l1 w = Some (w1, rs1) -> seq_run calls l2 w1 = Some (w2, rs2) ->
    seq_run calls (l1 ++ l2) w = Some (w2, rs1 ++ rs2).
  Proof.
    induction l1 as [|i l1 IH]; simpl; intros l2 w w1 rs1 w2 rs2 H1 H2.
    - inversion H1; subst. exact H2.
    - destruct (run_as i w (api (callat calls i))) as [[w' r]|]; [|discriminate].
      destruct (seq_run calls l1 w') as [[w'' rs]|] eqn:E; [|discriminate].
      inversion H1; subst. rewrite (IH l2 w' w1 rs w2 rs2 E H2). reflexivity.
  Qed.

  (* calls that leave the world alone *)
  Lemma seq_run_same : forall (g : nat -> outcome value) l w,
    (forall j, In j l -> run_as j w (api (callat calls j)) = Some (w, g j)) ->
    seq_run calls l w = Some (w, map g l).
  Proof.
    induction l as [|i l IH]; intros w H; [reflexivity|]. simpl.
    rewrite (H i (or_introl eq_refl)). rewrite IH by (intros j Hj; apply H; right; exact Hj).
    reflexivity.
  Qed.

  (* the outcome of thread j as the theorem compares it *)
  Definition nres (c : cfg) (j : nat) : option (outcome value) :=
    LinNF.nf_norm_one (nth_error calls j) (thread_result ps c j).
  Definition gres (c : cfg) (j : nat) : outcome value :=
    match nres c j with Some r => r | None => Exn EGeneric end.

  (* placed BEFORE the delete: everybody except the readers that raised although their document
     was there at the start *)
  Definition beforeb (c : cfg) (j : nat) : bool :=
    match nth_error calls j, thread_result ps c j with
    | Some (CRetrMeta _ f), Some (Exn _) =>
        match lookup (AMeta p f) (fs w0) with None => true | Some _ => false end
    | _, _ => true
    end.

  Definition before (c : cfg) : list nat :=
    filter (fun j => negb (Nat.eqb j d) && beforeb c j) (seq 0 (length calls)).
  Definition after (c : cfg) : list nat :=
    filter (fun j => negb (Nat.eqb j d) && negb (beforeb c j)) (seq 0 (length calls)).
  Definition dr_order (c : cfg) : list nat := before c ++ [d] ++ after c.

  Lemma dr_order_NoDup : forall c, NoDup (dr_order c).
  Proof.
    intros c. unfold dr_order, before, after.
    apply NoDup_app_disj; [apply NoDup_filter; apply seq_NoDup | |].
    - simpl. constructor; [|apply NoDup_filter; apply seq_NoDup].
      intros H. apply filter_In in H. destruct H as [_ H]. rewrite Nat.eqb_refl in H. discriminate.
    - intros x Hx Hx'. apply filter_In in Hx. destruct Hx as [_ Hx].
      apply andb_true_iff in Hx. destruct Hx as [Hx1 Hx2].
      destruct Hx' as [<-|Hx'].
      + rewrite Nat.eqb_refl in Hx1. discriminate.
      + apply filter_In in Hx'. destruct Hx' as [_ Hx']. rewrite Hx2 in Hx'.
        rewrite andb_false_r in Hx'. discriminate.
  Qed.

  Lemma dr_order_all : forall c i, In i (dr_order c) <-> i < length calls.
  Proof.
    intros c i. unfold dr_order, before, after. split.
    - intros H. apply in_app_or in H. destruct H as [H|[<-|H]].
      + apply filter_In in H. destruct H as [H _]. apply in_seq in H. lia.
      + apply nth_error_Some. rewrite Hd. discriminate.
      + apply filter_In in H. destruct H as [H _]. apply in_seq in H. lia.
    - intros Hi. destruct (Nat.eq_dec i d) as [->|Hne].
      + apply in_or_app. right. left. reflexivity.
      + assert (Hs : In i (seq 0 (length calls))) by (apply in_seq; lia).
        assert (Hb : negb (Nat.eqb i d) = true) by (apply negb_true_iff; apply Nat.eqb_neq; exact Hne).
        destruct (beforeb c i) eqn:E.
        * apply in_or_app. left. apply filter_In. split; [exact Hs|]. rewrite Hb, E. reflexivity.
        * apply in_or_app. right. right. apply filter_In. split; [exact Hs|]. rewrite Hb, E. reflexivity.
  Qed.

  Theorem delete_readers_pool : forall sched c,
    locks w0 = [] -> refs_typed (fs w0) ->
    exec ps sched (init_cfg ps w0) = Some c -> stuck ps c ->
    finished ps c = true /\ locks (snd c) = [] /\
    (exists rD, run_as d w0 D = Some (snd c, rD)) /\
    exists rs,
      seq_run calls (dr_order c) w0 = Some (snd c, rs) /\
      map (nres c) (dr_order c) = map Some rs.
  Proof.
    intros sched c Hl Hrt He Hst.
    edestruct no_deadlock_fault_free as (Hf1 & Hf2 & _); [exact Hl | exact Hrt | exact He | exact Hst |].
    split; [exact Hf1|]. split; [exact Hf2|].
    destruct (RInv_exec _ _ _ RInv_init He) as (Hlen & (hd & md & Hhd & Hsolo & _) & Hmono & Hrd).
    assert (Hsome : forall i, i < length calls -> exists r, thread_result ps c i = Some r).
    { intros i Hi. unfold finished in Hf1. rewrite forallb_forall in Hf1.
      assert (Hin : In (thread_result ps c i) (results ps c)).
      { unfold results. apply in_map. apply in_seq. rewrite map_length. lia. }
      specialize (Hf1 _ Hin).
      destruct (thread_result ps c i) as [r|]; [eauto | discriminate]. }
    assert (Hdlt : d < length calls) by (apply nth_error_Some; rewrite Hd; discriminate).
    (* the delete has run alone *)
    destruct (Hsome d Hdlt) as [rD HrD].
    assert (HrunD : run_as d w0 D = Some (snd c, rD)).
    { unfold thread_result in HrD. rewrite nth_error_map, Hd in HrD. cbn [option_map] in HrD.
      rewrite Hhd, (Solo_resume Hsolo) in HrD. destruct md as [r| |]; try discriminate.
      inversion HrD; subst r. eapply Solo_run. exact Hsolo. }
    split; [exists rD; exact HrunD|].
    (* the other threads *)
    assert (Hother : forall j, j <> d -> j < length calls ->
              nres c j = Some (gres c j) /\
              run_as j (if beforeb c j then w0 else snd c) (api (callat calls j)) =
                Some ((if beforeb c j then w0 else snd c), gres c j)).
    { intros j Hne Hj. destruct (nth_error calls j) as [cj|] eqn:Hcj; [|apply nth_error_None in Hcj; lia].
      destruct (Hsome j Hj) as [r Hr].
      assert (Hn : nres c j = Some (gres c j)).
      { unfold gres, nres. rewrite Hcj, Hr. unfold LinNF.nf_norm_one.
        destruct cj; try reflexivity. destruct r as [v|e]; [reflexivity|]. destruct e; reflexivity. }
      split; [exact Hn|].
      unfold callat. rewrite (nth_error_nth _ _ _ Hcj).
      destruct (Hrd j cj Hne Hcj) as (h & Hh & Hcase).
      pose proof Hr as Hr'. unfold thread_result in Hr'. rewrite nth_error_map, Hcj in Hr'.
      cbn [option_map] in Hr'. rewrite Hh in Hr'.
      destruct Hcase as [(e & -> & ->)|(f & -> & [HS|(r1 & Hres & Hr2)])].
      - (* rejected *)
        simpl in Hr'. inversion Hr'; subst r.
        unfold gres, nres. rewrite Hcj, Hr. simpl. destruct (beforeb c j); reflexivity.
      - exfalso. destruct (RState_Vis p f _ _ HS) as (o & k & E). cbn [api] in Hr'.
        unfold reader_prog in E. rewrite E in Hr'. discriminate.
      - cbn [api] in Hr'. unfold reader_prog in Hres. rewrite Hres in Hr'. inversion Hr'; subst r1.
        assert (Hg : gres c j = nfn r).
        { unfold gres, nres. rewrite Hcj, Hr. unfold LinNF.nf_norm_one, nfn.
          destruct r as [v|e]; [reflexivity|]. destruct e; reflexivity. }
        cbn [api]. change (retrieve_metadata p f) with (reader_prog p f).
        rewrite reader_run, Hg.
        unfold beforeb. rewrite Hcj, Hr.
        destruct r as [v|e].
        + (* it returned a document: the start document *)
          destruct Hr2 as [Hr2|[Hr2 _]]; [|simpl in Hr2; discriminate].
          rewrite Hr2. reflexivity.
        + unfold doc in *. destruct (lookup (AMeta p f) (fs w0)) as [c0|] eqn:E0.
          * (* the document was there at the start: it is gone now *)
            destruct Hr2 as [Hr2|[Hr2 Hn2]].
            { simpl in Hr2. destruct e; discriminate. }
            rewrite Hn2, Hr2. reflexivity.
          * cbv iota. rewrite E0. destruct Hr2 as [Hr2|[Hr2 _]]; rewrite Hr2; reflexivity. }
    assert (Hpart : forall (b : bool) l,
              (forall j, In j l -> j <> d /\ j < length calls /\ beforeb c j = b) ->
              seq_run calls l (if b then w0 else snd c) = Some ((if b then w0 else snd c), map (gres c) l) /\
              map (nres c) l = map Some (map (gres c) l)).
    { intros b l Hl0. split.
      - apply seq_run_same. intros j Hj. destruct (Hl0 j Hj) as (H1 & H2 & H3).
        destruct (Hother j H1 H2) as [_ H4]. rewrite H3 in H4. exact H4.
      - rewrite map_map. apply map_ext_in. intros j Hj. destruct (Hl0 j Hj) as (H1 & H2 & _).
        destruct (Hother j H1 H2) as [H4 _]. exact H4. }
    destruct (Hpart true (before c)) as [Hb1 Hb2].
    { intros j Hj. unfold before in Hj. apply filter_In in Hj. destruct Hj as [Hj1 Hj2].
      apply in_seq in Hj1. apply andb_true_iff in Hj2. destruct Hj2 as [Hj2 Hj3].
      apply negb_true_iff in Hj2. apply Nat.eqb_neq in Hj2. repeat split; auto; lia. }
    destruct (Hpart false (after c)) as [Ha1 Ha2].
    { intros j Hj. unfold after in Hj. apply filter_In in Hj. destruct Hj as [Hj1 Hj2].
      apply in_seq in Hj1. apply andb_true_iff in Hj2. destruct Hj2 as [Hj2 Hj3].
      apply negb_true_iff in Hj2. apply Nat.eqb_neq in Hj2. apply negb_true_iff in Hj3.
      repeat split; auto; lia. }
    exists (map (gres c) (before c) ++ [rD] ++ map (gres c) (after c)). unfold dr_order. split.
    - eapply seq_run_app; [exact Hb1|]. eapply seq_run_app; [|exact Ha1].
      simpl. unfold callat. rewrite (nth_error_nth _ _ _ Hd), HrunD. reflexivity.
    - rewrite !map_app. f_equal; [exact Hb2|]. f_equal; [|exact Ha2].
      simpl. unfold nres. rewrite Hd, HrD. f_equal. apply LinNF.nf_norm_one_id.
      left. intros p' f' E. inversion E. eapply Hnr; eauto.
  Qed.
End DeleteReaders.

(* the deletes of a pid: delete_metadata(pid), delete_metadata(pid, format), delete_object(pid) *)
Definition delete_call (p : pid) (dc : call) : Prop :=
  dc = CDelMeta p None \/ (exists f, dc = CDelMeta p (Some f)) \/ dc = CDelete p.

Lemma delete_call_DelOnly : forall p dc, delete_call p dc -> DelOnly (api dc).
Proof.
  intros p dc [->|[[f ->]| ->]].
  - apply DelOnly_delete_metadata_all.
  - apply DelOnly_delete_metadata_one.
  - apply DelOnly_delete_object.
Qed.

(* THE PARTIAL THEOREM.  ONE delete of the pid (thread d) — delete_metadata(pid), which handles the
   documents one at a time, or delete_metadata(pid, format), or delete_object(pid) — and any number
   of retrieve_metadata calls on documents of that pid — any formats, repeated or not —, started in
   any world that holds no lock, under ANY schedule: a configuration in which no thread can move
   is one in which every call has returned and no lock is held; the final WORLD is the one of the
   delete run alone, and it and every outcome are those of running the calls one after the other
   in the order [dr_order]: first every reader that returned a document or whose document was
   absent at the start (and the rejected calls), then the delete, then the readers that found
   their document gone; a reader's FileNotFoundError is read as the not-found ValueError
   (LinNF.nf_norm_one), nothing else is relaxed. *)
Theorem one_pid_delete_readers_linearizable_partial :
  forall (p : pid) (calls : list call) (d : nat) (dc : call) (w0 : world) (sched : list nat) (c : cfg),
    locks w0 = [] -> refs_typed (fs w0) ->
    nth_error calls d = Some dc -> delete_call p dc ->
    (forall j cj, j <> d -> nth_error calls j = Some cj ->
       (exists f, cj = CRetrMeta p f) \/ (exists e, cj = CRejected e)) ->
    exec (map api calls) sched (init_cfg (map api calls) w0) = Some c ->
    stuck (map api calls) c ->
    finished (map api calls) c = true /\ locks (snd c) = [] /\
    exists (w' : world) (rs : list (outcome value)),
      let ord := dr_order p calls d w0 c in
      NoDup ord /\ (forall i, In i ord <-> i < length calls) /\
      seq_run calls ord w0 = Some (w', rs) /\
      snd c = w' /\
      (exists rD, run_as d w0 (api dc) = Some (w', rD)) /\
      map (fun i => LinNF.nf_norm_one (nth_error calls i) (thread_result (map api calls) c i)) ord =
        map Some rs.
Proof.
  intros p calls d dc w0 sched c Hl Hrt Hd Hdc Hoth He Hst.
  assert (Hnr : forall p' f', dc <> CRetrMeta p' f').
  { intros p' f' E. destruct Hdc as [->|[[f ->]| ->]]; discriminate E. }
  destruct (delete_readers_pool p calls d dc w0 Hd (delete_call_DelOnly p dc Hdc) Hnr Hoth sched c Hl Hrt He Hst)
    as (H1 & H2 & H5 & rs & H3 & H4).
  split; [exact H1|]. split; [exact H2|]. exists (snd c), rs. cbv zeta.
  split; [apply dr_order_NoDup|]. split; [eapply dr_order_all; exact Hd|].
  split; [exact H3|]. split; [reflexivity|]. split; [exact H5 | exact H4].
Qed.

(* non-vacuity, and the order is not "the delete at one of its operations": documents (1,0) and
   (1,1) both stored; the delete marks (1,0), a reader finds (1,0) gone, THEN another reader still
   reads (1,1), then the delete marks (1,1).  Order: the reader of (1,1), the delete, the reader
   of (1,0). *)
Definition dr_w0 : world :=
  match run_history empty_world [CStoreMeta 1 0 SrcPath 1 1; CStoreMeta 1 1 SrcPath 1 1] with
  | Some (w, _) => w
  | None => empty_world
  end.
Definition dr_calls : list call := [CDelMeta 1 None; CRetrMeta 1 0; CRetrMeta 1 1].
Definition dr_sched : list nat := [0;0;0;0;0;0;0; 1; 2;2;2; 0;0;0;0;0;0].

Example delete_readers_example :
  exists c, exec (map api dr_calls) dr_sched (init_cfg (map api dr_calls) dr_w0) = Some c /\
    forallb (fun i => match thread_step (map api dr_calls) c i with None => true | Some _ => false end)
            (seq 0 3) = true /\
    results (map api dr_calls) c =
      [Some (Val VUnit); Some (Exn EValueError); Some (Val (VBytes (CData 1 1 1)))] /\
    dr_order 1 dr_calls 0 dr_w0 c = [2; 0; 1] /\
    locks dr_w0 = [].
Proof. eexists. split; [vm_compute; reflexivity|]. vm_compute. auto. Qed.

Print Assumptions one_pid_metadata_safe_partial.
Print Assumptions metadata_never_partial_any_pool.
Print Assumptions one_pid_delete_readers_linearizable_partial.
Print Assumptions delete_readers_example.
