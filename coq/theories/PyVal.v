(* PyVal.v — the fragment of Python values that the argument checks, the configuration
   comparison and the command-line client look at (DESIGN.md §3.1). ASCII strings. *)
From Coq Require Import String Ascii ZArith List Bool.
Import ListNotations.
Open Scope string_scope.

Inductive pyval :=
| PNone
| PBool (b : bool)
| PInt (z : Z)
| PFloat                        (* any float *)
| PStr (s : string)
| PBytes                        (* a bytes object *)
| PPath (s : string)            (* pathlib.Path *)
| PStream (named : bool)        (* an io.BufferedIOBase instance; named = has a .name attribute (file-backed) *)
| PTextStream                   (* e.g. io.StringIO / a text-mode file: has .read but is not BufferedIOBase *)
| PObjMeta                      (* an ObjectMetadata instance *)
| POther.                       (* anything else (list, dict, ...) *)

(* Exception classes that can escape the public API (class only; messages are not modelled). *)
Inductive exn :=
| EValueError | ETypeError | EKeyError | ERuntimeError | EFileNotFound | EFileExists | EOSError
| EAttributeError | EAssertionError | EGeneric (* bare Exception *)
| EUnsupportedAlgorithm | ENonMatchingObjSize | ENonMatchingChecksum
| EHashStoreRefsAlreadyExists | EPidRefsAlreadyExists | EPidRefsDoesNotExist
| EOrphanPidRefsFileFound | ERefsFileExistsButCidObjMissing | EPidNotFoundInCidRefsFile
| EStoreObjectForPidAlreadyInProgress | EIdentifierNotLocked
| EPidRefsFileNotFound | ECidRefsFileNotFound | EPidRefsContentError | ECidRefsContentError.

Definition exn_eqb (a b : exn) : bool :=
  match a, b with
  | EValueError, EValueError | ETypeError, ETypeError | EKeyError, EKeyError
  | ERuntimeError, ERuntimeError | EFileNotFound, EFileNotFound | EFileExists, EFileExists
  | EOSError, EOSError | EAttributeError, EAttributeError | EAssertionError, EAssertionError
  | EGeneric, EGeneric | EUnsupportedAlgorithm, EUnsupportedAlgorithm
  | ENonMatchingObjSize, ENonMatchingObjSize | ENonMatchingChecksum, ENonMatchingChecksum
  | EHashStoreRefsAlreadyExists, EHashStoreRefsAlreadyExists
  | EPidRefsAlreadyExists, EPidRefsAlreadyExists | EPidRefsDoesNotExist, EPidRefsDoesNotExist
  | EOrphanPidRefsFileFound, EOrphanPidRefsFileFound
  | ERefsFileExistsButCidObjMissing, ERefsFileExistsButCidObjMissing
  | EPidNotFoundInCidRefsFile, EPidNotFoundInCidRefsFile
  | EStoreObjectForPidAlreadyInProgress, EStoreObjectForPidAlreadyInProgress
  | EIdentifierNotLocked, EIdentifierNotLocked
  | EPidRefsFileNotFound, EPidRefsFileNotFound | ECidRefsFileNotFound, ECidRefsFileNotFound
  | EPidRefsContentError, EPidRefsContentError | ECidRefsContentError, ECidRefsContentError => true
  | _, _ => false
  end.

Lemma exn_eqb_true : forall a b, exn_eqb a b = true -> a = b.
Proof. destruct a, b; simpl; intros H; try discriminate; reflexivity. Qed.
Lemma exn_eqb_refl : forall a, exn_eqb a a = true.
Proof. destruct a; reflexivity. Qed.

(* Python's str.isspace restricted to ASCII: \t \n \v \f \r, FS GS RS US, space. *)
Definition ascii_space (c : ascii) : bool :=
  let n := nat_of_ascii c in
  (Nat.leb 9 n && Nat.leb n 13) || (Nat.leb 28 n && Nat.leb n 32).

Fixpoint str_forallb (f : ascii -> bool) (s : string) : bool :=
  match s with EmptyString => true | String c s' => f c && str_forallb f s' end.

Fixpoint str_existsb (f : ascii -> bool) (s : string) : bool :=
  match s with EmptyString => false | String c s' => f c || str_existsb f s' end.

(* s.strip() == ""  <->  every character is whitespace (including the empty string) *)
Definition blank (s : string) : bool := str_forallb ascii_space s.

(* Python ==, on the fragment: values of different kinds are never equal, except that bool
   is an int subtype (True == 1).  This is what makes [use_multiprocessing == "True"]
   expressible (D5): a bool never equals a str. *)
Definition py_eq (a b : pyval) : bool :=
  match a, b with
  | PNone, PNone => true
  | PBool x, PBool y => Bool.eqb x y
  | PInt x, PInt y => Z.eqb x y
  | PBool x, PInt y | PInt y, PBool x => Z.eqb (if x then 1 else 0)%Z y
  | PStr x, PStr y => String.eqb x y
  | PPath x, PPath y => String.eqb x y
  | _, _ => false
  end.

(* Python truthiness on the fragment *)
Definition truthy (v : pyval) : bool :=
  match v with
  | PNone => false
  | PBool b => b
  | PInt z => negb (Z.eqb z 0)
  | PStr s => negb (String.eqb s "")
  | _ => true
  end.
