(* ========================================================================= *)
(*  Verdict.v -- the validation decision of FileHashStore                    *)
(*                                                                           *)
(*  Transcribes [_verify_object_information]                                 *)
(*  (/repo/src/hashstore/filehashstore.py, lines 1931-2014), called from     *)
(*  [delete_if_invalid_object] (line 626, pid=None, tmp_file_name=None) and  *)
(*  from [_move_and_get_checksums] (lines 1244, 1300).                       *)
(*                                                                           *)
(*  Coq 8.16.1, stdlib only, no axioms.   Compile: coqc -Q . HS Verdict.v    *)
(*                                                                           *)
(*  MODEL.                                                                   *)
(*  - [checksum_algorithm] is the already cleaned (canonical hashlib) name,  *)
(*    so the discarded call [self._clean_algorithm(checksum_algorithm)] on   *)
(*    the on-demand path cannot raise (Algo.clean_idempotent) and is omitted.*)
(*  - [D a] is the true digest, under canonical algorithm [a], of the        *)
(*    content in question.  On the on-demand path the code computes it       *)
(*    either from the tmp file ([tmp_file_name is not None and pid is not    *)
(*    None]; not reachable from the public API, because store_object always  *)
(*    adds the checksum algorithm to the pre-computed digests) or from the   *)
(*    stored object opened by its cid; both are the same content, and the    *)
(*    effect is recorded as [OpenObject].                                    *)
(*  - [fixed = false] is the code as it is today: the on-demand comparison   *)
(*    is [hex_digest_calculated != checksum], case-sensitive (defect D2).    *)
(*    [fixed = true] is the repair [!= checksum.lower()].  The pre-computed  *)
(*    path always lower-cases.                                               *)
(*  - The verdict is what is raised: Valid = returns, BadSize =              *)
(*    NonMatchingObjSize, BadChecksum = NonMatchingChecksum.  The effect is  *)
(*    the file-system action of the decision itself ([self._delete(entity,   *)
(*    tmp_file_name)] or opening the object); what callers do in their       *)
(*    except-handlers is not part of this function.                          *)
(* ========================================================================= *)

From Coq Require Import String Ascii ZArith List Bool Lia.
From HS Require Import PyVal Algo.
Import ListNotations.
Open Scope string_scope.

Inductive verdict := Valid | BadSize | BadChecksum.
Inductive effect := NoEffect | DeleteTmp | OpenObject.

(** [hex_digests[a]] / [a in hex_digests] on an association list. *)
Fixpoint lookup (a : string) (l : list (string * string)) : option string :=
  match l with
  | [] => None
  | (k, v) :: t => if String.eqb a k then Some v else lookup a t
  end.

(** [file_size_to_validate is not None and file_size_to_validate > 0
     and file_size_to_validate != tmp_file_size] *)
Definition size_mismatch (size_to_validate : option Z) (tmp_size : Z) : bool :=
  match size_to_validate with
  | Some z => (0 <? z)%Z && negb (z =? tmp_size)%Z
  | None => false
  end.

Section Verdict.
  Variable D : string -> string.

  Definition verify (fixed : bool) (pid_given : bool)
             (checksum : option string) (algo : option string)
             (hex_digests : list (string * string))
             (tmp_size : Z) (size_to_validate : option Z) : verdict * effect :=
    if size_mismatch size_to_validate tmp_size
    then (BadSize, if pid_given then DeleteTmp else NoEffect)
    else
      match algo, checksum with
      | Some a, Some c =>
          match lookup a hex_digests with
          | None =>                                     (* on demand *)
              if String.eqb (D a) (if fixed then lower c else c)
              then (Valid, OpenObject)
              else (BadChecksum, OpenObject)
          | Some d =>                                   (* pre-computed *)
              if String.eqb d (lower c)
              then (Valid, NoEffect)
              else (BadChecksum, if pid_given then DeleteTmp else NoEffect)
          end
      | _, _ => (Valid, NoEffect)
      end.

  (** The pre-computed digests are the true ones. *)
  Definition Htrue (hd : list (string * string)) : Prop :=
    forall a d, lookup a hd = Some d -> d = D a.

  (** hashlib's [hexdigest()] is lower-case. *)
  Definition Hlow : Prop := forall a, lower (D a) = D a.

  (* ----------------------------------------------------------------------- *)
  (** ** Helpers                                                             *)
  (* ----------------------------------------------------------------------- *)

  Lemma size_mismatch_false_iff :
    forall szv sz,
      size_mismatch szv sz = false <->
      szv = None \/ exists z, szv = Some z /\ ((z <= 0)%Z \/ z = sz).
  Proof.
    intros szv sz. unfold size_mismatch. destruct szv as [z|].
    - split.
      + intro H. right. exists z. split; [reflexivity |].
        destruct (0 <? z)%Z eqn:Ep; cbn [andb] in H.
        * destruct (z =? sz)%Z eqn:Ee; cbn [negb] in H; [| discriminate H].
          apply Z.eqb_eq in Ee. right. exact Ee.
        * apply Z.ltb_ge in Ep. left. exact Ep.
      + intros [H | [z' [Hz' H]]]; [discriminate H |].
        injection Hz' as <-. destruct H as [H | H].
        * destruct (0 <? z)%Z eqn:Ep; [| reflexivity]. apply Z.ltb_lt in Ep. lia.
        * subst sz. rewrite Z.eqb_refl. cbn [negb]. apply andb_false_r.
    - split; [intros _; left; reflexivity | intros _; reflexivity].
  Qed.

  (** Under the API guarantee (sizes passed [_check_integer], so are >= 1). *)
  Lemma size_mismatch_false_pos :
    forall szv sz,
      (forall z, szv = Some z -> (0 < z)%Z) ->
      (size_mismatch szv sz = false <-> szv = None \/ szv = Some sz).
  Proof.
    intros szv sz Hpos. rewrite size_mismatch_false_iff. split.
    - intros [H | [z [Hz [H | H]]]].
      + left. exact H.
      + specialize (Hpos z Hz). lia.
      + right. subst sz. exact Hz.
    - intros [H | H].
      + left. exact H.
      + right. exists sz. split; [exact H | right; reflexivity].
  Qed.

  (** The repaired function's verdict, written as a boolean specification
      that mentions neither [hex_digests] nor [pid_given]. *)
  Definition checksum_ok (ck algo : option string) : bool :=
    match algo, ck with
    | Some a, Some c => String.eqb (D a) (lower c)
    | _, _ => true
    end.

  Lemma verify_fixed_fst :
    forall pg ck algo hd sz szv,
      Htrue hd ->
      fst (verify true pg ck algo hd sz szv) =
      if size_mismatch szv sz then BadSize
      else if checksum_ok ck algo then Valid else BadChecksum.
  Proof.
    intros pg ck algo hd sz szv Ht. unfold verify, checksum_ok.
    destruct (size_mismatch szv sz) eqn:Es; [reflexivity |].
    destruct algo as [a|]; [| reflexivity].
    destruct ck as [c|]; [| reflexivity].
    destruct (lookup a hd) as [d|] eqn:El.
    - rewrite (Ht a d El). destruct (String.eqb (D a) (lower c)); reflexivity.
    - destruct (String.eqb (D a) (lower c)); reflexivity.
  Qed.

  Lemma checksum_ok_iff :
    forall ck algo,
      checksum_ok ck algo = true <->
      ck = None \/ algo = None \/
      exists c a, ck = Some c /\ algo = Some a /\ lower c = D a.
  Proof.
    intros ck algo. unfold checksum_ok. destruct algo as [a|]; destruct ck as [c|].
    - split.
      + intro H. apply String.eqb_eq in H. right. right. exists c, a.
        split; [reflexivity |]. split; [reflexivity |]. symmetry. exact H.
      + intros [H | [H | [c' [a' [Hc [Ha H]]]]]]; try discriminate H.
        injection Hc as <-. injection Ha as <-. apply String.eqb_eq. symmetry. exact H.
    - split; [intros _; left; reflexivity | intros _; reflexivity].
    - split; [intros _; right; left; reflexivity | intros _; reflexivity].
    - split; [intros _; left; reflexivity | intros _; reflexivity].
  Qed.

  (* ----------------------------------------------------------------------- *)
  (** ** The verdict of the repaired function                                *)
  (* ----------------------------------------------------------------------- *)

  (** The verdict is EXACTLY "size and checksum match": independent of the
      path taken (pre-computed / on demand), of the case of the supplied
      checksum, and of [pid_given]. *)
  Theorem verdict_iff :
    forall pid_given ck algo hd sz szv,
      Htrue hd ->
      (forall z, szv = Some z -> (0 < z)%Z) ->
      (fst (verify true pid_given ck algo hd sz szv) = Valid <->
       (szv = None \/ szv = Some sz) /\
       (ck = None \/ algo = None \/
        exists c a, ck = Some c /\ algo = Some a /\ lower c = D a)).
  Proof.
    intros pg ck algo hd sz szv Ht Hpos.
    rewrite (verify_fixed_fst pg ck algo hd sz szv Ht).
    rewrite <- (size_mismatch_false_pos szv sz Hpos), <- checksum_ok_iff.
    destruct (size_mismatch szv sz) eqn:Es.
    - split; [intro H; discriminate H | intros [H _]; discriminate H].
    - destruct (checksum_ok ck algo) eqn:Ec.
      + split; [intros _; split; reflexivity | intros _; reflexivity].
      + split; [intro H; discriminate H | intros [_ H]; discriminate H].
  Qed.

  (** Without the positivity side condition: a size <= 0 is "not checked"
      (it cannot come through the API, [_check_integer] refuses it). *)
  Theorem verdict_iff_general :
    forall pid_given ck algo hd sz szv,
      Htrue hd ->
      (fst (verify true pid_given ck algo hd sz szv) = Valid <->
       (szv = None \/ exists z, szv = Some z /\ ((z <= 0)%Z \/ z = sz)) /\
       (ck = None \/ algo = None \/
        exists c a, ck = Some c /\ algo = Some a /\ lower c = D a)).
  Proof.
    intros pg ck algo hd sz szv Ht.
    rewrite (verify_fixed_fst pg ck algo hd sz szv Ht).
    rewrite <- (size_mismatch_false_iff szv sz), <- checksum_ok_iff.
    destruct (size_mismatch szv sz) eqn:Es.
    - split; [intro H; discriminate H | intros [H _]; discriminate H].
    - destruct (checksum_ok ck algo) eqn:Ec.
      + split; [intros _; split; reflexivity | intros _; reflexivity].
      + split; [intro H; discriminate H | intros [_ H]; discriminate H].
  Qed.

  Theorem verdict_path_independent :
    forall pg ck algo hd1 hd2 sz szv,
      Htrue hd1 -> Htrue hd2 ->
      fst (verify true pg ck algo hd1 sz szv) = fst (verify true pg ck algo hd2 sz szv).
  Proof.
    intros pg ck algo hd1 hd2 sz szv H1 H2.
    rewrite (verify_fixed_fst pg ck algo hd1 sz szv H1).
    rewrite (verify_fixed_fst pg ck algo hd2 sz szv H2).
    reflexivity.
  Qed.

  Theorem verdict_pid_independent :
    forall pg1 pg2 ck algo hd sz szv,
      fst (verify true pg1 ck algo hd sz szv) = fst (verify true pg2 ck algo hd sz szv).
  Proof.
    intros pg1 pg2 ck algo hd sz szv. unfold verify.
    destruct (size_mismatch szv sz); [reflexivity |].
    destruct algo as [a|]; [| reflexivity].
    destruct ck as [c|]; [| reflexivity].
    destruct (lookup a hd) as [d|].
    - destruct (String.eqb d (lower c)); reflexivity.
    - reflexivity.
  Qed.

  (** Needs no hypothesis on [hex_digests] at all. *)
  Theorem verdict_case_insensitive :
    forall pg c c' algo hd sz szv,
      lower c = lower c' ->
      fst (verify true pg (Some c) algo hd sz szv) =
      fst (verify true pg (Some c') algo hd sz szv).
  Proof.
    intros pg c c' algo hd sz szv Hl. unfold verify. rewrite Hl. reflexivity.
  Qed.

  (** The true digest, in any letter case, validates (this is where the
      lower-case-ness of hashlib's output is needed). *)
  Theorem true_digest_any_case_valid :
    forall pg c a hd sz,
      Hlow -> Htrue hd -> lower c = lower (D a) ->
      fst (verify true pg (Some c) (Some a) hd sz None) = Valid.
  Proof.
    intros pg c a hd sz Hl Ht Hc.
    apply (verdict_iff_general pg (Some c) (Some a) hd sz None Ht).
    split; [left; reflexivity |].
    right. right. exists c, a. split; [reflexivity |]. split; [reflexivity |].
    rewrite Hc. apply Hl.
  Qed.

  (** Size is examined first: a size mismatch is reported as such whatever
      the checksum arguments (and in both versions of the code). *)
  Theorem size_checked_first :
    forall fixed pg ck algo hd sz z,
      (0 < z)%Z -> z <> sz ->
      fst (verify fixed pg ck algo hd sz (Some z)) = BadSize.
  Proof.
    intros fixed pg ck algo hd sz z Hpos Hne. unfold verify, size_mismatch.
    apply Z.ltb_lt in Hpos. apply Z.eqb_neq in Hne. rewrite Hpos, Hne. reflexivity.
  Qed.

  (* ----------------------------------------------------------------------- *)
  (** ** Effects                                                             *)
  (* ----------------------------------------------------------------------- *)

  (** With a pid, a rejection on the size path or on the pre-computed path
      deletes the tmp file.  (Second hypothesis: the size mismatched, or the
      algorithm -- if one is given -- is among the pre-computed digests.) *)
  Theorem invalid_effect :
    forall ck algo hd sz szv,
      fst (verify true true ck algo hd sz szv) <> Valid ->
      (size_mismatch szv sz = true \/ forall a, algo = Some a -> lookup a hd <> None) ->
      snd (verify true true ck algo hd sz szv) = DeleteTmp.
  Proof.
    intros ck algo hd sz szv Hinv Hpath. unfold verify in *.
    destruct (size_mismatch szv sz) eqn:Es; [reflexivity |].
    destruct Hpath as [Hpath | Hpath]; [discriminate Hpath |].
    destruct algo as [a|]; [| exfalso; apply Hinv; reflexivity].
    destruct ck as [c|]; [| exfalso; apply Hinv; reflexivity].
    destruct (lookup a hd) as [d|] eqn:El.
    - destruct (String.eqb d (lower c)) eqn:Ed.
      + exfalso. apply Hinv. reflexivity.
      + reflexivity.
    - exfalso. apply (Hpath a eq_refl). exact El.
  Qed.

  (** On the on-demand path the decision itself never deletes; it only opens
      the object, whatever the outcome (both versions of the code). *)
  Theorem on_demand_effect :
    forall fixed pg c a hd sz szv,
      size_mismatch szv sz = false -> lookup a hd = None ->
      snd (verify fixed pg (Some c) (Some a) hd sz szv) = OpenObject.
  Proof.
    intros fixed pg c a hd sz szv Hs Hl. unfold verify. rewrite Hs, Hl.
    destruct (String.eqb (D a) (if fixed then lower c else c)); reflexivity.
  Qed.

  Theorem valid_no_delete :
    forall fixed pg ck algo hd sz szv,
      fst (verify fixed pg ck algo hd sz szv) = Valid ->
      snd (verify fixed pg ck algo hd sz szv) <> DeleteTmp.
  Proof.
    intros fixed pg ck algo hd sz szv H. unfold verify in *.
    destruct (size_mismatch szv sz); [discriminate H |].
    destruct algo as [a|]; [| intro H'; discriminate H'].
    destruct ck as [c|]; [| intro H'; discriminate H'].
    destruct (lookup a hd) as [d|].
    - destruct (String.eqb d (lower c)); [intro H'; discriminate H' | discriminate H].
    - destruct (String.eqb (D a) (if fixed then lower c else c));
        intro H'; discriminate H'.
  Qed.

  (** Without a pid the decision never deletes anything. *)
  Theorem no_pid_no_delete :
    forall fixed ck algo hd sz szv,
      snd (verify fixed false ck algo hd sz szv) <> DeleteTmp.
  Proof.
    intros fixed ck algo hd sz szv. unfold verify.
    destruct (size_mismatch szv sz); [intro H'; discriminate H' |].
    destruct algo as [a|]; [| intro H'; discriminate H'].
    destruct ck as [c|]; [| intro H'; discriminate H'].
    destruct (lookup a hd) as [d|].
    - destruct (String.eqb d (lower c)); intro H'; discriminate H'.
    - destruct (String.eqb (D a) (if fixed then lower c else c));
        intro H'; discriminate H'.
  Qed.

  (* ----------------------------------------------------------------------- *)
  (** ** Today's code versus the repair (inside the section)                 *)
  (* ----------------------------------------------------------------------- *)

  (** The defect needs an upper-case character in the checksum to manifest. *)
  Theorem verify_today_agrees_on_lowercase_sec :
    forall pg c algo hd sz szv,
      lower c = c ->
      verify false pg (Some c) algo hd sz szv = verify true pg (Some c) algo hd sz szv.
  Proof.
    intros pg c algo hd sz szv Hl. unfold verify. rewrite Hl. reflexivity.
  Qed.

  (** Today's code errs only on the safe side: whatever it accepts, the
      repaired code accepts as well (needs lower-case digests). *)
  Theorem verify_today_sound_sec :
    forall pg ck algo hd sz szv,
      Hlow ->
      fst (verify false pg ck algo hd sz szv) = Valid ->
      fst (verify true pg ck algo hd sz szv) = Valid.
  Proof.
    intros pg ck algo hd sz szv Hl H. unfold verify in *.
    destruct (size_mismatch szv sz); [discriminate H |].
    destruct algo as [a|]; [| reflexivity].
    destruct ck as [c|]; [| reflexivity].
    destruct (lookup a hd) as [d|].
    - exact H.
    - destruct (String.eqb (D a) c) eqn:Ec; [| discriminate H].
      apply String.eqb_eq in Ec. subst c. rewrite (Hl a).
      rewrite String.eqb_refl. reflexivity.
  Qed.

  (** Exactly when the two disagree: size fine, on-demand path, checksum is
      the true digest up to case but not letter for letter. *)
  Theorem verify_today_differs_iff_sec :
    forall pg ck algo hd sz szv,
      Hlow ->
      (fst (verify false pg ck algo hd sz szv) <> fst (verify true pg ck algo hd sz szv) <->
       size_mismatch szv sz = false /\
       exists c a, ck = Some c /\ algo = Some a /\ lookup a hd = None /\
                   lower c = D a /\ c <> D a).
  Proof.
    intros pg ck algo hd sz szv Hl. unfold verify. split.
    - intro H.
      destruct (size_mismatch szv sz); [exfalso; apply H; reflexivity |].
      split; [reflexivity |].
      destruct algo as [a|]; [| exfalso; apply H; reflexivity].
      destruct ck as [c|]; [| exfalso; apply H; reflexivity].
      destruct (lookup a hd) as [d|] eqn:El; [exfalso; apply H; reflexivity |].
      exists c, a. split; [reflexivity |]. split; [reflexivity |]. split; [exact El |].
      destruct (String.eqb (D a) c) eqn:Ec.
      + apply String.eqb_eq in Ec. subst c. rewrite (Hl a) in H.
        rewrite String.eqb_refl in H. exfalso. apply H. reflexivity.
      + destruct (String.eqb (D a) (lower c)) eqn:Elc.
        * apply String.eqb_eq in Elc. apply String.eqb_neq in Ec.
          split; [symmetry; exact Elc | intro Heq; apply Ec; symmetry; exact Heq].
        * exfalso. apply H. reflexivity.
    - intros [Hs [c [a [-> [-> [El [Hlc Hne]]]]]]]. rewrite Hs, El.
      rewrite Hlc. rewrite String.eqb_refl.
      assert (Ec : String.eqb (D a) c = false).
      { apply String.eqb_neq. intro Heq. apply Hne. symmetry. exact Heq. }
      rewrite Ec. cbn [fst]. intro H. discriminate H.
  Qed.

End Verdict.

(* ------------------------------------------------------------------------- *)
(** * Today's code: refutation and scope of the defect                       *)
(* ------------------------------------------------------------------------- *)

(** The code as it is today rejects a CORRECT checksum written in upper case
    when the algorithm is not among the pre-computed digests (defect D2):
    size matches, [lower ck] is the true digest, verdict is BadChecksum. *)
Theorem verify_today_refuted :
  exists D ck a sz,
    (forall x, lower (D x) = D x) /\ lower ck = D a /\
    fst (verify D false false (Some ck) (Some a) [] sz (Some sz)) = BadChecksum.
Proof.
  exists (fun _ => "ab"), "AB", "sha224", 5%Z.
  repeat split.
Qed.

(** The same input is accepted by the repaired code ... *)
Example verify_fixed_accepts_witness :
  verify (fun _ => "ab") true false (Some "AB") (Some "sha224") [] 5 (Some 5%Z)
  = (Valid, OpenObject).
Proof. vm_compute. reflexivity. Qed.

(** ... and by today's code when the digest happens to be pre-computed:
    today's verdict depends on the path. *)
Theorem verify_today_path_dependent :
  exists D ck a sz hd1 hd2,
    Htrue D hd1 /\ Htrue D hd2 /\
    fst (verify D false false (Some ck) (Some a) hd1 sz (Some sz)) <>
    fst (verify D false false (Some ck) (Some a) hd2 sz (Some sz)).
Proof.
  exists (fun _ => "ab"), "AB", "sha224", 5%Z, [], [("sha224", "ab")].
  split; [| split].
  - intros a d H. discriminate H.
  - intros a d H. cbn [lookup] in H.
    destruct (String.eqb a "sha224"); [| discriminate H].
    injection H as <-. reflexivity.
  - vm_compute. intro H. discriminate H.
Qed.

Theorem verify_today_agrees_on_lowercase :
  forall D pg c algo hd sz szv,
    lower c = c ->
    verify D false pg (Some c) algo hd sz szv = verify D true pg (Some c) algo hd sz szv.
Proof. exact verify_today_agrees_on_lowercase_sec. Qed.

Theorem verify_today_sound :
  forall D pg ck algo hd sz szv,
    Hlow D ->
    fst (verify D false pg ck algo hd sz szv) = Valid ->
    fst (verify D true pg ck algo hd sz szv) = Valid.
Proof. exact verify_today_sound_sec. Qed.

Theorem verify_today_differs_iff :
  forall D pg ck algo hd sz szv,
    Hlow D ->
    (fst (verify D false pg ck algo hd sz szv) <> fst (verify D true pg ck algo hd sz szv) <->
     size_mismatch szv sz = false /\
     exists c a, ck = Some c /\ algo = Some a /\ lookup a hd = None /\
                 lower c = D a /\ c <> D a).
Proof. exact verify_today_differs_iff_sec. Qed.

(* ------------------------------------------------------------------------- *)
(** * Non-vacuity                                                            *)
(* ------------------------------------------------------------------------- *)

Definition D0 (a : string) : string :=
  if String.eqb a "md5" then "0cc175b9c0f1b6a831c399e269772661"
  else if String.eqb a "sha1" then "86f7e437faa5a7fce15d1ddcb9eaeaea377667b8"
  else "abcdef".
Definition hd0 : list (string * string) :=
  [("md5", "0cc175b9c0f1b6a831c399e269772661");
   ("sha1", "86f7e437faa5a7fce15d1ddcb9eaeaea377667b8")].

(** The hypotheses of the section are satisfiable together. *)
Example hd0_true : Htrue D0 hd0.
Proof.
  intros a d H. unfold hd0 in H. cbn [lookup] in H. unfold D0.
  destruct (String.eqb a "md5") eqn:E1.
  - injection H as <-. reflexivity.
  - destruct (String.eqb a "sha1") eqn:E2.
    + injection H as <-. reflexivity.
    + discriminate H.
Qed.

Example D0_low : Hlow D0.
Proof.
  intro a. unfold D0.
  destruct (String.eqb a "md5"); [vm_compute; reflexivity |].
  destruct (String.eqb a "sha1"); vm_compute; reflexivity.
Qed.

(* pre-computed path, upper-case checksum, with pid: valid, nothing touched *)
Example ex_precomputed_valid :
  verify D0 true true (Some "0CC175B9C0F1B6A831C399E269772661") (Some "md5") hd0 1 (Some 1%Z)
  = (Valid, NoEffect).
Proof. vm_compute. reflexivity. Qed.
(* pre-computed path, wrong checksum, with pid: tmp file deleted *)
Example ex_precomputed_bad :
  verify D0 true true (Some "00") (Some "md5") hd0 1 (Some 1%Z) = (BadChecksum, DeleteTmp).
Proof. vm_compute. reflexivity. Qed.
(* same without pid (delete_if_invalid_object): nothing deleted by the decision itself *)
Example ex_precomputed_bad_nopid :
  verify D0 true false (Some "00") (Some "md5") hd0 1 (Some 1%Z) = (BadChecksum, NoEffect).
Proof. vm_compute. reflexivity. Qed.
(* size mismatch wins over a checksum mismatch *)
Example ex_size_first :
  verify D0 true true (Some "00") (Some "md5") hd0 1 (Some 2%Z) = (BadSize, DeleteTmp).
Proof. vm_compute. reflexivity. Qed.
(* on-demand path *)
Example ex_on_demand_valid :
  verify D0 true false (Some "ABCDEF") (Some "sha224") hd0 1 None = (Valid, OpenObject).
Proof. vm_compute. reflexivity. Qed.
Example ex_on_demand_bad :
  verify D0 true false (Some "abcdee") (Some "sha224") hd0 1 None = (BadChecksum, OpenObject).
Proof. vm_compute. reflexivity. Qed.
(* today's code on the same upper-case input *)
Example ex_on_demand_today :
  verify D0 false false (Some "ABCDEF") (Some "sha224") hd0 1 None = (BadChecksum, OpenObject).
Proof. vm_compute. reflexivity. Qed.
(* nothing to validate *)
Example ex_nothing_to_check :
  verify D0 true true None None hd0 7 None = (Valid, NoEffect).
Proof. vm_compute. reflexivity. Qed.
(* a non-positive expected size is not checked (unreachable through _check_integer) *)
Example ex_size_zero_unchecked :
  verify D0 true true None None hd0 7 (Some 0%Z) = (Valid, NoEffect).
Proof. vm_compute. reflexivity. Qed.

(* ------------------------------------------------------------------------- *)
(** * Assumption audit                                                       *)
(* ------------------------------------------------------------------------- *)

Print Assumptions verdict_iff.
Print Assumptions verdict_iff_general.
Print Assumptions verdict_path_independent.
Print Assumptions verdict_pid_independent.
Print Assumptions verdict_case_insensitive.
Print Assumptions true_digest_any_case_valid.
Print Assumptions size_checked_first.
Print Assumptions invalid_effect.
Print Assumptions on_demand_effect.
Print Assumptions valid_no_delete.
Print Assumptions no_pid_no_delete.
Print Assumptions verify_today_refuted.
Print Assumptions verify_today_path_dependent.
Print Assumptions verify_today_agrees_on_lowercase.
Print Assumptions verify_today_sound.
Print Assumptions verify_today_differs_iff.
