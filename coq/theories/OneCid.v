(* OneCid.v — any number of tag_object calls with pairwise DISTINCT pids on ONE cid are
   linearizable, under every schedule (property C07 beyond the menus: a CONFLICTING pool — every
   call reads and extends the same cid reference list; Indep.v covers the calls with pairwise
   disjoint footprints, Mutex.v mutual exclusion, the M07_* menus the pairs and triples).

   tag_object p c (Ops.tag_object, = _store_hashstore_refs_files) takes the reference-pid lock
   (LRefPid, IPid p) with its FIRST operation and the cid lock (LCid, ICid c) with its SECOND one;
   every file operation lies between that and the release of the cid lock, after which it gives the
   pid lock back with its LAST operation and returns.  In between it takes and releases the flock
   of the cid list (LFile) and asks whether its own two locks are held (Held).  For distinct pids
   the pid locks are private: a thread's first and last step commute with everything else.  Hence
   every schedule that [Sched.exec] accepts is equivalent to a sequence of complete runs, one call
   after the other, in the order in which the calls acquire the CID lock:

     §1  worlds up to private locks ([sim]); an operation that mentions no foreign private lock
         has the same answer and the same effect in both ([sim_step])
     §2  the shape [CS2] of a program inside its critical section; [Ops]: all operations of a
         program satisfy a predicate, with the rules for bind / mbind / catch / try_finally
     §3  pools in which every program is  Acquire (pl i) ; Acquire L ; critical section ;
         Release L ; Release (pl i) ; return  — or has already returned: the block invariant
         [BInv2], its preservation, and [two_lock_pool] — the final WORLD (files and lock list)
         is exactly the world of the sequential run in cid-lock acquisition order, every thread's
         result is that of its sequential run
     §4  tag_object has the shape; [one_cid_taggers_linearizable]

   [cs_order sched]: the thread numbers in the order of their SECOND occurrence in the schedule —
   the second step of a tagger IS its acquisition of the cid lock ([OneDoc.acq_order], the order
   of first occurrences, would be the order of the private pid-lock acquisitions, which is not
   the linearization order).  The sequential run is Indep.seq_run. *)
From HS Require Import Base PyVal FS Ops Sched Spec SeqLemmas Bracket SchedCV Mutex Indep IndepMeta OneDoc.

(* ====================================================================================== *)
(* §1  worlds up to private locks                                                          *)
(* ====================================================================================== *)

Section Sim.
  Variable priv : lock -> bool.          (* the private locks (of all threads) *)

  Definition np (l : lock) : bool := negb (priv l).

  (* same files, same non-private locks *)
  Definition sim (w ws : world) : Prop :=
    fs w = fs ws /\ filter np (locks w) = filter np (locks ws).

  (* an operation of the thread whose private lock is Li, inside the critical section of L: it
     takes and gives back non-private locks other than L only, and tests no foreign private lock *)
  Definition quiet (L Li : lock) (o : op) : Prop :=
    match o with
    | Acquire cls x | Release cls x => priv (cls, x) = false /\ (cls, x) <> L
    | Peek cls x | Held cls x => priv (cls, x) = false \/ (cls, x) = Li
    | _ => True
    end.

  Lemma np_memb : forall l k1 k2, priv l = false -> filter np k1 = filter np k2 ->
    memb lock_eqb l k1 = memb lock_eqb l k2.
  Proof.
    intros l k1 k2 Hp E. assert (Hn : np l = true) by (unfold np; rewrite Hp; reflexivity).
    rewrite <- (memb_filter np l k1 Hn), <- (memb_filter np l k2 Hn), E. reflexivity.
  Qed.

  Lemma sim_step : forall t L Li o w ws a w',
    sim w ws -> In Li (locks w) -> In Li (locks ws) -> quiet L Li o ->
    exec_op t o w = Some (a, w') ->
    exists ws', exec_op t o ws = Some (a, ws') /\ sim w' ws'.
  Proof.
    intros t L Li o [m lk] [ms lks] a w' [Hfs Hlk] Hi1 Hi2 Hq He. simpl in *. subst ms.
    destruct o; simpl in *;
      try (repeat match type of He with
                  | context [match ?x with _ => _ end] => destruct x eqn:?; try discriminate
                  end; inversion He; subst; eexists; (split; [reflexivity|]); split; simpl; auto; fail).
    - (* Acquire *)
      destruct Hq as [Hp _].
      rewrite <- (np_memb _ _ _ Hp Hlk).
      destruct (memb lock_eqb (cls, i) lk); [discriminate|]. inversion He; subst.
      eexists. split; [reflexivity|]. split; simpl; auto.
      assert (Hn : np (cls, i) = true) by (unfold np; rewrite Hp; reflexivity).
      rewrite !Hn. f_equal. exact Hlk.
    - (* Release *)
      destruct Hq as [Hp _].
      rewrite <- (np_memb _ _ _ Hp Hlk).
      destruct (memb lock_eqb (cls, i) lk); inversion He; subst.
      + eexists. split; [reflexivity|]. split; simpl; auto.
        assert (Hn : np (cls, i) = true) by (unfold np; rewrite Hp; reflexivity).
        rewrite !filter_remove1_in by exact Hn. rewrite Hlk. reflexivity.
      + eexists. split; [reflexivity|]. split; simpl; auto.
    - (* Peek *)
      inversion He; subst. exists {| fs := m; locks := lks |}. split; [|split; simpl; auto].
      f_equal. f_equal. f_equal.
      destruct Hq as [Hp| ->]; [symmetry; apply np_memb; auto|].
      apply memb_lock_In in Hi1. apply memb_lock_In in Hi2. rewrite Hi1, Hi2. reflexivity.
    - (* Held *)
      inversion He; subst. exists {| fs := m; locks := lks |}. split; [|split; simpl; auto].
      f_equal. f_equal. f_equal.
      destruct Hq as [Hp| ->]; [symmetry; apply np_memb; auto|].
      apply memb_lock_In in Hi1. apply memb_lock_In in Hi2. rewrite Hi1, Hi2. reflexivity.
  Qed.

  (* taking or giving back a private lock changes nothing *)
  Lemma sim_acq_priv : forall l w ws, priv l = true -> sim w ws -> sim (set_locks w (l :: locks w)) ws.
  Proof.
    intros l w ws Hp [H1 H2]. split; simpl; auto.
    assert (Hn : np l = false) by (unfold np; rewrite Hp; reflexivity). rewrite Hn. exact H2.
  Qed.

  Lemma sim_rel_priv : forall l w ws, priv l = true -> sim w ws ->
    sim (set_locks w (remove1 lock_eqb l (locks w))) ws.
  Proof.
    intros l w ws Hp [H1 H2]. split; simpl; auto.
    rewrite filter_remove1_out; auto. unfold np. rewrite Hp. reflexivity.
  Qed.

  Lemma sim_rel_priv_r : forall l w ws, priv l = true -> sim w ws ->
    sim w (set_locks ws (remove1 lock_eqb l (locks ws))).
  Proof.
    intros l w ws Hp [H1 H2]. split; simpl; auto.
    rewrite filter_remove1_out; auto. unfold np. rewrite Hp. reflexivity.
  Qed.

  Lemma sim_rel_both : forall l w ws, priv l = false -> sim w ws ->
    sim (set_locks w (remove1 lock_eqb l (locks w))) (set_locks ws (remove1 lock_eqb l (locks ws))).
  Proof.
    intros l w ws Hp [H1 H2]. split; simpl; auto.
    assert (Hn : np l = true) by (unfold np; rewrite Hp; reflexivity).
    rewrite !filter_remove1_in by exact Hn. rewrite H2. reflexivity.
  Qed.

  Lemma sim_nolocks : forall w ws, sim w ws -> locks w = [] -> locks ws = [] -> w = ws.
  Proof. intros [m k] [ms ks] [H1 _] H2 H3. simpl in *. subst. reflexivity. Qed.
End Sim.

(* a held identifier stays held unless this very step releases it *)
Lemma exec_keeps_lock : forall t o w a w' l,
  exec_op t o w = Some (a, w') -> In l (locks w) ->
  (forall cls x, o = Release cls x -> (cls, x) <> l) -> In l (locks w').
Proof.
  intros t o w a w' l He Hin Hne. apply exec_op_locks in He.
  destruct o; try (rewrite He; exact Hin).
  - rewrite He. right. exact Hin.
  - rewrite He. destruct (memb lock_eqb (cls, i) (locks w)); auto.
    apply In_remove1_neq; auto. intros E. apply (Hne cls i eq_refl). symmetry. exact E.
Qed.

(* ====================================================================================== *)
(* §2  shapes                                                                              *)
(* ====================================================================================== *)

(* every operation of the program, whatever the answers, satisfies P *)
Fixpoint Ops (P : op -> Prop) {A} (m : prog A) : Prop :=
  match m with
  | Vis o k => P o /\ forall a, Ops P (k a)
  | _ => True
  end.

Section OpsRules.
  Variable P : op -> Prop.

  Lemma Ops_bind : forall A B (m : prog A) (f : A -> prog B),
    Ops P m -> (forall a, Ops P (f a)) -> Ops P (bind m f).
  Proof.
    induction m as [a|o k IH|]; simpl; intros f Hm Hf; auto.
    destruct Hm as [Ho Hk]. split; auto.
  Qed.

  Lemma Ops_mbind : forall A B (m : M A) (f : A -> M B),
    Ops P m -> (forall a, Ops P (f a)) -> Ops P (mbind m f).
  Proof. intros. unfold mbind. apply Ops_bind; auto. intros [a|e]; simpl; auto. Qed.

  Lemma Ops_catch : forall A (m : M A), Ops P m -> Ops P (catch m).
  Proof. intros. unfold catch. apply Ops_bind; simpl; auto. Qed.

  Lemma Ops_try_finally : forall A (m : M A) fin, Ops P m -> Ops P fin -> Ops P (try_finally m fin).
  Proof.
    intros. unfold try_finally. apply Ops_bind; auto. intros r. apply Ops_bind; auto.
    intros [u|e]; simpl; auto.
  Qed.

  Lemma Ops_probe : forall a, P (Probe a) -> Ops P (probe a).
  Proof. intros. simpl. split; auto. intros x; destruct x; simpl; auto. Qed.
  Lemma Ops_read : forall a, P (Read a) -> Ops P (read a).
  Proof. intros. simpl. split; auto. intros x; destruct x; simpl; auto. Qed.
  Lemma Ops_unit_op : forall o, P o -> Ops P (unit_op o).
  Proof. intros. simpl. split; auto. intros x; destruct x; simpl; auto. Qed.
  Lemma Ops_swallow_op : forall o, P o -> Ops P (swallow_op o).
  Proof. intros. simpl. split; auto. intros x; destruct x; simpl; auto. Qed.
  Lemma Ops_size_lines : forall a, P (SizeLines a) -> Ops P (size_lines a).
  Proof. intros. simpl. split; auto. intros x; destruct x; simpl; auto. Qed.
  Lemma Ops_mktmp : forall ar init, P (MkTmp ar init) -> Ops P (mktmp ar init).
  Proof. intros. simpl. split; auto. intros x; destruct x; simpl; auto. Qed.
  Lemma Ops_rewrite_write : forall a p, P (RewriteWrite a p) -> Ops P (rewrite_write a p).
  Proof. intros. simpl. split; auto. intros x; destruct x; simpl; auto. Qed.
  Lemma Ops_held : forall cls x, P (Held cls x) -> Ops P (Ops.held cls x).
  Proof. intros. simpl. split; auto. intros y; destruct y; simpl; auto. Qed.
  Lemma Ops_funlock : forall a, P (Release LFile (IDoc a)) -> Ops P (funlock a).
  Proof. intros. simpl. split; auto. intros x; destruct x; simpl; auto. Qed.
End OpsRules.

Section Shape.
  Variable A : Type.
  Variable priv : lock -> bool.
  Variable L : lock.

  (* inside the critical section of L, private lock Li: quiet operations, then Release L, then
     Release Li, after which the program returns at once; it does not return before *)
  Fixpoint CS2 (Li : lock) (m : prog A) : Prop :=
    match m with
    | Ret _ => False
    | Bad => True
    | Vis o k =>
        (o = Release (fst L) (snd L) /\
         exists k' r, k AUnit = Vis (Release (fst Li) (snd Li)) k' /\ k' AUnit = Ret r) \/
        (quiet priv L Li o /\ forall a, CS2 Li (k a))
    end.

  (* Acquire Li, Acquire L, then inside the critical section *)
  Definition writer2 (Li : lock) (p : prog A) : Prop :=
    exists k1 k2, p = Vis (Acquire (fst Li) (snd Li)) k1 /\
                  k1 AUnit = Vis (Acquire (fst L) (snd L)) k2 /\ CS2 Li (k2 AUnit).
End Shape.

Lemma CS2_bind : forall A B priv L Li (m : prog A) (f : A -> prog B),
  Ops (quiet priv L Li) m -> (forall a, CS2 B priv L Li (f a)) -> CS2 B priv L Li (bind m f).
Proof.
  induction m as [a|o k IH|]; simpl; intros f Hm Hf; auto.
  destruct Hm as [Ho Hk]. right. split; auto.
Qed.

(* a pure continuation after the last release *)
Lemma CS2_bind_pure : forall A B priv L Li (m : prog A) (h : A -> prog B),
  CS2 A priv L Li m -> (forall r, exists r', h r = Ret r') -> CS2 B priv L Li (bind m h).
Proof.
  induction m as [a|o k IH|]; simpl; intros h Hm Hh; auto; try contradiction.
  destruct Hm as [(-> & k' & r & E1 & E2)|[Hq Hk]].
  - left. split; auto. rewrite E1. simpl. destruct (Hh r) as [r' Hr'].
    eexists. exists r'. split; [reflexivity|]. simpl. rewrite E2. simpl. exact Hr'.
  - right. split; auto.
Qed.

Lemma writer2_bind_pure : forall A B priv L Li (p : prog A) (h : A -> prog B),
  writer2 A priv L Li p -> (forall r, exists r', h r = Ret r') -> writer2 B priv L Li (bind p h).
Proof.
  intros A B priv L Li p h (k1 & k2 & -> & E & Hcs) Hh.
  exists (fun x => bind (k1 x) h), (fun x => bind (k2 x) h). split; [reflexivity|].
  split; [rewrite E; reflexivity|]. apply CS2_bind_pure; auto.
Qed.

(* ====================================================================================== *)
(* §3  pools of programs under a private lock and one shared lock                          *)
(* ====================================================================================== *)

(* (threads that have taken a step, threads in the order of their second step) *)
Definition note2 (s : list nat * list nat) (j : nat) : list nat * list nat :=
  if existsb (Nat.eqb j) (fst s)
  then (if existsb (Nat.eqb j) (snd s) then s else (fst s, snd s ++ [j]))
  else (j :: fst s, snd s).

Definition cs_order (sched : list nat) : list nat := snd (fold_left note2 sched ([], [])).

(* the threads (of n) that never take a second step *)
Definition inert2 (n : nat) (sched : list nat) : list nat :=
  filter (fun i => negb (existsb (Nat.eqb i) (cs_order sched))) (seq 0 n).

Lemma Forall2_mono_in : forall X Y (P Q : X -> Y -> Prop) l1 l2,
  Forall2 P l1 l2 -> (forall x y, In x l1 -> P x y -> Q x y) -> Forall2 Q l1 l2.
Proof.
  induction 1; intros HPQ; constructor.
  - apply HPQ; auto. left; reflexivity.
  - apply IHForall2. intros x' y' Hx. apply HPQ. right; exact Hx.
Qed.

Lemma Forall2_in_l : forall X Y (P : X -> Y -> Prop) l1 l2 x,
  Forall2 P l1 l2 -> In x l1 -> exists y, P x y.
Proof.
  induction 1; intros Hin; [contradiction|]. destruct Hin as [<-|Hin]; eauto.
Qed.
Arguments Forall2_in_l {X Y P l1 l2 x}.

Lemma Forall2_map_some : forall X Y (P : X -> Y -> Prop) (f : X -> option Y) l1 l2,
  Forall2 P l1 l2 -> (forall x y, In x l1 -> P x y -> f x = Some y) -> map f l1 = map Some l2.
Proof.
  induction 1; intros HP; simpl; auto. f_equal.
  - apply HP; auto. left; reflexivity.
  - apply IHForall2. intros x' y' Hx. apply HP. right; exact Hx.
Qed.

Section TwoLocks.
  Variable A : Type.
  Variable ps : list (prog A).
  Variable L : lock.                       (* the shared lock *)
  Variable pl : nat -> lock.               (* thread i's private lock *)
  Variable priv : lock -> bool.
  Variable w0 : world.

  Definition writer_at (i : nat) : Prop :=
    exists p, nth_error ps i = Some p /\ writer2 A priv L (pl i) p.

  Hypothesis Hshape : forall i p, nth_error ps i = Some p ->
    (exists r, p = Ret r) \/ writer2 A priv L (pl i) p.
  Hypothesis HprivL : priv L = false.
  Hypothesis Hpriv : forall i, priv (pl i) = true.
  Hypothesis Hinj : forall i j, writer_at i -> writer_at j -> pl i = pl j -> i = j.
  Hypothesis Hok : pool_ok ps.
  Hypothesis Hl0 : locks w0 = [].
  Hypothesis Hrt0 : refs_typed (fs w0).

  Lemma pl_neq_L : forall i, pl i <> L.
  Proof. intros i E. pose proof (Hpriv i) as H. rewrite E, HprivL in H. discriminate. Qed.

  (* every program, run alone from a world without held locks, returns and leaves none *)
  Lemma seq_total : forall i p w, nth_error ps i = Some p -> locks w = [] -> refs_typed (fs w) ->
    exists w' r, run_as i w p = Some (w', r) /\ locks w' = [] /\ refs_typed (fs w').
  Proof.
    intros i p w Hp Hl Hrt. eapply run_as_total with (h := []) (kn := []).
    - apply (Hok i p Hp).
    - exact Hrt.
    - apply KInv_nil.
    - apply LInv_empty. exact Hl.
  Qed.

  (* thread i has left the critical section with result r: it has returned r, or its one remaining
     operation is the release of its private lock, which it holds *)
  Definition almost (c : cfg) (i : nat) (r : A) : Prop :=
    thread_result ps c i = Some r \/
    exists k', residual ps c i = Some (Vis (Release (fst (pl i)) (snd (pl i))) k') /\
               k' AUnit = Ret r /\ In (pl i) (locks (snd c)).

  (* the block invariant: the threads of ord have run through their critical sections, one after
     the other, from w0; at most one further thread (act) is inside its critical section; the
     other threads of once hold their private lock only; all the others have not started *)
  Definition BInv2 (c : cfg) (once ord : list nat) (act : option nat) : Prop :=
    length (fst c) = length ps /\
    NoDup ord /\
    (forall i, In i ord -> In i once) /\
    (forall i, In i once -> writer_at i) /\
    (forall i, i < length ps -> ~ In i once -> nth_error (fst c) i = Some []) /\
    (forall i, In i once -> ~ In i ord -> act <> Some i ->
       nth_error (fst c) i = Some [AUnit] /\ In (pl i) (locks (snd c))) /\
    exists w1 rs,
      seq_runp A ps ord w0 = Some (w1, rs) /\ locks w1 = [] /\ refs_typed (fs w1) /\
      Forall2 (almost c) ord rs /\
      match act with
      | None => sim priv (snd c) w1
      | Some i =>
          In i once /\ ~ In i ord /\
          exists p hist m ws,
            nth_error ps i = Some p /\ nth_error (fst c) i = Some hist /\
            Solo i p w1 (rev hist) ws m /\ CS2 A priv L (pl i) m /\
            sim priv (snd c) ws /\ In L (locks ws) /\ In (pl i) (locks ws) /\
            In (pl i) (locks (snd c))
      end.

  Lemma BInv2_init : BInv2 (init_cfg ps w0) [] [] None.
  Proof.
    unfold BInv2, init_cfg. simpl. split; [apply map_length|]. split; [constructor|].
    split; [intros i []|]. split; [intros i []|]. split; [|split; [intros i []|]].
    - intros i Hi _. rewrite nth_error_map.
      destruct (nth_error ps i) eqn:E; [reflexivity|]. apply nth_error_None in E. lia.
    - exists w0, []. repeat split; auto.
  Qed.

  Lemma residual_upd_neq : forall c j x w' i, i <> j ->
    residual ps (upd_nth j x (fst c), w') i = residual ps c i.
  Proof.
    intros c j x w' i Hne. unfold residual. simpl.
    rewrite nth_error_upd_nth_neq by exact Hne. reflexivity.
  Qed.

  (* a step of thread j that does not release thread i's private lock keeps [almost] for i *)
  Lemma almost_keep : forall c j x w' i r t o a,
    i <> j -> exec_op t o (snd c) = Some (a, w') ->
    (forall cls y, o = Release cls y -> (cls, y) <> pl i) ->
    almost c i r -> almost (upd_nth j x (fst c), w') i r.
  Proof.
    intros c j x w' i r t o a Hne He Hrel [H|(k' & H1 & H2 & H3)].
    - left. rewrite thread_result_upd_neq by exact Hne. exact H.
    - right. exists k'. rewrite residual_upd_neq by exact Hne. split; auto. split; auto.
      simpl. eapply exec_keeps_lock; eauto.
  Qed.

  Lemma existsb_false_notin : forall j l, existsb (Nat.eqb j) l = false <-> ~ In j l.
  Proof.
    intros j l. split.
    - intros H Hin. apply existsb_eqb_In in Hin. congruence.
    - intros H. destruct (existsb (Nat.eqb j) l) eqn:E; auto. apply existsb_eqb_In in E. contradiction.
  Qed.

  Lemma acquire_inv : forall t cls x w a w',
    exec_op t (Acquire cls x) w = Some (a, w') ->
    a = AUnit /\ w' = set_locks w ((cls, x) :: locks w) /\ ~ In (cls, x) (locks w).
  Proof.
    intros t cls x w a w' H. simpl in H.
    destruct (memb lock_eqb (cls, x) (locks w)) eqn:E; [discriminate|].
    inversion H; subst. repeat split; auto. apply memb_lock_notIn. exact E.
  Qed.

  Lemma release_held : forall t l w, In l (locks w) ->
    exec_op t (Release (fst l) (snd l)) w = Some (AUnit, set_locks w (remove1 lock_eqb l (locks w))).
  Proof.
    intros t [cls x] w H. simpl. apply memb_lock_In in H. rewrite H. reflexivity.
  Qed.

  Lemma lock_eta : forall l : lock, (fst l, snd l) = l.
  Proof. intros [a b]; reflexivity. Qed.

  Lemma BInv2_step : forall c once ord act j c',
    BInv2 c once ord act -> thread_step ps c j = Some c' ->
    exists once' ord' act', BInv2 c' once' ord' act' /\
      (once', ord' ++ oact act') = note2 (once, ord ++ oact act) j.
  Proof.
    intros c once ord act j c'
      (Hlen & Hnd & Hsub & Hwr & Hidle & Hone & w1 & rs & Hseq & Hl1 & Hrt1 & Hres & Hact) Hst.
    pose proof (@thread_step_lt _ _ _ _ _ Hst) as Hj.
    apply thread_step_inv in Hst. destruct Hst as (hist & o & k & a & w' & Hh & Hr & He & ->).
    assert (Hp : exists p, nth_error ps j = Some p /\ resume p (rev hist) = Some (Vis o k)).
    { unfold residual in Hr. destruct (nth_error ps j) as [p|]; [|discriminate].
      rewrite Hh in Hr. eauto. }
    destruct Hp as (p & Hp & Hrs).
    assert (Hjh : j < length (fst c)) by (rewrite Hlen; exact Hj).
    assert (Hlen' : forall x : list ans, length (upd_nth j x (fst c)) = length ps).
    { intros. rewrite upd_nth_length. exact Hlen. }
    assert (Hactin : forall i, act = Some i -> In i once).
    { intros i ->. destruct Hact as [H _]. exact H. }
    assert (Hactord : forall i, act = Some i -> ~ In i ord).
    { intros i ->. destruct Hact as (_ & H & _). exact H. }
    destruct (in_dec Nat.eq_dec j once) as [Hjo|Hjo];
      [destruct (in_dec Nat.eq_dec j ord) as [Hjd|Hjd];
         [|assert (Hdec : act = Some j \/ act <> Some j)
             by (destruct act as [i|]; [destruct (Nat.eq_dec i j); [left; congruence | right; congruence]
                                       | right; discriminate]);
           destruct Hdec as [Hja|Hja]]|].
    - (* (D) j has left its critical section: it gives its private lock back *)
      destruct (Forall2_in_l Hres Hjd) as [r0 Hal].
      destruct Hal as [Hal|(k' & Hk1 & Hk2 & Hk3)].
      { exfalso. unfold thread_result in Hal. rewrite Hp, Hh, Hrs in Hal. discriminate. }
      rewrite Hr in Hk1. inversion Hk1; subst o k'. clear Hk1.
      rewrite (release_held j (pl j) (snd c) Hk3) in He. inversion He; subst a w'. clear He.
      assert (Hne : forall i, In i once -> i <> j -> pl i <> pl j).
      { intros i Hi Hij E. apply Hij. apply Hinj; auto. }
      assert (Hkeep : forall i, In i once -> i <> j -> In (pl i) (locks (snd c)) ->
                In (pl i) (remove1 lock_eqb (pl j) (locks (snd c)))).
      { intros i Hi Hij Hin. apply In_remove1_neq; auto. }
      exists once, ord, act. split.
      + unfold BInv2. split; [simpl; apply Hlen'|]. split; [exact Hnd|]. split; [exact Hsub|].
        split; [exact Hwr|]. split; [|split].
        * intros i Hi Hni. simpl. rewrite nth_error_upd_nth_neq by (intros ->; contradiction).
          apply Hidle; auto.
        * intros i Hi Hni Hai. simpl.
          assert (Hij : i <> j) by (intros ->; contradiction).
          rewrite nth_error_upd_nth_neq by exact Hij.
          destruct (Hone i Hi Hni Hai) as [H1 H2]. split; auto.
        * exists w1, rs. split; [exact Hseq|]. split; [exact Hl1|]. split; [exact Hrt1|]. split.
          { eapply Forall2_mono_in; [exact Hres|]. intros i r Hi Hal.
            destruct (Nat.eq_dec i j) as [->|Hij].
            - left. destruct Hal as [Hal|(k'' & Hq1 & Hq2 & _)].
              + exfalso. unfold thread_result in Hal. rewrite Hp, Hh, Hrs in Hal. discriminate.
              + rewrite Hr in Hq1. inversion Hq1; subst k''.
                unfold thread_result. simpl. rewrite Hp.
                rewrite nth_error_upd_nth_eq by exact Hjh. simpl.
                rewrite resume_app, Hrs. simpl. rewrite Hq2. reflexivity.
            - destruct Hal as [Hal|(k'' & Hq1 & Hq2 & Hq3)].
              + left. rewrite thread_result_upd_neq by exact Hij. exact Hal.
              + right. exists k''. rewrite residual_upd_neq by exact Hij.
                split; [exact Hq1|]. split; [exact Hq2|]. simpl. apply Hkeep; auto. }
          destruct act as [i|].
          { destruct Hact as (Ha1 & Ha2 & p' & hist' & m & ws & Hp' & Hh' & Hsolo & Hcs & Hsim & HL & Hli & Hli').
            assert (Hij : i <> j) by (intros ->; contradiction).
            split; [exact Ha1|]. split; [exact Ha2|]. exists p', hist', m, ws.
            split; [exact Hp'|]. split; [simpl; rewrite nth_error_upd_nth_neq by exact Hij; exact Hh'|].
            split; [exact Hsolo|]. split; [exact Hcs|]. split; [apply sim_rel_priv; auto|].
            split; [exact HL|]. split; [exact Hli|]. simpl. apply Hkeep; auto. }
          { apply sim_rel_priv; auto. }
      + unfold note2. simpl.
        assert (E1 : existsb (Nat.eqb j) once = true) by (apply existsb_eqb_In; exact Hjo).
        assert (E2 : existsb (Nat.eqb j) (ord ++ oact act) = true).
        { apply existsb_eqb_In. apply in_or_app. left. exact Hjd. }
        rewrite E1, E2. reflexivity.
    - (* (C) j is inside its critical section *)
      subst act.
      destruct Hact as (_ & _ & p' & hist' & m & ws & Hp' & Hh' & Hsolo & Hcs & Hsim & HL & Hli & Hli').
      rewrite Hp in Hp'. inversion Hp'; subst p'. rewrite Hh in Hh'. inversion Hh'; subst hist'.
      pose proof (Solo_resume Hsolo) as Hrs'. rewrite Hrs in Hrs'. inversion Hrs'; subst m.
      assert (E1 : existsb (Nat.eqb j) once = true) by (apply existsb_eqb_In; exact Hjo).
      simpl in Hcs. destruct Hcs as [(-> & k' & r & Ek & Ek')|[Hq Hk]].
      + (* Release L: the critical section ends *)
        assert (HLc : In L (locks (snd c))).
        { apply memb_lock_In. destruct Hsim as [_ Hf]. rewrite (np_memb priv L _ _ HprivL Hf).
          apply memb_lock_In. exact HL. }
        rewrite (release_held j L (snd c) HLc) in He. inversion He; subst a w'. clear He.
        set (ws1 := set_locks ws (remove1 lock_eqb L (locks ws))).
        set (ws2 := set_locks ws1 (remove1 lock_eqb (pl j) (locks ws1))).
        assert (Hli1 : In (pl j) (locks ws1)).
        { unfold ws1. simpl. apply In_remove1_neq; auto. apply pl_neq_L. }
        pose proof (Solo_snoc Hsolo (release_held j L ws HL)) as Hs1. fold ws1 in Hs1.
        rewrite Ek in Hs1.
        pose proof (Solo_snoc Hs1 (release_held j (pl j) ws1 Hli1)) as Hs2. fold ws2 in Hs2.
        rewrite Ek' in Hs2.
        pose proof (Solo_run Hs2) as Hrun.
        destruct (seq_total j p w1 Hp Hl1 Hrt1) as (w2 & r2 & Hrun2 & Hl2 & Hrt2).
        rewrite Hrun in Hrun2. inversion Hrun2; subst w2 r2. clear Hrun2.
        assert (Hsim2 : sim priv (set_locks (snd c) (remove1 lock_eqb L (locks (snd c)))) ws2).
        { unfold ws2. apply sim_rel_priv_r; auto. unfold ws1. apply sim_rel_both; auto. }
        exists once, (ord ++ [j]), None. split.
        * unfold BInv2. split; [simpl; apply Hlen'|]. split; [apply NoDup_snoc; auto|].
          split; [intros i Hi; apply in_app_or in Hi; destruct Hi as [Hi|[<-|[]]]; auto|].
          split; [exact Hwr|]. split; [|split].
          { intros i Hi Hni. simpl. rewrite nth_error_upd_nth_neq by (intros ->; contradiction).
            apply Hidle; auto. }
          { intros i Hi Hni _. simpl.
            assert (Hij : i <> j) by (intros ->; apply Hni; apply in_or_app; right; left; reflexivity).
            assert (Hni' : ~ In i ord) by (intros H; apply Hni; apply in_or_app; left; exact H).
            rewrite nth_error_upd_nth_neq by exact Hij.
            destruct (Hone i Hi Hni') as [H1 H2]; [congruence|]. split; auto.
            apply In_remove1_neq; auto. apply pl_neq_L. }
          exists ws2, (rs ++ [r]). split; [eapply seq_runp_snoc; eauto|].
          split; [exact Hl2|]. split; [exact Hrt2|]. split; [|exact Hsim2].
          apply Forall2_app.
          { eapply Forall2_mono_in; [exact Hres|]. intros i r' Hi Hal.
            eapply almost_keep; eauto.
            - intros ->; contradiction.
            - apply (release_held j L (snd c) HLc).
            - intros cls y E. inversion E; subst. rewrite lock_eta. intros E'.
              apply (pl_neq_L i). symmetry. exact E'. }
          constructor; [|constructor].
          right. exists k'. split; [|split; [exact Ek'|]].
          { unfold residual. simpl. rewrite Hp. rewrite nth_error_upd_nth_eq by exact Hjh. simpl.
            rewrite resume_app, Hrs. simpl. rewrite Ek. reflexivity. }
          simpl. apply In_remove1_neq; auto. apply pl_neq_L.
        * unfold note2. simpl. rewrite E1.
          assert (E2 : existsb (Nat.eqb j) (ord ++ [j]) = true).
          { apply existsb_eqb_In. apply in_or_app. right. left. reflexivity. }
          rewrite E2, app_nil_r. reflexivity.
      + (* a quiet operation *)
        destruct (sim_step priv j L (pl j) o (snd c) ws a w' Hsim Hli' Hli Hq He) as (ws' & He' & Hsim').
        pose proof (Solo_snoc Hsolo He') as Hsolo'.
        assert (Hnorel : forall l, priv l = true -> forall cls y, o = Release cls y -> (cls, y) <> l).
        { intros l Hl cls y -> E. simpl in Hq. destruct Hq as [Hq _]. rewrite E, Hl in Hq. discriminate. }
        exists once, ord, (Some j). split.
        * unfold BInv2. split; [simpl; apply Hlen'|]. split; [exact Hnd|]. split; [exact Hsub|].
          split; [exact Hwr|]. split; [|split].
          { intros i Hi Hni. simpl. rewrite nth_error_upd_nth_neq by (intros ->; contradiction).
            apply Hidle; auto. }
          { intros i Hi Hni Hai. simpl.
            assert (Hij : i <> j) by (intros ->; apply Hai; reflexivity).
            rewrite nth_error_upd_nth_neq by exact Hij.
            destruct (Hone i Hi Hni Hai) as [H1 H2]. split; auto.
            eapply exec_keeps_lock; eauto. }
          exists w1, rs. split; [exact Hseq|]. split; [exact Hl1|]. split; [exact Hrt1|]. split.
          { eapply Forall2_mono_in; [exact Hres|]. intros i r' Hi Hal.
            eapply almost_keep; eauto. intros ->; contradiction. }
          split; [exact Hjo|]. split; [exact Hjd|].
          exists p, (a :: hist), (k a), ws'. split; [exact Hp|].
          split; [simpl; apply nth_error_upd_nth_eq; exact Hjh|].
          split; [exact Hsolo'|]. split; [apply Hk|]. split; [exact Hsim'|].
          split; [|split].
          { eapply exec_keeps_lock; eauto. intros cls y -> E. simpl in Hq. destruct Hq as [_ Hq].
            contradiction. }
          { eapply exec_keeps_lock; eauto. }
          { simpl. eapply exec_keeps_lock; eauto. }
        * unfold note2. simpl. rewrite E1.
          assert (E2 : existsb (Nat.eqb j) (ord ++ [j]) = true).
          { apply existsb_eqb_In. apply in_or_app. right. left. reflexivity. }
          rewrite E2. reflexivity.
    - (* (B) j holds its private lock only: it takes L *)
      destruct (Hone j Hjo Hjd Hja) as [Hh1 Hlj]. rewrite Hh in Hh1. inversion Hh1; subst hist.
      destruct (Hwr j Hjo) as (p' & Hp' & k1 & k2 & Ep & Ek1 & Hcs).
      rewrite Hp in Hp'. injection Hp' as <-.
      rewrite Ep in Hrs. simpl in Hrs. rewrite Ek1 in Hrs. inversion Hrs; subst o k. clear Hrs.
      destruct (acquire_inv _ _ _ _ _ _ He) as (-> & -> & HnL). rewrite lock_eta in HnL.
      destruct act as [i|].
      { exfalso. destruct Hact as (_ & _ & p' & hist' & m & ws & _ & _ & _ & _ & Hsim & HL & _).
        apply HnL. apply memb_lock_In. destruct Hsim as [_ Hf]. rewrite (np_memb priv L _ _ HprivL Hf).
        apply memb_lock_In. exact HL. }
      set (ws := set_locks w1 [L; pl j]).
      assert (Hsolo : Solo j p w1 [AUnit; AUnit] ws (k2 AUnit)).
      { rewrite Ep. eapply solo_cons with (w1 := set_locks w1 [pl j]).
        - simpl. rewrite Hl1. simpl. rewrite lock_eta. reflexivity.
        - rewrite Ek1. eapply solo_cons; [|apply solo_nil].
          simpl. rewrite lock_eta.
          destruct (lock_eqb L (pl j)) eqn:E.
          + apply lock_eqb_true in E. exfalso. apply (pl_neq_L j). symmetry. exact E.
          + reflexivity. }
      exists once, ord, (Some j). split.
      + unfold BInv2. split; [simpl; apply Hlen'|]. split; [exact Hnd|]. split; [exact Hsub|].
        split; [exact Hwr|]. split; [|split].
        * intros i Hi Hni. simpl. rewrite nth_error_upd_nth_neq by (intros ->; contradiction).
          apply Hidle; auto.
        * intros i Hi Hni Hai. simpl.
          assert (Hij : i <> j) by (intros ->; apply Hai; reflexivity).
          rewrite nth_error_upd_nth_neq by exact Hij.
          destruct (Hone i Hi Hni) as [H1 H2]; [discriminate|]. split; [exact H1|]. right. exact H2.
        * exists w1, rs. split; [exact Hseq|]. split; [exact Hl1|]. split; [exact Hrt1|]. split.
          { eapply Forall2_mono_in; [exact Hres|]. intros i r' Hi Hal.
            eapply almost_keep; eauto.
            - intros ->; contradiction.
            - intros cls y E. discriminate. }
          split; [exact Hjo|]. split; [exact Hjd|].
          exists p, [AUnit; AUnit], (k2 AUnit), ws. split; [exact Hp|].
          split; [simpl; apply nth_error_upd_nth_eq; exact Hjh|].
          split; [exact Hsolo|]. split; [exact Hcs|]. split; [|split; [|split]].
          { destruct Hact as [Hf1 Hf2]. split; simpl; auto.
            rewrite lock_eta.
            assert (Hn1 : np priv L = true) by (unfold np; rewrite HprivL; reflexivity).
            assert (Hn2 : np priv (pl j) = false) by (unfold np; rewrite (Hpriv j); reflexivity).
            rewrite !Hn1, Hn2. f_equal. rewrite Hf2, Hl1. reflexivity. }
          { left. reflexivity. }
          { right. left. reflexivity. }
          { simpl. right. exact Hlj. }
      + unfold note2. simpl.
        assert (E1 : existsb (Nat.eqb j) once = true) by (apply existsb_eqb_In; exact Hjo).
        assert (E2 : existsb (Nat.eqb j) (ord ++ []) = false).
        { apply existsb_false_notin. rewrite app_nil_r. exact Hjd. }
        rewrite E1, E2, app_nil_r. reflexivity.
    - (* (A) j has not started: it takes its private lock *)
      pose proof (Hidle j Hj Hjo) as Hh0. rewrite Hh in Hh0. inversion Hh0; subst hist.
      simpl in Hrs. rewrite resume_nil in Hrs.
      assert (Ep : p = Vis o k) by congruence.
      assert (Hwj : writer_at j).
      { exists p. split; auto. destruct (Hshape j _ Hp) as [[r E]|H]; auto. congruence. }
      destruct Hwj as (p' & Hp' & k1 & k2 & Ep' & Ek1 & Hcs).
      rewrite Hp in Hp'. injection Hp' as <-.
      rewrite Ep in Ep'. inversion Ep'; subst o k. clear Ep'.
      destruct (acquire_inv _ _ _ _ _ _ He) as (-> & -> & HnL). rewrite lock_eta in *.
      assert (Hjord : ~ In j ord) by (intros H; apply Hjo; apply Hsub; exact H).
      exists (j :: once), ord, act. split.
      + unfold BInv2. split; [simpl; apply Hlen'|]. split; [exact Hnd|].
        split; [intros i Hi; right; apply Hsub; exact Hi|].
        split.
        { intros i [<-|Hi]; [|apply Hwr; exact Hi].
          exists p. split; [exact Hp|]. exists k1, k2. split; [exact Ep|]. split; [exact Ek1 | exact Hcs]. }
        split; [|split].
        * intros i Hi Hni. simpl.
          rewrite nth_error_upd_nth_neq by (intros ->; apply Hni; left; reflexivity).
          apply Hidle; auto. intros H. apply Hni. right. exact H.
        * intros i Hi Hni Hai. simpl. destruct Hi as [<-|Hi].
          { rewrite nth_error_upd_nth_eq by exact Hjh. split; [reflexivity|]. left. reflexivity. }
          assert (Hij : i <> j) by (intros ->; contradiction).
          rewrite nth_error_upd_nth_neq by exact Hij.
          destruct (Hone i Hi Hni Hai) as [H1 H2]. split; [exact H1|]. right. exact H2.
        * exists w1, rs. split; [exact Hseq|]. split; [exact Hl1|]. split; [exact Hrt1|]. split.
          { eapply Forall2_mono_in; [exact Hres|]. intros i r' Hi Hal.
            eapply almost_keep; eauto.
            - intros ->; contradiction.
            - intros cls y E. discriminate. }
          destruct act as [i|].
          { destruct Hact as (Ha1 & Ha2 & p' & hist' & m & ws & Hp' & Hh' & Hsolo & Hcs' & Hsim & HL & Hli & Hli').
            assert (Hij : i <> j) by (intros ->; contradiction).
            split; [right; exact Ha1|]. split; [exact Ha2|]. exists p', hist', m, ws.
            split; [exact Hp'|]. split; [simpl; rewrite nth_error_upd_nth_neq by exact Hij; exact Hh'|].
            split; [exact Hsolo|]. split; [exact Hcs'|]. split; [apply sim_acq_priv; auto|].
            split; [exact HL|]. split; [exact Hli|]. simpl. right. exact Hli'. }
          { apply sim_acq_priv; auto. }
      + unfold note2. simpl.
        assert (E1 : existsb (Nat.eqb j) once = false) by (apply existsb_false_notin; exact Hjo).
        rewrite E1. reflexivity.
  Qed.

  Lemma BInv2_exec : forall sched c once ord act c',
    BInv2 c once ord act -> exec ps sched c = Some c' ->
    exists once' ord' act', BInv2 c' once' ord' act' /\
      (once', ord' ++ oact act') = fold_left note2 sched (once, ord ++ oact act).
  Proof.
    induction sched as [|j s IH]; intros c once ord act c' HB He; simpl in He.
    - inversion He; subst. exists once, ord, act. auto.
    - destruct (thread_step ps c j) as [c1|] eqn:E; [|discriminate].
      destruct (BInv2_step _ _ _ _ _ _ HB E) as (once1 & ord1 & act1 & HB1 & E1).
      destruct (IH _ _ _ _ _ HB1 He) as (once2 & ord2 & act2 & HB2 & E2).
      exists once2, ord2, act2. split; auto. simpl. rewrite <- E1. exact E2.
  Qed.

  Theorem two_lock_pool : forall sched c,
    exec ps sched (init_cfg ps w0) = Some c -> stuck ps c ->
    finished ps c = true /\ locks (snd c) = [] /\
    exists w' rs,
      let ord := cs_order sched ++ inert2 (length ps) sched in
      NoDup ord /\ (forall i, In i ord <-> i < length ps) /\
      seq_runp A ps ord w0 = Some (w', rs) /\
      snd c = w' /\
      map (thread_result ps c) ord = map Some rs.
  Proof.
    intros sched c He Hst.
    assert (Hfin : finished ps c = true /\ locks (snd c) = [] /\ refs_typed (fs (snd c))).
    { apply stuck_finished; auto. eapply Inv_reachable; eauto.
      eapply exec_reachable; [apply reach_init | exact He]. }
    destruct Hfin as (Hf1 & Hf2 & _). split; [exact Hf1|]. split; [exact Hf2|].
    destruct (BInv2_exec _ _ _ _ _ _ BInv2_init He) as (once & ord & act & HB & Eord). simpl in Eord.
    assert (Eo : cs_order sched = ord ++ oact act).
    { unfold cs_order. rewrite <- Eord. reflexivity. }
    destruct HB as (Hlen & Hnd & Hsub & Hwr & Hidle & Hone & w1 & rs & Hseq & Hl1 & Hrt1 & Hres & Hact).
    assert (Hsome : forall i, i < length ps -> exists r, thread_result ps c i = Some r).
    { intros i Hi. unfold finished in Hf1. rewrite forallb_forall in Hf1.
      assert (Hin : In (thread_result ps c i) (results ps c)).
      { unfold results. apply in_map. apply in_seq. lia. }
      specialize (Hf1 _ Hin).
      destruct (thread_result ps c i) as [r|]; [eauto | discriminate]. }
    destruct act as [i|].
    { (* a thread inside its critical section has not returned *)
      exfalso. destruct Hact as (_ & _ & p & hist & m & ws & Hp & Hh & Hsolo & Hcs & _).
      assert (Hi : i < length ps) by (apply nth_error_Some; congruence).
      destruct (Hsome i Hi) as [r Hr]. unfold thread_result in Hr. rewrite Hp, Hh in Hr.
      rewrite (Solo_resume Hsolo) in Hr. destruct m; try discriminate. contradiction. }
    simpl in Eo. rewrite app_nil_r in Eo.
    assert (Hordlt : forall i, In i ord -> i < length ps).
    { intros i Hi. destruct (Hwr i (Hsub i Hi)) as (p & Hp & _). apply nth_error_Some. congruence. }
    (* the threads outside the order are the ones that returned at once *)
    assert (Hin : forall i, In i (inert2 (length ps) sched) ->
              exists r, nth_error ps i = Some (Ret r) /\ thread_result ps c i = Some r).
    { intros i Hi. unfold inert2 in Hi. apply filter_In in Hi. destruct Hi as [Hi Hn].
      apply in_seq in Hi. assert (Hilt : i < length ps) by lia.
      assert (Hni : ~ In i ord).
      { intros H. rewrite Eo in Hn. apply existsb_eqb_In in H. rewrite H in Hn. discriminate. }
      destruct (Hsome i Hilt) as [r Hr].
      assert (Hnonce : ~ In i once).
      { intros Hio. destruct (Hone i Hio Hni) as [Hh _]; [discriminate|].
        destruct (Hwr i Hio) as (p & Hp & k1 & k2 & -> & Ek1 & _).
        unfold thread_result in Hr. rewrite Hp, Hh in Hr. simpl in Hr. rewrite Ek1 in Hr.
        discriminate. }
      assert (Hh : nth_error (fst c) i = Some []) by (apply Hidle; auto).
      unfold thread_result in Hr.
      destruct (nth_error ps i) as [p|] eqn:Ep; [|discriminate]. rewrite Hh in Hr. simpl in Hr.
      destruct p; try discriminate. inversion Hr; subst. exists r. split; auto.
      unfold thread_result. rewrite Ep, Hh. reflexivity. }
    assert (Hrest : forall l, (forall i, In i l -> In i (inert2 (length ps) sched)) ->
              exists rs2, seq_runp A ps l w1 = Some (w1, rs2) /\ map (thread_result ps c) l = map Some rs2).
    { induction l as [|i l IH]; intros Hl.
      - exists []. auto.
      - destruct (Hin i (Hl i (or_introl eq_refl))) as (r & Hp & Hr).
        destruct IH as (rs2 & H1 & H2); [intros x Hx; apply Hl; right; exact Hx|].
        exists (r :: rs2). simpl. rewrite Hp. simpl. rewrite H1, Hr, H2. auto. }
    destruct (Hrest (inert2 (length ps) sched)) as (rs2 & Hs2 & Hr2); [auto|].
    exists w1, (rs ++ rs2). cbv zeta. rewrite Eo. split; [|split; [|split; [|split]]].
    - apply NoDup_app_disj; auto.
      + unfold inert2. apply NoDup_filter. apply seq_NoDup.
      + intros x Hx Hx'. unfold inert2 in Hx'. apply filter_In in Hx'. destruct Hx' as [_ Hn].
        rewrite Eo in Hn. apply existsb_eqb_In in Hx. rewrite Hx in Hn. discriminate.
    - intros i. split.
      + intros Hi. apply in_app_or in Hi. destruct Hi as [Hi|Hi]; auto.
        unfold inert2 in Hi. apply filter_In in Hi. destruct Hi as [Hi _]. apply in_seq in Hi. lia.
      + intros Hi. destruct (existsb (Nat.eqb i) ord) eqn:E.
        * apply in_or_app. left. apply existsb_eqb_In. exact E.
        * apply in_or_app. right. unfold inert2. apply filter_In. split; [apply in_seq; lia|].
          rewrite Eo, E. reflexivity.
    - eapply seq_runp_app; eauto.
    - apply (sim_nolocks priv); auto.
    - rewrite !map_app. f_equal; auto.
      eapply Forall2_map_some; [exact Hres|]. intros i r Hi [H|(k' & H1 & _)]; auto.
      exfalso. destruct (Hsome i (Hordlt i Hi)) as [r' Hr'].
      unfold thread_result in Hr'. unfold residual in H1.
      destruct (nth_error ps i); [|discriminate]. destruct (nth_error (fst c) i); [|discriminate].
      rewrite H1 in Hr'. discriminate.
  Qed.
End TwoLocks.

(* ====================================================================================== *)
(* §4  the taggers of one cid                                                              *)
(* ====================================================================================== *)

(* the private locks: the reference-pid locks *)
Definition ref_priv (l : lock) : bool := lockcls_eqb (fst l) LRefPid.
Definition cid_lock (c : cid) : lock := (LCid, ICid c).
Definition pid_lock (p : pid) : lock := (LRefPid, IPid p).

(* the operations of tag_object p c between its two acquisitions and its two releases: file
   operations, the flock of a reference file, and the tests whether a cid lock or the pid lock of
   p itself is held *)
Definition tagop (p : pid) (o : op) : Prop :=
  match o with
  | Acquire cls _ | Release cls _ => cls = LFile
  | Peek cls x | Held cls x => cls = LCid \/ (cls, x) = pid_lock p
  | _ => True
  end.

Lemma tagop_quiet : forall p c o, tagop p o -> quiet ref_priv (cid_lock c) (pid_lock p) o.
Proof.
  intros p c o H. destruct o; simpl in *; auto.
  - subst. split; [reflexivity | discriminate].
  - subst. split; [reflexivity | discriminate].
  - destruct H as [->|H]; [left; reflexivity | right; exact H].
  - destruct H as [->|H]; [left; reflexivity | right; exact H].
Qed.

Lemma Ops_mono : forall (P Q : op -> Prop) A (m : prog A),
  (forall o, P o -> Q o) -> Ops P m -> Ops Q m.
Proof.
  induction m as [a|o k IH|]; simpl; intros HPQ H; auto.
  destruct H as [Ho Hk]. split; auto.
Qed.

Create HintDb opsdb.

Ltac ops1 :=
  lazymatch goal with
  | |- Ops _ (mbind _ _) => apply Ops_mbind; [|intros ?]
  | |- Ops _ (catch _) => apply Ops_catch
  | |- Ops _ (try_finally _ _) => apply Ops_try_finally
  | |- Ops _ (probe _) => apply Ops_probe
  | |- Ops _ (read _) => apply Ops_read
  | |- Ops _ (unit_op _) => apply Ops_unit_op
  | |- Ops _ (swallow_op _) => apply Ops_swallow_op
  | |- Ops _ (size_lines _) => apply Ops_size_lines
  | |- Ops _ (mktmp _ _) => apply Ops_mktmp
  | |- Ops _ (rewrite_write _ _) => apply Ops_rewrite_write
  | |- Ops _ (Ops.held _ _) => apply Ops_held
  | |- Ops _ (funlock _) => apply Ops_funlock
  | |- Ops _ (ret _) => exact I
  | |- Ops _ (raise _) => exact I
  | |- Ops _ Bad => exact I
  | |- Ops _ (if ?b then _ else _) => destruct b
  | |- Ops _ (match ?x with _ => _ end) => destruct x
  | |- tagop _ _ => solve [simpl; auto]
  | |- _ => solve [auto with opsdb]
  end.
Ltac ops := repeat ops1.

Section TagOps.
  Variable p : pid.
  Let P := tagop p.

  Lemma Ops_read_cid : forall a, Ops P (read_cid a).
  Proof. intros. unfold read_cid, P. ops. Qed.
  Lemma Ops_read_lines : forall a, Ops P (read_lines a).
  Proof. intros. unfold read_lines, P. ops. Qed.
  Hint Resolve Ops_read_cid Ops_read_lines : opsdb.
  Lemma Ops_is_in_refs : forall q a, Ops P (is_in_refs q a).
  Proof. intros. unfold is_in_refs, P. ops. Qed.
  Hint Resolve Ops_is_in_refs : opsdb.
  Lemma Ops_find_object : forall q, Ops P (find_object q).
  Proof. intros. unfold find_object, P. ops. Qed.
  Lemma Ops_rename_for_deletion : forall a, Ops P (rename_for_deletion a).
  Proof. intros. unfold rename_for_deletion, P. ops. Qed.
  Lemma Ops_delete_marked : forall l, Ops P (delete_marked l).
  Proof.
    induction l as [|a l IH]; [exact I|].
    change (Ops P (swallow_op (Remove a) ;;; delete_marked l)).
    apply Ops_mbind; [apply Ops_swallow_op; exact I | intros _; exact IH].
  Qed.
  Hint Resolve Ops_find_object Ops_rename_for_deletion Ops_delete_marked : opsdb.
  Lemma Ops_update_refs_remove : forall a q, Ops P (update_refs_remove a q).
  Proof. intros. unfold update_refs_remove, P. ops. Qed.
  Lemma Ops_update_refs_add : forall a q, Ops P (update_refs_add a q).
  Proof. intros. unfold update_refs_add, P. ops. Qed.
  Lemma Ops_verify_refs : forall q c, Ops P (verify_refs q c).
  Proof. intros. unfold verify_refs, P. ops. Qed.
  Lemma Ops_write_refs_tmp : forall content, Ops P (write_refs_tmp content).
  Proof. intros. unfold write_refs_tmp, P. ops. Qed.
  Lemma Ops_validate : forall c c', Ops P (validate_and_check_cid_lock c c').
  Proof. intros. unfold validate_and_check_cid_lock, P. ops. Qed.
  Hint Resolve Ops_update_refs_remove Ops_update_refs_add Ops_verify_refs Ops_write_refs_tmp
    Ops_validate : opsdb.
  Lemma Ops_mark_pid_refs : forall q, Ops P (mark_pid_refs q).
  Proof. intros. unfold mark_pid_refs, P. ops. Qed.
  Lemma Ops_remove_pid_and_handle_cid : forall q c, Ops P (remove_pid_and_handle_cid q c).
  Proof. intros. unfold remove_pid_and_handle_cid, P. ops. Qed.
  Hint Resolve Ops_mark_pid_refs Ops_remove_pid_and_handle_cid : opsdb.
  Lemma Ops_untag_object : forall c, Ops P (untag_object p c).
  Proof. intros. unfold untag_object, P. ops. Qed.
  Lemma Ops_store_refs_body : forall c, Ops P (store_refs_body p c).
  Proof. intros. unfold store_refs_body, and_sc, notm, P. ops. Qed.
End TagOps.

(* the part of tag_object inside both locks *)
Definition tag_body (p : pid) (c : cid) : M unit :=
  r <- catch (store_refs_body p c) ;;
  match r with
  | Val _ => ret tt
  | Exn EHashStoreRefsAlreadyExists => raise EHashStoreRefsAlreadyExists
  | Exn EPidRefsAlreadyExists => raise EPidRefsAlreadyExists
  | Exn ue => untag_object p c ;;; raise ue
  end.

Lemma tag_object_brackets : forall p c,
  tag_object p c =
  try_finally (acquire LRefPid (IPid p) ;;; acquire LCid (ICid c) ;;; tag_body p c)
              (release LCid (ICid c) ;;; release LRefPid (IPid p)).
Proof. reflexivity. Qed.

Lemma Ops_tag_body : forall p c, Ops (tagop p) (tag_body p c).
Proof.
  intros. unfold tag_body. apply Ops_mbind.
  - apply Ops_catch. apply Ops_store_refs_body.
  - intros [u|e]; [exact I|].
    destruct e; try exact I;
      (apply Ops_mbind; [apply Ops_untag_object | intros _; exact I]).
Qed.

(* Acquire l1 ; Acquire l2 ; body ; Release l2 ; Release l1, as Python's try/finally writes it *)
Lemma writer2_brackets : forall B priv c1 x1 c2 x2 (body : M B),
  Ops (quiet priv (c2, x2) (c1, x1)) body ->
  writer2 (outcome B) priv (c2, x2) (c1, x1)
    (try_finally (acquire c1 x1 ;;; acquire c2 x2 ;;; body) (release c2 x2 ;;; release c1 x1)).
Proof.
  intros B priv c1 x1 c2 x2 body Hb. unfold writer2.
  eexists. eexists. split; [reflexivity|]. split; [reflexivity|].
  simpl. apply CS2_bind; [exact Hb|].
  intros r. simpl. left. split; [reflexivity|].
  eexists. eexists. split; [reflexivity|]. simpl. destruct r; reflexivity.
Qed.

Lemma writer2_tag : forall p c,
  writer2 (outcome value) ref_priv (cid_lock c) (pid_lock p) (api (CTag p c)).
Proof.
  intros. unfold api, lift_unit. unfold mbind at 1. apply writer2_bind_pure.
  - rewrite tag_object_brackets. apply writer2_brackets.
    eapply Ops_mono; [|apply Ops_tag_body]. intros o. apply tagop_quiet.
  - intros [u|e]; eexists; reflexivity.
Qed.

(* the calls of the pools: tag_object calls on ONE cid c; calls that the argument checks reject
   (they perform no operation) may be among them *)
Definition one_cid_call (c : cid) (ci : call) : Prop :=
  match ci with
  | CTag _ c' => c' = c
  | CRejected _ => True
  | _ => False
  end.

(* thread i's private lock: the reference-pid lock of its pid *)
Definition tag_pl (calls : list call) (i : nat) : lock :=
  match nth_error calls i with
  | Some (CTag p _) => pid_lock p
  | _ => pid_lock 0
  end.

(* THE THEOREM.  Any number of tag_object calls with pairwise distinct pids on one cid, started in
   any world that holds no lock and whose reference files are typed (every world satisfying
   Spec.Inv), under ANY schedule: a configuration in which no thread can move is one in which every
   call has returned and no lock is held, and the final WORLD (file map and lock list) and every
   call's outcome are exactly those of running the calls one after the other in the order in
   which they acquired the CID lock (rejected calls, which do nothing, last). *)
Theorem one_cid_taggers_linearizable :
  forall (c : cid) (calls : list call) (w0 : world) (sched : list nat) (cf : cfg),
    locks w0 = [] -> refs_typed (fs w0) ->
    (forall ci, In ci calls -> one_cid_call c ci) ->
    (forall i j p q ci cj, nth_error calls i = Some (CTag p ci) -> nth_error calls j = Some (CTag q cj) ->
                           p = q -> i = j) ->
    exec (map api calls) sched (init_cfg (map api calls) w0) = Some cf ->
    stuck (map api calls) cf ->
    finished (map api calls) cf = true /\ locks (snd cf) = [] /\
    exists (w' : world) (rs : list (outcome value)),
      let ord := cs_order sched ++ inert2 (length calls) sched in
      NoDup ord /\ (forall i, In i ord <-> i < length calls) /\
      seq_run calls ord w0 = Some (w', rs) /\
      snd cf = w' /\
      map (thread_result (map api calls) cf) ord = map Some rs.
Proof.
  intros c calls w0 sched cf Hl Hrt Hcalls Hdist He Hst.
  assert (Hshape : forall i q, nth_error (map api calls) i = Some q ->
            (exists r, q = Ret r) \/ writer2 (outcome value) ref_priv (cid_lock c) (tag_pl calls i) q).
  { intros i q Hq. rewrite nth_error_map in Hq.
    destruct (nth_error calls i) as [ci|] eqn:E; [|discriminate]. inversion Hq; subst q.
    pose proof (Hcalls ci (nth_error_In _ _ E)) as Hc. unfold tag_pl. rewrite E.
    destruct ci; simpl in Hc; try contradiction.
    - subst. right. apply writer2_tag.
    - left. eexists. reflexivity. }
  assert (Hwat : forall i, writer_at (outcome value) (map api calls) (cid_lock c) (tag_pl calls) ref_priv i ->
            exists p ci, nth_error calls i = Some (CTag p ci) /\ tag_pl calls i = pid_lock p).
  { intros i (q & Hq & k1 & k2 & Eq & _). rewrite nth_error_map in Hq.
    destruct (nth_error calls i) as [ci|] eqn:E; [|discriminate]. inversion Hq; subst q.
    pose proof (Hcalls ci (nth_error_In _ _ E)) as Hc. unfold tag_pl. rewrite E.
    destruct ci; simpl in Hc; try contradiction; [eauto | discriminate]. }
  destruct (two_lock_pool (outcome value) (map api calls) (cid_lock c) (tag_pl calls) ref_priv w0)
    with (sched := sched) (c := cf) as (H1 & H2 & w' & rs & H3); auto.
  - intros i. unfold tag_pl. destruct (nth_error calls i) as [[]|]; reflexivity.
  - intros i j Hi Hj E. destruct (Hwat i Hi) as (p & ci & Ei & Pi). destruct (Hwat j Hj) as (q & cj & Ej & Pj).
    rewrite Pi, Pj in E. inversion E. eapply Hdist; eauto.
  - apply api_pool_ok.
  - split; [exact H1|]. split; [exact H2|]. exists w', rs.
    rewrite map_length in H3. cbv zeta in *. destruct H3 as (N1 & N2 & N3 & N4 & N5).
    split; [exact N1|]. split; [exact N2|].
    split; [|split; [exact N4 | exact N5]].
    rewrite <- seq_runp_seq_run; [exact N3|]. intros i Hi. apply N2 in Hi. exact Hi.
Qed.

(* the same from a world satisfying the store invariant *)
Theorem one_cid_taggers_linearizable_inv :
  forall (c : cid) (calls : list call) (w0 : world) (sched : list nat) (cf : cfg),
    Spec.Inv w0 ->
    (forall ci, In ci calls -> one_cid_call c ci) ->
    (forall i j p q ci cj, nth_error calls i = Some (CTag p ci) -> nth_error calls j = Some (CTag q cj) ->
                           p = q -> i = j) ->
    exec (map api calls) sched (init_cfg (map api calls) w0) = Some cf ->
    stuck (map api calls) cf ->
    finished (map api calls) cf = true /\ locks (snd cf) = [] /\
    exists (w' : world) (rs : list (outcome value)),
      let ord := cs_order sched ++ inert2 (length calls) sched in
      NoDup ord /\ (forall i, In i ord <-> i < length calls) /\
      seq_run calls ord w0 = Some (w', rs) /\
      snd cf = w' /\
      map (thread_result (map api calls) cf) ord = map Some rs.
Proof.
  intros c calls w0 sched cf HI. apply one_cid_taggers_linearizable.
  - destruct HI; auto.
  - apply well_typed_refs_typed. apply InvF_wt. destruct HI; auto.
Qed.

(* the pool written as a list of distinct pids *)
Corollary one_cid_pids_linearizable :
  forall (c : cid) (pids : list pid) (w0 : world) (sched : list nat) (cf : cfg),
    let calls := map (fun p => CTag p c) pids in
    locks w0 = [] -> refs_typed (fs w0) -> NoDup pids ->
    exec (map api calls) sched (init_cfg (map api calls) w0) = Some cf ->
    stuck (map api calls) cf ->
    finished (map api calls) cf = true /\ locks (snd cf) = [] /\
    exists (w' : world) (rs : list (outcome value)),
      let ord := cs_order sched ++ inert2 (length pids) sched in
      NoDup ord /\ (forall i, In i ord <-> i < length pids) /\
      seq_run calls ord w0 = Some (w', rs) /\
      snd cf = w' /\
      map (thread_result (map api calls) cf) ord = map Some rs.
Proof.
  intros c pids w0 sched cf calls Hl Hrt Hnd He Hst.
  pose proof (one_cid_taggers_linearizable c calls w0 sched cf Hl Hrt) as H.
  assert (El : length calls = length pids) by (unfold calls; apply map_length).
  rewrite El in H. apply H; auto.
  - intros ci Hci. unfold calls in Hci. apply in_map_iff in Hci. destruct Hci as (p & <- & _). reflexivity.
  - intros i j p q ci cj Hi Hj E. unfold calls in Hi, Hj. rewrite nth_error_map in Hi, Hj.
    destruct (nth_error pids i) as [pi|] eqn:Ei; [|discriminate].
    destruct (nth_error pids j) as [pj|] eqn:Ej; [|discriminate].
    inversion Hi; inversion Hj; subst.
    apply (proj1 (NoDup_nth_error pids) Hnd).
    + apply nth_error_Some. congruence.
    + congruence.
Qed.
