(* Spec.v — the direct functional specification of every API call on the file map
   ("what a reader of the README would write"), the representation invariant (which is
   property C05), and the abstraction to pid->cid / cid->object / (pid,format)->document maps.

   Refine.v proves that, from every state satisfying the invariant, the transcribed program of
   Ops.v (run by [run_seq]) returns exactly [snd (sem m c)] and leaves a file map pointwise equal
   to [fst (sem m c)], with all lock lists empty again. *)
From HS Require Import Base PyVal FS Ops.

Definition fs_eq (m1 m2 : fmap) : Prop := forall a, lookup a m1 = lookup a m2.

(* ---------- the specification ---------- *)

Definition present (a : addr) (m : fmap) : bool :=
  match lookup a m with Some _ => true | None => false end.

(* pid lookup: the classification of _find_object *)
Definition sem_find (m : fmap) (p : pid) : outcome cid :=
  match lookup (APidRef p) m with
  | Some (CCid c) =>
      match lookup (ACidRef c) m with
      | Some (CLines l) =>
          if memb Nat.eqb p l
          then (if present (AObj c) m then Val c else Exn ERefsFileExistsButCidObjMissing)
          else Exn EPidNotFoundInCidRefsFile
      | _ => Exn EOrphanPidRefsFileFound
      end
  | _ => Exn EPidRefsDoesNotExist
  end.

Definition sem_tag (m : fmap) (p : pid) (c : cid) : fmap * outcome unit :=
  match lookup (APidRef p) m, lookup (ACidRef c) m with
  | Some _, Some _ => (m, Exn EHashStoreRefsAlreadyExists)
  | Some _, None => (m, Exn EPidRefsAlreadyExists)
  | None, Some (CLines l) =>
      (update (APidRef p) (CCid c)
         (if memb Nat.eqb p l then m else update (ACidRef c) (CLines (l ++ [p])) m), Val tt)
  | None, Some _ => (m, Exn EGeneric)                       (* excluded by the invariant *)
  | None, None => (update (APidRef p) (CCid c) (update (ACidRef c) (CLines [p]) m), Val tt)
  end.

Definition src_ok (s : src) : bool := match s with SrcMissing => false | _ => true end.

Definition sem_store (m : fmap) (p : option pid) (s : src) (b n : nat) (sz : vsz) (ck : vck)
  : fmap * outcome value :=
  if negb (src_ok s) then (m, Exn EValueError) else
  match p with
  | None =>
      ((if present (AObj b) m then m else update (AObj b) (CData b n n) m), Val (VMeta b n))
  | Some p' =>
      match sz, ck with
      | VSzBad, _ => (m, Exn ENonMatchingObjSize)
      | _, VCkBad => (m, Exn ENonMatchingChecksum)
      | _, _ =>
          let m1 := if present (AObj b) m then m else update (AObj b) (CData b n n) m in
          match sem_tag m1 p' b with
          | (m2, Val _) => (m2, Val (VMeta b n))
          | (m2, Exn e) => (m2, Exn e)
          end
      end
  end.

Definition delete_all_meta (p : pid) (m : fmap) : fmap :=
  filter (fun kv => negb (owned_by p (fst kv))) m.

Definition sem_delete (m : fmap) (p : pid) : fmap * outcome value :=
  match lookup (APidRef p) m with
  | Some (CCid c) =>
      match lookup (ACidRef c) m with
      | Some (CLines l) =>
          let l' := filter_lines p l in
          let m1 := delete (APidRef p) m in
          let m2 := match l' with
                    | [] => delete (AObj c) (delete (ACidRef c) m1)
                    | _ => update (ACidRef c) (CLines l') m1
                    end in
          (delete_all_meta p m2, Val VUnit)
      | _ => (delete_all_meta p (delete (APidRef p) m), Val VUnit)    (* orphan pid reference *)
      end
  | _ => (m, Exn EPidRefsDoesNotExist)
  end.

Definition sem_del_invalid (m : fmap) (c : cid) (sz : vsz) (pre ok : bool) : fmap * outcome value :=
  let invalid (e : exn) :=
    if present (ACidRef c) m then (m, Exn e)
    else if present (AObj c) m then (delete (AObj c) m, Exn e)
    else (m, Exn EFileNotFound) in
  match sz with
  | VSzBad => invalid ENonMatchingObjSize
  | _ =>
      if pre then (if ok then (m, Val VUnit) else invalid ENonMatchingChecksum)
      else if present (AObj c) m
           then (if ok then (m, Val VUnit) else invalid ENonMatchingChecksum)
           else (m, Exn EFileNotFound)
  end.

Definition sem_store_meta (m : fmap) (p : pid) (f : fmt) (s : src) (v n : nat) : fmap * outcome value :=
  if negb (src_ok s) then (m, Exn EValueError)
  else (update (AMeta p f) (CData v n n) m, Val (VPath (AMeta p f))).

Definition sem_retr_meta (m : fmap) (p : pid) (f : fmt) : fmap * outcome value :=
  match lookup (AMeta p f) m with
  | Some c => (m, Val (VBytes c))
  | None => (m, Exn EValueError)
  end.

Definition sem_del_meta (m : fmap) (p : pid) (f : option fmt) : fmap * outcome value :=
  match f with
  | Some f' => (delete (AMeta p f') m, Val VUnit)
  | None => (delete_all_meta p m, Val VUnit)
  end.

Definition sem_retrieve (m : fmap) (p : pid) : fmap * outcome value :=
  match sem_find m p with
  | Val c => match lookup (AObj c) m with
             | Some x => (m, Val (VBytes x))
             | None => (m, Exn EFileNotFound)
             end
  | Exn e => (m, Exn e)
  end.

Definition sem (m : fmap) (c : call) : fmap * outcome value :=
  match c with
  | CStore p s b n sz ck => sem_store m p s b n sz ck
  | CTag p c' => match sem_tag m p c' with (m', Val _) => (m', Val VUnit) | (m', Exn e) => (m', Exn e) end
  | CDelete p => sem_delete m p
  | CDelInvalid c' sz pre ok => sem_del_invalid m c' sz pre ok
  | CStoreMeta p f s v n => sem_store_meta m p f s v n
  | CRetrMeta p f => sem_retr_meta m p f
  | CDelMeta p f => sem_del_meta m p f
  | CRetrieve p => sem_retrieve m p
  | CGetHex p => sem_retrieve m p
  | CRejected e => (m, Exn e)
  | CDeleteUnfixed p => sem_delete m p       (* not part of the refinement statement *)
  end.

Fixpoint sem_history (m : fmap) (h : list call) : fmap * list (outcome value) :=
  match h with
  | [] => (m, [])
  | c :: h' => let '(m', r) := sem m c in let '(m'', rs) := sem_history m' h' in (m'', r :: rs)
  end.

(* ---------- the representation invariant (= C05) ---------- *)

Definition well_typed (m : fmap) : Prop :=
  forall a x, lookup a m = Some x ->
    match a with
    | AObj c => exists n, x = CData c n n
    | APidRef _ => exists c, x = CCid c
    | ACidRef _ => exists l, x = CLines l
    | AMeta _ _ => exists v n, x = CData v n n
    | ATmp _ _ _ => False           (* no temporary file outlives a call *)
    | ADel _ => False               (* no deletion marker outlives a call *)
    end.

Definition InvF (m : fmap) : Prop :=
  well_typed m /\
  (* every bound pid appears in exactly the list of its cid *)
  (forall p c, lookup (APidRef p) m = Some (CCid c) ->
      exists l, lookup (ACidRef c) m = Some (CLines l) /\ In p l) /\
  (* no list is empty, repeats a pid, or names a pid that is not bound to that cid *)
  (forall c l, lookup (ACidRef c) m = Some (CLines l) ->
      l <> [] /\ NoDup l /\ forall p, In p l -> lookup (APidRef p) m = Some (CCid c)).

Definition Inv (w : world) : Prop := InvF (fs w) /\ locks w = [].

(* ---------- abstraction ---------- *)

Definition a_bind (m : fmap) (p : pid) : option cid :=
  match lookup (APidRef p) m with Some (CCid c) => Some c | _ => None end.
Definition a_refs (m : fmap) (c : cid) : option (list pid) :=
  match lookup (ACidRef c) m with Some (CLines l) => Some l | _ => None end.
Definition a_obj (m : fmap) (c : cid) : option fcontent := lookup (AObj c) m.
Definition a_meta (m : fmap) (p : pid) (f : fmt) : option fcontent := lookup (AMeta p f) m.
Definition referenced (m : fmap) (c : cid) : Prop := exists p, a_bind m p = Some c.

(* executable comparison used to validate the statement of the refinement before proving it *)
Definition fmap_eqb (m1 m2 : fmap) : bool :=
  forallb (fun a => option_eqb fcontent_eqb (lookup a m1) (lookup a m2)) (keys m1 ++ keys m2).

Definition outcome_eqb (a b : outcome value) : bool :=
  match a, b with
  | Val VUnit, Val VUnit => true
  | Val (VMeta c n), Val (VMeta c' n') => Nat.eqb c c' && Nat.eqb n n'
  | Val (VBytes x), Val (VBytes y) => fcontent_eqb x y
  | Val (VPath x), Val (VPath y) => addr_eqb x y
  | Exn e, Exn e' => exn_eqb e e'
  | _, _ => false
  end.

(* run the programs and the specification side by side; [Some k] = first call where they differ *)
Fixpoint sem_agrees (w : world) (h : list call) (k : nat) : option nat :=
  match h with
  | [] => None
  | c :: h' =>
      match run_seq w (api c) with
      | Some (w', r) =>
          let '(m', r') := sem (fs w) c in
          if outcome_eqb r r' && fmap_eqb (fs w') m' && match locks w' with [] => true | _ => false end
          then sem_agrees w' h' (S k) else Some k
      | None => Some k
      end
  end.
