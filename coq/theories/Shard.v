(* Shard.v -- model of FileHashStore._shard (filehashstore.py:2231-2266)
   and proofs that it matches the published layout
   ("shard splits off `depth` tokens of `width` characters followed by the
   remainder").

   Coq 8.16.1, stdlib only, no axioms. *)

Require Import List Arith Lia PeanoNat.
Import ListNotations.

Section Shard.
Context {A : Type}.

(* ------------------------------------------------------------------ *)
(* Model                                                               *)
(* ------------------------------------------------------------------ *)

(* Python [s[a:b]] for 0 <= a, b : clips to the length. *)
Definition slice (a b : nat) (s : list A) : list A :=
  firstn (b - a) (skipn a s).

(* Python [[item for item in items if item]] on a list of strings. *)
Definition compact (l : list (list A)) : list (list A) :=
  filter (fun x => match x with [] => false | _ => true end) l.

(* Direct transcription of the comprehension in [_shard]. *)
Definition shard_impl (d w : nat) (s : list A) : list (list A) :=
  compact (map (fun i => slice (i*w) (w*(i+1)) s) (seq 0 d)
           ++ [skipn (d*w) s]).

(* Independent spec, from the README sentence, by recursion on depth. *)
Fixpoint layout_spec (d w : nat) (s : list A) : list (list A) :=
  match d with
  | 0 => [s]
  | S d' => firstn w s :: layout_spec d' w (skipn w s)
  end.

(* ------------------------------------------------------------------ *)
(* Auxiliary lemmas                                                    *)
(* ------------------------------------------------------------------ *)

Lemma slice_width : forall i w s,
  slice (i*w) (w*(i+1)) s = firstn w (skipn (i*w) s).
Proof.
  intros i w s. unfold slice.
  replace (w*(i+1) - i*w) with w by lia.
  reflexivity.
Qed.

(* Not in the 8.16 stdlib. *)
Lemma skipn_skipn_add : forall x y (l : list A),
  skipn x (skipn y l) = skipn (y + x) l.
Proof.
  intros x y. induction y as [|y IH]; intros l.
  - reflexivity.
  - destruct l as [|a l].
    + cbn [Nat.add]. rewrite !skipn_nil. reflexivity.
    + cbn [Nat.add skipn]. apply IH.
Qed.

(* The unfiltered comprehension, shifted to start at index k. *)
Lemma unfiltered_shift : forall d w k s,
  map (fun i => slice (i*w) (w*(i+1)) s) (seq k d) ++ [skipn ((k+d)*w) s]
  = layout_spec d w (skipn (k*w) s).
Proof.
  induction d as [|d IH]; intros w k s.
  - cbn [seq map app layout_spec].
    replace (k + 0) with k by lia. reflexivity.
  - cbn [seq map app layout_spec].
    rewrite slice_width. f_equal.
    rewrite skipn_skipn_add.
    replace (k + S d) with (S k + d) by lia.
    rewrite IH.
    replace (S k * w) with (k * w + w) by lia.
    reflexivity.
Qed.

(* The unfiltered comprehension IS the layout spec, for all d w s. *)
Lemma unfiltered_eq_spec : forall d w s,
  map (fun i => slice (i*w) (w*(i+1)) s) (seq 0 d) ++ [skipn (d*w) s]
  = layout_spec d w s.
Proof.
  intros d w s.
  pose proof (unfiltered_shift d w 0 s) as H.
  cbn [Nat.add Nat.mul skipn] in H. exact H.
Qed.

Lemma compact_In : forall l t, In t (compact l) <-> In t l /\ t <> [].
Proof.
  intros l t. unfold compact. rewrite filter_In.
  split; intros [Hin Hne]; split; try exact Hin.
  - intros Heq. subst t. discriminate Hne.
  - destruct t as [|x t']; [contradiction Hne; reflexivity | reflexivity].
Qed.

Lemma compact_concat : forall l, concat (compact l) = concat l.
Proof.
  induction l as [|x l IH]; [reflexivity|].
  destruct x as [|a x']; cbn [compact filter concat app] in *.
  - exact IH.
  - unfold compact in IH. rewrite IH. reflexivity.
Qed.

Lemma compact_id : forall l,
  (forall t, In t l -> t <> []) -> compact l = l.
Proof.
  induction l as [|x l IH]; intros Hne; [reflexivity|].
  destruct x as [|a x'].
  - exfalso. apply (Hne []); [left; reflexivity | reflexivity].
  - cbn [compact filter]. f_equal. apply IH.
    intros t Hin. apply Hne. right. exact Hin.
Qed.

Lemma compact_length_le : forall l, length (compact l) <= length l.
Proof.
  induction l as [|x l IH]; [apply le_n|].
  unfold compact in *.
  destruct x as [|a x']; cbn [filter length]; lia.
Qed.

Lemma compact_app : forall l1 l2,
  compact (l1 ++ l2) = compact l1 ++ compact l2.
Proof. intros l1 l2. unfold compact. apply filter_app. Qed.

Lemma layout_concat : forall d w s, concat (layout_spec d w s) = s.
Proof.
  induction d as [|d IH]; intros w s; cbn [layout_spec concat].
  - apply app_nil_r.
  - rewrite IH. apply firstn_skipn.
Qed.

(* Shape of the layout when the string is long enough (<= suffices). *)
Lemma layout_lengths : forall d w s,
  d * w <= length s ->
  length (layout_spec d w s) = S d /\
  (forall i, i < d -> length (nth i (layout_spec d w s) []) = w) /\
  length (nth d (layout_spec d w s) []) = length s - d*w.
Proof.
  induction d as [|d IH]; intros w s Hlen.
  - cbn [layout_spec length nth Nat.mul]. repeat split.
    + intros i Hi. lia.
    + lia.
  - cbn [layout_spec length nth].
    assert (Hlen' : d * w <= length (skipn w s)).
    { rewrite skipn_length. cbn [Nat.mul] in Hlen. lia. }
    destruct (IH w (skipn w s) Hlen') as (H1 & H2 & H3).
    repeat split.
    + rewrite H1. reflexivity.
    + intros i Hi. destruct i as [|i].
      * rewrite firstn_length. cbn [Nat.mul] in Hlen. lia.
      * apply H2. lia.
    + rewrite H3. rewrite skipn_length. cbn [Nat.mul]. lia.
Qed.

(* No empty token in the layout when the remainder is non-empty. *)
Lemma layout_nonempty : forall d w s t,
  0 < w -> d * w < length s ->
  In t (layout_spec d w s) -> t <> [].
Proof.
  induction d as [|d IH]; intros w s t Hw Hlen Hin; cbn [layout_spec] in Hin.
  - destruct Hin as [Heq | []]. subst t.
    destruct s; [cbn in Hlen; lia | discriminate].
  - cbn [Nat.mul] in Hlen.
    destruct Hin as [Heq | Hin].
    + subst t. intros Hnil.
      apply (f_equal (@length A)) in Hnil.
      rewrite firstn_length in Hnil. cbn [length] in Hnil. lia.
    + apply (IH w (skipn w s) t Hw); [|exact Hin].
      rewrite skipn_length. lia.
Qed.

(* ------------------------------------------------------------------ *)
(* Main theorems                                                       *)
(* ------------------------------------------------------------------ *)

(* Holds for every d, w, s -- including w = 0. *)
Theorem shard_compact_spec_all : forall d w s,
  shard_impl d w s = compact (layout_spec d w s).
Proof.
  intros d w s. unfold shard_impl. rewrite unfiltered_eq_spec. reflexivity.
Qed.

(* As requested (hypothesis [0 < w] is in fact not needed; see
   [shard_compact_spec_all]). *)
Theorem shard_compact_spec : forall d w s,
  0 < w -> shard_impl d w s = compact (layout_spec d w s).
Proof. intros d w s _. apply shard_compact_spec_all. Qed.

Theorem shard_eq_spec : forall d w s,
  0 < w -> d * w < length s -> shard_impl d w s = layout_spec d w s.
Proof.
  intros d w s Hw Hlen.
  rewrite shard_compact_spec_all. apply compact_id.
  intros t Hin. exact (layout_nonempty d w s t Hw Hlen Hin).
Qed.

Theorem shard_concat : forall d w s, concat (shard_impl d w s) = s.
Proof.
  intros d w s. rewrite shard_compact_spec_all, compact_concat.
  apply layout_concat.
Qed.

Theorem shard_lengths : forall d w s,
  0 < w -> d * w < length s ->
  length (shard_impl d w s) = S d /\
  (forall i, i < d -> length (nth i (shard_impl d w s) []) = w) /\
  length (nth d (shard_impl d w s) []) = length s - d*w.
Proof.
  intros d w s Hw Hlen.
  rewrite (shard_eq_spec d w s Hw Hlen).
  apply layout_lengths. lia.
Qed.

Theorem shard_nonempty_tokens : forall d w s t,
  In t (shard_impl d w s) -> t <> [].
Proof.
  intros d w s t Hin. unfold shard_impl in Hin.
  apply compact_In in Hin. exact (proj2 Hin).
Qed.

(* Case d*w >= length s: the remainder is empty and dropped, as are any
   tokens that start at or past the end of the string; what is left is the
   compacted layout. *)
Theorem shard_outside : forall d w s,
  0 < w -> length s <= d * w ->
  shard_impl d w s = compact (layout_spec d w s).
Proof. intros d w s _ _. apply shard_compact_spec_all. Qed.

(* Extra: in that case the published shape (S d components) is NOT
   attained: at most d components come out. *)
Theorem shard_outside_length : forall d w s,
  length s <= d * w -> length (shard_impl d w s) <= d.
Proof.
  intros d w s Hlen. unfold shard_impl.
  rewrite compact_app.
  rewrite (skipn_all2 s Hlen). cbn [compact filter]. rewrite app_nil_r.
  etransitivity; [apply compact_length_le|].
  rewrite map_length, seq_length. apply le_n.
Qed.

Theorem shard_injective : forall d w s1 s2,
  shard_impl d w s1 = shard_impl d w s2 -> s1 = s2.
Proof.
  intros d w s1 s2 Heq.
  rewrite <- (shard_concat d w s1), <- (shard_concat d w s2), Heq.
  reflexivity.
Qed.

Theorem shard_tokens_from_input : forall d w s t x,
  In t (shard_impl d w s) -> In x t -> In x s.
Proof.
  intros d w s t x Ht Hx.
  rewrite <- (shard_concat d w s).
  apply in_concat. exists t. split; assumption.
Qed.

End Shard.

(* ------------------------------------------------------------------ *)
(* Non-vacuity examples                                                *)
(* ------------------------------------------------------------------ *)

Example shard_ex_normal :
  shard_impl 3 2 [1;2;3;4;5;6;7;8] = [[1;2];[3;4];[5;6];[7;8]].
Proof. vm_compute. reflexivity. Qed.

Example shard_ex_normal_spec :
  layout_spec 3 2 [1;2;3;4;5;6;7;8] = [[1;2];[3;4];[5;6];[7;8]].
Proof. vm_compute. reflexivity. Qed.

(* remainder of length 1 *)
Example shard_ex_rem1 :
  shard_impl 3 2 [1;2;3;4;5;6;7] = [[1;2];[3;4];[5;6];[7]].
Proof. vm_compute. reflexivity. Qed.

(* d*w = length s : remainder empty, dropped; only d components. *)
Example shard_ex_exact :
  shard_impl 3 2 [1;2;3;4;5;6] = [[1;2];[3;4];[5;6]].
Proof. vm_compute. reflexivity. Qed.

(* d*w > length s : short last token, missing tokens and remainder dropped. *)
Example shard_ex_short :
  shard_impl 3 2 [1;2;3] = [[1;2];[3]].
Proof. vm_compute. reflexivity. Qed.

(* ... whereas the un-compacted layout keeps the empties. *)
Example shard_ex_short_spec :
  layout_spec 3 2 [1;2;3] = [[1;2];[3];[];[]].
Proof. vm_compute. reflexivity. Qed.

(* w = 0 : all tokens empty and dropped, remainder is s. *)
Example shard_ex_w0 :
  shard_impl 3 0 [1;2;3] = [[1;2;3]].
Proof. vm_compute. reflexivity. Qed.

(* The hypothesis 0 < w of shard_eq_spec is necessary. *)
Example shard_eq_spec_needs_w_pos :
  shard_impl 1 0 [1] <> layout_spec 1 0 [1].
Proof. vm_compute. discriminate. Qed.

(* The hypothesis d*w < length s of shard_eq_spec is necessary. *)
Example shard_eq_spec_needs_len :
  shard_impl 1 1 [1] <> layout_spec 1 1 [1].
Proof. vm_compute. discriminate. Qed.

(* empty input : nothing at all *)
Example shard_ex_empty :
  shard_impl 3 2 (@nil nat) = [].
Proof. vm_compute. reflexivity. Qed.

(* ------------------------------------------------------------------ *)
(* String instance                                                     *)
(* ------------------------------------------------------------------ *)

Require Import String Ascii.

Definition shard_string (d w : nat) (s : string) : list string :=
  map string_of_list_ascii (shard_impl d w (list_ascii_of_string s)).

Example shard_string_ex :
  shard_string 3 2 "0d555ed77052d7e1"%string
  = ["0d"%string; "55"%string; "5e"%string; "d77052d7e1"%string].
Proof. vm_compute. reflexivity. Qed.

(* Docstring example from filehashstore.py *)
Example shard_string_ex_sha256 :
  shard_string 3 2
    "0d555ed77052d7e166017f779cbc193357c3a5006ee8b8457230bcf7abcef65e"%string
  = ["0d"%string; "55"%string; "5e"%string;
     "d77052d7e166017f779cbc193357c3a5006ee8b8457230bcf7abcef65e"%string].
Proof. vm_compute. reflexivity. Qed.

Example shard_string_ex_short :
  shard_string 3 2 "0d5"%string = ["0d"%string; "5"%string].
Proof. vm_compute. reflexivity. Qed.

(* ------------------------------------------------------------------ *)
(* Assumption audit                                                    *)
(* ------------------------------------------------------------------ *)

Print Assumptions shard_compact_spec_all.
Print Assumptions shard_compact_spec.
Print Assumptions shard_eq_spec.
Print Assumptions shard_concat.
Print Assumptions shard_lengths.
Print Assumptions shard_nonempty_tokens.
Print Assumptions shard_outside.
Print Assumptions shard_outside_length.
Print Assumptions shard_injective.
Print Assumptions shard_tokens_from_input.
