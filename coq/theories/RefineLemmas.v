(* RefineLemmas.v — symbolic-execution infrastructure for Refine.v:
   equations for [run_seq] on the monad combinators and on every typed operation wrapper,
   the simplification tactics, and the facts about temporary names and line lists. *)
From HS Require Import Base PyVal FS Ops Spec.

(* ---------- run_seq on the combinators ---------- *)

Lemma run_mbind : forall A B (m : M A) (f : A -> M B) w,
  run_seq w (mbind m f) =
  match run_seq w m with
  | Some (w', Val a) => run_seq w' (f a)
  | Some (w', Exn e) => Some (w', Exn e)
  | None => None
  end.
Proof.
  intros. unfold mbind. rewrite run_seq_bind.
  destruct (run_seq w m) as [[w' [a|e]]|]; reflexivity.
Qed.

Lemma run_catch : forall A (m : M A) w,
  run_seq w (catch m) =
  match run_seq w m with
  | Some (w', r) => Some (w', Val r)
  | None => None
  end.
Proof.
  intros. unfold catch. rewrite run_seq_bind.
  destruct (run_seq w m) as [[w' r]|]; reflexivity.
Qed.

Lemma run_try_finally : forall A (m : M A) (fin : M unit) w,
  run_seq w (try_finally m fin) =
  match run_seq w m with
  | Some (w', r) =>
      match run_seq w' fin with
      | Some (w'', Val _) => Some (w'', r)
      | Some (w'', Exn e) => Some (w'', Exn e)
      | None => None
      end
  | None => None
  end.
Proof.
  intros. unfold try_finally. rewrite run_seq_bind.
  destruct (run_seq w m) as [[w' r]|]; [|reflexivity].
  rewrite run_seq_bind.
  destruct (run_seq w' fin) as [[w'' [u|e]]|]; reflexivity.
Qed.

Lemma run_ret : forall A (a : A) w, run_seq w (ret a) = Some (w, Val a).
Proof. reflexivity. Qed.
Lemma run_raise : forall A e w, run_seq w (@raise A e) = Some (w, Exn e).
Proof. reflexivity. Qed.
Lemma run_Ret : forall A (a : A) w, run_seq w (Ret a) = Some (w, a).
Proof. reflexivity. Qed.

(* ---------- run_seq on the typed wrappers (explicit worlds) ---------- *)

Section Prims.
  Variable m : fmap.
  Variable L : list lock.
  Let w := mkWorld m L.

  Lemma run_probe : forall a,
    run_seq w (probe a) = Some (w, Val (match lookup a m with Some _ => true | None => false end)).
  Proof. reflexivity. Qed.

  Lemma run_read : forall a,
    run_seq w (read a) =
    Some (w, match lookup a m with Some c => Val c | None => Exn EFileNotFound end).
  Proof. intros. unfold read, w. cbn. destruct (lookup a m); reflexivity. Qed.

  Lemma run_read_cid : forall a,
    run_seq w (read_cid a) =
    match lookup a m with
    | Some (CCid c) => Some (w, Val c)
    | Some _ => None
    | None => Some (w, Exn EFileNotFound)
    end.
  Proof.
    intros. unfold read_cid. rewrite run_mbind, run_read.
    destruct (lookup a m) as [[]|]; reflexivity.
  Qed.

  Lemma run_read_lines : forall a,
    run_seq w (read_lines a) =
    match lookup a m with
    | Some (CLines l) => Some (w, Val l)
    | Some CEmpty => Some (w, Val [])
    | Some _ => None
    | None => Some (w, Exn EFileNotFound)
    end.
  Proof.
    intros. unfold read_lines. rewrite run_mbind, run_read.
    destruct (lookup a m) as [[]|]; reflexivity.
  Qed.

  Lemma run_is_in_refs : forall p a,
    run_seq w (is_in_refs p a) =
    match lookup a m with
    | Some (CLines l) => Some (w, Val (memb Nat.eqb p l))
    | Some CEmpty => Some (w, Val false)
    | Some _ => None
    | None => Some (w, Exn EFileNotFound)
    end.
  Proof.
    intros. unfold is_in_refs. rewrite run_mbind, run_read_lines.
    destruct (lookup a m) as [[]|]; reflexivity.
  Qed.

  Lemma run_size_lines : forall a,
    run_seq w (size_lines a) =
    Some (w, match lookup a m with
             | Some (CLines l) => Val (length l)
             | Some _ => Val 1
             | None => Exn EFileNotFound
             end).
  Proof. intros. unfold size_lines, w. cbn. destruct (lookup a m) as [[]|]; reflexivity. Qed.

  Lemma run_mktmp : forall ar init,
    run_seq w (mktmp ar init) =
    Some (mkWorld (update (fresh_tmp ar 0 m) init m) L, Val (fresh_tmp ar 0 m)).
  Proof. reflexivity. Qed.

  Lemma run_listdir : forall p,
    run_seq w (listdir p) = Some (w, Val (filter (owned_by p) (keys m))).
  Proof. reflexivity. Qed.

  Lemma run_rewrite_write : forall a p,
    run_seq w (rewrite_write a p) =
    match lookup a m with
    | Some (CLines l) =>
        Some (mkWorld (update a (CLines (filter_lines p l ++ skipn (length (filter_lines p l)) l)) m) L,
              Val (length (filter_lines p l)))
    | _ => Some (w, Exn EFileNotFound)
    end.
  Proof. intros. unfold rewrite_write, w. cbn. destruct (lookup a m) as [[]|]; reflexivity. Qed.

  Lemma run_peek : forall cls i,
    run_seq w (peek cls i) = Some (w, Val (memb lock_eqb (cls, i) L)).
  Proof. reflexivity. Qed.

  Lemma run_held : forall cls i,
    run_seq w (held cls i) = Some (w, Val (memb lock_eqb (cls, i) L)).
  Proof. reflexivity. Qed.

  Lemma run_acquire : forall cls i,
    run_seq w (acquire cls i) =
    if memb lock_eqb (cls, i) L then None else Some (mkWorld m ((cls, i) :: L), Val tt).
  Proof. intros. unfold acquire, w. cbn. destruct (memb lock_eqb (cls, i) L); reflexivity. Qed.

  Lemma run_unit_acquire : forall cls i,
    run_seq w (unit_op (Acquire cls i)) =
    if memb lock_eqb (cls, i) L then None else Some (mkWorld m ((cls, i) :: L), Val tt).
  Proof. intros. unfold unit_op, w. cbn. destruct (memb lock_eqb (cls, i) L); reflexivity. Qed.

  Lemma run_rename : forall s d,
    run_seq w (unit_op (Rename s d)) =
    match lookup s m with
    | Some c => Some (mkWorld (update d c (delete s m)) L, Val tt)
    | None => Some (w, Exn EFileNotFound)
    end.
  Proof. intros. unfold unit_op, w. cbn. destruct (lookup s m); reflexivity. Qed.

  Lemma run_remove : forall a,
    run_seq w (unit_op (Remove a)) =
    match lookup a m with
    | Some _ => Some (mkWorld (delete a m) L, Val tt)
    | None => Some (w, Exn EFileNotFound)
    end.
  Proof. intros. unfold unit_op, w. cbn. destruct (lookup a m); reflexivity. Qed.

  Lemma run_swallow_remove : forall a,
    run_seq w (swallow_op (Remove a)) =
    Some (mkWorld (match lookup a m with Some _ => delete a m | None => m end) L, Val tt).
  Proof. intros. unfold swallow_op, w. cbn. destruct (lookup a m); reflexivity. Qed.

  Lemma run_mkdirs : forall a, run_seq w (unit_op (MkDirs a)) = Some (w, Val tt).
  Proof. reflexivity. Qed.

  Lemma run_opensrc : run_seq w (unit_op OpenSrc) = Some (w, Val tt).
  Proof. reflexivity. Qed.

  Lemma run_openwr : forall t c,
    run_seq w (unit_op (OpenWr t c)) = Some (mkWorld (update t c m) L, Val tt).
  Proof. reflexivity. Qed.

  Lemma run_writechunk : forall t,
    run_seq w (unit_op (WriteChunk t)) =
    match lookup t m with
    | Some (CData b n i) => Some (mkWorld (update t (CData b n (S i)) m) L, Val tt)
    | _ => Some (w, Exn EFileNotFound)
    end.
  Proof. intros. unfold unit_op, w. cbn. destruct (lookup t m) as [[]|]; reflexivity. Qed.

  Lemma run_appendopen : forall a,
    run_seq w (unit_op (AppendOpen a)) =
    Some (mkWorld (match lookup a m with Some _ => m | None => update a (CLines []) m end) L, Val tt).
  Proof. intros. unfold unit_op, w. cbn. destruct (lookup a m); reflexivity. Qed.

  Lemma run_appendwrite : forall a p,
    run_seq w (unit_op (AppendWrite a p)) =
    match lookup a m with
    | Some (CLines l) => Some (mkWorld (update a (CLines (l ++ [p])) m) L, Val tt)
    | Some CEmpty => Some (mkWorld (update a (CLines [p]) m) L, Val tt)
    | _ => Some (w, Exn EFileNotFound)
    end.
  Proof. intros. unfold unit_op, w. cbn. destruct (lookup a m) as [[]|]; reflexivity. Qed.

  Lemma run_openrw : forall a,
    run_seq w (unit_op (OpenRW a)) =
    Some (w, match lookup a m with Some _ => Val tt | None => Exn EFileNotFound end).
  Proof. intros. unfold unit_op, w. cbn. destruct (lookup a m); reflexivity. Qed.

  Lemma run_truncate : forall a k,
    run_seq w (unit_op (Truncate a k)) =
    match lookup a m with
    | Some (CLines l) => Some (mkWorld (update a (CLines (firstn k l)) m) L, Val tt)
    | _ => Some (w, Exn EFileNotFound)
    end.
  Proof. intros. unfold unit_op, w. cbn. destruct (lookup a m) as [[]|]; reflexivity. Qed.

  Lemma run_open_source : forall s,
    run_seq w (open_source s) =
    Some (w, if src_ok s then Val tt else Exn EValueError).
  Proof. destruct s; reflexivity. Qed.
End Prims.

(* releasing the most recently taken lock *)
Lemma run_release : forall m L cls i,
  run_seq (mkWorld m ((cls, i) :: L)) (release cls i) = Some (mkWorld m L, Val tt).
Proof.
  intros. unfold release. cbn [run_seq exec_op locks fs set_locks memb remove1].
  rewrite lock_eqb_refl. reflexivity.
Qed.

Lemma run_funlock : forall m L a,
  run_seq (mkWorld m ((LFile, IDoc a) :: L)) (funlock a) = Some (mkWorld m L, Val tt).
Proof.
  intros. unfold funlock. cbn [run_seq exec_op locks fs set_locks memb remove1].
  rewrite lock_eqb_refl. reflexivity.
Qed.

(* ---------- simplification tactics ---------- *)

Lemma memb_app_last : forall p l, memb Nat.eqb p (l ++ [p]) = true.
Proof.
  intros. apply (memb_In Nat.eqb nat_eqb_true Nat.eqb_refl). apply in_or_app. right. left. reflexivity.
Qed.


Lemma owned_del_pidref : forall p q, owned_by p (ADel (APidRef q)) = false.
Proof. reflexivity. Qed.
Lemma owned_del_cidref : forall p c, owned_by p (ADel (ACidRef c)) = false.
Proof. reflexivity. Qed.
Lemma owned_del_obj : forall p c, owned_by p (ADel (AObj c)) = false.
Proof. reflexivity. Qed.

Ltac rw_hyps :=
  repeat match goal with
  | H : lookup ?a ?m = _ |- context [lookup ?a ?m] => rewrite H
  | H : forall x, lookup x ?m = _ |- context [lookup _ ?m] => rewrite H
  | H : forall x, lookup (ADel x) ?m = _ |- context [lookup (ADel _) ?m] => rewrite H
  | H : memb ?e ?x ?L = _ |- context [memb ?e ?x ?L] => rewrite H
  | H : fresh_tmp ?ar 0 ?m = _ |- context [fresh_tmp ?ar 0 ?m] => rewrite H
  | H : forall x, memb lock_eqb (_, IDoc x) ?L = _ |- context [memb lock_eqb (_, IDoc _) ?L] => rewrite H
  end.

Ltac lk :=
  repeat (progress (
    rewrite ?lookup_update, ?lookup_delete;
    cbn [addr_eqb area_eqb Nat.eqb andb negb orb memb lock_eqb lockcls_eqb ident_eqb fst snd
         length src_ok];
    rewrite ?Nat.eqb_refl, ?addr_eqb_refl, ?memb_app_last,
      ?owned_del_pidref, ?owned_del_cidref, ?owned_del_obj;
    rw_hyps;
    cbn beta iota)).

Ltac prim :=
  first
    [ rewrite run_probe | rewrite run_read_cid | rewrite run_is_in_refs | rewrite run_read_lines
    | rewrite run_read | rewrite run_size_lines | rewrite run_mktmp | rewrite run_listdir
    | rewrite run_rewrite_write | rewrite run_peek | rewrite run_held | rewrite run_acquire
    | rewrite run_unit_acquire | rewrite run_rename | rewrite run_remove
    | rewrite run_swallow_remove | rewrite run_mkdirs | rewrite run_opensrc | rewrite run_openwr
    | rewrite run_writechunk | rewrite run_appendopen | rewrite run_appendwrite
    | rewrite run_openrw | rewrite run_truncate | rewrite run_open_source
    | rewrite run_release | rewrite run_funlock
    | rewrite run_ret | rewrite run_raise | rewrite run_Ret ].

(* one monadic step whose head is a primitive *)
Ltac step1 := first [ rewrite run_mbind | rewrite run_try_finally | rewrite run_catch | prim ]; lk.
Ltac steps := repeat first [ step1 | progress lk ].

(* pointwise equality of file maps *)
Ltac case_addr a :=
  repeat match goal with
  | |- context [addr_eqb a ?k] =>
      let E := fresh "E" in
      destruct (addr_eqb a k) eqn:E;
      [ apply addr_eqb_true in E; subst a; lk | ]
  end.

(* ---------- temporary names ---------- *)

Lemma fresh_tmp_0 : forall ar m, lookup (ATmp ar 0 0) m = None -> fresh_tmp ar 0 m = ATmp ar 0 0.
Proof. intros ar m H. unfold fresh_tmp. cbn [fresh_from]. rewrite H. reflexivity. Qed.

Lemma fresh_tmp_1 : forall ar m x,
  lookup (ATmp ar 0 0) m = Some x -> lookup (ATmp ar 0 1) m = None ->
  fresh_tmp ar 0 m = ATmp ar 0 1.
Proof.
  intros ar m x H0 H1. unfold fresh_tmp.
  destruct m as [|kv m']; [discriminate|].
  cbn [fresh_from length]. rewrite H0, H1. reflexivity.
Qed.

(* ---------- line lists ---------- *)

Lemma firstn_rewrite : forall (new rest : list pid),
  firstn (length new) (new ++ rest) = new.
Proof.
  intros. rewrite firstn_app, Nat.sub_diag, firstn_O, app_nil_r. apply firstn_all.
Qed.

Lemma memb_nat_In : forall p l, memb Nat.eqb p l = true <-> In p l.
Proof. intros. apply (memb_In Nat.eqb nat_eqb_true Nat.eqb_refl). Qed.

Lemma memb_nat_not_In : forall p l, memb Nat.eqb p l = false <-> ~ In p l.
Proof. intros. apply (memb_false_not_In Nat.eqb nat_eqb_true Nat.eqb_refl). Qed.

Lemma memb_addr_In : forall a l, memb addr_eqb a l = true <-> In a l.
Proof. intros. apply (memb_In addr_eqb addr_eqb_true addr_eqb_refl). Qed.

Lemma memb_addr_not_In : forall a l, memb addr_eqb a l = false <-> ~ In a l.
Proof. intros. apply (memb_false_not_In addr_eqb addr_eqb_true addr_eqb_refl). Qed.

(* ---------- consequences of the invariant ---------- *)

Lemma wt_pidref : forall m p x, well_typed m -> lookup (APidRef p) m = Some x -> exists c, x = CCid c.
Proof. intros m p x W H. exact (W _ _ H). Qed.
Lemma wt_cidref : forall m c x, well_typed m -> lookup (ACidRef c) m = Some x -> exists l, x = CLines l.
Proof. intros m c x W H. exact (W _ _ H). Qed.
Lemma wt_tmp : forall m ar t n, well_typed m -> lookup (ATmp ar t n) m = None.
Proof. intros m ar t n W. destruct (lookup (ATmp ar t n) m) eqn:H; auto. destruct (W _ _ H). Qed.
Lemma wt_del : forall m a, well_typed m -> lookup (ADel a) m = None.
Proof. intros m a W. destruct (lookup (ADel a) m) eqn:H; auto. destruct (W _ _ H). Qed.

Lemma fs_eq_refl : forall m, fs_eq m m.
Proof. intros m a. reflexivity. Qed.
Lemma fs_eq_sym : forall m1 m2, fs_eq m1 m2 -> fs_eq m2 m1.
Proof. intros m1 m2 H a. symmetry. apply H. Qed.
Lemma fs_eq_trans : forall m1 m2 m3, fs_eq m1 m2 -> fs_eq m2 m3 -> fs_eq m1 m3.
Proof. intros m1 m2 m3 H1 H2 a. rewrite H1. apply H2. Qed.
Lemma fs_eq_update : forall a v m1 m2, fs_eq m1 m2 -> fs_eq (update a v m1) (update a v m2).
Proof. intros a v m1 m2 H x. rewrite !lookup_update. destruct (addr_eqb x a); auto. Qed.
Lemma fs_eq_delete : forall a m1 m2, fs_eq m1 m2 -> fs_eq (delete a m1) (delete a m2).
Proof. intros a m1 m2 H x. rewrite !lookup_delete. destruct (addr_eqb x a); auto. Qed.

Lemma InvF_fs_eq : forall m1 m2, fs_eq m1 m2 -> InvF m1 -> InvF m2.
Proof.
  intros m1 m2 E (W & I1 & I2). split; [|split].
  - intros a x H. rewrite <- E in H. exact (W _ _ H).
  - intros p c H. rewrite <- E in H. destruct (I1 _ _ H) as (l & Hl & Hin).
    exists l. rewrite <- E. auto.
  - intros c l H. rewrite <- E in H. destruct (I2 _ _ H) as (Hne & Hnd & Hb).
    split; [|split]; auto. intros p Hp. rewrite <- E. auto.
Qed.

(* ---------- read-only programs ---------- *)

Definition ro_op (o : op) : Prop := match o with Probe _ | Read _ => True | _ => False end.

Inductive ro {A : Type} : prog A -> Prop :=
| ro_Ret : forall a, ro (Ret a)
| ro_Bad : ro Bad
| ro_Vis : forall o k, ro_op o -> (forall x, ro (k x)) -> ro (Vis o k).

Lemma ro_run : forall A (m : prog A), ro m -> forall w w' r, run_seq w m = Some (w', r) -> w' = w.
Proof.
  induction 1 as [a| |o k Ho Hk IH]; intros w w' r Hr; cbn [run_seq] in Hr.
  - congruence.
  - discriminate.
  - destruct o; try contradiction; cbn [exec_op] in Hr.
    + eapply IH. exact Hr.
    + destruct (lookup a (fs w)); eapply IH; exact Hr.
Qed.

Lemma ro_bind : forall A B (m : prog A) (f : A -> prog B), ro m -> (forall a, ro (f a)) -> ro (bind m f).
Proof.
  induction 1 as [a| |o k Ho Hk IH]; intros Hf; cbn [bind]; auto.
  - constructor.
  - constructor; auto.
Qed.

Lemma ro_mbind : forall A B (m : M A) (f : A -> M B), ro m -> (forall a, ro (f a)) -> ro (mbind m f).
Proof. intros. unfold mbind. apply ro_bind; auto. intros [a|e]; auto. constructor. Qed.

Lemma ro_probe : forall a, ro (probe a).
Proof. intros. constructor; [exact I|]. intros []; constructor. Qed.
Lemma ro_read : forall a, ro (read a).
Proof. intros. constructor; [exact I|]. intros []; constructor. Qed.
Lemma ro_ret : forall A (a : A), ro (ret a).
Proof. intros. constructor. Qed.
Lemma ro_raise : forall A e, ro (@raise A e).
Proof. intros. constructor. Qed.

Ltac ro_tac :=
  repeat first
    [ apply ro_probe | apply ro_read | apply ro_ret | apply ro_raise | apply ro_Bad | apply ro_Ret
    | apply ro_mbind | intro
    | match goal with
      | |- ro (if ?b then _ else _) => destruct b
      | |- ro (match ?c with _ => _ end) => destruct c
      end ].

Lemma ro_find_object : forall p, ro (find_object p).
Proof. intros. unfold find_object, read_cid, is_in_refs, read_lines. ro_tac. Qed.

Lemma ro_open_object : forall c, ro (open_object c).
Proof. intros. unfold open_object. ro_tac. Qed.

(* ---------- sub-program specifications ---------- *)

Lemma run_find_object : forall m L p, InvF m ->
  run_seq (mkWorld m L) (find_object p) = Some (mkWorld m L, sem_find m p).
Proof.
  intros m L p (W & I1 & I2). unfold find_object, sem_find, present.
  destruct (lookup (APidRef p) m) as [x|] eqn:Hp.
  - destruct (wt_pidref _ _ _ W Hp) as [c ->].
    destruct (I1 _ _ Hp) as (l & Hc & Hin).
    apply memb_nat_In in Hin.
    destruct (lookup (AObj c) m) eqn:Ho; steps; reflexivity.
  - steps. reflexivity.
Qed.

Lemma run_verify_refs_ok : forall m L p c l,
  lookup (APidRef p) m = Some (CCid c) -> lookup (ACidRef c) m = Some (CLines l) ->
  memb Nat.eqb p l = true ->
  run_seq (mkWorld m L) (verify_refs p c) = Some (mkWorld m L, Val tt).
Proof. intros. unfold verify_refs. steps. reflexivity. Qed.

Lemma run_verify_refs_any : forall m L p c, well_typed m ->
  exists r, run_seq (mkWorld m L) (verify_refs p c) = Some (mkWorld m L, r).
Proof.
  intros m L p c W. unfold verify_refs.
  destruct (lookup (APidRef p) m) as [x|] eqn:Hp;
    [destruct (wt_pidref _ _ _ W Hp) as [c' ->]|];
    (destruct (lookup (ACidRef c) m) as [y|] eqn:Hc;
      [destruct (wt_cidref _ _ _ W Hc) as [l ->]|]);
    repeat (steps; try match goal with
                       | |- context [if negb ?b then _ else _] => destruct b; cbn [negb]
                       end);
    eexists; reflexivity.
Qed.

Lemma run_write_refs_tmp : forall m L content,
  run_seq (mkWorld m L) (write_refs_tmp content) =
  Some (mkWorld (update (fresh_tmp ArRefs 0 m) content (update (fresh_tmp ArRefs 0 m) CEmpty m)) L,
        Val (fresh_tmp ArRefs 0 m)).
Proof. intros. unfold write_refs_tmp. steps. reflexivity. Qed.

Lemma run_update_refs_add : forall m L a p l,
  lookup a m = Some (CLines l) -> memb Nat.eqb p l = false ->
  memb lock_eqb (LFile, IDoc a) L = false ->
  run_seq (mkWorld m L) (update_refs_add a p) =
  Some (mkWorld (update a (CLines (l ++ [p])) m) L, Val tt).
Proof. intros. unfold update_refs_add. steps. reflexivity. Qed.

Lemma run_update_refs_remove : forall m L a p l,
  lookup a m = Some (CLines l) -> memb lock_eqb (LFile, IDoc a) L = false ->
  run_seq (mkWorld m L) (update_refs_remove a p) =
  Some (mkWorld (update a (CLines (filter_lines p l))
                   (update a (CLines (filter_lines p l ++ skipn (length (filter_lines p l)) l)) m)) L,
        Val tt).
Proof. intros. unfold update_refs_remove. steps. rewrite firstn_rewrite. reflexivity. Qed.

Lemma run_write_chunks : forall k t b n i m L,
  lookup t m = Some (CData b n i) ->
  exists m', run_seq (mkWorld m L) (write_chunks t k) = Some (mkWorld m' L, Val tt) /\
             forall x, lookup x m' = if addr_eqb x t then Some (CData b n (i + k)) else lookup x m.
Proof.
  induction k as [|k IH]; intros t b n i m L Ht.
  - exists m. split; [reflexivity|]. intros x. rewrite Nat.add_0_r.
    destruct (addr_eqb x t) eqn:E; auto. apply addr_eqb_true in E. subst. auto.
  - cbn [write_chunks]. steps.
    destruct (IH t b n (S i) (update t (CData b n (S i)) m) L) as (m' & Hr & Hl).
    { apply lookup_update_eq. }
    exists m'. rewrite Hr. split; [reflexivity|].
    intros x. rewrite Hl, lookup_update. rewrite Nat.add_succ_r.
    destruct (addr_eqb x t); reflexivity.
Qed.
