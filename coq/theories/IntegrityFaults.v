(* IntegrityFaults.v — property C09 for executions in which operations FAIL.

   Integrity.v proves, for fault-free executions, that every permanent file is complete at every
   instant.  Here the same predicate ([Integrity] / [IntegrityG], reused verbatim) is shown to
   hold at every instant of executions in which I/O operations fail part-way through a call:
   any operation of any thread may, at any time and any number of times, answer [AErr e] and
   leave the world unchanged.  This covers the faulty interleaving semantics of Bracket.v
   ([gstep]: every [faultable] operation may answer [AErr EFault]) and more (the failure of
   flock itself, any error code, any operation), see [gstep_fstep].

   Method.  [Integrity.Safe] is a weakest precondition over the answers of the FAULT-FREE
   semantics, and its successor knowledge [opnext] assumes the operation took effect (after
   [OpenWr t c] the thread knows that t holds c).  [SafeF] adds a third obligation at every
   operation: the continuation fed with ANY error answer must obey the discipline under the
   UNCHANGED knowledge T (the world did not move, so T still agrees with it).  The
   preconditions [oppre], the admissible normal answers [ansok], the successor knowledge
   [opnext] and the one-step soundness lemma [step_sound] of Integrity.v are reused as they are;
   what is re-proved is that every API program — including every error continuation: the
   roll-back paths [swallow_op (Remove t)], [untag_object], the fall-backs of
   [move_and_get_checksums] — obeys the discipline: [api_safeF]. *)
From HS Require Import Base PyVal FS Ops Sched Spec Integrity Bracket.

(* ================================================================================== *)
(* 1. The discipline with failing operations                                          *)
(* ================================================================================== *)

Section DisciplineF.
  Variable MV : versions.
  Variable i : nat.

  Fixpoint SafeF {A} (m : prog A) (T : tmap) (Q : A -> tmap -> Prop) : Prop :=
    match m with
    | Ret a => Q a T
    | Bad => True
    | Vis o k =>
        oppre MV i o T /\
        (forall x, ansok i o T x -> SafeF (k x) (opnext i o T x) Q) /\
        (forall e, SafeF (k (AErr e)) T Q)
    end.

  (* the discipline with failures implies the fault-free one *)
  Lemma SafeF_Safe : forall A (m : prog A) T Q, SafeF m T Q -> Safe MV i m T Q.
  Proof.
    induction m as [a|o k IH|]; simpl; intros T Q H; auto.
    destruct H as [H1 [H2 _]]. split; auto.
  Qed.
End DisciplineF.

Arguments SafeF MV i {A} m T Q.

(* ================================================================================== *)
(* 2. Combinators and the API (the structure of Integrity.v §4)                       *)
(* ================================================================================== *)

Section ApiSafeF.
  Variable MV : versions.
  Variable i : nat.

  Lemma safe_weaken : forall A (m : prog A) T (Q Q' : A -> tmap -> Prop),
    SafeF MV i m T Q -> (forall a T', Q a T' -> Q' a T') -> SafeF MV i m T Q'.
  Proof.
    induction m as [a|o k IH|]; simpl; intros T Q Q' H HQ; auto.
    destruct H as [H1 [H2 H3]]. split; [auto|]. split.
    - intros x Hx. eapply IH; eauto.
    - intros e. eapply IH; eauto.
  Qed.

  Lemma safe_bind : forall A B (m : prog A) (f : A -> prog B) T Q1 Q,
    SafeF MV i m T Q1 -> (forall a T', Q1 a T' -> SafeF MV i (f a) T' Q) -> SafeF MV i (bind m f) T Q.
  Proof.
    induction m as [a|o k IH|]; simpl; intros f T Q1 Q H Hf; auto.
    destruct H as [H1 [H2 H3]]. split; [auto|]. split.
    - intros x Hx. eapply IH; eauto.
    - intros e. eapply IH; eauto.
  Qed.

  Lemma safe_mbind : forall A B (m : M A) (f : A -> M B) T Q1 Q,
    SafeF MV i m T Q1 ->
    (forall a T', Q1 (Val a) T' -> SafeF MV i (f a) T' Q) ->
    (forall e T', Q1 (Exn e) T' -> Q (Exn e) T') ->
    SafeF MV i (mbind m f) T Q.
  Proof.
    intros A B m f T Q1 Q H Hf He. unfold mbind. eapply safe_bind; [exact H|].
    intros [a|e] T' HQ; simpl; auto.
  Qed.

  (* [OkVF m P]: m obeys the discipline whatever the thread knows about its temp files, and a
     value it returns satisfies P *)
  Definition OkVF {A} (m : M A) (P : A -> Prop) : Prop := forall T, SafeF MV i m T (post_v P).

  Notation Ok m := (OkVF m (fun _ => True)).

  Lemma okv_ret : forall A (a : A) (P : A -> Prop), P a -> OkVF (ret a) P.
  Proof. intros A a P H T. exact H. Qed.
  Lemma ok_ret : forall A (a : A), Ok (ret a).
  Proof. intros A a T. exact I. Qed.
  Lemma okv_raise : forall A e (P : A -> Prop), OkVF (raise e) P.
  Proof. intros A e P T. exact I. Qed.
  Lemma okv_bad : forall A (P : A -> Prop), OkVF Bad P.
  Proof. intros A P T. exact I. Qed.

  Lemma okv_weaken : forall A (m : M A) (P P' : A -> Prop),
    OkVF m P -> (forall a, P a -> P' a) -> OkVF m P'.
  Proof.
    intros A m P P' H HP T. eapply safe_weaken; [apply H|].
    intros [a|e] T' HQ; simpl in *; auto.
  Qed.

  Lemma okv_mbind : forall A B (m : M A) (f : A -> M B) (P : A -> Prop) (Q : B -> Prop),
    OkVF m P -> (forall a, P a -> OkVF (f a) Q) -> OkVF (mbind m f) Q.
  Proof.
    intros A B m f P Q Hm Hf T. eapply safe_mbind; [apply Hm| |].
    - intros a T' HP. apply Hf. exact HP.
    - intros e T' _. exact I.
  Qed.

  Lemma ok_mbind : forall A B (m : M A) (f : A -> M B) (Q : B -> Prop),
    Ok m -> (forall a, OkVF (f a) Q) -> OkVF (mbind m f) Q.
  Proof. intros. eapply okv_mbind; [eassumption|]. intros a _. auto. Qed.

  Lemma okv_catch : forall A (m : M A) (P : A -> Prop),
    OkVF m P -> OkVF (catch m) (fun r => match r with Val a => P a | Exn _ => True end).
  Proof.
    intros A m P H T. unfold catch. eapply safe_bind; [apply H|].
    intros [a|e] T' HQ; simpl in *; auto.
  Qed.
  Lemma ok_catch : forall A (m : M A), Ok m -> Ok (catch m).
  Proof. intros A m H. eapply okv_weaken; [apply okv_catch; exact H|]. auto. Qed.

  Lemma safe_try_finally : forall A (m : M A) (fin : M unit) T (P : A -> Prop),
    SafeF MV i m T (post_v P) -> Ok fin -> SafeF MV i (try_finally m fin) T (post_v P).
  Proof.
    intros A m fin T P Hm Hf. unfold try_finally. eapply safe_bind; [exact Hm|].
    intros r T' Hr. eapply safe_bind; [apply Hf|].
    intros [[]|e] T'' _; simpl; auto.
  Qed.

  Lemma okv_try_finally : forall A (m : M A) (fin : M unit) (P : A -> Prop),
    OkVF m P -> Ok fin -> OkVF (try_finally m fin) P.
  Proof. intros A m fin P Hm Hf T. apply safe_try_finally; auto. Qed.

  (* one operation whose precondition holds whatever T is, and whose answers need no care *)
  Lemma okv_vis : forall A o (k : ans -> M A) (P : A -> Prop),
    (forall T, oppre MV i o T) -> (forall x, OkVF (k x) P) -> OkVF (Vis o k) P.
  Proof.
    intros A o k P Hpre Hk T. simpl. split; [apply Hpre|]. split; [intros x _|intros e]; apply Hk.
  Qed.

  (* ---------- the typed wrappers ---------- *)

  Lemma ok_probe : forall a, Ok (probe a).
  Proof. intros a. apply okv_vis; [intros; exact I|]. intros []; try apply okv_bad. apply ok_ret. Qed.
  Lemma ok_read : forall a, Ok (read a).
  Proof.
    intros a. apply okv_vis; [intros; exact I|].
    intros []; try apply okv_bad; try apply ok_ret; apply okv_raise.
  Qed.
  Lemma ok_size_lines : forall a, Ok (size_lines a).
  Proof.
    intros a. apply okv_vis; [intros; exact I|].
    intros []; try apply okv_bad; try apply ok_ret; apply okv_raise.
  Qed.
  Lemma ok_peek : forall cls x, Ok (peek cls x).
  Proof. intros. apply okv_vis; [intros; exact I|]. intros []; try apply okv_bad. apply ok_ret. Qed.
  Lemma ok_held : forall cls x, Ok (held cls x).
  Proof. intros. apply okv_vis; [intros; exact I|]. intros []; try apply okv_bad. apply ok_ret. Qed.
  Lemma ok_acquire : forall cls x, Ok (acquire cls x).
  Proof. intros. apply okv_vis; [intros; exact I|]. intros []; try apply okv_bad. apply ok_ret. Qed.
  Lemma ok_release : forall cls x, Ok (release cls x).
  Proof.
    intros. apply okv_vis; [intros; exact I|].
    intros []; try apply okv_bad; try apply ok_ret; apply okv_raise.
  Qed.
  Lemma ok_funlock : forall a, Ok (funlock a).
  Proof. intros. apply okv_vis; [intros; exact I|]. intros []; try apply okv_bad; apply ok_ret. Qed.

  Lemma ok_unit_op : forall o, (forall T, oppre MV i o T) -> Ok (unit_op o).
  Proof.
    intros o H. apply okv_vis; [exact H|].
    intros []; try apply okv_bad; try apply ok_ret; apply okv_raise.
  Qed.
  Lemma ok_swallow_op : forall o, (forall T, oppre MV i o T) -> Ok (swallow_op o).
  Proof.
    intros o H. apply okv_vis; [exact H|]. intros []; try apply okv_bad; apply ok_ret.
  Qed.

  Lemma ok_rewrite_write : forall c p, Ok (rewrite_write (ACidRef c) p).
  Proof.
    intros. apply okv_vis; [intros; simpl; eauto|].
    intros []; try apply okv_bad; try apply ok_ret; apply okv_raise.
  Qed.

  Lemma okv_listdir : forall p, OkVF (listdir p) ntl.
  Proof.
    intros p T. simpl. split; [exact I|]. split; [|intros e; exact I].
    intros x [l [-> Hl]]. simpl. exact Hl.
  Qed.

  Lemma ok_unit_remove_own : forall t, ownb i t = true -> Ok (unit_op (Remove t)).
  Proof. intros. apply ok_unit_op. intros. apply pre_remove_own. assumption. Qed.
  Lemma ok_swallow_remove_own : forall t, ownb i t = true -> Ok (swallow_op (Remove t)).
  Proof. intros. apply ok_swallow_op. intros. apply pre_remove_own. assumption. Qed.
  Lemma ok_unit_remove_nt : forall a, tmpb a = false -> Ok (unit_op (Remove a)).
  Proof. intros. apply ok_unit_op. intros. apply pre_remove_nt. assumption. Qed.
  Lemma ok_swallow_remove_nt : forall a, tmpb a = false -> Ok (swallow_op (Remove a)).
  Proof. intros. apply ok_swallow_op. intros. apply pre_remove_nt. assumption. Qed.
  Lemma ok_unit_mkdirs : forall a, Ok (unit_op (MkDirs a)).
  Proof. intros. apply ok_unit_op. intros. exact I. Qed.
  Lemma ok_unit_openrw : forall a, Ok (unit_op (OpenRW a)).
  Proof. intros. apply ok_unit_op. intros. exact I. Qed.
  Lemma ok_unit_opensrc : Ok (unit_op OpenSrc).
  Proof. intros. apply ok_unit_op. intros. exact I. Qed.
  Lemma ok_unit_acquire : forall cls x, Ok (unit_op (Acquire cls x)).
  Proof. intros. apply ok_unit_op. intros. exact I. Qed.
  Lemma ok_unit_truncate : forall c k, Ok (unit_op (Truncate (ACidRef c) k)).
  Proof. intros. apply ok_unit_op. intros. simpl. eauto. Qed.
  Lemma ok_unit_appendopen : forall c, Ok (unit_op (AppendOpen (ACidRef c))).
  Proof. intros. apply ok_unit_op. intros. simpl. eauto. Qed.
  Lemma ok_unit_appendwrite : forall c p, Ok (unit_op (AppendWrite (ACidRef c) p)).
  Proof. intros. apply ok_unit_op. intros. simpl. eauto. Qed.

  Hint Resolve ok_probe ok_read ok_size_lines ok_peek ok_held ok_acquire ok_release ok_funlock
       ok_rewrite_write ok_unit_remove_own ok_swallow_remove_own ok_unit_remove_nt
       ok_swallow_remove_nt ok_unit_mkdirs ok_unit_openrw ok_unit_opensrc ok_unit_acquire
       ok_unit_truncate ok_unit_appendopen ok_unit_appendwrite ok_ret okv_raise okv_bad : okf.

  Ltac okauto :=
    repeat (intros; first
      [ solve [eauto 3 with okf]
      | apply ok_mbind
      | apply ok_catch
      | apply okv_try_finally
      | match goal with
        | |- OkVF (match ?x with _ => _ end) _ => destruct x
        end ]).
  Ltac okd := solve [okauto].

  (* ---------- the API, bottom up ---------- *)

  Lemma ok_read_cid : forall a, Ok (read_cid a).
  Proof. unfold read_cid. okauto. Qed.
  Hint Resolve ok_read_cid : okf.
  Lemma ok_read_lines : forall a, Ok (read_lines a).
  Proof. unfold read_lines. okauto. Qed.
  Hint Resolve ok_read_lines : okf.
  Lemma ok_is_in_refs : forall p a, Ok (is_in_refs p a).
  Proof. unfold is_in_refs. okauto. Qed.
  Hint Resolve ok_is_in_refs : okf.
  Lemma ok_find_object : forall p, Ok (find_object p).
  Proof. unfold find_object. okauto. Qed.
  Hint Resolve ok_find_object : okf.
  Lemma ok_open_object : forall c, Ok (open_object c).
  Proof. unfold open_object. okauto. Qed.
  Hint Resolve ok_open_object : okf.
  Lemma ok_retrieve_object : forall p, Ok (retrieve_object p).
  Proof. unfold retrieve_object. okauto. Qed.
  Hint Resolve ok_retrieve_object : okf.
  Lemma ok_get_hex_digest : forall p, Ok (get_hex_digest p).
  Proof. unfold get_hex_digest. okauto. Qed.
  Hint Resolve ok_get_hex_digest : okf.

  Lemma okv_rename_for_deletion : forall a, tmpb a = false ->
    OkVF (rename_for_deletion a) (fun d => tmpb d = false).
  Proof.
    intros a H. unfold rename_for_deletion. apply ok_mbind.
    - apply ok_unit_op. intros. apply pre_rename_del. exact H.
    - intros _. apply okv_ret. reflexivity.
  Qed.
  Lemma ok_rename_for_deletion : forall a, tmpb a = false -> Ok (rename_for_deletion a).
  Proof. intros. eapply okv_weaken; [apply okv_rename_for_deletion; assumption|]. auto. Qed.
  Hint Resolve ok_rename_for_deletion : okf.

  Hint Resolve ntl_nil ntl_cons ntl_app : okf.

  Lemma ok_delete_marked : forall l, ntl l -> Ok (delete_marked l).
  Proof.
    induction l as [|a l IH]; intros H; simpl.
    - apply ok_ret.
    - apply ntl_inv in H. destruct H as [Ha Hl]. apply ok_mbind; [okd|]. intros _. auto.
  Qed.
  Hint Resolve ok_delete_marked : okf.

  Lemma ok_update_refs_remove : forall c p, Ok (update_refs_remove (ACidRef c) p).
  Proof. intros. unfold update_refs_remove. okauto. Qed.
  Hint Resolve ok_update_refs_remove : okf.
  Lemma ok_update_refs_add : forall c p, Ok (update_refs_add (ACidRef c) p).
  Proof. intros. unfold update_refs_add. okauto. Qed.
  Hint Resolve ok_update_refs_add : okf.
  Lemma ok_verify_refs : forall p c, Ok (verify_refs p c).
  Proof. intros. unfold verify_refs. okauto. Qed.
  Hint Resolve ok_verify_refs : okf.
  Lemma ok_validate : forall c c', Ok (validate_and_check_cid_lock c c').
  Proof. intros. unfold validate_and_check_cid_lock. okauto. Qed.
  Hint Resolve ok_validate : okf.

  Lemma okv_mark_pid_refs : forall p, OkVF (mark_pid_refs p) ntl.
  Proof.
    intros p. unfold mark_pid_refs.
    eapply okv_mbind; [apply okv_catch; apply (okv_rename_for_deletion (APidRef p)); reflexivity|].
    intros [d|e] H; apply okv_ret; auto with okf.
  Qed.

  Lemma okv_remove_pid_and_handle_cid : forall p c, OkVF (remove_pid_and_handle_cid p c) ntl.
  Proof.
    intros p c. unfold remove_pid_and_handle_cid.
    eapply okv_mbind with (P := fun r => match r with Val l => ntl l | Exn _ => True end).
    - apply okv_catch. apply ok_mbind; [okd|]. intros _.
      apply ok_mbind; [okd|]. intros n. destruct (Nat.eqb n 0).
      + eapply okv_mbind; [apply (okv_rename_for_deletion (ACidRef c)); reflexivity|].
        intros d Hd. apply okv_ret. auto with okf.
      + apply okv_ret. auto with okf.
    - intros [l|e] H; apply okv_ret; auto with okf.
  Qed.

  Lemma ok_untag_object : forall p c, Ok (untag_object p c).
  Proof.
    intros p c. unfold untag_object.
    apply ok_mbind; [okd|]. intros h. destruct (negb h); [apply okv_raise|].
    apply ok_mbind; [okd|]. intros r.
    assert (H12 : Ok (l1 <- mark_pid_refs p ;; l2 <- remove_pid_and_handle_cid p c ;; delete_marked (l1 ++ l2))).
    { eapply okv_mbind; [apply okv_mark_pid_refs|]. intros l1 H1.
      eapply okv_mbind; [apply okv_remove_pid_and_handle_cid|]. intros l2 H2.
      auto with okf. }
    assert (H1 : Ok (l1 <- mark_pid_refs p ;; delete_marked l1)).
    { eapply okv_mbind; [apply okv_mark_pid_refs|]. intros l1 H1. auto with okf. }
    assert (H2 : Ok (l2 <- remove_pid_and_handle_cid p c ;; delete_marked l2)).
    { eapply okv_mbind; [apply okv_remove_pid_and_handle_cid|]. intros l1 H1'. auto with okf. }
    destruct r as [c'|e]; [okauto|].
    destruct e; okauto.
  Qed.
  Hint Resolve ok_untag_object : okf.

  Lemma ok_and_sc : forall m1 m2, Ok m1 -> Ok m2 -> Ok (and_sc m1 m2).
  Proof. intros. unfold and_sc. okauto. Qed.
  Lemma ok_notm : forall m, Ok m -> Ok (notm m).
  Proof. intros. unfold notm. okauto. Qed.
  Hint Resolve ok_and_sc ok_notm : okf.

  (* ---------- the three staging sequences (these are the substance) ---------- *)

  Lemma write_refs_tmp_safe : forall content T,
    SafeF MV i (write_refs_tmp content) T
      (fun r T' => match r with
                   | Val t => ownb i t = true /\ T' t = Some content /\
                              (forall x v, T x = Some v -> T' x = Some v)
                   | Exn _ => True
                   end).
  Proof.
    intros content T. unfold write_refs_tmp, mktmp, unit_op, mbind, ret, raise. simpl.
    split; [exact I|]. split; [|intros e; exact I]. intros x [n [-> Hn]]. simpl.
    split; [(simpl; apply Nat.eqb_refl)|]. split; [|intros e; exact I].
    intros x _. destruct x; simpl; auto.
    split; [(simpl; apply Nat.eqb_refl)|]. split; [apply tupd_eq|].
    intros x v Hx. unfold tupd. destruct (addr_eqb x (ATmp ArRefs i n)) eqn:E; auto.
    apply addr_eqb_true in E. subst. congruence.
  Qed.

  Lemma safe_rename_own : forall t d T v (Q : outcome unit -> tmap -> Prop),
    ownb i t = true -> tmpb d = false -> T t = Some v -> good MV d v ->
    (forall r T', Q r T') ->
    SafeF MV i (unit_op (Rename t d)) T Q.
  Proof.
    intros t d T v Q Hown Hd HT Hg HQ. unfold unit_op. simpl.
    split.
    - split; [exact Hd|]. rewrite Hown. intros _. eauto.
    - split; [intros x _; destruct x; simpl; auto|intros e; simpl; auto].
  Qed.

  Lemma ok_store_refs_body : forall p c, Ok (store_refs_body p c).
  Proof.
    intros p c. unfold store_refs_body.
    apply ok_mbind; [okd|]. intros _.
    apply ok_mbind; [okd|]. intros _.
    apply ok_mbind; [okd|]. intros c1. destruct c1; [okauto|].
    apply ok_mbind; [okd|]. intros c2. destruct c2; [okauto|].
    apply ok_mbind; [okd|]. intros c3. destruct c3.
    - intros T. eapply safe_mbind; [apply write_refs_tmp_safe| |intros; exact I].
      intros t T1 (Hown & Ht & _).
      eapply safe_mbind with (Q1 := fun _ _ => True); [|intros _ T2 _|intros; exact I].
      + eapply safe_rename_own; eauto; simpl; eauto.
      + assert (Hrest : Ok (m <- is_in_refs p (ACidRef c) ;;
                            (if m then ret tt else update_refs_add (ACidRef c) p) ;;; verify_refs p c))
          by okauto.
        apply Hrest.
    - intros T. eapply safe_mbind; [apply write_refs_tmp_safe| |intros; exact I].
      intros t1 T1 (Hown1 & Ht1 & _).
      eapply safe_mbind; [apply write_refs_tmp_safe| |intros; exact I].
      intros t2 T2 (Hown2 & Ht2 & Hkeep). apply Hkeep in Ht1.
      eapply safe_mbind with (Q1 := fun r T' => match r with Val _ => T' = tdel T2 t1 | Exn _ => True end);
        [|intros _ T3 ->|intros; exact I].
      + unfold unit_op. simpl. split.
        * split; [reflexivity|]. rewrite Hown1. intros _. exists (CCid c). split; [exact Ht1|].
          simpl. eauto.
        * split; [intros x _; rewrite Hown1; destruct x; simpl; auto|].
          intros e. simpl. exact I.
      + eapply safe_mbind with (Q1 := fun _ _ => True); [|intros _ T3 _|intros; exact I].
        * unfold unit_op. simpl. split.
          -- split; [reflexivity|]. rewrite Hown2. intros H. discriminate.
          -- split; [intros x _; destruct x; simpl; auto|intros e; simpl; exact I].
        * apply (ok_verify_refs p c).
  Qed.
  Hint Resolve ok_store_refs_body : okf.

  Lemma ok_tag_object : forall p c, Ok (tag_object p c).
  Proof.
    intros p c. unfold tag_object.
    apply okv_try_finally; [|okauto].
    apply ok_mbind; [okd|]. intros _.
    apply ok_mbind; [okd|]. intros _.
    apply ok_mbind; [okd|]. intros r.
    destruct r as [u|e]; [okauto|]. destruct e; okauto.
  Qed.
  Hint Resolve ok_tag_object : okf.

  Lemma ok_verify_object : forall pg t sz ck, ownb i t = true -> Ok (verify_object pg t sz ck).
  Proof. intros pg t sz ck H. unfold verify_object. destruct sz, ck, pg; okauto. Qed.
  Hint Resolve ok_verify_object : okf.

  (* a successful verification leaves the temp file alone *)
  Lemma verify_object_keep : forall pg t sz ck T, ownb i t = true ->
    SafeF MV i (verify_object pg t sz ck) T
      (fun r T' => match r with Val _ => T' = T | Exn _ => True end).
  Proof.
    intros pg t sz ck T H. unfold verify_object, unit_op, mbind, ret, raise.
    destruct sz, ck, pg; simpl; auto;
      (split; [auto|]; split; [intros x _; destruct x; simpl; auto|intros e; simpl; auto]).
  Qed.

  Lemma keep_probe : forall a T, SafeF MV i (probe a) T (fun _ T' => T' = T).
  Proof.
    intros a T. unfold probe. simpl. split; [exact I|].
    split; [intros x _; destruct x; simpl; auto|intros e; simpl; auto].
  Qed.
  Lemma keep_mkdirs : forall a T, SafeF MV i (unit_op (MkDirs a)) T (fun _ T' => T' = T).
  Proof.
    intros a T. unfold unit_op. simpl. split; [exact I|].
    split; [intros x _; destruct x; simpl; auto|intros e; simpl; auto].
  Qed.

  Lemma write_chunks_safe : forall k T t b n j,
    ownb i t = true -> T t = Some (CData b n j) ->
    SafeF MV i (write_chunks t k) T
      (fun r T' => match r with Val _ => T' t = Some (CData b n (j + k)) | Exn _ => True end).
  Proof.
    induction k as [|k IH]; intros T t b n j Hown HT.
    - simpl. rewrite Nat.add_0_r. exact HT.
    - simpl. unfold mbind, unit_op. simpl. split; [split; eauto|].
      split; [|intros e; simpl; exact I].
      intros x ->. simpl. rewrite HT.
      replace (j + S k) with (S j + k) by lia.
      apply (IH (tupd T t (CData b n (S j))) t b n (S j)); auto. apply tupd_eq.
  Qed.

  Lemma ok_delete_object_file : forall c, Ok (delete_object_file c).
  Proof. intros. unfold delete_object_file. okauto. Qed.
  Hint Resolve ok_delete_object_file : okf.

  Lemma ok_move_and_get_checksums : forall p b n sz ck, Ok (move_and_get_checksums p b n sz ck).
  Proof.
    intros p b n sz ck T. unfold move_and_get_checksums.
    eapply safe_mbind with
      (Q1 := fun r T' => match r with
                         | Val t => ownb i t = true /\ T' t = Some (CData b n 0)
                         | Exn _ => True end); [| |intros; exact I].
    { unfold mktmp. simpl. split; [exact I|]. split; [|intros e; simpl; exact I].
      intros x [k [-> Hk]]. simpl.
      split; [(simpl; apply Nat.eqb_refl)|apply tupd_eq]. }
    intros t T1 [Hown Ht].
    eapply safe_mbind with
      (Q1 := fun r T' => match r with
                         | Val (Val _) => T' t = Some (CData b n n)
                         | _ => True end); [| |intros; exact I].
    { unfold catch. eapply safe_bind; [apply (write_chunks_safe n T1 t b n 0 Hown Ht)|].
      intros [u|e] T' H; simpl; auto. }
    intros w T2 Hw. destruct w as [u|e].
    2:{ assert (H : Ok (swallow_op (Remove t) ;;; @raise cid EGeneric)) by okauto. apply H. }
    eapply safe_mbind with (Q1 := fun _ T' => T' = T2); [apply keep_probe| |intros; exact I].
    intros e T3 ->. destruct (negb e).
    - eapply safe_mbind with
        (Q1 := fun r T' => match r with Val _ => T' = T2 | Exn _ => True end);
        [apply verify_object_keep; exact Hown| |intros; exact I].
      intros _ T3 ->.
      eapply safe_mbind with (Q1 := fun _ T' => T' = T2); [apply keep_mkdirs| |intros; exact I].
      intros _ T3 ->.
      eapply safe_mbind with (Q1 := fun _ _ => True); [| |intros; exact I].
      + unfold catch. eapply safe_bind with (Q1 := fun _ _ => True); [|intros; exact I].
        eapply safe_rename_own; eauto. simpl. eauto.
      + intros r T3 _. destruct r as [u'|err]; [exact I|].
        assert (H : Ok (e2 <- probe (AObj b) ;;
                        if e2
                        then match p with
                             | Some p' =>
                                 d <- get_hex_digest p';;
                                 match d with
                                 | CData b' _ _ =>
                                     if b' =? b then raise err else delete_object_file b;;; raise err
                                 | _ => delete_object_file b;;; raise err
                                 end
                             | None => raise EValueError
                             end
                        else unit_op (Remove t);;; @raise cid err)) by okauto.
        apply H.
    - assert (H : Ok (r <- catch (verify_object match p with Some _ => true | None => false end t sz ck) ;;
                      match r with
                      | Val _ => unit_op (Remove t);;; ret b
                      | Exn ENonMatchingObjSize =>
                          (if match p with Some _ => true | None => false end
                           then ret tt else unit_op (Remove t));;; raise ENonMatchingObjSize
                      | Exn ENonMatchingChecksum =>
                          (if match p with Some _ => true | None => false end
                           then ret tt else unit_op (Remove t));;; raise ENonMatchingChecksum
                      | Exn other => unit_op (Remove t);;; raise other
                      end)).
      { apply ok_mbind; [okauto|]. intros [u'|e']; [okauto|]. destruct e'; okauto. }
      apply H.
  Qed.
  Hint Resolve ok_move_and_get_checksums : okf.

  Lemma ok_open_source : forall s, Ok (open_source s).
  Proof. intros []; simpl; auto with okf. Qed.
  Hint Resolve ok_open_source : okf.

  Lemma ok_store_object : forall p s b n sz ck, Ok (store_object p s b n sz ck).
  Proof. intros p s b n sz ck. unfold store_object. destruct p; okauto. Qed.

  Lemma okv_probe_all : forall l, ntl l -> OkVF (probe_all l) ntl.
  Proof.
    induction l as [|a l IH]; intros H; simpl.
    - apply okv_ret. apply ntl_nil.
    - apply ntl_inv in H. destruct H as [Ha Hl].
      apply ok_mbind; [okd|]. intros b.
      eapply okv_mbind; [apply IH; exact Hl|]. intros r Hr.
      apply okv_ret. destruct b; auto with okf.
  Qed.

  Lemma okv_mark_docs : forall l, ntl l -> OkVF (mark_docs l) ntl.
  Proof.
    induction l as [|a l IH]; intros H; simpl.
    - apply okv_ret. apply ntl_nil.
    - apply ntl_inv in H. destruct H as [Ha Hl].
      apply ok_mbind; [okd|]. intros _.
      eapply okv_mbind with (P := ntl).
      + apply okv_try_finally; [|okd].
        apply ok_mbind; [okd|]. intros b. destruct b.
        * eapply okv_mbind; [apply okv_catch; apply okv_rename_for_deletion; exact Ha|].
          intros [d|e] Hd.
          -- apply okv_ret. auto with okf.
          -- destruct e; try apply okv_raise. apply okv_ret. apply ntl_nil.
        * apply okv_ret. apply ntl_nil.
      + intros d Hd. eapply okv_mbind; [apply IH; exact Hl|]. intros r Hr.
        apply okv_ret. auto with okf.
  Qed.

  Lemma ok_delete_metadata : forall p f, Ok (delete_metadata p f).
  Proof.
    intros p f. unfold delete_metadata. destruct f as [f'|].
    - okauto.
    - eapply okv_mbind; [apply okv_listdir|]. intros l Hl.
      eapply okv_mbind; [apply okv_probe_all; exact Hl|]. intros l' Hl'.
      eapply okv_mbind; [apply okv_mark_docs; exact Hl'|]. intros ds Hds.
      auto with okf.
  Qed.
  Hint Resolve ok_delete_metadata : okf.

  Lemma ok_delete_object : forall p, Ok (delete_object p).
  Proof.
    intros p. unfold delete_object.
    apply okv_try_finally; [|okd].
    apply ok_mbind; [okd|]. intros _.
    apply ok_mbind; [okd|]. intros _.
    apply ok_mbind; [okd|]. intros r.
    assert (Hd : Ok (d <- rename_for_deletion (APidRef p) ;; delete_metadata p None ;;; delete_marked [d])).
    { eapply okv_mbind; [apply (okv_rename_for_deletion (APidRef p)); reflexivity|].
      intros d Hd. apply ok_mbind; [okd|]. intros _. auto with okf. }
    destruct r as [c|e].
    - apply ok_mbind; [okd|]. intros _.
      apply okv_try_finally; [|okd].
      eapply okv_mbind; [apply (okv_rename_for_deletion (APidRef p)); reflexivity|].
      intros d1 Hd1.
      apply ok_mbind; [okd|]. intros _.
      apply ok_mbind; [okd|]. intros n.
      eapply okv_mbind with (P := ntl).
      + destruct (Nat.eqb n 0).
        * eapply okv_mbind; [apply (okv_rename_for_deletion (ACidRef c)); reflexivity|].
          intros d2 Hd2.
          eapply okv_mbind; [apply (okv_rename_for_deletion (AObj c)); reflexivity|].
          intros d3 Hd3. apply okv_ret. auto with okf.
        * apply okv_ret. auto with okf.
      + intros l Hl. apply ok_mbind; [okd|]. intros _. auto with okf.
    - destruct e; try apply okv_raise; try exact Hd.
      apply ok_mbind; [okd|]. intros c.
      eapply okv_mbind; [apply (okv_rename_for_deletion (APidRef p)); reflexivity|].
      intros d Hd'.
      eapply okv_mbind with (P := ntl).
      + apply okv_try_finally; [|okd].
        apply ok_mbind; [okd|]. intros _.
        apply ok_mbind; [okd|]. intros m.
        apply ok_mbind; [destruct m; okd|]. intros _.
        apply ok_mbind; [okd|]. intros n. destruct (Nat.eqb n 0).
        * eapply okv_mbind; [apply (okv_rename_for_deletion (ACidRef c)); reflexivity|].
          intros d2 Hd2. apply okv_ret. auto with okf.
        * apply okv_ret. auto with okf.
      + intros l Hl. apply ok_mbind; [okd|]. intros _. auto with okf.
  Qed.

  Lemma ok_delete_object_unfixed : forall p, Ok (delete_object_unfixed p).
  Proof.
    intros p. unfold delete_object_unfixed.
    apply okv_try_finally; [|okd].
    apply ok_mbind; [okd|]. intros _.
    apply ok_mbind; [okd|]. intros r.
    destruct r as [c|e]; [apply okv_raise|]. destruct e; try apply okv_raise.
    eapply okv_mbind; [apply (okv_rename_for_deletion (APidRef p)); reflexivity|].
    intros d Hd.
    apply ok_mbind; [okd|]. intros c.
    apply ok_mbind.
    - apply okv_try_finally; [|okd].
      apply ok_mbind; [okd|]. intros _.
      apply ok_mbind; [okd|]. intros m. destruct m; auto with okf.
    - intros _. apply ok_mbind; [okd|]. intros _. auto with okf.
  Qed.

  Lemma ok_store_metadata : forall p f s v n, MV p f v n -> Ok (store_metadata p f s v n).
  Proof.
    intros p f s v n HMV T. unfold store_metadata.
    eapply safe_mbind; [apply (ok_acquire LMeta (IDoc (AMeta p f)))| |intros; exact I].
    intros _ T0 _. apply safe_try_finally; [|okauto].
    eapply safe_mbind; [apply (ok_open_source s)| |intros; exact I].
    intros _ T0' _.
    eapply safe_mbind with
      (Q1 := fun r T' => match r with
                         | Val t => ownb i t = true /\ T' t = Some (CData v n 0)
                         | Exn _ => True end); [| |intros; exact I].
    { unfold mktmp. simpl. split; [exact I|]. split; [|intros e; simpl; exact I].
      intros x [k [-> Hk]]. simpl.
      split; [(simpl; apply Nat.eqb_refl)|apply tupd_eq]. }
    intros t T1 [Hown Ht].
    eapply safe_mbind; [apply (write_chunks_safe n T1 t v n 0 Hown Ht)| |intros; exact I].
    intros u0 T2 Ht2. simpl in Ht2.
    eapply safe_mbind with (Q1 := fun _ _ => True); [| |intros; exact I].
    - unfold catch. eapply safe_bind with (Q1 := fun _ _ => True); [|intros; exact I].
      eapply safe_mbind with (Q1 := fun _ T' => T' = T2); [apply keep_mkdirs| |intros; exact I].
      intros _ T3 ->. eapply safe_rename_own; eauto. simpl. eauto.
    - intros r T3 _. destruct r as [u|e]; [exact I|].
      assert (H : Ok (unit_op (Remove t) ;;; @raise value e)) by okauto.
      apply H.
  Qed.

  Lemma ok_retrieve_metadata : forall p f, Ok (retrieve_metadata p f).
  Proof. intros. unfold retrieve_metadata. okauto. Qed.
  Lemma ok_delete_object_only : forall c, Ok (delete_object_only c).
  Proof. intros. unfold delete_object_only. okauto. Qed.
  Hint Resolve ok_delete_object_only : okf.
  Lemma ok_delete_if_invalid : forall c sz pre ok, Ok (delete_if_invalid c sz pre ok).
  Proof.
    intros. unfold delete_if_invalid.
    apply ok_mbind; [apply ok_catch; destruct sz, pre, ok; okauto|].
    intros [u|e]; [okauto|]. destruct e; okauto.
  Qed.

  Lemma ok_lift_unit : forall m, Ok m -> Ok (lift_unit m).
  Proof. intros. unfold lift_unit. okauto. Qed.

  Theorem api_okF : forall c, call_ok MV c -> Ok (api c).
  Proof.
    intros c Hc. destruct c; simpl.
    - apply ok_store_object.
    - apply ok_lift_unit. apply ok_tag_object.
    - apply ok_lift_unit. apply ok_delete_object.
    - apply ok_lift_unit. apply ok_delete_if_invalid.
    - apply ok_store_metadata. exact Hc.
    - apply ok_retrieve_metadata.
    - apply ok_lift_unit. apply ok_delete_metadata.
    - okauto.
    - okauto.
    - apply okv_raise.
    - apply ok_lift_unit. apply ok_delete_object_unfixed.
  Qed.

  Theorem api_safeF : forall c T, call_ok MV c -> SafeF MV i (api c) T (fun _ _ => True).
  Proof.
    intros c T Hc. eapply safe_weaken; [apply (api_okF c Hc)|]. auto.
  Qed.
End ApiSafeF.

(* ================================================================================== *)
(* 3. Steps that fail, and the pool invariant                                         *)
(* ================================================================================== *)

Section PoolInvF.
  Variable MV : versions.
  Variable A : Type.
  Variable ps : list (prog A).

  (* thread i's next operation — ANY operation — fails with error e: the world is unchanged,
     the thread receives the error *)
  Definition fail_step (c : cfg) (i : nat) (e : err) : option cfg :=
    match nth_error ps i, nth_error (fst c) i with
    | Some p, Some h =>
        match resume p (rev h) with
        | Some (Vis o k) => Some (upd_nth i (AErr e :: h) (fst c), snd c)
        | _ => None
        end
    | _, _ => None
    end.

  Inductive fstep : cfg -> cfg -> Prop :=
  | fs_norm : forall c i c', thread_step ps c i = Some c' -> fstep c c'
  | fs_fail : forall c i e c', fail_step c i e = Some c' -> fstep c c'.

  Inductive freachable (w0 : world) : cfg -> Prop :=
  | freach_init : freachable w0 (init_cfg ps w0)
  | freach_step : forall c c', freachable w0 c -> fstep c c' -> freachable w0 c'.

  (* Bracket's faulty step is a special case: [faultable] operations, error code EFault *)
  Lemma fault_step_fail_step : forall c i c',
    fault_step ps c i = Some c' -> fail_step c i EFault = Some c'.
  Proof.
    intros c i c' H. unfold fault_step in H. unfold fail_step.
    destruct (nth_error ps i) as [p|]; [|discriminate].
    destruct (nth_error (fst c) i) as [h|]; [|discriminate].
    destruct (resume p (rev h)) as [[r|o k|]|]; try discriminate.
    destruct (faultable o); [exact H|discriminate].
  Qed.

  Lemma gstep_fstep : forall c c', gstep ps c c' -> fstep c c'.
  Proof.
    intros c c' H. destruct H as [c i c' H|c i c' H].
    - eapply fs_norm. exact H.
    - eapply fs_fail. apply fault_step_fail_step. exact H.
  Qed.

  Lemma reachable_freachable : forall w0 c, reachable ps w0 c -> freachable w0 c.
  Proof.
    intros w0 c H. induction H as [|c c' _ IH Hs].
    - apply freach_init.
    - eapply freach_step; [exact IH|]. apply gstep_fstep. exact Hs.
  Qed.

  (* thread i: its residual program obeys the discipline WITH FAILURES under a knowledge T that
     the world confirms *)
  Definition thread_invF (w : world) (i : nat) (p : prog A) (h : list ans) : Prop :=
    exists m T, resume p (rev h) = Some m /\ SafeF MV i m T (fun _ _ => True) /\ agree i T w.

  Definition pool_invF (c : cfg) : Prop :=
    forall i p h, nth_error ps i = Some p -> nth_error (fst c) i = Some h ->
                  thread_invF (snd c) i p h.

  Lemma pool_invF_init : forall w,
    (forall i p, nth_error ps i = Some p -> SafeF MV i p tempty (fun _ _ => True)) ->
    pool_invF (init_cfg ps w).
  Proof.
    intros w Hs i p h Hp Hh. unfold init_cfg in Hh. simpl in Hh.
    rewrite nth_error_map in Hh. rewrite Hp in Hh. simpl in Hh. inversion Hh; subst h.
    exists p, tempty. split; [destruct p; reflexivity|]. split; [apply Hs; exact Hp|].
    intros a v _ H. discriminate.
  Qed.

  (* a normal step: Integrity's [step_sound], unchanged *)
  Lemma pool_stepF : forall c i c',
    pool_invF c -> thread_step ps c i = Some c' ->
    pool_invF c' /\ (IntegrityG MV (snd c) -> IntegrityG MV (snd c')).
  Proof.
    intros [hs w] i c' Hinv Hstep. unfold thread_step in Hstep. simpl in Hstep.
    destruct (nth_error ps i) as [p|] eqn:Ep; [|discriminate].
    destruct (nth_error hs i) as [h|] eqn:Eh; [|discriminate].
    destruct (resume p (rev h)) as [[r|o k|]|] eqn:Er; try discriminate.
    destruct (exec_op i o w) as [[a w']|] eqn:Ex; [|discriminate].
    inversion Hstep; subst c'; clear Hstep.
    destruct (Hinv i p h Ep Eh) as [m [T [Hm [Hsafe Hag]]]]. simpl in Hm, Hag.
    rewrite Er in Hm. inversion Hm; subst m; clear Hm.
    simpl in Hsafe. destruct Hsafe as [Hpre [Hk _]].
    destruct (step_sound MV i o T w a w' Hag Hpre Ex) as [Hans [Hag' [Hint Hframe]]].
    split; [|exact Hint].
    intros j q hj Hq Hj. simpl in Hj |- *.
    destruct (Nat.eq_dec i j) as [<-|Hne].
    - rewrite (Integrity.nth_error_upd_nth_eq _ hs i (a :: h) h Eh) in Hj. inversion Hj; subst hj.
      rewrite Ep in Hq. inversion Hq; subst q.
      exists (k a), (opnext i o T a). split; [|split; [apply Hk; exact Hans|exact Hag']].
      simpl. apply Integrity.resume_snoc with (o := o). exact Er.
    - rewrite Integrity.nth_error_upd_nth_neq in Hj by exact Hne.
      destruct (Hinv j q hj Hq Hj) as [m [Tj [Hm [Hsafe Hagj]]]]. simpl in Hm, Hagj.
      exists m, Tj. split; [exact Hm|]. split; [exact Hsafe|].
      intros x v Hx Hv. rewrite Hframe.
      + apply Hagj; assumption.
      + eapply ownb_tmpb. exact Hx.
      + eapply ownb_other; eauto.
  Qed.

  (* a failed step: the world does not move, the thread continues on its error path with the
     knowledge it had *)
  Lemma pool_failF : forall c i e c',
    pool_invF c -> fail_step c i e = Some c' -> pool_invF c' /\ snd c' = snd c.
  Proof.
    intros [hs w] i e c' Hinv Hstep. unfold fail_step in Hstep. simpl in Hstep.
    destruct (nth_error ps i) as [p|] eqn:Ep; [|discriminate].
    destruct (nth_error hs i) as [h|] eqn:Eh; [|discriminate].
    destruct (resume p (rev h)) as [[r|o k|]|] eqn:Er; try discriminate.
    inversion Hstep; subst c'; clear Hstep. split; [|reflexivity].
    destruct (Hinv i p h Ep Eh) as [m [T [Hm [Hsafe Hag]]]]. simpl in Hm, Hag.
    rewrite Er in Hm. inversion Hm; subst m; clear Hm.
    simpl in Hsafe. destruct Hsafe as [_ [_ Hf]].
    intros j q hj Hq Hj. simpl in Hj |- *.
    destruct (Nat.eq_dec i j) as [<-|Hne].
    - rewrite (Integrity.nth_error_upd_nth_eq _ hs i (AErr e :: h) h Eh) in Hj. inversion Hj; subst hj.
      rewrite Ep in Hq. inversion Hq; subst q.
      exists (k (AErr e)), T. split; [|split; [apply Hf|exact Hag]].
      simpl. apply Integrity.resume_snoc with (o := o). exact Er.
    - rewrite Integrity.nth_error_upd_nth_neq in Hj by exact Hne.
      exact (Hinv j q hj Hq Hj).
  Qed.

  Lemma pool_fstep : forall c c',
    pool_invF c -> fstep c c' ->
    pool_invF c' /\ (IntegrityG MV (snd c) -> IntegrityG MV (snd c')).
  Proof.
    intros c c' Hinv Hs. destruct Hs as [c i c' H|c i e c' H].
    - eapply pool_stepF; eauto.
    - destruct (pool_failF c i e c' Hinv H) as [H1 H2]. split; [exact H1|].
      rewrite H2. auto.
  Qed.

  Lemma pool_freachable : forall w0 c,
    (forall i p, nth_error ps i = Some p -> SafeF MV i p tempty (fun _ _ => True)) ->
    IntegrityG MV w0 -> freachable w0 c -> pool_invF c /\ IntegrityG MV (snd c).
  Proof.
    intros w0 c Hs HI H. induction H as [|c c' _ IH Hst].
    - split; [apply pool_invF_init; exact Hs|exact HI].
    - destruct IH as [H1 H2]. destruct (pool_fstep c c' H1 Hst) as [H3 H4]. auto.
  Qed.

  (* the operation a thread is about to issue obeys the discipline *)
  Lemma pool_next_opF : forall c i p h o k,
    pool_invF c -> nth_error ps i = Some p -> nth_error (fst c) i = Some h ->
    resume p (rev h) = Some (Vis o k) -> exists T, oppre MV i o T.
  Proof.
    intros c i p h o k Hinv Hp Hh Hr.
    destruct (Hinv i p h Hp Hh) as [m [T [Hm [Hsafe _]]]].
    rewrite Hr in Hm. inversion Hm; subst m. simpl in Hsafe. exists T. apply Hsafe.
  Qed.
End PoolInvF.

Arguments fail_step {A} ps c i e.
Arguments fstep {A} ps c c'.
Arguments freachable {A} ps w0 c.

(* ================================================================================== *)
(* 4. The theorems                                                                    *)
(* ================================================================================== *)

Lemma api_pool_safeF : forall MV calls,
  (forall c, In c calls -> call_ok MV c) ->
  forall i p, nth_error (map api calls) i = Some p -> SafeF MV i p tempty (fun _ _ => True).
Proof.
  intros MV calls Hok i p Hp. rewrite nth_error_map in Hp.
  destruct (nth_error calls i) as [c|] eqn:Ec; [|discriminate]. simpl in Hp. inversion Hp; subst p.
  apply api_safeF. apply Hok. eapply nth_error_In. exact Ec.
Qed.

(* THE GENERAL FORM: any pool of API calls, any start world satisfying Integrity, any finite
   execution in which each step is a normal step of some thread or the FAILURE of the next
   operation of some thread (any operation, any error code, world unchanged): every reached
   world satisfies Integrity; every metadata document is a supplied version; what survives a
   process death there satisfies Integrity. *)
Theorem integrity_under_failures : forall calls w0 c,
  Integrity w0 -> freachable (map api calls) w0 c ->
  IntegrityG (supplied calls w0) (snd c) /\ Integrity (snd c) /\ Integrity (reopen (snd c)).
Proof.
  intros calls w0 c HI Hr.
  assert (HG : IntegrityG (supplied calls w0) (snd c)).
  { eapply pool_freachable with (MV := supplied calls w0); [| |exact Hr].
    - apply api_pool_safeF. intros c0 Hc0. apply supplied_call_ok. exact Hc0.
    - apply Integrity_supplied. exact HI. }
  assert (HI' : Integrity (snd c)).
  { apply Integrity_any. eapply IntegrityG_mono; [|exact HG]. intros; exact I. }
  split; [exact HG|]. split; [exact HI'|].
  intros a v Hl. simpl in Hl. apply HI'. exact Hl.
Qed.

(* C09 under the faulty interleaving semantics of Bracket.v (C08): every configuration
   reachable by [gstep] — each step: some thread performs its next operation, which executes
   normally or, if [faultable], answers [AErr EFault] leaving the world unchanged. *)
Theorem integrity_under_faults : forall calls w0 c,
  Integrity w0 -> reachable (map api calls) w0 c -> Integrity (snd c).
Proof.
  intros calls w0 c HI Hr.
  apply (integrity_under_failures calls w0 c HI). apply reachable_freachable. exact Hr.
Qed.

Theorem integrity_under_faults_versions : forall calls w0 c,
  Integrity w0 -> reachable (map api calls) w0 c ->
  IntegrityG (supplied calls w0) (snd c) /\ Integrity (reopen (snd c)).
Proof.
  intros calls w0 c HI Hr.
  destruct (integrity_under_failures calls w0 c HI (reachable_freachable _ _ w0 c Hr))
    as [H1 [_ H3]]. auto.
Qed.

Lemma gexec_app : forall A (ps : list (prog A)) s1 s2 c,
  gexec ps (s1 ++ s2) c = match gexec ps s1 c with Some c1 => gexec ps s2 c1 | None => None end.
Proof.
  induction s1 as [|[i f] s1 IH]; intros s2 c; simpl; auto.
  destruct (if f then fault_step ps c i else thread_step ps c i); auto.
Qed.

(* every instant: every prefix of every schedule-with-faults ((i, true) = thread i's next
   operation fails) *)
Theorem integrity_under_faults_every_prefix : forall calls w0 pre post c,
  Integrity w0 ->
  gexec (map api calls) (pre ++ post) (init_cfg (map api calls) w0) = Some c ->
  exists c1, gexec (map api calls) pre (init_cfg (map api calls) w0) = Some c1 /\
             IntegrityG (supplied calls w0) (snd c1) /\ Integrity (snd c1) /\
             Integrity (reopen (snd c1)).
Proof.
  intros calls w0 pre post c HI Hex. rewrite gexec_app in Hex.
  destruct (gexec (map api calls) pre (init_cfg (map api calls) w0)) as [c1|] eqn:E; [|discriminate].
  exists c1. split; [reflexivity|].
  apply integrity_under_failures; [exact HI|]. apply reachable_freachable.
  eapply gexec_reachable; [apply reach_init|exact E].
Qed.

(* the thread part of the invariant needs no hypothesis on the start world *)
Lemma api_pool_invF : forall calls w0 c,
  freachable (map api calls) w0 c -> @pool_invF (supplied calls w0) _ (map api calls) c.
Proof.
  intros calls w0 c H. induction H as [|c c' _ IH Hst].
  - apply pool_invF_init. apply api_pool_safeF. intros c0 Hc0. apply supplied_call_ok. exact Hc0.
  - eapply pool_fstep; eauto.
Qed.

(* also on the error paths: the operation an API thread is about to issue never writes a
   permanent address where it stands ... *)
Theorem api_never_writes_permanent_in_place_under_faults : forall calls w0 c,
  freachable (map api calls) w0 c ->
  forall i p h o k a,
    nth_error (map api calls) i = Some p -> nth_error (fst c) i = Some h ->
    resume p (rev h) = Some (Vis o k) ->
    inplace_target o = Some a -> permb a = false.
Proof.
  intros calls w0 c Hr i p h o k a Hp Hh Hres Hin.
  pose proof (api_pool_invF calls w0 c Hr) as Hinv.
  destruct (@pool_next_opF _ _ _ _ _ _ _ _ _ Hinv Hp Hh Hres) as [T Hpre].
  eapply oppre_inplace; eauto.
Qed.

(* ... and a rename onto a permanent address has as its source a staging file that this very
   thread created *)
Theorem api_publishes_from_own_temp_under_faults : forall calls w0 c,
  freachable (map api calls) w0 c ->
  forall i p h s d k,
    nth_error (map api calls) i = Some p -> nth_error (fst c) i = Some h ->
    resume p (rev h) = Some (Vis (Rename s d) k) ->
    permb d = true -> exists ar n, s = ATmp ar i n.
Proof.
  intros calls w0 c Hr i p h s d k Hp Hh Hres Hperm.
  pose proof (api_pool_invF calls w0 c Hr) as Hinv.
  destruct (@pool_next_opF _ _ _ _ _ _ _ _ _ Hinv Hp Hh Hres) as [T Hpre].
  simpl in Hpre. destruct Hpre as [_ Hpre].
  destruct (ownb i s) eqn:Eo.
  - destruct s; simpl in Eo; try discriminate. apply Nat.eqb_eq in Eo. subst. eauto.
  - destruct Hpre as [_ Hp']. congruence.
Qed.

(* ---------- one thread, one planned fault (the [run_fault] semantics of C13) ---------- *)

(* [Sched.fault_op]: a transient or a persistent fault, at the k-th site; every step is a normal
   step or a failure that leaves the world unchanged *)
Lemma run_fault_integrity : forall MV A (m : prog A) st T w w' r,
  SafeF MV 0 m T (fun _ _ => True) -> agree 0 T w -> IntegrityG MV w ->
  run_fault st w m = Some (w', r) -> IntegrityG MV w'.
Proof.
  induction m as [a|o k IH|]; intros st T w w' r Hs Hag HI Hrun; simpl in Hrun.
  - inversion Hrun; subst. exact HI.
  - simpl in Hs. destruct Hs as [Hpre [Hk Hf]].
    assert (Hnorm : forall st', match exec_op 0 o w with
                                | Some (x, w1) => run_fault st' w1 (k x)
                                | None => None end = Some (w', r) -> IntegrityG MV w').
    { intros st' H. destruct (exec_op 0 o w) as [[x w1]|] eqn:Ex; [|discriminate].
      destruct (step_sound MV 0 o T w x w1 Hag Hpre Ex) as [Hans [Hag' [Hint _]]].
      eapply IH; [apply Hk; exact Hans|exact Hag'|apply Hint; exact HI|exact H]. }
    assert (Hfail : forall st', run_fault st' w (k (AErr EFault)) = Some (w', r) -> IntegrityG MV w').
    { intros st' H. eapply IH; [apply Hf|exact Hag|exact HI|exact H]. }
    unfold fault_op in Hrun.
    destruct (is_site o).
    + destruct st as [[|n] pers|d|].
      * destruct pers; [eapply Hfail; exact Hrun|].
        destruct o; try (eapply Hfail; exact Hrun). eapply Hnorm; exact Hrun.
      * eapply Hnorm; exact Hrun.
      * destruct (dest_eqb d (dest_of o)); [eapply Hfail|eapply Hnorm]; exact Hrun.
      * eapply Hnorm; exact Hrun.
    + eapply Hnorm; exact Hrun.
  - discriminate.
Qed.

Theorem run_fault_api_integrity : forall c st w w' r,
  Integrity w -> run_fault st w (api c) = Some (w', r) -> Integrity w'.
Proof.
  intros c st w w' r HI Hrun.
  apply Integrity_any. eapply run_fault_integrity; [| |apply Integrity_any; exact HI|exact Hrun].
  - apply api_safeF with (T := tempty). destruct c; simpl; exact I.
  - intros a v _ H. discriminate.
Qed.

(* ---------- a decidable form of Integrity, for examples ---------- *)

Definition goodb (a : addr) (v : fcontent) : bool :=
  match a, v with
  | AObj c, CData b n j => Nat.eqb b c && Nat.eqb j n
  | AObj _, _ => false
  | AMeta _ _, CData _ n j => Nat.eqb j n
  | AMeta _ _, _ => false
  | APidRef _, CCid _ => true
  | APidRef _, _ => false
  | _, _ => true
  end.

Definition integrityb (m : fmap) : bool := forallb (fun kv => goodb (fst kv) (snd kv)) m.

Lemma integrityb_sound : forall w, integrityb (fs w) = true -> Integrity w.
Proof.
  intros w H a v Hl. unfold integrityb in H. rewrite forallb_forall in H.
  assert (Hin : In (a, v) (fs w)).
  { clear H. induction (fs w) as [|[k v'] m IH]; simpl in Hl; [discriminate|].
    destruct (addr_eqb a k) eqn:E.
    - apply addr_eqb_true in E. inversion Hl; subst. left. reflexivity.
    - right. apply IH. exact Hl. }
  specialize (H _ Hin). simpl in H.
  destruct a as [c|p|c|p f|ar t n|a]; simpl in H |- *; auto.
  - destruct v; try discriminate.
    apply andb_true_iff in H. destruct H as [H1 H2].
    apply Nat.eqb_eq in H1. apply Nat.eqb_eq in H2. subst. eauto.
  - destruct v; try discriminate. eauto.
  - destruct v; try discriminate. apply Nat.eqb_eq in H. subst. eauto.
Qed.

(* ---------- the step relations, characterised (for the pinned statements) ---------- *)

Lemma gstep_iff : forall A (ps : list (prog A)) c c',
  gstep ps c c' <->
  (exists i, thread_step ps c i = Some c') \/ (exists i, fault_step ps c i = Some c').
Proof.
  intros A ps c c'. split.
  - intros H. destruct H as [c i c' H|c i c' H]; eauto.
  - intros [[i H]|[i H]]; [eapply gs_norm|eapply gs_fault]; exact H.
Qed.

Lemma reachable_iff : forall A (ps : list (prog A)) w0 c,
  reachable ps w0 c <->
  (c = init_cfg ps w0 \/ exists c0, reachable ps w0 c0 /\ gstep ps c0 c).
Proof.
  intros A ps w0 c. split.
  - intros H. destruct H as [|c0 c H1 H2]; eauto.
  - intros [->|[c0 [H1 H2]]]; [apply reach_init|eapply reach_step; eauto].
Qed.

Lemma fstep_iff : forall A (ps : list (prog A)) c c',
  fstep ps c c' <->
  (exists i, thread_step ps c i = Some c') \/ (exists i e, fail_step ps c i e = Some c').
Proof.
  intros A ps c c'. split.
  - intros H. destruct H as [c i c' H|c i e c' H]; eauto.
  - intros [[i H]|[i [e H]]]; [eapply fs_norm|eapply fs_fail]; exact H.
Qed.

Lemma freachable_iff : forall A (ps : list (prog A)) w0 c,
  freachable ps w0 c <->
  (c = init_cfg ps w0 \/ exists c0, freachable ps w0 c0 /\ fstep ps c0 c).
Proof.
  intros A ps w0 c. split.
  - intros H. destruct H as [|c0 c H1 H2]; eauto.
  - intros [->|[c0 [H1 H2]]]; [apply freach_init|eapply freach_step; eauto].
Qed.

(* ---------- the limit of the model: shutil.move's fall-back ---------- *)

(* In the model a failed [Rename] leaves the world unchanged ([gstep]) or, for the one-off
   fault of [run_fault], is survived as ONE atomic step.  The implementation's [shutil.move]
   answers a failed [os.rename] by copying the file to the destination IN PLACE and unlinking
   the source.  That copy is not an operation of the model; were it one, it would have to open
   the permanent destination for writing, and the very first step of that breaks the predicate:
   the theorems above do not extend to it. *)
Lemma copy_in_place_breaks_integrity : forall i c n,
  exists w', exec_op i (OpenWr (AObj c) (CData c (S n) 0)) empty_world = Some (AUnit, w') /\
             ~ Integrity w'.
Proof.
  intros i c n. eexists. split; [reflexivity|].
  intros H.
  assert (Hl : lookup (AObj c) (update (AObj c) (CData c (S n) 0) []) = Some (CData c (S n) 0)).
  { rewrite lookup_update. rewrite addr_eqb_refl. reflexivity. }
  destruct (H (AObj c) (CData c (S n) 0) Hl) as [k Hk]. inversion Hk; subst. lia.
Qed.

(* ... and the discipline forbids it: no API thread, on any path, ever issues it
   ([api_never_writes_permanent_in_place_under_faults]) *)
Lemma copy_in_place_not_allowed : forall MV i c v T, ~ oppre MV i (OpenWr (AObj c) v) T.
Proof. intros MV i c v T H. simpl in H. discriminate. Qed.
