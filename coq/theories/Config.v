(* Config.v -- the configuration-pinning logic of FileHashStore.__init__
   (filehashstore.py:82-198), i.e. _validate_properties (:419-467),
   _verify_hashstore_properties (:364-417), the algorithm gate and the write order of
   _write_properties (:230-288), the existence tests before directory creation (:125-132) and
   the choice between threading and multiprocessing primitives (:136-139, D5).

   Coq 8.16.1, stdlib only + HS.PyVal, no axioms.

   What is modelled / what is not
   * A properties dict is an association list read with [get] (first match).  A Python dict has
     unique keys; for lists with unique keys [get] is exactly dict lookup.
   * [option props]: [None] is Python None.  Truthy non-dict arguments (a list, a string, ...)
     are not in the type; Python answers ValueError for them (:432-435).
   * [py_int] is Python's [int(v)] on None / bool / int / ASCII str.  [PFloat] carries no value
     in PyVal, so the model says "not convertible" for it whereas Python truncates a finite
     float; floats (and every other kind) are outside the quantifier of the property
     ("int and string encodings").
   * hashstore.yaml is abstracted to [cfg]: two ints and two strings.  PyYAML's dump/load
     round trip on these is trusted (checked by the correspondence harness).  Creating a store
     with a namespace that is not a str cannot be expressed with [cfg]; see [out_of_model].
   * store_path is assumed to be something [Path()] accepts (str or Path): for any other kind
     Python raises TypeError at [Path(prop_store_path)] (:100), after validation and before the
     yaml comparison; that test is not modelled.
   * The three data directories objects/ metadata/ refs/ are collapsed into one bit
     [data_dirs_exist] ("the store has been populated"): worlds in which only some of the three
     exist are not distinguished. *)
From Coq Require Import String Ascii ZArith List Bool.
From HS Require Import PyVal.
Import ListNotations.
Open Scope string_scope.

(* ------------------------------------------------------------------ *)
(* Properties dictionaries                                             *)
(* ------------------------------------------------------------------ *)

Definition props := list (string * pyval).

Fixpoint get (k : string) (p : props) : option pyval :=
  match p with
  | [] => None
  | (k', v) :: r => if String.eqb k k' then Some v else get k r
  end.

(* FileHashStore.property_required_keys (:60-66), in order *)
Definition required_keys : list string :=
  ["store_path"; "store_depth"; "store_width"; "store_algorithm"; "store_metadata_namespace"].

(* ------------------------------------------------------------------ *)
(* Python int()                                                        *)
(* ------------------------------------------------------------------ *)

(* The white space int() strips from an ASCII str is C isspace: \t \n \v \f \r and space.
   NOTE this is smaller than str.strip()/str.isspace ([PyVal.ascii_space]): the separators
   0x1c-0x1f are NOT skipped by int() (int("\x1c3") is a ValueError in CPython; observed). *)
Definition int_space (c : ascii) : bool :=
  let n := nat_of_ascii c in (Nat.leb 9 n && Nat.leb n 13) || Nat.eqb n 32.

Definition is_digit (c : ascii) : bool :=
  let n := nat_of_ascii c in Nat.leb 48 n && Nat.leb n 57.

Definition digit_val (c : ascii) : Z := Z.of_nat (nat_of_ascii c - 48).

Fixpoint lstrip (s : string) : string :=
  match s with
  | EmptyString => EmptyString
  | String c r => if int_space c then lstrip r else s
  end.

Fixpoint rstrip (s : string) : string :=
  match s with
  | EmptyString => EmptyString
  | String c r =>
      match rstrip r with
      | EmptyString => if int_space c then EmptyString else String c EmptyString
      | r' => String c r'
      end
  end.

(* after at least one digit (value so far [acc]): digits, or one underscore followed by a digit *)
Fixpoint digits_tail (acc : Z) (s : string) : option Z :=
  match s with
  | EmptyString => Some acc
  | String c r =>
      if is_digit c then digits_tail (acc * 10 + digit_val c) r
      else if Ascii.eqb c "_" then
        match r with
        | EmptyString => None
        | String d r' =>
            if is_digit d then digits_tail (acc * 10 + digit_val d) r' else None
        end
      else None
  end.

(* digit ( "_"? digit )*   -- base 10, leading zeros allowed, no prefix *)
Definition digits (s : string) : option Z :=
  match s with
  | EmptyString => None
  | String c r => if is_digit c then digits_tail (digit_val c) r else None
  end.

Definition py_int_of_string (s : string) : option Z :=
  match rstrip (lstrip s) with
  | EmptyString => None
  | String c r =>
      if Ascii.eqb c "+" then digits r
      else if Ascii.eqb c "-" then option_map Z.opp (digits r)
      else digits (String c r)
  end.

Definition py_int (v : pyval) : option Z :=
  match v with
  | PInt z => Some z
  | PBool b => Some (if b then 1 else 0)%Z
  | PStr s => py_int_of_string s
  | _ => None
  end.

Example int_ex1  : py_int_of_string "3" = Some 3%Z.      Proof. reflexivity. Qed.
Example int_ex2  : py_int_of_string " 3 " = Some 3%Z.    Proof. reflexivity. Qed.
Example int_ex3  : py_int_of_string "+3" = Some 3%Z.     Proof. reflexivity. Qed.
Example int_ex4  : py_int_of_string "-2" = Some (-2)%Z.  Proof. reflexivity. Qed.
Example int_ex5  : py_int_of_string "1_0" = Some 10%Z.   Proof. reflexivity. Qed.
Example int_ex6  : py_int_of_string "03" = Some 3%Z.     Proof. reflexivity. Qed.
Example int_ex7  : py_int_of_string "" = None.           Proof. reflexivity. Qed.
Example int_ex8  : py_int_of_string "3.0" = None.        Proof. reflexivity. Qed.
Example int_ex9  : py_int_of_string "_3" = None.         Proof. reflexivity. Qed.
Example int_ex10 : py_int_of_string "3_" = None.         Proof. reflexivity. Qed.
Example int_ex11 : py_int_of_string "1__0" = None.       Proof. reflexivity. Qed.
Example int_ex12 : py_int_of_string "0x10" = None.       Proof. reflexivity. Qed.
(* further cases observed on CPython *)
Example int_ex13 : py_int_of_string "+ 3" = None.        Proof. reflexivity. Qed.
Example int_ex14 : py_int_of_string "+-3" = None.        Proof. reflexivity. Qed.
Example int_ex15 : py_int_of_string "+_3" = None.        Proof. reflexivity. Qed.
Example int_ex16 : py_int_of_string "-0" = Some 0%Z.     Proof. reflexivity. Qed.
Example int_ex17 : py_int_of_string "00_0" = Some 0%Z.   Proof. reflexivity. Qed.
Example int_ex18 : py_int_of_string "   " = None.        Proof. reflexivity. Qed.
Example int_ex19 : py_int_of_string "1 0" = None.        Proof. reflexivity. Qed.
Example int_ex20 : (* 0x1c is str.isspace but is not skipped by int() *)
  py_int_of_string (String (ascii_of_nat 28) "3") = None /\
  ascii_space (ascii_of_nat 28) = true.
Proof. split; reflexivity. Qed.
Example int_ex21 : (* \t \n 3 \r *)
  py_int_of_string (String (ascii_of_nat 9) (String (ascii_of_nat 10)
                     (String "3" (String (ascii_of_nat 13) "")))) = Some 3%Z.
Proof. reflexivity. Qed.
Example int_ex22 : py_int (PBool true) = Some 1%Z /\ py_int PNone = None /\ py_int PBytes = None.
Proof. repeat split. Qed.

Lemma py_int_PInt : forall z, py_int (PInt z) = Some z.
Proof. reflexivity. Qed.

Lemma py_int_PStr : forall s, py_int (PStr s) = py_int_of_string s.
Proof. reflexivity. Qed.

Lemma py_int_not_none : forall v z, py_int v = Some z -> v <> PNone.
Proof. intros v z Hint Hv. subst v. discriminate Hint. Qed.

(* ------------------------------------------------------------------ *)
(* _validate_properties                                                *)
(* ------------------------------------------------------------------ *)

Definition is_none (v : pyval) : bool := match v with PNone => true | _ => false end.

Lemma is_none_false : forall v, is_none v = false <-> v <> PNone.
Proof.
  intros v. split.
  - intros Hn Hv. subst v. discriminate Hn.
  - intros Hv. destruct v; try reflexivity. exfalso. apply Hv. reflexivity.
Qed.

Notation "'let?' x ':=' e 'in' k" :=
  (match e with inl err => inl err | inr x => k end)
    (at level 200, x name, e at level 100, k at level 200, right associativity).

(* [key not in properties] -> KeyError ; [value is None] -> ValueError ; else the value *)
Definition req (k : string) (p : props) : exn + pyval :=
  match get k p with
  | None => inl EKeyError
  | Some v => if is_none v then inl EValueError else inr v
  end.

(* ... and for store_depth / store_width: [int(value)], any exception -> ValueError *)
Definition req_int (k : string) (p : props) : exn + Z :=
  let? v := req k p in
  match py_int v with
  | Some z => inr z
  | None => inl EValueError
  end.

(* (path, depth, width, algorithm value, namespace value) *)
Definition validated := (pyval * Z * Z * pyval * pyval)%type.

(* the loop over property_required_keys, unrolled in key order *)
Definition validate_dict (p : props) : exn + validated :=
  let? vp := req "store_path" p in
  let? d := req_int "store_depth" p in
  let? w := req_int "store_width" p in
  let? a := req "store_algorithm" p in
  let? n := req "store_metadata_namespace" p in
  inr (vp, d, w, a, n).

(* [if properties:] (:85) then [_validate_properties] *)
Definition validate (p : option props) : exn + validated :=
  match p with
  | None => inl EValueError
  | Some [] => inl EValueError
  | Some (kv :: r) => validate_dict (kv :: r)
  end.

(* The outcome of the loop body for one key, for stating "the first bad key decides". *)
Definition int_key (k : string) : bool :=
  String.eqb k "store_depth" || String.eqb k "store_width".

Definition key_error (k : string) (p : props) : option exn :=
  if int_key k
  then match req_int k p with inl e => Some e | inr _ => None end
  else match req k p with inl e => Some e | inr _ => None end.

(* ------------------------------------------------------------------ *)
(* The constructor's decision                                          *)
(* ------------------------------------------------------------------ *)

(* what hashstore.yaml pins *)
Record cfg := mk_cfg { c_depth : Z; c_width : Z; c_algo : string; c_ns : string }.

Inductive effect :=
| EfMkRoot                  (* create the store root directory *)
| EfWriteYaml (c : cfg)     (* write hashstore.yaml *)
| EfMkDataDirs.             (* create objects/tmp metadata/tmp refs/{tmp,pids,cids} *)

Inductive decision :=
| Accept (c : cfg) (effects : list effect)
| Refuse (e : exn).

(* _write_properties: accepted_store_algorithms (:256); [x in list] is == on each element *)
Definition accepted_store_algorithms : list string :=
  ["MD5"; "SHA-1"; "SHA-256"; "SHA-384"; "SHA-512"].

Definition accepted_algo (v : pyval) : option string :=
  find (fun s => py_eq v (PStr s)) accepted_store_algorithms.

(* Creating a store with a store_metadata_namespace that is not a str writes a yaml scalar that
   [cfg] cannot express (Python itself does not object).  The function has to be total, so it
   answers with a class that no modelled path of the constructor produces, and
   [out_of_model_iff] proves that this is the only way to get it.  A correspondence harness
   must skip inputs on which the model says [Refuse out_of_model]. *)
Definition out_of_model : exn := ETypeError.

Definition data_effects (data_dirs_exist : bool) : list effect :=
  if data_dirs_exist then [] else [EfMkDataDirs].

Definition root_effects (root_exists : bool) : list effect :=
  if root_exists then [] else [EfMkRoot].

Definition open_decision (yaml : option cfg) (root_exists data_dirs_exist : bool)
           (p : option props) : decision :=
  match validate p with
  | inl e => Refuse e
  | inr (_, d, w, a, n) =>
      match yaml with
      | Some y =>
          (* _verify_hashstore_properties, yaml present: key order, Python != *)
          if negb (py_eq (PInt (c_depth y)) (PInt d)) then Refuse EValueError
          else if negb (py_eq (PInt (c_width y)) (PInt w)) then Refuse EValueError
          else if negb (py_eq (PStr (c_algo y)) a) then Refuse EValueError
          else if negb (py_eq (PStr (c_ns y)) n) then Refuse EValueError
          else Accept y (data_effects data_dirs_exist)
      | None =>
          (* _verify_hashstore_properties, no yaml *)
          if root_exists && data_dirs_exist then Refuse ERuntimeError
          else
            (* _write_properties: algorithm gate BEFORE anything is created *)
            match accepted_algo a with
            | None => Refuse EValueError
            | Some algo =>
                match n with
                | PStr ns =>
                    let c := mk_cfg d w algo ns in
                    Accept c (root_effects root_exists ++ [EfWriteYaml c; EfMkDataDirs])
                | _ => Refuse out_of_model
                end
            end
      end
  end.

Definition effects_of (d : decision) : list effect :=
  match d with Accept _ eff => eff | Refuse _ => [] end.

(* mode selection (:136-139) *)
Definition mode_of_env (env : option string) : bool :=
  match env with Some s => String.eqb s "True" | None => false end.

(* are the *_mp primitives created?  fixed = false: the code today (D5); true: repaired *)
Definition has_mp_primitives (fixed : bool) (env : option string) : bool :=
  if fixed then mode_of_env env
  else py_eq (PBool (mode_of_env env)) (PStr "True").

(* ------------------------------------------------------------------ *)
(* Tests of the definitions                                            *)
(* ------------------------------------------------------------------ *)

Definition ns0 : string := "https://ns.dataone.org/service/types/v2.0#SystemMetadata".
Definition y0 : cfg := mk_cfg 3 2 "SHA-256" ns0.
Definition p0 (d w a n : pyval) : props :=
  [("store_path", PStr "/var/hs"); ("store_depth", d); ("store_width", w);
   ("store_algorithm", a); ("store_metadata_namespace", n)].

(* (statements below were first tried with [Eval vm_compute]) *)
Example ex_validate :
  validate (Some (p0 (PStr "3") (PInt 2) (PStr "SHA-256") (PStr ns0)))
  = inr (PStr "/var/hs", 3%Z, 2%Z, PStr "SHA-256", PStr ns0).
Proof. vm_compute. reflexivity. Qed.

Example ex_create :
  open_decision None false false (Some (p0 (PStr "3") (PInt 2) (PStr "SHA-256") (PStr ns0)))
  = Accept y0 [EfMkRoot; EfWriteYaml y0; EfMkDataDirs].
Proof. vm_compute. reflexivity. Qed.

Example ex_create_root_exists :
  open_decision None true false (Some (p0 (PInt 3) (PStr " 2 ") (PStr "SHA-256") (PStr ns0)))
  = Accept y0 [EfWriteYaml y0; EfMkDataDirs].
Proof. vm_compute. reflexivity. Qed.

Example ex_create_sha256_refused :
  open_decision None true false (Some (p0 (PStr "3") (PInt 2) (PStr "sha256") (PStr ns0)))
  = Refuse EValueError.
Proof. vm_compute. reflexivity. Qed.

Example ex_data_without_yaml :
  open_decision None true true (Some (p0 (PStr "3") (PInt 2) (PStr "SHA-256") (PStr ns0)))
  = Refuse ERuntimeError.
Proof. vm_compute. reflexivity. Qed.

(* the RuntimeError test comes before the algorithm gate *)
Example ex_data_without_yaml_bad_algo :
  open_decision None true true (Some (p0 (PStr "3") (PInt 2) (PStr "sha256") (PStr ns0)))
  = Refuse ERuntimeError.
Proof. vm_compute. reflexivity. Qed.

(* int / str encodings against an existing yaml *)
Example ex_reopen_str_depth_accepted :
  open_decision (Some y0) true true (Some (p0 (PStr "3") (PInt 2) (PStr "SHA-256") (PStr ns0)))
  = Accept y0 [].
Proof. vm_compute. reflexivity. Qed.

Example ex_reopen_int_depth_accepted :
  open_decision (Some y0) true true (Some (p0 (PInt 3) (PStr "2") (PStr "SHA-256") (PStr ns0)))
  = Accept y0 [].
Proof. vm_compute. reflexivity. Qed.

Example ex_reopen_padded_depth_accepted :
  open_decision (Some y0) true false (Some (p0 (PStr " +03 ") (PStr "0_2") (PStr "SHA-256") (PStr ns0)))
  = Accept y0 [EfMkDataDirs].
Proof. vm_compute. reflexivity. Qed.

Example ex_reopen_sha256_refused :
  open_decision (Some y0) true true (Some (p0 (PStr "3") (PInt 2) (PStr "sha256") (PStr ns0)))
  = Refuse EValueError.
Proof. vm_compute. reflexivity. Qed.

Example ex_reopen_other_depth_refused :
  open_decision (Some y0) true true (Some (p0 (PStr "2") (PInt 2) (PStr "SHA-256") (PStr ns0)))
  = Refuse EValueError.
Proof. vm_compute. reflexivity. Qed.

Example ex_reopen_other_ns_refused :
  open_decision (Some y0) true true (Some (p0 (PInt 3) (PInt 2) (PStr "SHA-256") (PStr "other")))
  = Refuse EValueError.
Proof. vm_compute. reflexivity. Qed.

(* a supplied non-string never equals the yaml string *)
Example ex_reopen_path_valued_ns_refused :
  open_decision (Some y0) true true (Some (p0 (PInt 3) (PInt 2) (PStr "SHA-256") (PPath ns0)))
  = Refuse EValueError.
Proof. vm_compute. reflexivity. Qed.

(* the depth is not int-like: ValueError from validation, before store_width is looked at *)
Example ex_junk_depth_before_missing_width :
  open_decision (Some y0) true true (Some [("store_path", PStr "/var/hs"); ("store_depth", PStr "x")])
  = Refuse EValueError.
Proof. vm_compute. reflexivity. Qed.

Example ex_missing_depth_before_none_width :
  open_decision (Some y0) true true (Some [("store_path", PStr "/var/hs"); ("store_width", PNone)])
  = Refuse EKeyError.
Proof. vm_compute. reflexivity. Qed.

Example ex_none_path_before_missing_depth :
  open_decision None false false (Some [("store_path", PNone)]) = Refuse EValueError.
Proof. vm_compute. reflexivity. Qed.

Example ex_mode :
  mode_of_env (Some "True") = true /\ mode_of_env (Some "true") = false /\
  mode_of_env (Some "1") = false /\ mode_of_env None = false /\
  has_mp_primitives false (Some "True") = false /\ has_mp_primitives true (Some "True") = true.
Proof. vm_compute. repeat split. Qed.

(* ------------------------------------------------------------------ *)
(* Auxiliary lemmas                                                    *)
(* ------------------------------------------------------------------ *)

Lemma py_eq_str_l : forall s v, py_eq (PStr s) v = true <-> v = PStr s.
Proof.
  intros s v. split.
  - intros Heq. destruct v; simpl in Heq; try discriminate Heq.
    apply String.eqb_eq in Heq. subst. reflexivity.
  - intros Hv. subst v. simpl. apply String.eqb_refl.
Qed.

Lemma py_eq_str_r : forall s v, py_eq v (PStr s) = true <-> v = PStr s.
Proof.
  intros s v. split.
  - intros Heq. destruct v; simpl in Heq; try discriminate Heq.
    apply String.eqb_eq in Heq. subst. reflexivity.
  - intros Hv. subst v. simpl. apply String.eqb_refl.
Qed.

Lemma py_eq_int : forall a b, py_eq (PInt a) (PInt b) = true <-> a = b.
Proof. intros a b. simpl. apply Z.eqb_eq. Qed.

Lemma accepted_algo_some : forall v s,
  accepted_algo v = Some s <-> v = PStr s /\ In s accepted_store_algorithms.
Proof.
  intros v s. split.
  - intros Hf. unfold accepted_algo in Hf. apply find_some in Hf.
    destruct Hf as [Hin Heq]. apply py_eq_str_r in Heq. split; assumption.
  - intros [Hv Hin]. subst v. unfold accepted_algo, accepted_store_algorithms in *.
    simpl in Hin.
    destruct Hin as [H | [H | [H | [H | [H | H]]]]]; try (subst s; reflexivity).
    contradiction.
Qed.

Lemma accepted_algo_none : forall v,
  accepted_algo v = None <-> (forall s, In s accepted_store_algorithms -> v <> PStr s).
Proof.
  intros v. split.
  - intros Hf s Hin Hv. unfold accepted_algo in Hf.
    pose proof (find_none _ _ Hf s Hin) as Hne. simpl in Hne.
    apply py_eq_str_r in Hv. rewrite Hv in Hne. discriminate Hne.
  - intros Hall. destruct (accepted_algo v) as [s|] eqn:Hf; [|reflexivity].
    apply accepted_algo_some in Hf. destruct Hf as [Hv Hin].
    exfalso. exact (Hall s Hin Hv).
Qed.

Lemma req_inr : forall k p v, req k p = inr v <-> get k p = Some v /\ v <> PNone.
Proof.
  intros k p v. unfold req. destruct (get k p) as [v0|] eqn:Hget.
  - destruct (is_none v0) eqn:Hn.
    + split; [intros H; discriminate H|].
      intros [Hv Hnn]. injection Hv as Hv. subst v0.
      apply is_none_false in Hnn. rewrite Hnn in Hn. discriminate Hn.
    + split.
      * intros H. injection H as H. subst v0. split; [reflexivity|].
        apply is_none_false. exact Hn.
      * intros [Hv _]. injection Hv as Hv. subst v0. reflexivity.
  - split; [intros H; discriminate H | intros [H _]; discriminate H].
Qed.

Lemma req_key_error : forall k p, req k p = inl EKeyError <-> get k p = None.
Proof.
  intros k p. unfold req. destruct (get k p) as [v0|] eqn:Hget.
  - destruct (is_none v0); split; intros H; discriminate H.
  - split; reflexivity.
Qed.

Lemma req_value_error : forall k p, req k p = inl EValueError <-> get k p = Some PNone.
Proof.
  intros k p. unfold req. destruct (get k p) as [v0|] eqn:Hget.
  - destruct (is_none v0) eqn:Hn.
    + destruct v0; try discriminate Hn. split; reflexivity.
    + split; [intros H; discriminate H|].
      intros H. injection H as H. subst v0. discriminate Hn.
  - split; intros H; discriminate H.
Qed.

Lemma req_int_inr : forall k p z,
  req_int k p = inr z <-> exists v, get k p = Some v /\ py_int v = Some z.
Proof.
  intros k p z. unfold req_int. destruct (req k p) as [e|v] eqn:Hreq.
  - split; [intros H; discriminate H|].
    intros [v [Hget Hint]].
    assert (Hr : req k p = inr v).
    { apply req_inr. split; [exact Hget | exact (py_int_not_none _ _ Hint)]. }
    rewrite Hr in Hreq. discriminate Hreq.
  - apply req_inr in Hreq. destruct Hreq as [Hget Hnn].
    destruct (py_int v) as [z0|] eqn:Hint.
    + split.
      * intros H. injection H as H. subst z0. exists v. split; assumption.
      * intros [v' [Hget' Hint']]. rewrite Hget in Hget'. injection Hget' as Hv. subst v'.
        rewrite Hint in Hint'. injection Hint' as Hz. subst z0. reflexivity.
    + split; [intros H; discriminate H|].
      intros [v' [Hget' Hint']]. rewrite Hget in Hget'. injection Hget' as Hv. subst v'.
      rewrite Hint in Hint'. discriminate Hint'.
Qed.

(* What a successful validation means, with [get] explicitly. *)
Lemma validate_dict_ok_iff : forall p vp d w a n,
  validate_dict p = inr (vp, d, w, a, n) <->
  (get "store_path" p = Some vp /\ vp <> PNone) /\
  (exists vd, get "store_depth" p = Some vd /\ py_int vd = Some d) /\
  (exists vw, get "store_width" p = Some vw /\ py_int vw = Some w) /\
  (get "store_algorithm" p = Some a /\ a <> PNone) /\
  (get "store_metadata_namespace" p = Some n /\ n <> PNone).
Proof.
  intros p vp d w a n.
  rewrite <- (req_inr "store_path"), <- (req_int_inr "store_depth"),
          <- (req_int_inr "store_width"), <- (req_inr "store_algorithm"),
          <- (req_inr "store_metadata_namespace").
  unfold validate_dict.
  destruct (req "store_path" p) as [e1|vp'] eqn:H1.
  { split; [intros H; discriminate H | intros [H _]; discriminate H]. }
  destruct (req_int "store_depth" p) as [e2|d'] eqn:H2.
  { split; [intros H; discriminate H | intros [_ [H _]]; discriminate H]. }
  destruct (req_int "store_width" p) as [e3|w'] eqn:H3.
  { split; [intros H; discriminate H | intros [_ [_ [H _]]]; discriminate H]. }
  destruct (req "store_algorithm" p) as [e4|a'] eqn:H4.
  { split; [intros H; discriminate H | intros [_ [_ [_ [H _]]]]; discriminate H]. }
  destruct (req "store_metadata_namespace" p) as [e5|n'] eqn:H5.
  { split; [intros H; discriminate H | intros [_ [_ [_ [_ H]]]]; discriminate H]. }
  split.
  - intros H. injection H as Hp Hd Hw Ha Hn. subst. repeat split; reflexivity.
  - intros [Hp [Hd [Hw [Ha Hn]]]].
    injection Hp as Hp. injection Hd as Hd. injection Hw as Hw.
    injection Ha as Ha. injection Hn as Hn. subst. reflexivity.
Qed.

Lemma validate_some : forall p : props, p <> [] -> validate (Some p) = validate_dict p.
Proof.
  intros p Hne. destruct p as [|kv r]; [exfalso; apply Hne; reflexivity | reflexivity].
Qed.

Lemma validate_ok_nonempty : forall (p : props) t, validate (Some p) = inr t -> p <> [].
Proof. intros p t Hv Hp. subst p. discriminate Hv. Qed.

Theorem validate_ok_iff : forall (p : props) vp d w a n,
  validate (Some p) = inr (vp, d, w, a, n) <->
  p <> [] /\
  (get "store_path" p = Some vp /\ vp <> PNone) /\
  (exists vd, get "store_depth" p = Some vd /\ py_int vd = Some d) /\
  (exists vw, get "store_width" p = Some vw /\ py_int vw = Some w) /\
  (get "store_algorithm" p = Some a /\ a <> PNone) /\
  (get "store_metadata_namespace" p = Some n /\ n <> PNone).
Proof.
  intros p vp d w a n. split.
  - intros Hv. pose proof (validate_ok_nonempty _ _ Hv) as Hne.
    rewrite (validate_some _ Hne) in Hv. split; [exact Hne|].
    apply validate_dict_ok_iff. exact Hv.
  - intros [Hne Hrest]. rewrite (validate_some _ Hne).
    apply validate_dict_ok_iff. exact Hrest.
Qed.

(* validation never raises anything but KeyError / ValueError *)
Theorem validate_error_classes : forall p e,
  validate p = inl e -> e = EKeyError \/ e = EValueError.
Proof.
  intros p e Hv. destruct p as [[|kv r]|]; simpl in Hv;
    try (injection Hv as Hv; subst e; right; reflexivity).
  unfold validate_dict, req_int, req in Hv.
  repeat match type of Hv with
         | context [match get ?k ?q with _ => _ end] => destruct (get k q)
         | context [if is_none ?v then _ else _] => destruct (is_none v)
         | context [match py_int ?v with _ => _ end] => destruct (py_int v)
         end;
    try discriminate Hv; injection Hv as Hv; subst e; auto.
Qed.

Lemma open_validate_inl : forall y re dd p e,
  validate p = inl e -> open_decision y re dd p = Refuse e.
Proof. intros y re dd p e Hv. unfold open_decision. rewrite Hv. reflexivity. Qed.

(* the comparison against an existing yaml, folded *)
Definition same_cfg (y : cfg) (d w : Z) (a n : pyval) : bool :=
  Z.eqb (c_depth y) d && Z.eqb (c_width y) w &&
  py_eq (PStr (c_algo y)) a && py_eq (PStr (c_ns y)) n.

Lemma same_cfg_true : forall y d w a n,
  same_cfg y d w a n = true <->
  d = c_depth y /\ w = c_width y /\ a = PStr (c_algo y) /\ n = PStr (c_ns y).
Proof.
  intros y d w a n. unfold same_cfg.
  rewrite !andb_true_iff, !Z.eqb_eq, !py_eq_str_l.
  split.
  - intros [[[Hd Hw] Ha] Hn]. repeat split; auto.
  - intros [Hd [Hw [Ha Hn]]]. repeat split; auto.
Qed.

Lemma open_existing_eq : forall y re dd p,
  open_decision (Some y) re dd p =
  match validate p with
  | inl e => Refuse e
  | inr (_, d, w, a, n) =>
      if same_cfg y d w a n then Accept y (data_effects dd) else Refuse EValueError
  end.
Proof.
  intros y re dd p. unfold open_decision, same_cfg.
  destruct (validate p) as [e | [[[[vp d] w] a] n]]; [reflexivity|].
  change (py_eq (PInt (c_depth y)) (PInt d)) with (Z.eqb (c_depth y) d).
  change (py_eq (PInt (c_width y)) (PInt w)) with (Z.eqb (c_width y) w).
  destruct (Z.eqb (c_depth y) d); destruct (Z.eqb (c_width y) w);
    destruct (py_eq (PStr (c_algo y)) a); destruct (py_eq (PStr (c_ns y)) n); reflexivity.
Qed.

(* ------------------------------------------------------------------ *)
(* Opening an existing store                                           *)
(* ------------------------------------------------------------------ *)

(* Opening a store that has a hashstore.yaml succeeds ONLY with an equal configuration: the
   five keys are present and not None, depth and width convert (int, bool, int-like str) to the
   pinned integers, and algorithm and namespace are the pinned strings (a non-str value never
   matches).  ([vd <> PNone] and [vw <> PNone] are implied by [py_int _ = Some _];
   [PStr _ <> PNone] trivially.) *)
Theorem open_iff : forall y re dd (p : props),
  (exists c eff, open_decision (Some y) re dd (Some p) = Accept c eff) <->
  (p <> [] /\
   (exists vp, get "store_path" p = Some vp /\ vp <> PNone) /\
   (exists vd, get "store_depth" p = Some vd /\ py_int vd = Some (c_depth y)) /\
   (exists vw, get "store_width" p = Some vw /\ py_int vw = Some (c_width y)) /\
   get "store_algorithm" p = Some (PStr (c_algo y)) /\
   get "store_metadata_namespace" p = Some (PStr (c_ns y))).
Proof.
  intros y re dd p. rewrite open_existing_eq. split.
  - intros [c [eff Hacc]].
    destruct (validate (Some p)) as [e | [[[[vp d] w] a] n]] eqn:Hv; [discriminate Hacc|].
    destruct (same_cfg y d w a n) eqn:Hsame; [|discriminate Hacc].
    apply same_cfg_true in Hsame. destruct Hsame as [Hd [Hw [Ha Hn]]]. subst d w a n.
    apply validate_ok_iff in Hv.
    destruct Hv as [Hne [Hp [Hd [Hw [[Ha _] [Hn _]]]]]].
    split; [exact Hne|]. split; [exists vp; exact Hp|].
    split; [exact Hd|]. split; [exact Hw|]. split; assumption.
  - intros [Hne [[vp Hp] [Hd [Hw [Ha Hn]]]]].
    assert (Hv : validate (Some p) =
                 inr (vp, c_depth y, c_width y, PStr (c_algo y), PStr (c_ns y))).
    { apply validate_ok_iff. split; [exact Hne|]. split; [exact Hp|].
      split; [exact Hd|]. split; [exact Hw|].
      split; (split; [assumption | discriminate]). }
    rewrite Hv.
    assert (Hsame : same_cfg y (c_depth y) (c_width y) (PStr (c_algo y)) (PStr (c_ns y)) = true).
    { apply same_cfg_true. repeat split; reflexivity. }
    rewrite Hsame. exists y, (data_effects dd). reflexivity.
Qed.

(* An accepted open of an existing store returns the PINNED configuration, and its only
   possible effect is the creation of missing data directories. *)
Theorem accept_existing_returns_pinned : forall y re dd p c eff,
  open_decision (Some y) re dd p = Accept c eff ->
  c = y /\ eff = (if dd then [] else [EfMkDataDirs]) /\
  forall e, In e eff -> e = EfMkDataDirs.
Proof.
  intros y re dd p c eff Hacc. rewrite open_existing_eq in Hacc.
  destruct (validate p) as [e | [[[[vp d] w] a] n]] eqn:Hv; [discriminate Hacc|].
  destruct (same_cfg y d w a n) eqn:Hsame; [|discriminate Hacc].
  injection Hacc as Hc Heff. subst c eff. split; [reflexivity|]. split; [reflexivity|].
  intros e Hin. unfold data_effects in Hin. destruct dd; simpl in Hin.
  - contradiction.
  - destruct Hin as [Hin | Hin]; [symmetry; exact Hin | contradiction].
Qed.

Theorem yaml_never_rewritten : forall y re dd p c eff c',
  open_decision (Some y) re dd p = Accept c eff ->
  ~ In (EfWriteYaml c') eff /\ ~ In EfMkRoot eff.
Proof.
  intros y re dd p c eff c' Hacc.
  destruct (accept_existing_returns_pinned _ _ _ _ _ _ Hacc) as [_ [_ Hall]].
  split; intros Hin; apply Hall in Hin; discriminate Hin.
Qed.

(* [Refuse] carries no effect list: a refused constructor call is modelled as issuing no
   mutating operation, BY CONSTRUCTION of [decision] (every [Refuse] in [open_decision] sits
   before the first effect of the corresponding Python path: validation, the yaml comparison,
   the RuntimeError test and the algorithm gate all precede [_create_path]/[open(...,"w")]).
   That the Python program really issues no mutating operation on those paths is a
   correspondence obligation (tree snapshot before/after), not something this type can prove. *)
Theorem effects_only_on_accept : forall y re dd p,
  (forall e, open_decision y re dd p = Refuse e -> effects_of (open_decision y re dd p) = []) /\
  (effects_of (open_decision y re dd p) <> [] ->
   exists c, open_decision y re dd p = Accept c (effects_of (open_decision y re dd p))).
Proof.
  intros y re dd p. split.
  - intros e Href. rewrite Href. reflexivity.
  - intros Hne. destruct (open_decision y re dd p) as [c eff | e].
    + exists c. reflexivity.
    + exfalso. apply Hne. reflexivity.
Qed.

Lemma reopen_mismatch_refused_validated : forall y re dd p vp d w a n,
  validate p = inr (vp, d, w, a, n) ->
  (d <> c_depth y \/ w <> c_width y \/ a <> PStr (c_algo y) \/ n <> PStr (c_ns y)) ->
  open_decision (Some y) re dd p = Refuse EValueError.
Proof.
  intros y re dd p vp d w a n Hv Hdiff. rewrite open_existing_eq, Hv.
  destruct (same_cfg y d w a n) eqn:Hsame; [|reflexivity].
  apply same_cfg_true in Hsame. destruct Hsame as [Hd [Hw [Ha Hn]]].
  exfalso. destruct Hdiff as [H | [H | [H | H]]]; apply H; assumption.
Qed.

(* Every valid properties dict that differs from the pinned configuration in ANY of the four
   values is refused with ValueError. *)
Theorem reopen_mismatch_refused : forall y re dd (p : props) t vd vw va vn,
  validate (Some p) = inr t ->
  get "store_depth" p = Some vd -> get "store_width" p = Some vw ->
  get "store_algorithm" p = Some va -> get "store_metadata_namespace" p = Some vn ->
  (py_int vd <> Some (c_depth y) \/ py_int vw <> Some (c_width y) \/
   va <> PStr (c_algo y) \/ vn <> PStr (c_ns y)) ->
  open_decision (Some y) re dd (Some p) = Refuse EValueError.
Proof.
  intros y re dd p [[[[vp d] w] a] n] vd vw va vn Hv Hgd Hgw Hga Hgn Hdiff.
  pose proof Hv as Hv'. apply validate_ok_iff in Hv'.
  destruct Hv' as [_ [_ [[vd' [Hgd' Hd]] [[vw' [Hgw' Hw]] [[Hga' _] [Hgn' _]]]]]].
  rewrite Hgd in Hgd'. injection Hgd' as Hgd'. subst vd'.
  rewrite Hgw in Hgw'. injection Hgw' as Hgw'. subst vw'.
  rewrite Hga in Hga'. injection Hga' as Hga'. subst va.
  rewrite Hgn in Hgn'. injection Hgn' as Hgn'. subst vn.
  apply (reopen_mismatch_refused_validated _ _ _ _ _ _ _ _ _ Hv).
  destruct Hdiff as [H | [H | [H | H]]].
  - left. intros Heq. apply H. rewrite Hd, Heq. reflexivity.
  - right. left. intros Heq. apply H. rewrite Hw, Heq. reflexivity.
  - right. right. left. exact H.
  - right. right. right. exact H.
Qed.

(* ------------------------------------------------------------------ *)
(* Creating a store                                                    *)
(* ------------------------------------------------------------------ *)

Theorem create_accept_iff : forall re dd p c eff,
  open_decision None re dd p = Accept c eff <->
  re && dd = false /\
  (exists vp, validate p = inr (vp, c_depth c, c_width c, PStr (c_algo c), PStr (c_ns c))) /\
  In (c_algo c) accepted_store_algorithms /\
  eff = ((if re then [] else [EfMkRoot]) ++ [EfWriteYaml c; EfMkDataDirs])%list.
Proof.
  intros re dd p c eff. unfold open_decision. split.
  - intros Hacc.
    destruct (validate p) as [e | [[[[vp d] w] a] n]] eqn:Hv; [discriminate Hacc|].
    destruct (re && dd) eqn:Hrd; [discriminate Hacc|].
    destruct (accepted_algo a) as [algo|] eqn:Halgo; [|discriminate Hacc].
    apply accepted_algo_some in Halgo. destruct Halgo as [Ha Hin]. subst a.
    destruct n; try discriminate Hacc.
    injection Hacc as Hc Heff. subst c eff. simpl.
    split; [reflexivity|]. split; [exists vp; reflexivity|]. split; [exact Hin|].
    unfold root_effects. reflexivity.
  - intros [Hrd [[vp Hv] [Hin Heff]]]. rewrite Hv, Hrd.
    assert (Halgo : accepted_algo (PStr (c_algo c)) = Some (c_algo c)).
    { apply accepted_algo_some. split; [reflexivity | exact Hin]. }
    rewrite Halgo. subst eff. destruct c as [cd cw ca cn]. reflexivity.
Qed.

(* An algorithm value that is not one of the five DataONE names is refused when a store would
   be created, before anything is created. *)
Theorem unsupported_algorithm_refused : forall re dd p vp d w a n,
  re && dd = false ->
  validate p = inr (vp, d, w, a, n) ->
  (forall s, In s accepted_store_algorithms -> a <> PStr s) ->
  open_decision None re dd p = Refuse EValueError.
Proof.
  intros re dd p vp d w a n Hrd Hv Hbad. unfold open_decision. rewrite Hv, Hrd.
  apply accepted_algo_none in Hbad. rewrite Hbad. reflexivity.
Qed.

(* Data directories without a configuration file: RuntimeError, whatever valid properties
   (including an unsupported algorithm) are supplied. *)
Theorem no_yaml_with_data_refused : forall p t,
  validate p = inr t -> open_decision None true true p = Refuse ERuntimeError.
Proof.
  intros p [[[[vp d] w] a] n] Hv. unfold open_decision. rewrite Hv. reflexivity.
Qed.

(* A store reopened with the very properties it was created with is accepted and keeps the
   written configuration -- for ALL depths, widths, namespaces and int/str encodings. *)
Theorem create_then_reopen : forall re dd (p : props) c eff,
  open_decision None re dd (Some p) = Accept c eff ->
  In (EfWriteYaml c) eff /\
  (exists eff', open_decision (Some c) true true (Some p) = Accept c eff') /\
  forall re' dd', open_decision (Some c) re' dd' (Some p)
                  = Accept c (if dd' then [] else [EfMkDataDirs]).
Proof.
  intros re dd p c eff Hacc. apply create_accept_iff in Hacc.
  destruct Hacc as [_ [[vp Hv] [_ Heff]]].
  assert (Hre : forall re' dd', open_decision (Some c) re' dd' (Some p)
                                = Accept c (if dd' then [] else [EfMkDataDirs])).
  { intros re' dd'. rewrite open_existing_eq, Hv.
    assert (Hsame : same_cfg c (c_depth c) (c_width c) (PStr (c_algo c)) (PStr (c_ns c)) = true).
    { apply same_cfg_true. repeat split; reflexivity. }
    rewrite Hsame. reflexivity. }
  split.
  - subst eff. apply in_or_app. right. left. reflexivity.
  - split; [|exact Hre]. exists []. apply (Hre true true).
Qed.

(* [out_of_model] marks exactly the creations with a namespace that is not a str. *)
Theorem out_of_model_iff : forall y re dd p,
  open_decision y re dd p = Refuse out_of_model <->
  y = None /\ re && dd = false /\
  exists vp d w a n algo,
    validate p = inr (vp, d, w, a, n) /\ accepted_algo a = Some algo /\
    (forall s, n <> PStr s).
Proof.
  intros y re dd p. split.
  - intros Href. destruct y as [y|].
    + rewrite open_existing_eq in Href.
      destruct (validate p) as [e | [[[[vp d] w] a] n]] eqn:Hv.
      * exfalso. injection Href as He. subst e.
        destruct (validate_error_classes _ _ Hv) as [He | He]; discriminate He.
      * destruct (same_cfg y d w a n); discriminate Href.
    + unfold open_decision in Href.
      destruct (validate p) as [e | [[[[vp d] w] a] n]] eqn:Hv.
      * exfalso. injection Href as He. subst e.
        destruct (validate_error_classes _ _ Hv) as [He | He]; discriminate He.
      * destruct (re && dd) eqn:Hrd; [discriminate Href|].
        destruct (accepted_algo a) as [algo|] eqn:Halgo; [|discriminate Href].
        split; [reflexivity|]. split; [reflexivity|].
        exists vp, d, w, a, n, algo. split; [reflexivity|]. split; [exact Halgo|].
        intros s Hn. subst n. discriminate Href.
  - intros [Hy [Hrd [vp [d [w [a [n [algo [Hv [Halgo Hn]]]]]]]]]]. subst y.
    unfold open_decision. rewrite Hv, Hrd, Halgo.
    destruct n; try reflexivity. exfalso. apply (Hn s). reflexivity.
Qed.

(* ------------------------------------------------------------------ *)
(* Refusals from validation: the FIRST bad key, in key order, decides  *)
(* ------------------------------------------------------------------ *)

Theorem no_props_refused : forall y re dd,
  open_decision y re dd None = Refuse EValueError /\
  open_decision y re dd (Some []) = Refuse EValueError.
Proof. intros y re dd. split; reflexivity. Qed.

(* what [key_error k p = None] ("key k passes the loop body") means *)
Lemma key_error_none_iff : forall k p,
  key_error k p = None <->
  exists v, get k p = Some v /\ v <> PNone /\ (int_key k = true -> py_int v <> None).
Proof.
  intros k p. unfold key_error. destruct (int_key k) eqn:Hik.
  - destruct (req_int k p) as [e|z] eqn:Hr.
    + split; [intros H; discriminate H|].
      intros [v [Hget [Hnn Hint]]]. specialize (Hint eq_refl).
      destruct (py_int v) as [z|] eqn:Hpi; [|exfalso; apply Hint; reflexivity].
      assert (Hr' : req_int k p = inr z) by (apply req_int_inr; exists v; split; assumption).
      rewrite Hr' in Hr. discriminate Hr.
    + split; [|reflexivity]. intros _. apply req_int_inr in Hr.
      destruct Hr as [v [Hget Hpi]]. exists v. split; [exact Hget|].
      split; [exact (py_int_not_none _ _ Hpi)|]. intros _. rewrite Hpi. discriminate.
  - destruct (req k p) as [e|v] eqn:Hr.
    + split; [intros H; discriminate H|].
      intros [v [Hget [Hnn _]]].
      assert (Hr' : req k p = inr v) by (apply req_inr; split; assumption).
      rewrite Hr' in Hr. discriminate Hr.
    + split; [|reflexivity]. intros _. apply req_inr in Hr. destruct Hr as [Hget Hnn].
      exists v. split; [exact Hget|]. split; [exact Hnn|]. intros H. discriminate H.
Qed.

Lemma key_error_path : forall p, key_error "store_path" p =
  match req "store_path" p with inl e => Some e | inr _ => None end.
Proof. reflexivity. Qed.
Lemma key_error_depth : forall p, key_error "store_depth" p =
  match req_int "store_depth" p with inl e => Some e | inr _ => None end.
Proof. reflexivity. Qed.
Lemma key_error_width : forall p, key_error "store_width" p =
  match req_int "store_width" p with inl e => Some e | inr _ => None end.
Proof. reflexivity. Qed.
Lemma key_error_algo : forall p, key_error "store_algorithm" p =
  match req "store_algorithm" p with inl e => Some e | inr _ => None end.
Proof. reflexivity. Qed.
Lemma key_error_ns : forall p, key_error "store_metadata_namespace" p =
  match req "store_metadata_namespace" p with inl e => Some e | inr _ => None end.
Proof. reflexivity. Qed.

Lemma validate_dict_first_bad : forall p pre k post e,
  required_keys = (pre ++ k :: post)%list ->
  (forall k', In k' pre -> key_error k' p = None) ->
  key_error k p = Some e ->
  validate_dict p = inl e.
Proof.
  intros p pre k post e Hsplit Hpre Hbad. unfold required_keys in Hsplit.
  unfold validate_dict.
  (* store_path *)
  destruct pre as [|k0 pre]; simpl in Hsplit; injection Hsplit as Hk Hsplit.
  { subst k. rewrite key_error_path in Hbad.
    destruct (req "store_path" p) as [e1|v1]; [|discriminate Hbad].
    injection Hbad as Hbad. subst e1. reflexivity. }
  subst k0. pose proof (Hpre "store_path" (or_introl eq_refl)) as H1.
  rewrite key_error_path in H1.
  destruct (req "store_path" p) as [e1|v1]; [discriminate H1|]. clear H1.
  (* store_depth *)
  destruct pre as [|k1 pre]; simpl in Hsplit; injection Hsplit as Hk Hsplit.
  { subst k. rewrite key_error_depth in Hbad.
    destruct (req_int "store_depth" p) as [e2|v2]; [|discriminate Hbad].
    injection Hbad as Hbad. subst e2. reflexivity. }
  subst k1. pose proof (Hpre "store_depth" (or_intror (or_introl eq_refl))) as H2.
  rewrite key_error_depth in H2.
  destruct (req_int "store_depth" p) as [e2|v2]; [discriminate H2|]. clear H2.
  (* store_width *)
  destruct pre as [|k2 pre]; simpl in Hsplit; injection Hsplit as Hk Hsplit.
  { subst k. rewrite key_error_width in Hbad.
    destruct (req_int "store_width" p) as [e3|v3]; [|discriminate Hbad].
    injection Hbad as Hbad. subst e3. reflexivity. }
  subst k2.
  pose proof (Hpre "store_width" (or_intror (or_intror (or_introl eq_refl)))) as H3.
  rewrite key_error_width in H3.
  destruct (req_int "store_width" p) as [e3|v3]; [discriminate H3|]. clear H3.
  (* store_algorithm *)
  destruct pre as [|k3 pre]; simpl in Hsplit; injection Hsplit as Hk Hsplit.
  { subst k. rewrite key_error_algo in Hbad.
    destruct (req "store_algorithm" p) as [e4|v4]; [|discriminate Hbad].
    injection Hbad as Hbad. subst e4. reflexivity. }
  subst k3.
  pose proof (Hpre "store_algorithm"
                   (or_intror (or_intror (or_intror (or_introl eq_refl))))) as H4.
  rewrite key_error_algo in H4.
  destruct (req "store_algorithm" p) as [e4|v4]; [discriminate H4|]. clear H4.
  (* store_metadata_namespace *)
  destruct pre as [|k4 pre]; simpl in Hsplit; injection Hsplit as Hk Hsplit.
  { subst k. rewrite key_error_ns in Hbad.
    destruct (req "store_metadata_namespace" p) as [e5|v5]; [|discriminate Hbad].
    injection Hbad as Hbad. subst e5. reflexivity. }
  (* no sixth key *)
  exfalso. destruct pre as [|k5 pre]; simpl in Hsplit; discriminate Hsplit.
Qed.

(* The general statement: split the required keys at ANY position; if every earlier key passes
   and key k fails with class e, the constructor raises e -- whatever the later keys, whatever
   is on disk.  (For p = [] see [no_props_refused].) *)
Theorem first_bad_key_decides : forall y re dd (p : props) pre k post e,
  p <> [] ->
  required_keys = (pre ++ k :: post)%list ->
  (forall k', In k' pre -> key_error k' p = None) ->
  key_error k p = Some e ->
  open_decision y re dd (Some p) = Refuse e.
Proof.
  intros y re dd p pre k post e Hne Hsplit Hpre Hbad.
  apply open_validate_inl. rewrite (validate_some _ Hne).
  exact (validate_dict_first_bad _ _ _ _ _ Hsplit Hpre Hbad).
Qed.

(* first missing key -> KeyError *)
Theorem missing_key_refused : forall y re dd (p : props) pre k post,
  p <> [] ->
  required_keys = (pre ++ k :: post)%list ->
  (forall k', In k' pre -> key_error k' p = None) ->
  get k p = None ->
  open_decision y re dd (Some p) = Refuse EKeyError.
Proof.
  intros y re dd p pre k post Hne Hsplit Hpre Hget.
  apply (first_bad_key_decides y re dd p pre k post EKeyError Hne Hsplit Hpre).
  unfold key_error, req_int, req. rewrite Hget. destruct (int_key k); reflexivity.
Qed.

(* first key whose value is None -> ValueError *)
Theorem none_value_refused : forall y re dd (p : props) pre k post,
  p <> [] ->
  required_keys = (pre ++ k :: post)%list ->
  (forall k', In k' pre -> key_error k' p = None) ->
  get k p = Some PNone ->
  open_decision y re dd (Some p) = Refuse EValueError.
Proof.
  intros y re dd p pre k post Hne Hsplit Hpre Hget.
  apply (first_bad_key_decides y re dd p pre k post EValueError Hne Hsplit Hpre).
  unfold key_error, req_int, req. rewrite Hget. destruct (int_key k); reflexivity.
Qed.

(* depth / width that int() rejects -> ValueError *)
Theorem non_int_refused : forall y re dd (p : props) pre k post v,
  p <> [] ->
  required_keys = (pre ++ k :: post)%list ->
  (forall k', In k' pre -> key_error k' p = None) ->
  int_key k = true -> get k p = Some v -> py_int v = None ->
  open_decision y re dd (Some p) = Refuse EValueError.
Proof.
  intros y re dd p pre k post v Hne Hsplit Hpre Hik Hget Hpi.
  apply (first_bad_key_decides y re dd p pre k post EValueError Hne Hsplit Hpre).
  unfold key_error, req_int, req. rewrite Hik, Hget.
  destruct (is_none v); [reflexivity|]. rewrite Hpi. reflexivity.
Qed.

(* instances, to show how the split is used *)
Example missing_width_refused : forall y re dd (p : props),
  p <> [] -> key_error "store_path" p = None -> key_error "store_depth" p = None ->
  get "store_width" p = None ->
  open_decision y re dd (Some p) = Refuse EKeyError.
Proof.
  intros y re dd p Hne Hp Hd Hget.
  apply (missing_key_refused y re dd p ["store_path"; "store_depth"] "store_width"
           ["store_algorithm"; "store_metadata_namespace"] Hne eq_refl); [|exact Hget].
  intros k' [Hk | [Hk | Hk]]; try (subst k'; assumption). contradiction.
Qed.

(* ... and if no key is bad, validation succeeds: the key-by-key view is complete. *)
Theorem validate_ok_iff_keys : forall p : props,
  p <> [] ->
  ((exists t, validate (Some p) = inr t) <->
   (forall k, In k required_keys -> key_error k p = None)).
Proof.
  intros p Hne. rewrite (validate_some _ Hne). unfold validate_dict. split.
  - intros [t Ht] k Hin.
    destruct (req "store_path" p) as [e1|v1] eqn:H1; [discriminate Ht|].
    destruct (req_int "store_depth" p) as [e2|v2] eqn:H2; [discriminate Ht|].
    destruct (req_int "store_width" p) as [e3|v3] eqn:H3; [discriminate Ht|].
    destruct (req "store_algorithm" p) as [e4|v4] eqn:H4; [discriminate Ht|].
    destruct (req "store_metadata_namespace" p) as [e5|v5] eqn:H5; [discriminate Ht|].
    unfold required_keys in Hin. simpl in Hin.
    destruct Hin as [Hk | [Hk | [Hk | [Hk | [Hk | Hk]]]]]; try contradiction; subst k.
    + rewrite key_error_path, H1. reflexivity.
    + rewrite key_error_depth, H2. reflexivity.
    + rewrite key_error_width, H3. reflexivity.
    + rewrite key_error_algo, H4. reflexivity.
    + rewrite key_error_ns, H5. reflexivity.
  - intros Hall.
    pose proof (Hall "store_path" (or_introl eq_refl)) as H1.
    pose proof (Hall "store_depth" (or_intror (or_introl eq_refl))) as H2.
    pose proof (Hall "store_width" (or_intror (or_intror (or_introl eq_refl)))) as H3.
    pose proof (Hall "store_algorithm"
                     (or_intror (or_intror (or_intror (or_introl eq_refl))))) as H4.
    pose proof (Hall "store_metadata_namespace"
                     (or_intror (or_intror (or_intror (or_intror (or_introl eq_refl)))))) as H5.
    rewrite key_error_path in H1. rewrite key_error_depth in H2. rewrite key_error_width in H3.
    rewrite key_error_algo in H4. rewrite key_error_ns in H5.
    destruct (req "store_path" p) as [e1|v1]; [discriminate H1|].
    destruct (req_int "store_depth" p) as [e2|v2]; [discriminate H2|].
    destruct (req_int "store_width" p) as [e3|v3]; [discriminate H3|].
    destruct (req "store_algorithm" p) as [e4|v4]; [discriminate H4|].
    destruct (req "store_metadata_namespace" p) as [e5|v5]; [discriminate H5|].
    eexists. reflexivity.
Qed.

(* ------------------------------------------------------------------ *)
(* Extra keys                                                          *)
(* ------------------------------------------------------------------ *)

Lemma get_app_other : forall k k' v (p : props),
  k' <> k -> get k' (p ++ [(k, v)])%list = get k' p.
Proof.
  intros k k' v p Hne. induction p as [|[k0 v0] r IH]; simpl.
  - destruct (String.eqb k' k) eqn:Heq; [|reflexivity].
    apply String.eqb_eq in Heq. exfalso. exact (Hne Heq).
  - destruct (String.eqb k' k0); [reflexivity | exact IH].
Qed.

Lemma validate_dict_app_other : forall k v (p : props),
  ~ In k required_keys ->
  validate_dict (p ++ [(k, v)])%list = validate_dict p.
Proof.
  intros k v p Hnin. unfold validate_dict, req_int, req.
  assert (Hk : forall k', In k' required_keys -> get k' (p ++ [(k, v)])%list = get k' p).
  { intros k' Hin. apply get_app_other. intros Heq. subst k'. exact (Hnin Hin). }
  rewrite (Hk "store_path"), (Hk "store_depth"), (Hk "store_width"),
          (Hk "store_algorithm"), (Hk "store_metadata_namespace");
    try reflexivity; unfold required_keys; simpl; auto 10.
Qed.

(* A key that is not one of the five required ones has no influence at all. *)
Theorem extra_keys_ignored : forall y re dd (p : props) k v,
  p <> [] -> ~ In k required_keys ->
  open_decision y re dd (Some (p ++ [(k, v)])%list) = open_decision y re dd (Some p).
Proof.
  intros y re dd p k v Hne Hnin.
  assert (Hv : validate (Some (p ++ [(k, v)])%list) = validate (Some p)).
  { destruct p as [|kv r]; [exfalso; apply Hne; reflexivity|].
    simpl. apply (validate_dict_app_other k v (kv :: r) Hnin). }
  unfold open_decision. rewrite Hv. reflexivity.
Qed.

(* p <> [] is needed: {} is falsy (ValueError), {"x": 1} is truthy and lacks store_path. *)
Example extra_keys_ignored_counterexample :
  open_decision None false false (Some ([] ++ [("x", PInt 1)])%list) = Refuse EKeyError /\
  open_decision None false false (Some []) = Refuse EValueError.
Proof. split; reflexivity. Qed.

(* ------------------------------------------------------------------ *)
(* Threading / multiprocessing primitives (D5)                         *)
(* ------------------------------------------------------------------ *)

Theorem mode_of_env_iff : forall e, mode_of_env e = true <-> e = Some "True".
Proof.
  intros e. destruct e as [s|]; simpl.
  - rewrite String.eqb_eq. split.
    + intros H. subst s. reflexivity.
    + intros H. injection H as H. exact H.
  - split; intros H; discriminate H.
Qed.

(* repaired ([if self.use_multiprocessing:]): multiprocessing mode has its primitives *)
Theorem init_primitives_fixed : forall e,
  mode_of_env e = true -> has_mp_primitives true e = true.
Proof. intros e Hm. unfold has_mp_primitives. exact Hm. Qed.

(* ... and, repaired, exactly in that mode *)
Theorem init_primitives_fixed_iff : forall e,
  has_mp_primitives true e = mode_of_env e.
Proof. reflexivity. Qed.

(* today ([if self.use_multiprocessing == "True":], a bool compared with a str): never *)
Theorem init_primitives_today_never : forall e, has_mp_primitives false e = false.
Proof. intros e. reflexivity. Qed.

Theorem init_primitives_today_refuted :
  exists e, mode_of_env e = true /\ has_mp_primitives false e = false.
Proof. exists (Some "True"). split; reflexivity. Qed.

(* ------------------------------------------------------------------ *)

Print Assumptions validate_ok_iff.
Print Assumptions open_iff.
Print Assumptions accept_existing_returns_pinned.
Print Assumptions yaml_never_rewritten.
Print Assumptions effects_only_on_accept.
Print Assumptions reopen_mismatch_refused.
Print Assumptions create_accept_iff.
Print Assumptions unsupported_algorithm_refused.
Print Assumptions no_yaml_with_data_refused.
Print Assumptions create_then_reopen.
Print Assumptions out_of_model_iff.
Print Assumptions no_props_refused.
Print Assumptions first_bad_key_decides.
Print Assumptions missing_key_refused.
Print Assumptions none_value_refused.
Print Assumptions non_int_refused.
Print Assumptions validate_error_classes.
Print Assumptions validate_ok_iff_keys.
Print Assumptions extra_keys_ignored.
Print Assumptions mode_of_env_iff.
Print Assumptions init_primitives_fixed.
Print Assumptions init_primitives_fixed_iff.
Print Assumptions init_primitives_today_never.
Print Assumptions init_primitives_today_refuted.
