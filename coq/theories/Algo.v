(* ========================================================================= *)
(*  Algo.v -- hash-algorithm name normalisation in hashstore                 *)
(*                                                                           *)
(*  Models FileHashStore._clean_algorithm and                                *)
(*  FileHashStore._refine_algorithm_list                                     *)
(*  (/repo/src/hashstore/filehashstore.py, lines 2149-2207; the instance     *)
(*  list `default_algo_list` is set at lines 469-505).                       *)
(*                                                                           *)
(*  Coq 8.16.1, stdlib only, no axioms.                                      *)
(*  Compile:  coqc -Q . HS Algo.v                                            *)
(*                                                                           *)
(*  DOMAIN.  Algorithm strings are 7-bit ASCII strings.  Coq's [ascii] is    *)
(*  8 bits wide; on bytes >= 128 the model treats every character as         *)
(*  "neither digit nor letter", which is NOT what Python does on Latin-1 /   *)
(*  Unicode text (U+00B2 SUPERSCRIPT TWO satisfies str.isdigit(); U+212A     *)
(*  KELVIN SIGN lower-cases to 'k', so CPython accepts "bla<U+212A>e2b" as   *)
(*  blake2b).  All theorems quantify over all Coq strings, but they speak    *)
(*  about the Python code only for ASCII                                     *)
(*  input.                                                                   *)
(* ========================================================================= *)

Require Import String Ascii List Bool Arith Lia.
Import ListNotations.
Open Scope string_scope.
Open Scope list_scope.   (* so that [++] is list append; string literals stay strings *)

(* ------------------------------------------------------------------------- *)
(** * 1. Character and string primitives                                     *)
(* ------------------------------------------------------------------------- *)

(** [str.isdigit] on ASCII: '0'..'9'. *)
Definition is_digit (c : ascii) : bool :=
  let n := nat_of_ascii c in ((48 <=? n) && (n <=? 57))%nat.

Definition is_upper (c : ascii) : bool :=
  let n := nat_of_ascii c in ((65 <=? n) && (n <=? 90))%nat.

(** [str.lower] on one ASCII character: 'A'..'Z' -> 'a'..'z', else identity. *)
Definition lower_ascii (c : ascii) : ascii :=
  if is_upper c then ascii_of_nat (nat_of_ascii c + 32) else c.

Fixpoint lower (s : string) : string :=
  match s with
  | EmptyString => EmptyString
  | String c s' => String (lower_ascii c) (lower s')
  end.

(** The [for char in s: if char.isdigit(): count += 1] loop. *)
Fixpoint count_digits (s : string) : nat :=
  match s with
  | EmptyString => 0
  | String c s' => (if is_digit c then 1 else 0) + count_digits s'
  end.

(** [s.replace(c, "")] for a one-character [c]. *)
Fixpoint remove_char (c : ascii) (s : string) : string :=
  match s with
  | EmptyString => EmptyString
  | String a s' =>
      if Ascii.eqb a c then remove_char c s' else String a (remove_char c s')
  end.

(** [s.replace(a, b)] for one-character [a], [b]. *)
Fixpoint replace_char (a b : ascii) (s : string) : string :=
  match s with
  | EmptyString => EmptyString
  | String c s' => String (if Ascii.eqb c a then b else c) (replace_char a b s')
  end.

(* ------------------------------------------------------------------------- *)
(** * 2. The algorithm lists and the functions under study                   *)
(* ------------------------------------------------------------------------- *)

Definition default_list : list string :=
  ["md5";"sha1";"sha256";"sha384";"sha512"].
Definition other_list : list string :=
  ["sha224";"sha3_224";"sha3_256";"sha3_384";"sha3_512";"blake2b";"blake2s"].
Definition supported : list string := default_list ++ other_list.

(** Python's [x in list]. *)
Definition mem (s : string) (l : list string) : bool := existsb (String.eqb s) l.

(** [_clean_algorithm], with the instance's *current* [default_algo_list]
    as the parameter [dl] (the aliasing bug in [_refine_algorithm_list] can
    grow that list at run time).  [None] models [raise UnsupportedAlgorithm]. *)
Definition clean_algorithm_with (dl : list string) (s : string) : option string :=
  let cleaned :=
    if (3 <? count_digits s)%nat                              (* count > 3 *)
    then replace_char "-" "_" (lower s)
    else remove_char "_" (remove_char "-" (lower s)) in
  if negb (mem cleaned dl) && negb (mem cleaned other_list)
  then None
  else Some cleaned.

Definition clean_algorithm : string -> option string :=
  clean_algorithm_with default_list.

(** The specification-side normal form: lower-case, drop every '-' and '_'. *)
Definition squash (s : string) : string :=
  remove_char "_" (remove_char "-" (lower s)).

(** [_refine_algorithm_list].  Arguments are already cleaned names or [None].
    The inner calls [self._clean_algorithm(x)] discard their result and can
    only raise; lemma [refine_inner_clean_no_raise] below shows they do not
    raise for supported names, so they are not part of the returned value. *)
Definition append_if_other (l : list string) (o : option string) : list string :=
  match o with
  | None => l
  | Some x => if mem x other_list then l ++ [x] else l
  end.

(** Checksum algorithm is examined first, then the additional algorithm. *)
Definition refine_work (dl : list string) (additional checksum_algo : option string)
  : list string :=
  append_if_other (append_if_other dl checksum_algo) additional.

(** The code AS IT IS TODAY: [algorithm_list_to_calculate = self.default_algo_list]
    aliases the instance list, so [.append] mutates the instance.
    Result: (new instance list, list to calculate = set(...) ). *)
Definition refine_aliasing (dl : list string) (additional checksum_algo : option string)
  : list string * list string :=
  let l := refine_work dl additional checksum_algo in
  (l, nodup string_dec l).

(** The repaired code: [algorithm_list_to_calculate = list(self.default_algo_list)]. *)
Definition refine_copy (dl : list string) (additional checksum_algo : option string)
  : list string * list string :=
  let l := refine_work dl additional checksum_algo in
  (dl, nodup string_dec l).

Definition same_set (l1 l2 : list string) : Prop := forall x, In x l1 <-> In x l2.

Definition opt_to_list (o : option string) : list string :=
  match o with None => [] | Some x => [x] end.

(* ------------------------------------------------------------------------- *)
(** * 3. Generic helpers                                                     *)
(* ------------------------------------------------------------------------- *)

Lemma mem_In : forall s l, mem s l = true <-> In s l.
Proof.
  intros s l. unfold mem. rewrite existsb_exists. split.
  - intros [x [Hx He]]. apply String.eqb_eq in He. subst. exact Hx.
  - intros H. exists s. split; [exact H | apply String.eqb_refl].
Qed.

Lemma mem_app : forall s l1 l2, mem s (l1 ++ l2) = mem s l1 || mem s l2.
Proof. intros. unfold mem. apply existsb_app. Qed.

Fixpoint nodupb (l : list string) : bool :=
  match l with
  | [] => true
  | x :: t => negb (mem x t) && nodupb t
  end.

Lemma nodupb_sound : forall l, nodupb l = true -> NoDup l.
Proof.
  induction l as [|x t IH]; intros H.
  - constructor.
  - cbn [nodupb] in H. apply andb_true_iff in H. destruct H as [H1 H2].
    constructor.
    + intro Hin. apply mem_In in Hin. rewrite Hin in H1. discriminate.
    + apply IH. exact H2.
Qed.

Lemma NoDup_map_inj :
  forall (A B : Type) (f : A -> B) (l : list A),
    NoDup (map f l) ->
    forall a b, In a l -> In b l -> f a = f b -> a = b.
Proof.
  intros A B f l. induction l as [|x t IH]; intros Hnd a b Ha Hb Hf.
  - destruct Ha.
  - cbn [map] in Hnd. inversion Hnd as [|y l' Hnotin Hnd']. subst.
    destruct Ha as [Ha | Ha]; destruct Hb as [Hb | Hb].
    + congruence.
    + subst x. exfalso. apply Hnotin. rewrite Hf. apply in_map. exact Hb.
    + subst x. exfalso. apply Hnotin. rewrite <- Hf. apply in_map. exact Ha.
    + apply IH; assumption.
Qed.

(* ------------------------------------------------------------------------- *)
(** * 4. Character lemmas (256-case computation each)                        *)
(* ------------------------------------------------------------------------- *)

Ltac all_ascii c := destruct c as [[] [] [] [] [] [] [] []]; vm_compute; reflexivity.

Lemma lower_ascii_idem : forall c, lower_ascii (lower_ascii c) = lower_ascii c.
Proof. intro c. all_ascii c. Qed.

Lemma lower_ascii_eqb_dash : forall c, Ascii.eqb (lower_ascii c) "-" = Ascii.eqb c "-".
Proof. intro c. all_ascii c. Qed.

Lemma lower_ascii_eqb_us : forall c, Ascii.eqb (lower_ascii c) "_" = Ascii.eqb c "_".
Proof. intro c. all_ascii c. Qed.

Lemma is_digit_lower_ascii : forall c, is_digit (lower_ascii c) = is_digit c.
Proof. intro c. all_ascii c. Qed.

(** What [replace("-","_")] after [lower] does to one character, seen through
    the "is it a separator" test and through [lower_ascii]. *)
Definition dash_to_us (c : ascii) : ascii :=
  if Ascii.eqb (lower_ascii c) "-" then "_"%char else lower_ascii c.

Lemma dash_to_us_sep :
  forall c, Ascii.eqb (dash_to_us c) "-" || Ascii.eqb (dash_to_us c) "_"
            = Ascii.eqb c "-" || Ascii.eqb c "_".
Proof. intro c. all_ascii c. Qed.

Lemma dash_to_us_lower :
  forall c, Ascii.eqb c "-" || Ascii.eqb c "_" = false ->
            lower_ascii (dash_to_us c) = lower_ascii c.
Proof.
  intro c.
  destruct c as [[] [] [] [] [] [] [] []]; vm_compute; intro H;
    first [reflexivity | discriminate H].
Qed.

(* ------------------------------------------------------------------------- *)
(** * 5. String lemmas                                                       *)
(* ------------------------------------------------------------------------- *)

Lemma lower_lower : forall s, lower (lower s) = lower s.
Proof.
  induction s as [|c s IH]; cbn [lower].
  - reflexivity.
  - rewrite lower_ascii_idem, IH. reflexivity.
Qed.

Lemma count_digits_lower : forall s, count_digits (lower s) = count_digits s.
Proof.
  induction s as [|c s IH]; cbn [lower count_digits].
  - reflexivity.
  - rewrite is_digit_lower_ascii, IH. reflexivity.
Qed.

Lemma squash_nil : squash "" = "".
Proof. reflexivity. Qed.

Lemma squash_cons :
  forall c s,
    squash (String c s) =
    if Ascii.eqb c "-" || Ascii.eqb c "_"
    then squash s
    else String (lower_ascii c) (squash s).
Proof.
  intros c s. unfold squash. cbn [lower remove_char].
  rewrite lower_ascii_eqb_dash.
  destruct (Ascii.eqb c "-") eqn:Ed; cbn [orb].
  - reflexivity.
  - cbn [remove_char]. rewrite lower_ascii_eqb_us.
    destruct (Ascii.eqb c "_"); reflexivity.
Qed.

(** Branch [count > 3]: the cleaned string has the same squashed form. *)
Lemma squash_replace_lower :
  forall s, squash (replace_char "-" "_" (lower s)) = squash s.
Proof.
  induction s as [|c s IH].
  - reflexivity.
  - cbn [lower replace_char]. fold (dash_to_us c).
    rewrite (squash_cons (dash_to_us c)), (squash_cons c), IH.
    rewrite dash_to_us_sep.
    destruct (Ascii.eqb c "-" || Ascii.eqb c "_") eqn:E.
    + reflexivity.
    + rewrite (dash_to_us_lower c E). reflexivity.
Qed.

(** Branch [count <= 3]: the cleaned string *is* [squash s]; squash is idempotent. *)
Lemma squash_squash : forall s, squash (squash s) = squash s.
Proof.
  induction s as [|c s IH].
  - reflexivity.
  - rewrite squash_cons.
    destruct (Ascii.eqb c "-" || Ascii.eqb c "_") eqn:E.
    + exact IH.
    + rewrite squash_cons.
      rewrite lower_ascii_eqb_dash, lower_ascii_eqb_us, E.
      rewrite lower_ascii_idem, IH. reflexivity.
Qed.

Lemma squash_remove_lower :
  forall s, squash (remove_char "_" (remove_char "-" (lower s))) = squash s.
Proof. intro s. exact (squash_squash s). Qed.

Lemma squash_lower : forall s, squash (lower s) = squash s.
Proof. intro s. unfold squash. rewrite lower_lower. reflexivity. Qed.

(* ------------------------------------------------------------------------- *)
(** * 6. Theorem 1: squashed names of supported algorithms are distinct      *)
(* ------------------------------------------------------------------------- *)

Theorem squashed_names_distinct : NoDup (map squash supported).
Proof. apply nodupb_sound. vm_compute. reflexivity. Qed.

(* ------------------------------------------------------------------------- *)
(** * 7. Theorems 2, 3: soundness and uniqueness                             *)
(* ------------------------------------------------------------------------- *)

(** The string computed before the membership test. *)
Definition cleaned_string (s : string) : string :=
  if (3 <? count_digits s)%nat
  then replace_char "-" "_" (lower s)
  else remove_char "_" (remove_char "-" (lower s)).

Lemma clean_algorithm_with_eq :
  forall dl s,
    clean_algorithm_with dl s =
    if mem (cleaned_string s) dl || mem (cleaned_string s) other_list
    then Some (cleaned_string s) else None.
Proof.
  intros dl s. unfold clean_algorithm_with, cleaned_string. cbv zeta.
  rewrite <- negb_orb.
  destruct (mem _ dl || mem _ other_list); reflexivity.
Qed.

Lemma squash_cleaned_string : forall s, squash (cleaned_string s) = squash s.
Proof.
  intro s. unfold cleaned_string.
  destruct (3 <? count_digits s)%nat.
  - apply squash_replace_lower.
  - apply squash_remove_lower.
Qed.

(** Soundness for an arbitrary (possibly drifted) instance list [dl]. *)
Lemma clean_with_sound :
  forall dl s a,
    clean_algorithm_with dl s = Some a ->
    In a (dl ++ other_list) /\ squash s = squash a.
Proof.
  intros dl s a H. rewrite clean_algorithm_with_eq in H.
  destruct (mem (cleaned_string s) dl || mem (cleaned_string s) other_list) eqn:E;
    [| discriminate H].
  injection H as <-. split.
  - apply mem_In. rewrite mem_app. exact E.
  - symmetry. apply squash_cleaned_string.
Qed.

(** No ASCII spelling whatsoever is mapped to a wrong algorithm. *)
Theorem clean_sound :
  forall s a, clean_algorithm s = Some a -> In a supported /\ squash s = squash a.
Proof. intros s a H. exact (clean_with_sound default_list s a H). Qed.

Theorem clean_unique :
  forall s a b,
    clean_algorithm s = Some a -> In b supported -> squash s = squash b -> a = b.
Proof.
  intros s a b H Hb Hsq. apply clean_sound in H. destruct H as [Ha Hsa].
  apply (NoDup_map_inj _ _ squash supported squashed_names_distinct a b Ha Hb).
  rewrite <- Hsa. exact Hsq.
Qed.

(* ------------------------------------------------------------------------- *)
(** * 8. Theorem 4: case insensitivity                                       *)
(* ------------------------------------------------------------------------- *)

Lemma cleaned_string_lower : forall s, cleaned_string (lower s) = cleaned_string s.
Proof.
  intro s. unfold cleaned_string. rewrite count_digits_lower, lower_lower. reflexivity.
Qed.

Lemma clean_with_lower :
  forall dl s, clean_algorithm_with dl (lower s) = clean_algorithm_with dl s.
Proof.
  intros dl s. rewrite !clean_algorithm_with_eq, cleaned_string_lower. reflexivity.
Qed.

Theorem clean_case_insensitive : forall s, clean_algorithm (lower s) = clean_algorithm s.
Proof. intro s. apply clean_with_lower. Qed.

(** Any per-character re-casing of [s] gives the same answer. *)
Theorem clean_recase :
  forall s t, lower s = lower t -> clean_algorithm s = clean_algorithm t.
Proof.
  intros s t H.
  rewrite <- (clean_case_insensitive s), <- (clean_case_insensitive t), H.
  reflexivity.
Qed.

(* ------------------------------------------------------------------------- *)
(** * 9. Theorem 5: idempotence                                              *)
(* ------------------------------------------------------------------------- *)

Definition check_fixed (a : string) : bool :=
  match clean_algorithm a with
  | Some b => String.eqb b a
  | None => false
  end.

Lemma check_fixed_ok : forall a, check_fixed a = true -> clean_algorithm a = Some a.
Proof.
  intros a H. unfold check_fixed in H.
  destruct (clean_algorithm a) as [b|]; [| discriminate H].
  apply String.eqb_eq in H. subst. reflexivity.
Qed.

Lemma supported_fixed : forall a, In a supported -> clean_algorithm a = Some a.
Proof.
  assert (H : forallb check_fixed supported = true) by (vm_compute; reflexivity).
  intros a Ha. apply check_fixed_ok.
  exact (proj1 (forallb_forall check_fixed supported) H a Ha).
Qed.

Theorem clean_idempotent :
  forall s a, clean_algorithm s = Some a -> clean_algorithm a = Some a.
Proof.
  intros s a H. apply supported_fixed. apply clean_sound in H. tauto.
Qed.

(* ------------------------------------------------------------------------- *)
(** * 10. Theorem 6: completeness on the documented spellings                *)
(* ------------------------------------------------------------------------- *)

(** (spelling, canonical hashlib name).  Every entry was first checked with
    [Eval vm_compute in clean_algorithm ...] (and against CPython).  Thanks to
    [clean_complete_anycase] one representative per case pattern suffices, but
    the usual lower/upper forms are listed explicitly for readability. *)
Definition documented_spellings : list (string * string) :=
  [ (* the 12 canonical (hashlib) names *)
    ("md5","md5"); ("sha1","sha1"); ("sha256","sha256"); ("sha384","sha384");
    ("sha512","sha512"); ("sha224","sha224");
    ("sha3_224","sha3_224"); ("sha3_256","sha3_256");
    ("sha3_384","sha3_384"); ("sha3_512","sha3_512");
    ("blake2b","blake2b"); ("blake2s","blake2s");
    (* DataONE controlled vocabulary *)
    ("MD5","md5"); ("SHA-1","sha1"); ("SHA-256","sha256"); ("SHA-384","sha384");
    ("SHA-512","sha512"); ("SHA-224","sha224");
    (* md5 with separators *)
    ("md-5","md5"); ("md_5","md5"); ("MD-5","md5"); ("MD_5","md5");
    (* sha1 / sha2 family: sha<N>, sha-<N>, sha_<N>, and upper case *)
    ("sha-1","sha1"); ("sha_1","sha1"); ("SHA1","sha1"); ("SHA_1","sha1");
    ("sha-224","sha224"); ("sha_224","sha224"); ("SHA224","sha224"); ("SHA_224","sha224");
    ("sha-256","sha256"); ("sha_256","sha256"); ("SHA256","sha256"); ("SHA_256","sha256");
    ("sha-384","sha384"); ("sha_384","sha384"); ("SHA384","sha384"); ("SHA_384","sha384");
    ("sha-512","sha512"); ("sha_512","sha512"); ("SHA512","sha512"); ("SHA_512","sha512");
    (* sha3 family: sha3_<N>, sha3-<N>, and upper case *)
    ("sha3-224","sha3_224"); ("SHA3_224","sha3_224"); ("SHA3-224","sha3_224");
    ("sha3-256","sha3_256"); ("SHA3_256","sha3_256"); ("SHA3-256","sha3_256");
    ("sha3-384","sha3_384"); ("SHA3_384","sha3_384"); ("SHA3-384","sha3_384");
    ("sha3-512","sha3_512"); ("SHA3_512","sha3_512"); ("SHA3-512","sha3_512");
    (* blake2 *)
    ("BLAKE2B","blake2b"); ("BLAKE2S","blake2s");
    ("blake-2b","blake2b"); ("blake_2b","blake2b");
    ("blake-2s","blake2s"); ("blake_2s","blake2s") ].

Definition check_spelling (p : string * string) : bool :=
  match clean_algorithm (fst p) with
  | Some b => String.eqb b (snd p)
  | None => false
  end.

Theorem clean_complete :
  forall s a, In (s, a) documented_spellings -> clean_algorithm s = Some a.
Proof.
  assert (H : forallb check_spelling documented_spellings = true)
    by (vm_compute; reflexivity).
  intros s a Hin.
  pose proof (proj1 (forallb_forall check_spelling documented_spellings) H (s, a) Hin) as Hc.
  unfold check_spelling in Hc. cbn [fst snd] in Hc.
  destruct (clean_algorithm s) as [b|]; [| discriminate Hc].
  apply String.eqb_eq in Hc. subst. reflexivity.
Qed.

Theorem clean_complete_anycase :
  forall s t a,
    In (s, a) documented_spellings -> lower t = lower s -> clean_algorithm t = Some a.
Proof.
  intros s t a Hin Hl. rewrite (clean_recase t s Hl). apply clean_complete. exact Hin.
Qed.

(** The grammar is well-formed: its canonical column is exactly [supported]. *)
Lemma documented_canonicals_are_supported :
  forall s a, In (s, a) documented_spellings -> In a supported.
Proof.
  intros s a Hin. apply clean_complete in Hin. apply clean_sound in Hin. tauto.
Qed.

Lemma documented_covers_supported :
  forall a, In a supported -> In (a, a) documented_spellings.
Proof.
  assert (H : forallb
                (fun a => existsb
                            (fun p => String.eqb (fst p) a && String.eqb (snd p) a)
                            documented_spellings)
                supported = true) by (vm_compute; reflexivity).
  intros a Ha.
  pose proof (proj1 (forallb_forall _ supported) H a Ha) as Hc. cbv beta in Hc.
  apply existsb_exists in Hc. destruct Hc as [[s b] [Hin Heq]].
  cbn [fst snd] in Heq. apply andb_true_iff in Heq. destruct Heq as [H1 H2].
  apply String.eqb_eq in H1. apply String.eqb_eq in H2. subst. exact Hin.
Qed.

(** ** Notable REJECTED spellings (raise UnsupportedAlgorithm).

    The digit-count heuristic means the sha3 family is accepted ONLY with
    exactly one separator, placed between "sha3" and the size:
    - 4 digits and no separator -> stays "sha3256", not in the lists;
    - a separator after "sha" becomes/keeps "_" ("sha_3_256"), not in the lists;
    - with > 3 digits underscores are never removed, so stray or doubled
      separators are fatal for sha3 names, whereas with <= 3 digits they are
      silently dropped ("s-h-a_2_5-6", "-md5_" are ACCEPTED, see below).
    Whitespace is never stripped. *)
Example rejected_sha3256      : clean_algorithm "sha3256"     = None. Proof. vm_compute. reflexivity. Qed.
Example rejected_SHA3256      : clean_algorithm "SHA3256"     = None. Proof. vm_compute. reflexivity. Qed.
Example rejected_sha_3_256_d  : clean_algorithm "sha-3-256"   = None. Proof. vm_compute. reflexivity. Qed.
Example rejected_SHA_3_256_d  : clean_algorithm "SHA-3-256"   = None. Proof. vm_compute. reflexivity. Qed.
Example rejected_sha_3_256_u  : clean_algorithm "sha_3_256"   = None. Proof. vm_compute. reflexivity. Qed.
Example rejected_sha_3_256_m  : clean_algorithm "sha-3_256"   = None. Proof. vm_compute. reflexivity. Qed.
Example rejected_sha3__256    : clean_algorithm "sha3__256"   = None. Proof. vm_compute. reflexivity. Qed.
Example rejected_sha3_256_tr  : clean_algorithm "sha3_256-"   = None. Proof. vm_compute. reflexivity. Qed.
Example rejected_sha3_256_ld  : clean_algorithm "_sha3_256"   = None. Proof. vm_compute. reflexivity. Qed.
Example rejected_sha3_space   : clean_algorithm "sha3 256"    = None. Proof. vm_compute. reflexivity. Qed.
Example rejected_sha2_256     : clean_algorithm "sha2-256"    = None. Proof. vm_compute. reflexivity. Qed.
Example rejected_sha512_256   : clean_algorithm "sha512-256"  = None. Proof. vm_compute. reflexivity. Qed.
Example rejected_blake2b_512  : clean_algorithm "blake2b-512" = None. Proof. vm_compute. reflexivity. Qed.
Example rejected_blake2       : clean_algorithm "blake2"      = None. Proof. vm_compute. reflexivity. Qed.
Example rejected_shake128     : clean_algorithm "shake_128"   = None. Proof. vm_compute. reflexivity. Qed.
Example rejected_md5_space    : clean_algorithm "md5 "        = None. Proof. vm_compute. reflexivity. Qed.
Example rejected_empty        : clean_algorithm ""            = None. Proof. vm_compute. reflexivity. Qed.

(** Oddities that ARE accepted (harmless by [clean_sound], but undocumented). *)
Example accepted_scattered : clean_algorithm "s-h-a_2_5-6" = Some "sha256". Proof. vm_compute. reflexivity. Qed.
Example accepted_wrapped   : clean_algorithm "-md5_"       = Some "md5".    Proof. vm_compute. reflexivity. Qed.

(* ------------------------------------------------------------------------- *)
(** * 11. Theorem 7: the refined algorithm lists                             *)
(* ------------------------------------------------------------------------- *)

(** ** 7a. Repaired code *)

Theorem refine_copy_instance_unchanged :
  forall dl a c, fst (refine_copy dl a c) = dl.
Proof. intros. reflexivity. Qed.

Lemma supported_split : forall x, In x supported -> In x default_list \/ In x other_list.
Proof. intros x H. unfold supported in H. apply in_app_or in H. exact H. Qed.

(** If [l] contains the defaults and [o] is supported (or absent), then
    appending-if-other has the same members as unconditional appending. *)
Lemma append_if_other_In :
  forall l o y,
    incl default_list l ->
    (o = None \/ exists x, o = Some x /\ In x supported) ->
    (In y (append_if_other l o) <-> In y l \/ In y (opt_to_list o)).
Proof.
  intros l o y Hincl Ho. destruct Ho as [-> | [x [-> Hx]]].
  - cbn [append_if_other opt_to_list In]. tauto.
  - cbn [append_if_other opt_to_list].
    destruct (mem x other_list) eqn:E.
    + rewrite in_app_iff. tauto.
    + split.
      * intro H. left. exact H.
      * intros [H | H]; [exact H |].
        destruct H as [<- | []].
        apply supported_split in Hx. destruct Hx as [Hd | Ho].
        -- apply Hincl. exact Hd.
        -- apply mem_In in Ho. rewrite Ho in E. discriminate E.
Qed.

Lemma append_if_other_incl : forall l o, incl l (append_if_other l o).
Proof.
  intros l o x Hx. destruct o as [y|]; cbn [append_if_other]; [| exact Hx].
  destruct (mem y other_list); [apply in_or_app; left |]; exact Hx.
Qed.

Theorem refine_copy_keys :
  forall a c,
    (a = None \/ exists x, a = Some x /\ In x supported) ->
    (c = None \/ exists x, c = Some x /\ In x supported) ->
    same_set (snd (refine_copy default_list a c))
             (default_list ++ opt_to_list a ++ opt_to_list c).
Proof.
  intros a c Ha Hc y. unfold refine_copy, refine_work. cbn [snd].
  rewrite nodup_In.
  rewrite (append_if_other_In _ a y).
  - rewrite (append_if_other_In default_list c y).
    + rewrite !in_app_iff. tauto.
    + apply incl_refl.
    + exact Hc.
  - apply append_if_other_incl.
  - exact Ha.
Qed.

Theorem refine_copy_nodup :
  forall a c, NoDup (snd (refine_copy default_list a c)).
Proof. intros a c. unfold refine_copy. cbn [snd]. apply NoDup_nodup. Qed.

(** The instance list never drifts under any history of calls. *)
Theorem refine_copy_history :
  forall (calls : list (option string * option string)),
    fold_left (fun dl '(a, c) => fst (refine_copy dl a c)) calls default_list
    = default_list.
Proof.
  intro calls. generalize default_list as dl.
  induction calls as [|[a c] calls IH]; intro dl.
  - reflexivity.
  - cbn [fold_left]. rewrite refine_copy_instance_unchanged. apply IH.
Qed.

(** ** 7b. The code as it is today *)

Theorem refine_aliasing_drifts :
  exists a, fst (refine_aliasing default_list (Some a) None) <> default_list.
Proof.
  exists "sha3_256". vm_compute. intro H.
  apply (f_equal (@length string)) in H. discriminate H.
Qed.

(** After one call that asked for sha3_256, a later call asking for NO extra
    algorithm still reports (and therefore computes and stores) sha3_256. *)
Theorem refine_aliasing_keys_refuted :
  exists a,
    ~ same_set
        (snd (refine_aliasing
                (fst (refine_aliasing default_list (Some a) None)) None None))
        default_list.
Proof.
  exists "sha3_256". intro H. destruct (H "sha3_256") as [H1 _].
  assert (Hin : In "sha3_256"
                   (snd (refine_aliasing
                           (fst (refine_aliasing default_list (Some "sha3_256") None))
                           None None))).
  { apply mem_In. vm_compute. reflexivity. }
  apply H1 in Hin. apply mem_In in Hin. vm_compute in Hin. discriminate Hin.
Qed.

(** The concrete drifted state, for the record. *)
Example refine_aliasing_drift_value :
  refine_aliasing (fst (refine_aliasing default_list (Some "sha3_256") None)) None None
  = (["md5";"sha1";"sha256";"sha384";"sha512";"sha3_256"],
     ["md5";"sha1";"sha256";"sha384";"sha512";"sha3_256"]).
Proof. vm_compute. reflexivity. Qed.

(** The instance list also grows WITHOUT BOUND: each call that names an
    "other" algorithm appends once more, duplicates included. *)
Theorem refine_aliasing_grows :
  forall dl x,
    In x other_list ->
    length (fst (refine_aliasing dl (Some x) None)) = S (length dl).
Proof.
  intros dl x Hx. unfold refine_aliasing, refine_work. cbn [fst append_if_other].
  apply mem_In in Hx. rewrite Hx. rewrite app_length. cbn [length]. lia.
Qed.

Example refine_aliasing_duplicates :
  fst (refine_aliasing (fst (refine_aliasing default_list (Some "sha3_256") None))
                       (Some "sha3_256") None)
  = ["md5";"sha1";"sha256";"sha384";"sha512";"sha3_256";"sha3_256"].
Proof. vm_compute. reflexivity. Qed.

(** ** 7c. The drift does not change what [_clean_algorithm] accepts.

    Invariant of the instance list under the buggy code: it always contains
    the defaults and only ever gains members of [other_list]. *)
Definition drift_ok (dl : list string) : Prop :=
  incl default_list dl /\ incl dl supported.

Lemma drift_ok_init : drift_ok default_list.
Proof.
  split; [apply incl_refl |]. unfold supported. apply incl_appl. apply incl_refl.
Qed.

Lemma append_if_other_drift_ok :
  forall dl o, drift_ok dl -> drift_ok (append_if_other dl o).
Proof.
  intros dl o [H1 H2]. split.
  - intros x Hx. apply append_if_other_incl. apply H1. exact Hx.
  - destruct o as [y|]; cbn [append_if_other]; [| exact H2].
    destruct (mem y other_list) eqn:E; [| exact H2].
    intros x Hx. apply in_app_or in Hx. destruct Hx as [Hx | [<- | []]].
    + apply H2. exact Hx.
    + unfold supported. apply in_or_app. right. apply mem_In. exact E.
Qed.

Lemma refine_aliasing_drift_ok :
  forall dl a c, drift_ok dl -> drift_ok (fst (refine_aliasing dl a c)).
Proof.
  intros dl a c H. unfold refine_aliasing, refine_work. cbn [fst].
  apply append_if_other_drift_ok. apply append_if_other_drift_ok. exact H.
Qed.

Lemma refine_aliasing_history_drift_ok :
  forall (calls : list (option string * option string)),
    drift_ok (fold_left (fun dl '(a, c) => fst (refine_aliasing dl a c))
                        calls default_list).
Proof.
  intro calls. generalize drift_ok_init. generalize default_list as dl.
  induction calls as [|[a c] calls IH]; intros dl H.
  - exact H.
  - cbn [fold_left]. apply IH. apply refine_aliasing_drift_ok. exact H.
Qed.

Theorem clean_with_drift_invariant :
  forall dl s, drift_ok dl -> clean_algorithm_with dl s = clean_algorithm s.
Proof.
  intros dl s [H1 H2]. unfold clean_algorithm.
  rewrite !clean_algorithm_with_eq.
  set (c := cleaned_string s).
  assert (E : mem c dl || mem c other_list = mem c default_list || mem c other_list).
  { apply eq_true_iff_eq. rewrite !orb_true_iff, !mem_In. split.
    - intros [H | H]; [| right; exact H].
      apply H2 in H. apply supported_split in H. exact H.
    - intros [H | H]; [left; apply H1; exact H | right; exact H]. }
  rewrite E. reflexivity.
Qed.

(** The discarded inner calls [self._clean_algorithm(x)] in
    [_refine_algorithm_list] never raise on a supported (already cleaned) name,
    whatever the drift; this justifies omitting them from [refine_*]. *)
Lemma refine_inner_clean_no_raise :
  forall dl x, drift_ok dl -> In x supported -> clean_algorithm_with dl x = Some x.
Proof.
  intros dl x Hd Hx. rewrite (clean_with_drift_invariant dl x Hd).
  apply supported_fixed. exact Hx.
Qed.

(* ------------------------------------------------------------------------- *)
(** * 12. Assumption audit                                                   *)
(* ------------------------------------------------------------------------- *)

Print Assumptions squashed_names_distinct.
Print Assumptions clean_sound.
Print Assumptions clean_unique.
Print Assumptions clean_case_insensitive.
Print Assumptions clean_recase.
Print Assumptions clean_idempotent.
Print Assumptions clean_complete.
Print Assumptions clean_complete_anycase.
Print Assumptions refine_copy_instance_unchanged.
Print Assumptions refine_copy_keys.
Print Assumptions refine_copy_nodup.
Print Assumptions refine_copy_history.
Print Assumptions refine_aliasing_drifts.
Print Assumptions refine_aliasing_keys_refuted.
Print Assumptions refine_aliasing_grows.
Print Assumptions clean_with_drift_invariant.
Print Assumptions refine_inner_clean_no_raise.
Print Assumptions refine_aliasing_history_drift_ok.
