(* CodecA.v — textual front end to the layer-A (pure) model functions, for the correspondence
   projections P-args, P-algo, P-layout, P-config, P-client, P-stream.  Strings travel
   hex-encoded so that arbitrary ASCII (spaces, control characters) survives the word split. *)
From Coq Require Import String Ascii ZArith DecimalString Decimal List Bool.
From HS Require Import Base PyVal Algo Shard RefsCodec Args Verdict Config Client StreamModel Layout FS Ops Sched Lin Codec.
Import ListNotations.
Open Scope string_scope.

Definition hexval (c : ascii) : option nat :=
  let n := nat_of_ascii c in
  if (Nat.leb 48 n && Nat.leb n 57)%bool then Some (n - 48)
  else if (Nat.leb 97 n && Nat.leb n 102)%bool then Some (n - 87)
  else None.

Fixpoint unhex (s : string) : option string :=
  match s with
  | EmptyString => Some EmptyString
  | String a (String b s') =>
      match hexval a, hexval b, unhex s' with
      | Some x, Some y, Some r => Some (String (ascii_of_nat (16 * x + y)) r)
      | _, _, _ => None
      end
  | _ => None
  end.

Definition hexdigit (n : nat) : ascii :=
  if Nat.ltb n 10 then ascii_of_nat (48 + n) else ascii_of_nat (87 + n).

Fixpoint hex (s : string) : string :=
  match s with
  | EmptyString => EmptyString
  | String c s' =>
      let n := nat_of_ascii c in
      String (hexdigit (Nat.div n 16)) (String (hexdigit (Nat.modulo n 16)) (hex s'))
  end.

(* "-" denotes the empty string / empty list so that no word is ever empty *)
Definition unhex0 (s : string) : option string := if String.eqb s "-" then Some "" else unhex s.
Definition hex0 (s : string) : string := match s with EmptyString => "-" | _ => hex s end.

Definition show_Z (z : Z) : string := NilZero.string_of_int (Z.to_int z).
Definition read_Z (s : string) : option Z :=
  match NilZero.int_of_string s with Some i => Some (Z.of_int i) | None => None end.

(* python values: N | T | U | I<z> | F | S<hex0> | Y | P<hex0> | R1 | R0 | X | O | Z *)
Definition read_pyval (s : string) : option pyval :=
  match s with
  | String c rest =>
      if Ascii.eqb c "N" then Some PNone
      else if Ascii.eqb c "T" then Some (PBool true)
      else if Ascii.eqb c "U" then Some (PBool false)
      else if Ascii.eqb c "I" then option_map PInt (read_Z rest)
      else if Ascii.eqb c "F" then Some PFloat
      else if Ascii.eqb c "S" then option_map PStr (unhex0 rest)
      else if Ascii.eqb c "Y" then Some PBytes
      else if Ascii.eqb c "P" then option_map PPath (unhex0 rest)
      else if Ascii.eqb c "R" then Some (PStream (String.eqb rest "1"))
      else if Ascii.eqb c "X" then Some PTextStream
      else if Ascii.eqb c "O" then Some PObjMeta
      else if Ascii.eqb c "Z" then Some POther
      else None
  | EmptyString => None
  end.

Definition show_pyval (v : pyval) : string :=
  match v with
  | PNone => "N" | PBool true => "T" | PBool false => "U" | PInt z => "I" ++ show_Z z
  | PFloat => "F" | PStr s => "S" ++ hex0 s | PBytes => "Y" | PPath s => "P" ++ hex0 s
  | PStream b => if b then "R1" else "R0" | PTextStream => "X" | PObjMeta => "O" | POther => "Z"
  end.

Fixpoint read_all {A} (f : string -> option A) (l : list string) : option (list A) :=
  match l with
  | [] => Some []
  | x :: l' => match f x, read_all f l' with Some a, Some r => Some (a :: r) | _, _ => None end
  end.

Definition show_optexn (r : option exn) : string :=
  match r with None => "ok" | Some e => show_exn e end.

(* split a string at a character *)
Fixpoint split_char_aux (c : ascii) (s cur : string) : list string :=
  match s with
  | EmptyString => [cur]
  | String x s' => if Ascii.eqb x c then cur :: split_char_aux c s' ""
                   else split_char_aux c s' (cur ++ String x EmptyString)
  end.
Definition split_char (c : ascii) (s : string) : list string := split_char_aux c s "".

(* code-point lists: "97,98" ; "-" = empty *)
Definition read_cps (s : string) : option (list nat) :=
  if String.eqb s "-" then Some [] else read_all read_nat (split_char "," s).
Definition show_cps (l : list nat) : string :=
  match l with [] => "-" | _ => join "," (map show_nat l) end.

(* assoc lists "a:d,a:d" of hex0 strings *)
Definition read_pair (s : string) : option (string * string) :=
  match split_char ":" s with
  | [a; d] => match unhex0 a, unhex0 d with Some x, Some y => Some (x, y) | _, _ => None end
  | _ => None
  end.
Definition read_table (s : string) : option (list (string * string)) :=
  if String.eqb s "-" then Some [] else read_all read_pair (split_char "," s).

Definition table_fun (t : list (string * string)) (a : string) : string :=
  match Verdict.lookup a t with Some d => d | None => "" end.

Definition read_optZ (s : string) : option (option Z) :=
  if String.eqb s "N" then Some None else option_map Some (read_Z s).
Definition read_optstr (s : string) : option (option string) :=
  if String.eqb s "N" then Some None
  else match s with String _ rest => option_map Some (unhex0 rest) | _ => None end.

Definition show_verdict (v : verdict * Verdict.effect) : string :=
  (match fst v with Valid => "valid" | BadSize => "badsize" | BadChecksum => "badchecksum" end) ++ " " ++
  (match snd v with NoEffect => "none" | DeleteTmp => "deletetmp" | OpenObject => "openobject" end).

(* props: "k=V;k=V" with k hex0 and V a pyval word ; "N" = None ; "E" = {} *)
Definition read_prop (s : string) : option (string * pyval) :=
  match split_char "=" s with
  | [k; v] => match unhex0 k, read_pyval v with Some k', Some v' => Some (k', v') | _, _ => None end
  | _ => None
  end.
Definition read_props (s : string) : option (option props) :=
  if String.eqb s "N" then Some None
  else if String.eqb s "E" then Some (Some [])
  else option_map Some (read_all read_prop (split_char ";" s)).

(* yaml: "N" or "d,w,algohex,nshex" *)
Definition read_cfg (s : string) : option (option Config.cfg) :=
  if String.eqb s "N" then Some None
  else match split_char "," s with
       | [d; w; a; n] =>
           match read_Z d, read_Z w, unhex0 a, unhex0 n with
           | Some d', Some w', Some a', Some n' => Some (Some (mk_cfg d' w' a' n'))
           | _, _, _, _ => None
           end
       | _ => None
       end.

Definition show_effect (e : Config.effect) : string :=
  match e with EfMkRoot => "mkroot" | EfWriteYaml _ => "writeyaml" | EfMkDataDirs => "mkdatadirs" end.

Definition show_decision (d : decision) : string :=
  match d with
  | Accept c eff =>
      "accept " ++ show_Z (c_depth c) ++ " " ++ show_Z (c_width c) ++ " " ++ hex0 (c_algo c) ++ " "
      ++ hex0 (c_ns c) ++ " [" ++ join "," (map show_effect eff) ++ "]"
  | Refuse e => "refuse " ++ show_exn e
  end.

Definition show_verb (v : verb) : string :=
  match v with
  | VGetHex => "get_hex_digest" | VStoreObject => "store_object" | VStoreMeta => "store_metadata"
  | VRetrieveObject => "retrieve_object" | VRetrieveMeta => "retrieve_metadata"
  | VDeleteObject => "delete_object" | VDeleteMeta => "delete_metadata"
  end.

Definition show_client (r : client_result) : string :=
  match r with
  | CExn e => "exn " ++ show_exn e
  | CCall v a => "call " ++ show_verb v ++ " " ++ join " " (map show_pyval a)
  | CNothing => "nothing"
  end.

Definition layerA (ws : list string) : string :=
  match ws with
  | ["clean"; s] =>
      match unhex0 s with
      | Some s' => match clean_algorithm s' with Some a => "some " ++ hex0 a | None => "none" end
      | None => "PARSE"
      end
  | ["refine"; fixed; a; c] =>
      (* instance list drift over one call: prints the new instance list and the list to calculate *)
      match read_optstr a, read_optstr c with
      | Some a', Some c' =>
          let r := if String.eqb fixed "1" then refine_copy default_list a' c' else refine_aliasing default_list a' c' in
          join "," (fst r) ++ " " ++ join "," (snd r)
      | _, _ => "PARSE"
      end
  | ["shard"; d; w; s] =>
      match read_nat d, read_nat w, unhex0 s with
      | Some d', Some w', Some s' => join "/" (shard_string d' w' s')
      | _, _, _ => "PARSE"
      end
  | ["inrefs"; p; f] =>
      match read_cps p, read_cps f with
      | Some p', Some f' => if is_in_refs_cp p' f' then "t" else "f"
      | _, _ => "PARSE"
      end
  | ["rmref"; p; f] =>
      match read_cps p, read_cps f with
      | Some p', Some f' => show_cps (remove_ref_cp p' f')
      | _, _ => "PARSE"
      end
  | ["lines"; f] =>
      match read_cps f with
      | Some f' => join "|" (map (fun l => show_cps (strip_cp l)) (split_lines_cp f'))
      | None => "PARSE"
      end
  | ["render"; d; w; kind; h1; h2] =>
      (* relative path of an address under the README layout (Layout.v); digests travel as plain hex words *)
      match read_nat d, read_nat w with
      | Some d', Some w' =>
          if String.eqb kind "obj" then render_string d' w' (SObj h1)
          else if String.eqb kind "pid" then render_string d' w' (SPidRef h1)
          else if String.eqb kind "cid" then render_string d' w' (SCidRef h1)
          else if String.eqb kind "meta" then render_string d' w' (SMeta h1 h2)
          else if String.eqb kind "delpid" then render_string d' w' (SDel (SPidRef h1))
          else "PARSE"
      | _, _ => "PARSE"
      end
  | ["consts"] =>
      (* the constants the model is written against, for comparison with the live class (P-consts) *)
      "default=" ++ join "," default_list ++ " other=" ++ join "," other_list
      ++ " keys=" ++ join "," required_keys ++ " store_algorithms=" ++ join "," accepted_store_algorithms
      ++ " exns=" ++ join "," (map show_exn all_exns)
  | ["checkcp"; v] =>
      (* _check_string at code-point level (Unicode whitespace): N | S<cps> *)
      if String.eqb v "N" then (if check_string_cp None then "ok" else "ValueError")
      else match v with
           | String _ rest =>
               match read_cps rest with
               | Some l => if check_string_cp (Some l) then "ok" else "ValueError"
               | None => "PARSE"
               end
           | EmptyString => "PARSE"
           end
  | ["checkstr"; v] =>
      match read_pyval v with Some v' => show_optexn (Args.check_string v') | None => "PARSE" end
  | "args" :: m :: sa :: vs =>
      match unhex0 sa, read_all read_pyval vs with
      | Some sa', Some vs' =>
          match m, vs' with
          | "store_object", [p; d; a; c; ca; z] => show_optexn (args_store_object sa' p d a c ca z)
          | "tag_object", [p; c] => show_optexn (args_tag_object p c)
          | "delete_if_invalid_object", [o; c; ca; z] => show_optexn (args_delete_if_invalid o c ca z)
          | "store_metadata", [p; d; f] => show_optexn (args_store_metadata sa' p d f)
          | "retrieve_object", [p] => show_optexn (args_retrieve_object p)
          | "retrieve_metadata", [p; f] => show_optexn (args_retrieve_metadata sa' p f)
          | "delete_object", [p] => show_optexn (args_delete_object p)
          | "delete_metadata", [p; f] => show_optexn (args_delete_metadata sa' p f)
          | "get_hex_digest", [p; a] => show_optexn (args_get_hex_digest p a)
          | _, _ => "PARSE"
          end
      | _, _ => "PARSE"
      end
  | ["verdict"; fixed; pg; ck; al; hd; dt; sz; szv] =>
      match read_optstr ck, read_optstr al, read_table hd, read_table dt, read_Z sz, read_optZ szv with
      | Some ck', Some al', Some hd', Some dt', Some sz', Some szv' =>
          show_verdict (verify (table_fun dt') (String.eqb fixed "1") (String.eqb pg "1") ck' al' hd' sz' szv')
      | _, _, _, _, _, _ => "PARSE"
      end
  | ["pyint"; s] =>
      match unhex0 s with
      | Some s' => match py_int_of_string s' with Some z => "some " ++ show_Z z | None => "none" end
      | None => "PARSE"
      end
  | ["config"; y; re; dd; p] =>
      match read_cfg y, read_props p with
      | Some y', Some p' => show_decision (open_decision y' (String.eqb re "1") (String.eqb dd "1") p')
      | _, _ => "PARSE"
      end
  | ["mpmode"; fixed; env] =>
      match read_optstr env with
      | Some e => (if mode_of_env e then "mp" else "th") ++ " " ++
                  (if has_mp_primitives (String.eqb fixed "1") e then "mp-primitives" else "th-primitives")
      | None => "PARSE"
      end
  | ["client"; fixed; dflt; pid; path; algo; ck; cka; size; fmt; flags] =>
      match unhex0 dflt, read_all read_optstr [pid; path; algo; ck; cka; size; fmt] with
      | Some d, Some [pid'; path'; algo'; ck'; cka'; size'; fmt'] =>
          let fl := fun k => String.eqb (String.substring k 1 flags) "1" in
          show_client (client_call (String.eqb fixed "1") d
            (mk_options pid' path' algo' ck' cka' size' fmt' (fl 0) (fl 1) (fl 2) (fl 3) (fl 4) (fl 5) (fl 6)))
      | _, _ => "PARSE"
      end
  | ["chunks"; bs; n] =>
      (* sizes of the successive non-empty reads of a stream of n bytes with buffer size bs *)
      match read_nat bs, read_nat n with
      | Some bs', Some n' => show_cps (map (@List.length nat) (stream_chunks bs' (List.repeat 0 n')))
      | _, _ => "PARSE"
      end
  | _ => "BADCMD"
  end.

(* replay <i,j,...> | setup | c1 || c2 [|| c3] : run ONE schedule step by step; prints
   "<thread>:<op> -> <answer>" for every step, then the threads' outcomes and the final world.
   Used by the controlled-scheduler correspondence (P-sched): the implementation is driven along the
   same schedule and must produce the same per-thread operation sequences, outcomes and files. *)
Fixpoint exec_trace {A} (ps : list (prog A)) (sched : list nat) (c : Sched.cfg) (acc : list string)
  : list string * option Sched.cfg :=
  match sched with
  | [] => (rev acc, Some c)
  | i :: s =>
      match nth_error ps i, nth_error (fst c) i with
      | Some p, Some h =>
          match resume p (rev h) with
          | Some (Vis o k) =>
              match exec_op i o (snd c) with
              | Some (a, w') =>
                  exec_trace ps s (upd_nth i (a :: h) (fst c), w')
                             ((show_nat i ++ ":" ++ show_step (o, a)) :: acc)
              | None => (rev (("BLOCKED:" ++ show_nat i) :: acc), None)
              end
          | _ => (rev (("NOSTEP:" ++ show_nat i) :: acc), None)
          end
      | _, _ => (rev (("NOTHREAD:" ++ show_nat i) :: acc), None)
      end
  end.

Definition cmd_replay (sched : list nat) (setup calls : list call) : string :=
  match run_history empty_world setup with
  | Some (w0, _) =>
      let ps := map api calls in
      match exec_trace ps sched (init_cfg ps w0) [] with
      | (steps, Some c) =>
          join " ; " steps ++ " | " ++ join " , " (map show_opt_outcome (results ps c)) ++ " | "
          ++ show_world (snd c)
          ++ " lin=" ++ (if lin_ok w0 calls c then "1" else "0")
          ++ " retr=" ++ (if stored_retrievable calls c then "1" else "0")
          ++ " stuck=" ++ (if is_nil (succs ps c) then "1" else "0")
      | (steps, None) => join " ; " steps ++ " | DIVERGED"
      end
  | None => "STUCK"
  end.

Definition run_line_all (line : string) : string :=
  match words line with
  | "A" :: ws => layerA ws
  | "replay" :: sch :: "|" :: rest =>
      match (if String.eqb sch "-" then Some [] else read_all read_nat (split_char "," sch)),
            split_at "|" rest [] with
      | Some s, [sw; cw] =>
          match read_history sw, read_calls (split_at "||" cw []) with
          | Some setup, Some calls => cmd_replay s setup calls
          | _, _ => "PARSE"
          end
      | _, _ => "PARSE"
      end
  | _ => run_line line
  end.
