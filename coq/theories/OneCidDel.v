(* OneCidDel.v — property C07 beyond the menus, second step: pools of calls that reach ONE shared
   lock after a PRELUDE of private acquisitions and of READS outside the shared lock (OneCid.v: the
   shared lock is the second operation of every call).

   delete_object q (Ops.delete_object) takes the object-pid lock and the reference-pid lock of q,
   then runs find_object q — seven reads, two of them of the SHARED cid list and two of the shared
   object — and only then takes the cid lock of the cid it found; everything it writes lies between
   that and the release of the cid lock (delete_metadata included), after which it gives its two
   pid locks back.  What it read outside the lock decides which branch it takes.

     §1  [prelude_pool]: the pool theorem.  Thread i runs  prelude ; Acquire L ; critical section ;
         Release L ; releases of its private locks ; return.  The prelude consists of acquisitions
         of private locks and of reads whose CONTINUATION is the same for every answer that a
         world satisfying the thread's stability predicate [J i] can give ([det]).  If every solo
         run of another thread keeps [J i] in every intermediate world ([Hkeep]), every schedule
         that [Sched.exec] accepts and that is complete ends in the world of the sequential run in
         the order in which the threads took L, with the same results.
     §2  the order: [entry_order entry sched] — thread j enters the order at its [entry j]-th step
     §3  delete_object has the shape; N deleters of pairwise distinct pids bound to one cid
         ([one_cid_deleters_linearizable]); the stability of a bound pid under the solo run of a
         deleter of another pid is CrashGeneral.crash_WI (every crash point of a call leaves every
         other pid's reference, list membership and object as they were). *)
From HS Require Import Base PyVal FS Ops Sched Spec SeqLemmas Bracket SchedCV Mutex Indep IndepMeta OneDoc OneCid.

(* ====================================================================================== *)
(* §0  small facts                                                                         *)
(* ====================================================================================== *)

(* reads: never block, never change the world *)
Definition rdop (o : op) : Prop :=
  match o with Probe _ | Read _ | SizeLines _ => True | _ => False end.

Lemma rdop_exec : forall t o w, rdop o -> exists a, exec_op t o w = Some (a, w).
Proof.
  intros t o w H. destruct o; simpl in H; try contradiction; simpl.
  - eauto.
  - destruct (lookup a (fs w)) as [[]|]; eauto.
  - destruct (lookup a (fs w)); eauto.
Qed.

Lemma rdop_same : forall t o w a w', rdop o -> exec_op t o w = Some (a, w') -> w' = w.
Proof.
  intros t o w a w' H He. destruct (rdop_exec t o w H) as [a' E]. rewrite E in He. congruence.
Qed.

Lemma Solo_app : forall A t (m : prog A) w hs w1 m1 hs2 w2 m2,
  Solo t m w hs w1 m1 -> Solo t m1 w1 hs2 w2 m2 -> Solo t m w (hs ++ hs2) w2 m2.
Proof.
  intros A t m w hs w1 m1 hs2 w2 m2 H. induction H; intros H2; simpl; auto.
  eapply solo_cons; eauto.
Qed.

(* give back the locks of hl, first to last *)
Fixpoint relall (hl : list lock) (w : world) : world :=
  match hl with
  | [] => w
  | l :: hl' => relall hl' (set_locks w (remove1 lock_eqb l (locks w)))
  end.

Lemma relall_fs : forall hl w, fs (relall hl w) = fs w.
Proof. induction hl as [|l hl IH]; intros w; simpl; auto. rewrite IH. reflexivity. Qed.

Lemma sim_relall_r : forall priv hl w ws, (forall l, In l hl -> priv l = true) ->
  sim priv w ws -> sim priv w (relall hl ws).
Proof.
  induction hl as [|l hl IH]; intros w ws Hp Hs; simpl; auto.
  apply IH; [intros x Hx; apply Hp; right; exact Hx|].
  apply sim_rel_priv_r; auto. apply Hp. left. reflexivity.
Qed.

Definition cnt (j : nat) (l : list nat) : nat := length (filter (Nat.eqb j) l).

(* (the schedule so far, most recent first; the order so far): thread j joins the order with its
   [entry j]-th step *)
Definition noteE (entry : nat -> nat) (s : list nat * list nat) (j : nat) : list nat * list nat :=
  (j :: fst s, if Nat.eqb (S (cnt j (fst s))) (entry j) then snd s ++ [j] else snd s).

Definition entry_order (entry : nat -> nat) (sched : list nat) : list nat :=
  snd (fold_left (noteE entry) sched ([], [])).

(* ====================================================================================== *)
(* §1  the pool theorem                                                                    *)
(* ====================================================================================== *)

Section PreludePool.
  Variable A : Type.
  Variable ps : list (prog A).
  Variable L : lock.                        (* the shared lock *)
  Variable priv : lock -> bool.
  Variable mine : nat -> lock -> bool.      (* thread i's private locks *)
  Variable pl : nat -> lock.                (* the one it may test inside the critical section *)
  Variable entry : nat -> nat.              (* the number of the step with which thread i takes L *)
  Variable J : nat -> fmap -> Prop.         (* what thread i's prelude reads rely on *)
  Variable WInv : world -> Prop.            (* an invariant of the worlds between complete runs *)
  Variable w0 : world.

  (* the continuation after the read o does not depend on the answer, in worlds satisfying J i *)
  Definition det (i : nat) (o : op) (k : ans -> prog A) (m : prog A) : Prop :=
    forall t w a w', J i (fs w) -> exec_op t o w = Some (a, w') -> k a = m.

  (* after Release L: give the private locks back, return r *)
  Inductive Post : list lock -> A -> prog A -> Prop :=
  | post_nil : forall r, Post [] r (Ret r)
  | post_rel : forall l hl r k, Post hl r (k AUnit) -> Post (l :: hl) r (Vis (Release (fst l) (snd l)) k).

  (* inside the critical section, holding the private locks hl *)
  Fixpoint CS3 (i : nat) (hl : list lock) (m : prog A) : Prop :=
    match m with
    | Ret _ => False
    | Bad => True
    | Vis o k =>
        (o = Release (fst L) (snd L) /\ exists r, Post hl r (k AUnit)) \/
        (quiet priv L (pl i) o /\ forall a, CS3 i hl (k a))
    end.

  (* n steps before the acquisition of L, holding hl *)
  Inductive Pre (i : nat) : nat -> list lock -> prog A -> Prop :=
  | pre_enter : forall hl k, In (pl i) hl -> CS3 i hl (k AUnit) ->
      Pre i 0 hl (Vis (Acquire (fst L) (snd L)) k)
  | pre_acq : forall n hl l k, mine i l = true -> ~ In l hl -> Pre i n (l :: hl) (k AUnit) ->
      Pre i (S n) hl (Vis (Acquire (fst l) (snd l)) k)
  | pre_read : forall n hl o k m, rdop o -> det i o k m -> Pre i n hl m ->
      Pre i (S n) hl (Vis o k).

  (* m, holding hl, is where the prelude of p has got to *)
  Inductive PreTo (i : nat) (p : prog A) : list lock -> prog A -> Prop :=
  | pt_start : PreTo i p [] p
  | pt_acq : forall hl l k, PreTo i p hl (Vis (Acquire (fst l) (snd l)) k) -> ~ In l hl ->
      PreTo i p (l :: hl) (k AUnit)
  | pt_read : forall hl o k m, PreTo i p hl (Vis o k) -> rdop o -> det i o k m -> PreTo i p hl m.

  Lemma Post_inv : forall hl r o k, Post hl r (Vis o k) ->
    exists l hl', hl = l :: hl' /\ o = Release (fst l) (snd l) /\ Post hl' r (k AUnit).
  Proof. intros hl r o k H. inversion H; subst. eauto. Qed.

  Lemma Pre_inv : forall i n hl o k, Pre i n hl (Vis o k) ->
    (n = 0 /\ o = Acquire (fst L) (snd L) /\ In (pl i) hl /\ CS3 i hl (k AUnit)) \/
    (exists n' l, n = S n' /\ o = Acquire (fst l) (snd l) /\ mine i l = true /\ ~ In l hl /\
                  Pre i n' (l :: hl) (k AUnit)) \/
    (exists n' m, n = S n' /\ rdop o /\ det i o k m /\ Pre i n' hl m).
  Proof.
    intros i n hl o k H. inversion H; subst.
    - left. auto.
    - right. left. eauto 10.
    - right. right. eauto 10.
  Qed.

  Lemma release_inj : forall l l' : lock, Release (fst l) (snd l) = Release (fst l') (snd l') -> l = l'.
  Proof. intros [a b] [a' b'] H. simpl in H. inversion H. reflexivity. Qed.

  Hypothesis Hshape : forall i p, nth_error ps i = Some p -> exists n, Pre i n [] p /\ S n = entry i.
  Hypothesis HprivL : priv L = false.
  Hypothesis Hmine : forall i l, mine i l = true -> priv l = true.
  Hypothesis Hdisj : forall i j l, i < length ps -> j < length ps ->
    mine i l = true -> mine j l = true -> i = j.
  Hypothesis Hok : pool_ok ps.
  Hypothesis Hl0 : locks w0 = [].
  Hypothesis Hrt0 : refs_typed (fs w0).
  Hypothesis HW0 : WInv w0.
  Hypothesis HJ0 : forall i, i < length ps -> J i (fs w0).
  Hypothesis HWstep : forall i p w w' r, nth_error ps i = Some p -> WInv w -> locks w = [] ->
    run_as i w p = Some (w', r) -> WInv w'.
  (* every solo run of thread i keeps what thread j relies on, in every intermediate world *)
  Hypothesis Hkeep : forall i j p w hs ws m, i <> j -> nth_error ps i = Some p -> j < length ps ->
    WInv w -> locks w = [] -> J i (fs w) -> J j (fs w) -> Solo i p w hs ws m -> J j (fs ws).

  Lemma mine_neq_L : forall i l, mine i l = true -> l <> L.
  Proof. intros i l H E. apply Hmine in H. rewrite E, HprivL in H. discriminate. Qed.

  Lemma seq_total' : forall i p w, nth_error ps i = Some p -> locks w = [] -> refs_typed (fs w) ->
    exists w' r, run_as i w p = Some (w', r) /\ locks w' = [] /\ refs_typed (fs w').
  Proof.
    intros i p w Hp Hl Hrt. eapply run_as_total with (h := []) (kn := []).
    - apply (Hok i p Hp).
    - exact Hrt.
    - apply KInv_nil.
    - apply LInv_empty. exact Hl.
  Qed.

  (* replaying a prelude from a world that satisfies J i and holds no lock *)
  Lemma replay : forall i p hl m, PreTo i p hl m -> forall w, J i (fs w) -> locks w = [] ->
    exists hs, Solo i p w hs (set_locks w hl) m.
  Proof.
    intros i p hl m H. induction H; intros w HJ Hl.
    - exists []. destruct w as [f k0]. simpl in Hl. subst k0. apply solo_nil.
    - destruct (IHPreTo w HJ Hl) as [hs Hs]. exists (hs ++ [AUnit]).
      eapply Solo_snoc; [exact Hs|]. simpl. rewrite lock_eta.
      apply memb_lock_notIn in H0. rewrite H0. reflexivity.
    - destruct (IHPreTo w HJ Hl) as [hs Hs].
      destruct (rdop_exec i o (set_locks w hl) H0) as [a Ea].
      exists (hs ++ [a]). rewrite <- (H1 i (set_locks w hl) a _ HJ Ea).
      eapply Solo_snoc; eauto.
  Qed.

  Lemma post_solo : forall t hl r m, Post hl r m -> forall w, NoDup hl ->
    (forall l, In l hl -> In l (locks w)) ->
    exists hs, Solo t m w hs (relall hl w) (Ret r).
  Proof.
    intros t hl r m H. induction H; intros w Hnd Hin.
    - exists []. apply solo_nil.
    - inversion Hnd; subst.
      destruct (IHPost (set_locks w (remove1 lock_eqb l (locks w)))) as [hs Hs]; auto.
      { intros x Hx. simpl. apply In_remove1_neq; [apply Hin; right; exact Hx|].
        intros ->. contradiction. }
      exists (AUnit :: hs). eapply solo_cons; [|exact Hs].
      apply release_held. apply Hin. left. reflexivity.
  Qed.

  (* thread i holds the locks hl, all its own *)
  Definition Holds (w : world) (i : nat) (hl : list lock) : Prop :=
    forall l, In l hl -> mine i l = true /\ In l (locks w).

  (* the step releases no lock of thread i *)
  Definition norel (i : nat) (o : op) : Prop :=
    forall cls x, o = Release cls x -> mine i (cls, x) = false.

  Lemma Holds_keep : forall t o w a w' i hl,
    exec_op t o w = Some (a, w') -> norel i o -> Holds w i hl -> Holds w' i hl.
  Proof.
    intros t o w a w' i hl He Hn Hh l Hl. destruct (Hh l Hl) as [H1 H2]. split; auto.
    eapply exec_keeps_lock; eauto. intros cls x E E'. specialize (Hn cls x E).
    rewrite E' in Hn. congruence.
  Qed.

  (* thread i is in its prelude *)
  Definition PreSt (c : cfg) (i : nat) : Prop :=
    exists p h n hl m,
      nth_error ps i = Some p /\ nth_error (fst c) i = Some h /\ resume p (rev h) = Some m /\
      Pre i n hl m /\ PreTo i p hl m /\ NoDup hl /\ Holds (snd c) i hl /\ length h + S n = entry i.

  (* thread i has left the critical section with result r *)
  Definition PostSt (c : cfg) (i : nat) (r : A) : Prop :=
    exists p h hl m,
      nth_error ps i = Some p /\ nth_error (fst c) i = Some h /\ resume p (rev h) = Some m /\
      Post hl r m /\ NoDup hl /\ Holds (snd c) i hl /\ entry i <= length h.

  Lemma PreSt_keep : forall c j x o a w' i, i <> j ->
    exec_op j o (snd c) = Some (a, w') -> norel i o -> PreSt c i -> PreSt (upd_nth j x (fst c), w') i.
  Proof.
    intros c j x o a w' i Hne He Hn (p & h & n & hl & m & H1 & H2 & H3 & H4 & H5 & H6 & H7 & H8).
    exists p, h, n, hl, m. simpl. rewrite nth_error_upd_nth_neq by exact Hne.
    split; [exact H1|]. split; [exact H2|]. split; [exact H3|]. split; [exact H4|].
    split; [exact H5|]. split; [exact H6|]. split; [|exact H8]. eapply Holds_keep; eauto.
  Qed.

  Lemma PostSt_keep : forall c j x o a w' i r, i <> j ->
    exec_op j o (snd c) = Some (a, w') -> norel i o -> PostSt c i r -> PostSt (upd_nth j x (fst c), w') i r.
  Proof.
    intros c j x o a w' i r Hne He Hn (p & h & hl & m & H1 & H2 & H3 & H4 & H5 & H6 & H7).
    exists p, h, hl, m. simpl. rewrite nth_error_upd_nth_neq by exact Hne.
    split; [exact H1|]. split; [exact H2|]. split; [exact H3|]. split; [exact H4|].
    split; [exact H5|]. split; [|exact H7]. eapply Holds_keep; eauto.
  Qed.

  Definition BInv3 (c : cfg) (seen ord : list nat) (act : option nat) : Prop :=
    length (fst c) = length ps /\
    NoDup ord /\
    (forall i, In i ord -> i < length ps) /\
    (forall i h, nth_error (fst c) i = Some h -> length h = cnt i seen) /\
    (forall i, i < length ps -> ~ In i ord -> act <> Some i -> PreSt c i) /\
    exists w1 rs,
      seq_runp A ps ord w0 = Some (w1, rs) /\ locks w1 = [] /\ refs_typed (fs w1) /\ WInv w1 /\
      (forall j, j < length ps -> ~ In j ord -> J j (fs w1)) /\
      Forall2 (PostSt c) ord rs /\
      match act with
      | None => sim priv (snd c) w1
      | Some i =>
          i < length ps /\ ~ In i ord /\
          exists p hist m ws hs hl,
            nth_error ps i = Some p /\ nth_error (fst c) i = Some hist /\
            resume p (rev hist) = Some m /\
            Solo i p w1 hs ws m /\ CS3 i hl m /\
            sim priv (snd c) ws /\ In L (locks ws) /\ NoDup hl /\ In (pl i) hl /\
            (forall l, In l hl -> mine i l = true /\ In l (locks ws) /\ In l (locks (snd c))) /\
            entry i <= length hist
      end.

  Lemma BInv3_init : BInv3 (init_cfg ps w0) [] [] None.
  Proof.
    unfold BInv3, init_cfg. simpl. split; [apply map_length|]. split; [constructor|].
    split; [intros i []|]. split; [|split].
    - intros i h Hh. rewrite nth_error_map in Hh.
      destruct (nth_error ps i); inversion Hh. reflexivity.
    - intros i Hi _ _. destruct (nth_error ps i) as [p|] eqn:Ep; [|apply nth_error_None in Ep; lia].
      destruct (Hshape i p Ep) as (n & Hpre & Hn).
      exists p, [], n, [], p. simpl. rewrite nth_error_map, Ep. simpl.
      split; [reflexivity|]. split; [reflexivity|]. split; [apply resume_nil|]. split; [exact Hpre|].
      split; [constructor|]. split; [constructor|]. split; [intros l []|lia].
    - exists w0, []. split; [reflexivity|]. split; [exact Hl0|]. split; [exact Hrt0|].
      split; [exact HW0|]. split; [intros j Hj _; apply HJ0; exact Hj|]. split; [constructor|].
      split; reflexivity.
  Qed.

  Lemma cnt_cons_eq : forall j l, cnt j (j :: l) = S (cnt j l).
  Proof. intros. unfold cnt. simpl. rewrite Nat.eqb_refl. reflexivity. Qed.
  Lemma cnt_cons_neq : forall i j l, i <> j -> cnt i (j :: l) = cnt i l.
  Proof.
    intros. unfold cnt. simpl. destruct (Nat.eqb i j) eqn:E; [apply Nat.eqb_eq in E; contradiction|].
    reflexivity.
  Qed.

  Lemma BInv3_step : forall c seen ord act j c',
    BInv3 c seen ord act -> thread_step ps c j = Some c' ->
    exists ord' act', BInv3 c' (j :: seen) ord' act' /\
      ord' ++ oact act' = snd (noteE entry (seen, ord ++ oact act) j).
  Proof.
    intros c seen ord act j c'
      (Hlen & Hnd & Hlt & Hcnt & Hpre & w1 & rs & Hseq & Hl1 & Hrt1 & HW1 & HJ1 & Hres & Hact) Hst.
    pose proof (@thread_step_lt _ _ _ _ _ Hst) as Hj.
    apply thread_step_inv in Hst. destruct Hst as (hist & o & k & a & w' & Hh & Hr & He & ->).
    assert (Hp : exists p, nth_error ps j = Some p /\ resume p (rev hist) = Some (Vis o k)).
    { unfold residual in Hr. destruct (nth_error ps j) as [p|]; [|discriminate].
      rewrite Hh in Hr. eauto. }
    destruct Hp as (p & Hp & Hrs).
    assert (Hjh : j < length (fst c)) by (rewrite Hlen; exact Hj).
    assert (Hlen' : forall x : list ans, length (upd_nth j x (fst c)) = length ps).
    { intros. rewrite upd_nth_length. exact Hlen. }
    assert (Hcnt' : forall i h, nth_error (upd_nth j (a :: hist) (fst c)) i = Some h ->
              length h = cnt i (j :: seen)).
    { intros i h Hi. destruct (Nat.eq_dec i j) as [->|Hij].
      - rewrite nth_error_upd_nth_eq in Hi by exact Hjh. inversion Hi; subst. simpl.
        rewrite cnt_cons_eq. f_equal. apply Hcnt. exact Hh.
      - rewrite nth_error_upd_nth_neq in Hi by exact Hij. rewrite cnt_cons_neq by exact Hij.
        apply Hcnt. exact Hi. }
    assert (Hhc : length hist = cnt j seen) by (apply Hcnt; exact Hh).
    assert (Hres' : resume p (rev (a :: hist)) = Some (k a)).
    { simpl. rewrite resume_app, Hrs. simpl. apply resume_nil. }
    unfold noteE. cbn [fst snd]. rewrite <- Hhc.
    (* the world as the threads in their preludes see it *)
    assert (HJc : forall i, i < length ps -> ~ In i ord -> act <> Some i -> J i (fs (snd c))).
    { intros i Hi Hni Hai. destruct act as [i0|].
      - destruct Hact as (Ha0 & Ha1 & p0 & hist0 & m0 & ws & hs & hl & Hp0 & _ & _ & Hsolo & _ & Hsim & _).
        destruct Hsim as [Hf _]. rewrite Hf.
        eapply (Hkeep i0 i); eauto; try (intros ->; apply Hai; reflexivity).
      - destruct Hact as [Hf _]. rewrite Hf. apply HJ1; auto. }
    destruct (in_dec Nat.eq_dec j ord) as [Hjd|Hjd];
      [|assert (Hdec : act = Some j \/ act <> Some j)
          by (destruct act as [i|]; [destruct (Nat.eq_dec i j); [left; congruence | right; congruence]
                                    | right; discriminate]);
        destruct Hdec as [Hja|Hja]].
    - (* (D) j has left its critical section: it gives a private lock back *)
      destruct (Forall2_in_l Hres Hjd) as [r0 (p0 & h0 & hl0 & m & Q1 & Q2 & Q3 & Q4 & Q5 & Q6 & Q7)].
      rewrite Hp in Q1. inversion Q1; subst p0. rewrite Hh in Q2. inversion Q2; subst h0.
      rewrite Hrs in Q3. inversion Q3; subst m. clear Q1 Q2 Q3.
      destruct (Post_inv _ _ _ _ Q4) as (l & hl & -> & -> & Hpost).
      destruct (Q6 l (or_introl eq_refl)) as [Hml Hlin].
      rewrite (release_held j l (snd c) Hlin) in He. inversion He; subst a w'. clear He.
      assert (Hnorel : forall i, i < length ps -> i <> j -> norel i (Release (fst l) (snd l))).
      { intros i Hi Hij cls x E. inversion E; subst. rewrite lock_eta.
        destruct (mine i l) eqn:Em; auto. exfalso. apply Hij. eapply Hdisj; eauto. }
      assert (Hex : exec_op j (Release (fst l) (snd l)) (snd c) =
                    Some (AUnit, set_locks (snd c) (remove1 lock_eqb l (locks (snd c)))))
        by (apply release_held; exact Hlin).
      inversion Q5; subst.
      exists ord, act. split.
      + unfold BInv3. split; [simpl; apply Hlen'|]. split; [exact Hnd|]. split; [exact Hlt|].
        split; [exact Hcnt'|]. split.
        * intros i Hi Hni Hai. assert (Hij : i <> j) by (intros ->; contradiction).
          eapply PreSt_keep; [exact Hij|exact Hex|apply Hnorel; auto|apply Hpre; auto].
        * exists w1, rs. repeat (split; [assumption|]). split.
          { eapply Forall2_mono_in; [exact Hres|]. intros i r Hi Hal.
            destruct (Nat.eq_dec i j) as [->|Hij].
            - destruct Hal as (p0 & h0 & hl0 & m0 & R1 & R2 & R3 & R4 & R5 & R6 & R7).
              rewrite Hp in R1. inversion R1; subst p0. rewrite Hh in R2. inversion R2; subst h0.
              rewrite Hrs in R3. inversion R3; subst m0.
              destruct (Post_inv _ _ _ _ R4) as (l1 & hl1 & -> & E2 & Hpost1).
              apply release_inj in E2. subst l1. inversion R5; subst.
              exists p, (AUnit :: hist), hl1, (k AUnit). simpl.
              rewrite nth_error_upd_nth_eq by exact Hjh.
              split; [exact Hp|]. split; [reflexivity|]. split; [exact Hres'|].
              split; [assumption|]. split; [assumption|]. split; [|lia].
              intros x Hx. destruct (R6 x (or_intror Hx)) as [X1 X2]. split; auto.
              apply In_remove1_neq; auto. intros ->. contradiction.
            - eapply PostSt_keep; [exact Hij|exact Hex|apply Hnorel; auto|exact Hal]. }
          destruct act as [i|].
          { destruct Hact as (Ha0 & Ha1 & p0 & hist0 & m0 & ws & hs & hl0 & Hp0 & Hh0 & Hr0 & Hsolo & Hcs & Hsim & HL & Hnd0 & Hpl & Hhl & Hen).
            assert (Hij : i <> j) by (intros ->; contradiction).
            split; [exact Ha0|]. split; [exact Ha1|]. exists p0, hist0, m0, ws, hs, hl0.
            split; [exact Hp0|]. split; [simpl; rewrite nth_error_upd_nth_neq by exact Hij; exact Hh0|].
            split; [exact Hr0|]. split; [exact Hsolo|]. split; [exact Hcs|].
            split; [apply sim_rel_priv; eauto|]. split; [exact HL|]. split; [exact Hnd0|].
            split; [exact Hpl|]. split; [|exact Hen].
            intros x Hx. destruct (Hhl x Hx) as (X1 & X2 & X3). split; auto. split; auto.
            simpl. apply In_remove1_neq; auto. intros ->. apply Hij. eapply Hdisj; eauto. }
          { apply sim_rel_priv; eauto. }
      + assert (E : Nat.eqb (S (length hist)) (entry j) = false) by (apply Nat.eqb_neq; lia).
        rewrite E. reflexivity.
    - (* (C) j is inside its critical section *)
      subst act.
      destruct Hact as (_ & _ & p0 & hist0 & m & ws & hs & hl & Hp0 & Hh0 & Hr0 & Hsolo & Hcs & Hsim & HL & Hndl & Hpl & Hhl & Hen).
      rewrite Hp in Hp0. inversion Hp0; subst p0. rewrite Hh in Hh0. inversion Hh0; subst hist0.
      rewrite Hrs in Hr0. inversion Hr0; subst m. clear Hp0 Hh0 Hr0.
      assert (E : Nat.eqb (S (length hist)) (entry j) = false) by (apply Nat.eqb_neq; lia).
      rewrite E. clear E.
      destruct (Hhl (pl j) Hpl) as (_ & Hli & Hli').
      simpl in Hcs. destruct Hcs as [(-> & r & Hpost)|[Hq Hk]].
      + (* Release L: the critical section ends *)
        assert (HLc : In L (locks (snd c))).
        { apply memb_lock_In. destruct Hsim as [_ Hf]. rewrite (np_memb priv L _ _ HprivL Hf).
          apply memb_lock_In. exact HL. }
        rewrite (release_held j L (snd c) HLc) in He. inversion He; subst a w'. clear He.
        set (ws1 := set_locks ws (remove1 lock_eqb L (locks ws))).
        pose proof (Solo_snoc Hsolo (release_held j L ws HL)) as Hs1. fold ws1 in Hs1.
        assert (Hin1 : forall l, In l hl -> In l (locks ws1)).
        { intros l Hl. destruct (Hhl l Hl) as (X1 & X2 & _). unfold ws1. simpl.
          apply In_remove1_neq; auto. eapply mine_neq_L; eauto. }
        destruct (post_solo j hl r (k AUnit) Hpost ws1 Hndl Hin1) as [hs2 Hs2].
        pose proof (Solo_app _ _ _ _ _ _ _ _ _ _ Hs1 Hs2) as Hs3.
        pose proof (Solo_run Hs3) as Hrun.
        destruct (seq_total' j p w1 Hp Hl1 Hrt1) as (w2 & r2 & Hrun2 & Hl2 & Hrt2).
        rewrite Hrun in Hrun2. inversion Hrun2; subst w2 r2. clear Hrun2.
        assert (Hsim2 : sim priv (set_locks (snd c) (remove1 lock_eqb L (locks (snd c)))) (relall hl ws1)).
        { apply sim_relall_r; [intros l Hl; destruct (Hhl l Hl) as (X & _); eauto|].
          unfold ws1. apply sim_rel_both; auto. }
        assert (Hex : exec_op j (Release (fst L) (snd L)) (snd c) =
                      Some (AUnit, set_locks (snd c) (remove1 lock_eqb L (locks (snd c)))))
          by (apply release_held; exact HLc).
        assert (Hnorel : forall i, norel i (Release (fst L) (snd L))).
        { intros i cls x E. inversion E; subst. rewrite lock_eta.
          destruct (mine i L) eqn:Em; auto. exfalso. eapply mine_neq_L; eauto. }
        exists (ord ++ [j]), None. split.
        * unfold BInv3. split; [simpl; apply Hlen'|]. split; [apply NoDup_snoc; auto|].
          split; [intros i Hi; apply in_app_or in Hi; destruct Hi as [Hi|[<-|[]]]; auto|].
          split; [exact Hcnt'|]. split.
          { intros i Hi Hni _.
            assert (Hij : i <> j) by (intros ->; apply Hni; apply in_or_app; right; left; reflexivity).
            eapply PreSt_keep; [exact Hij|exact Hex|apply Hnorel|]. apply Hpre; auto; [|congruence].
            intros H; apply Hni; apply in_or_app; left; exact H. }
          exists (relall hl ws1), (rs ++ [r]). split; [eapply seq_runp_snoc; eauto|].
          split; [exact Hl2|]. split; [exact Hrt2|]. split; [eapply HWstep; eauto|].
          split.
          { intros i Hi Hni.
            assert (Hij : j <> i) by (intros ->; apply Hni; apply in_or_app; right; left; reflexivity).
            eapply (Hkeep j i); eauto. apply HJ1; auto.
            intros H; apply Hni; apply in_or_app; left; exact H. }
          split; [|exact Hsim2].
          apply Forall2_app.
          { eapply Forall2_mono_in; [exact Hres|]. intros i r' Hi Hal.
            eapply PostSt_keep; [intros ->; contradiction|exact Hex|apply Hnorel|exact Hal]. }
          constructor; [|constructor].
          exists p, (AUnit :: hist), hl, (k AUnit). simpl.
          rewrite nth_error_upd_nth_eq by exact Hjh.
          split; [exact Hp|]. split; [reflexivity|]. split; [exact Hres'|].
          split; [exact Hpost|]. split; [exact Hndl|]. split; [|lia].
          intros l Hl. destruct (Hhl l Hl) as (X1 & X2 & X3). split; auto.
          apply In_remove1_neq; auto. eapply mine_neq_L; eauto.
        * simpl. rewrite app_nil_r. reflexivity.
      + (* a quiet operation *)
        destruct (sim_step priv j L (pl j) o (snd c) ws a w' Hsim Hli' Hli Hq He) as (ws' & He' & Hsim').
        pose proof (Solo_snoc Hsolo He') as Hsolo'.
        assert (Hnorel : forall l, priv l = true -> forall cls y, o = Release cls y -> (cls, y) <> l).
        { intros l Hl cls y -> E. simpl in Hq. destruct Hq as [Hq _]. rewrite E, Hl in Hq. discriminate. }
        assert (Hnorel' : forall i, norel i o).
        { intros i cls x E. destruct (mine i (cls, x)) eqn:Em; auto. exfalso.
          eapply (Hnorel (cls, x)); eauto. }
        exists ord, (Some j). split.
        * unfold BInv3. split; [simpl; apply Hlen'|]. split; [exact Hnd|]. split; [exact Hlt|].
          split; [exact Hcnt'|]. split.
          { intros i Hi Hni Hai. assert (Hij : i <> j) by congruence.
            eapply PreSt_keep; [exact Hij|exact He|apply Hnorel'|]. apply Hpre; auto. }
          exists w1, rs. repeat (split; [assumption|]). split.
          { eapply Forall2_mono_in; [exact Hres|]. intros i r' Hi Hal.
            eapply PostSt_keep; [intros ->; contradiction|exact He|apply Hnorel'|exact Hal]. }
          split; [exact Hj|]. split; [exact Hjd|].
          exists p, (a :: hist), (k a), ws', (hs ++ [a]), hl. split; [exact Hp|].
          split; [simpl; apply nth_error_upd_nth_eq; exact Hjh|].
          split; [exact Hres'|]. split; [exact Hsolo'|]. split; [apply Hk|]. split; [exact Hsim'|].
          split.
          { eapply exec_keeps_lock; eauto. intros cls y -> E. simpl in Hq. destruct Hq as [_ Hq].
            contradiction. }
          split; [exact Hndl|]. split; [exact Hpl|]. split; [|simpl; lia].
          intros l Hl. destruct (Hhl l Hl) as (X1 & X2 & X3). split; auto. split.
          { eapply exec_keeps_lock; eauto. }
          { simpl. eapply exec_keeps_lock; eauto. }
        * reflexivity.
    - (* (P) j is in its prelude *)
      destruct (Hpre j Hj Hjd Hja) as (p0 & h0 & n & hl & m & Q1 & Q2 & Q3 & Q4 & Q5 & Q6 & Q7 & Q8).
      rewrite Hp in Q1. inversion Q1; subst p0. rewrite Hh in Q2. inversion Q2; subst h0.
      rewrite Hrs in Q3. inversion Q3; subst m. clear Q1 Q2 Q3.
      destruct (Pre_inv _ _ _ _ _ Q4) as [(-> & -> & Hpl & Hcs)|[(n0 & l & -> & -> & Hml & Hnl & Hpre1)|(n0 & m & -> & Hrd & Hdet & Hpre1)]].
      + (* it takes L *)
        assert (E : Nat.eqb (S (length hist)) (entry j) = true) by (apply Nat.eqb_eq; lia).
        rewrite E. clear E.
        destruct (acquire_inv _ _ _ _ _ _ He) as (-> & -> & HnL). rewrite lock_eta in HnL.
        destruct act as [i|].
        { exfalso. destruct Hact as (_ & _ & p' & hist' & m & ws & hs & hl' & _ & _ & _ & _ & _ & Hsim & HL & _).
          apply HnL. apply memb_lock_In. destruct Hsim as [_ Hf]. rewrite (np_memb priv L _ _ HprivL Hf).
          apply memb_lock_In. exact HL. }
        destruct (replay j p hl _ Q5 w1 (HJ1 j Hj Hjd) Hl1) as [hs Hs].
        assert (HnLh : ~ In L hl).
        { intros H. destruct (Q7 L H) as [X _]. eapply mine_neq_L; eauto. }
        assert (Hs' : Solo j p w1 (hs ++ [AUnit]) (set_locks w1 (L :: hl)) (k AUnit)).
        { eapply Solo_snoc; [exact Hs|]. simpl. rewrite lock_eta.
          apply memb_lock_notIn in HnLh. rewrite HnLh. reflexivity. }
        assert (Hnorel : forall i, norel i (Acquire (fst L) (snd L))) by (intros i cls x E; discriminate).
        exists ord, (Some j). split.
        * unfold BInv3. split; [simpl; apply Hlen'|]. split; [exact Hnd|]. split; [exact Hlt|].
          split; [exact Hcnt'|]. split.
          { intros i Hi Hni Hai. assert (Hij : i <> j) by congruence.
            eapply PreSt_keep; [exact Hij|exact He|apply Hnorel|]. apply Hpre; auto; discriminate. }
          exists w1, rs. repeat (split; [assumption|]). split.
          { eapply Forall2_mono_in; [exact Hres|]. intros i r' Hi Hal.
            eapply PostSt_keep; [intros ->; contradiction|exact He|apply Hnorel|exact Hal]. }
          split; [exact Hj|]. split; [exact Hjd|].
          exists p, (AUnit :: hist), (k AUnit), (set_locks w1 (L :: hl)), (hs ++ [AUnit]), hl.
          split; [exact Hp|]. split; [simpl; apply nth_error_upd_nth_eq; exact Hjh|].
          split; [exact Hres'|]. split; [exact Hs'|]. split; [exact Hcs|]. split.
          { destruct Hact as [Hf1 Hf2]. split; simpl; auto. rewrite lock_eta.
            assert (Hn1 : np priv L = true) by (unfold np; rewrite HprivL; reflexivity).
            rewrite Hn1. f_equal. rewrite Hf2, Hl1. simpl.
            clear - Q7 Hmine. induction hl as [|x hl IH]; simpl; auto.
            destruct (Q7 x (or_introl eq_refl)) as [X _]. apply Hmine in X.
            unfold np at 1. rewrite X. simpl. apply IH. intros y Hy. apply Q7. right. exact Hy. }
          split; [left; reflexivity|]. split; [exact Q6|]. split; [exact Hpl|]. split; [|simpl; lia].
          intros l Hl. destruct (Q7 l Hl) as [X1 X2]. split; auto. split; [right; exact Hl|].
          simpl. right. exact X2.
        * simpl. rewrite app_nil_r. reflexivity.
      + (* it takes a private lock *)
        assert (E : Nat.eqb (S (length hist)) (entry j) = false) by (apply Nat.eqb_neq; lia).
        rewrite E. clear E.
        destruct (acquire_inv _ _ _ _ _ _ He) as (-> & -> & HnL). rewrite lock_eta in *.
        assert (Hnorel : forall i, norel i (Acquire (fst l) (snd l))) by (intros i cls x E; discriminate).
        exists ord, act. split.
        * unfold BInv3. split; [simpl; apply Hlen'|]. split; [exact Hnd|]. split; [exact Hlt|].
          split; [exact Hcnt'|]. split.
          { intros i Hi Hni Hai. destruct (Nat.eq_dec i j) as [->|Hij].
            - exists p, (AUnit :: hist), n0, (l :: hl), (k AUnit). simpl.
              rewrite nth_error_upd_nth_eq by exact Hjh.
              split; [exact Hp|]. split; [reflexivity|]. split; [exact Hres'|].
              split; [exact Hpre1|]. split; [apply pt_acq; auto|].
              split; [constructor; auto|]. split; [|lia].
              intros x [<-|Hx]; [split; auto; left; reflexivity|].
              destruct (Q7 x Hx) as [X1 X2]. split; auto. right. exact X2.
            - eapply PreSt_keep; [exact Hij|exact He|apply Hnorel|apply Hpre; auto]. }
          exists w1, rs. repeat (split; [assumption|]). split.
          { eapply Forall2_mono_in; [exact Hres|]. intros i r' Hi Hal.
            eapply PostSt_keep; [intros ->; contradiction|exact He|apply Hnorel|exact Hal]. }
          destruct act as [i|].
          { destruct Hact as (Ha0 & Ha1 & p0 & hist0 & m0 & ws & hs & hl0 & Hp0 & Hh0 & Hr0 & Hsolo & Hcs & Hsim & HL & Hnd0 & Hpl & Hhl & Hen).
            assert (Hij : i <> j) by (intros ->; apply Hja; reflexivity).
            split; [exact Ha0|]. split; [exact Ha1|]. exists p0, hist0, m0, ws, hs, hl0.
            split; [exact Hp0|]. split; [simpl; rewrite nth_error_upd_nth_neq by exact Hij; exact Hh0|].
            split; [exact Hr0|]. split; [exact Hsolo|]. split; [exact Hcs|].
            split; [apply sim_acq_priv; eauto|]. split; [exact HL|]. split; [exact Hnd0|].
            split; [exact Hpl|]. split; [|exact Hen].
            intros x Hx. destruct (Hhl x Hx) as (X1 & X2 & X3). split; auto. split; auto.
            simpl. right. exact X3. }
          { apply sim_acq_priv; eauto. }
        * reflexivity.
      + (* it reads *)
        assert (E : Nat.eqb (S (length hist)) (entry j) = false) by (apply Nat.eqb_neq; lia).
        rewrite E. clear E.
        pose proof (rdop_same _ _ _ _ _ Hrd He) as ->.
        pose proof (Hdet j (snd c) a (snd c) (HJc j Hj Hjd Hja) He) as Ek.
        assert (Hnorel : forall i, norel i o).
        { intros i cls x ->. simpl in Hrd. contradiction. }
        exists ord, act. split.
        * unfold BInv3. split; [simpl; apply Hlen'|]. split; [exact Hnd|]. split; [exact Hlt|].
          split; [exact Hcnt'|]. split.
          { intros i Hi Hni Hai. destruct (Nat.eq_dec i j) as [->|Hij].
            - exists p, (a :: hist), n0, hl, m. simpl.
              rewrite nth_error_upd_nth_eq by exact Hjh.
              split; [exact Hp|]. split; [reflexivity|]. split; [rewrite <- Ek; exact Hres'|].
              split; [exact Hpre1|]. split; [eapply pt_read; eauto|].
              split; [exact Q6|]. split; [exact Q7|lia].
            - eapply PreSt_keep; [exact Hij|exact He|apply Hnorel|apply Hpre; auto]. }
          exists w1, rs. repeat (split; [assumption|]). split.
          { eapply Forall2_mono_in; [exact Hres|]. intros i r' Hi Hal.
            eapply PostSt_keep; [intros ->; contradiction|exact He|apply Hnorel|exact Hal]. }
          destruct act as [i|]; [|exact Hact].
          destruct Hact as (Ha0 & Ha1 & p0 & hist0 & m0 & ws & hs & hl0 & Hp0 & Hh0 & Hr0 & Hrest).
          assert (Hij : i <> j) by (intros ->; apply Hja; reflexivity).
          split; [exact Ha0|]. split; [exact Ha1|]. exists p0, hist0, m0, ws, hs, hl0.
          split; [exact Hp0|]. split; [simpl; rewrite nth_error_upd_nth_neq by exact Hij; exact Hh0|].
          split; [exact Hr0|]. exact Hrest.
        * reflexivity.
  Qed.

  Lemma BInv3_exec : forall sched c seen ord act c',
    BInv3 c seen ord act -> exec ps sched c = Some c' ->
    exists seen' ord' act', BInv3 c' seen' ord' act' /\
      (seen', ord' ++ oact act') = fold_left (noteE entry) sched (seen, ord ++ oact act).
  Proof.
    induction sched as [|j s IH]; intros c seen ord act c' HB He; simpl in He.
    - inversion He; subst. exists seen, ord, act. auto.
    - destruct (thread_step ps c j) as [c1|] eqn:E; [|discriminate].
      destruct (BInv3_step _ _ _ _ _ _ HB E) as (ord1 & act1 & HB1 & E1).
      destruct (IH _ _ _ _ _ HB1 He) as (seen2 & ord2 & act2 & HB2 & E2).
      exists seen2, ord2, act2. split; auto. cbn [fold_left]. rewrite E2. f_equal.
      unfold noteE in *. cbn [fst snd] in *. rewrite E1. reflexivity.
  Qed.

  Theorem prelude_pool : forall sched c,
    exec ps sched (init_cfg ps w0) = Some c -> stuck ps c ->
    finished ps c = true /\ locks (snd c) = [] /\
    exists w' rs,
      let ord := entry_order entry sched in
      NoDup ord /\ (forall i, In i ord <-> i < length ps) /\
      seq_runp A ps ord w0 = Some (w', rs) /\
      snd c = w' /\
      map (thread_result ps c) ord = map Some rs.
  Proof.
    intros sched c He Hst.
    assert (Hfin : finished ps c = true /\ locks (snd c) = [] /\ refs_typed (fs (snd c))).
    { apply stuck_finished; auto. eapply Inv_reachable; eauto.
      eapply exec_reachable; [apply reach_init | exact He]. }
    destruct Hfin as (Hf1 & Hf2 & _). split; [exact Hf1|]. split; [exact Hf2|].
    destruct (BInv3_exec _ _ _ _ _ _ BInv3_init He) as (seen & ord & act & HB & Eord). simpl in Eord.
    assert (Eo : entry_order entry sched = ord ++ oact act).
    { unfold entry_order. rewrite <- Eord. reflexivity. }
    destruct HB as (Hlen & Hnd & Hlt & Hcnt & Hpre & w1 & rs & Hseq & Hl1 & Hrt1 & HW1 & HJ1 & Hres & Hact).
    assert (Hsome : forall i, i < length ps -> exists r, thread_result ps c i = Some r).
    { intros i Hi. unfold finished in Hf1. rewrite forallb_forall in Hf1.
      assert (Hin : In (thread_result ps c i) (results ps c)).
      { unfold results. apply in_map. apply in_seq. lia. }
      specialize (Hf1 _ Hin).
      destruct (thread_result ps c i) as [r|]; [eauto | discriminate]. }
    destruct act as [i|].
    { exfalso. destruct Hact as (Hi & _ & p & hist & m & ws & hs & hl & Hp & Hh & Hr & _ & Hcs & _).
      destruct (Hsome i Hi) as [r Hr']. unfold thread_result in Hr'. rewrite Hp, Hh, Hr in Hr'.
      destruct m; try discriminate. contradiction. }
    simpl in Eo. rewrite app_nil_r in Eo.
    assert (Hall : forall i, i < length ps -> In i ord).
    { intros i Hi. destruct (in_dec Nat.eq_dec i ord) as [H|H]; auto. exfalso.
      destruct (Hpre i Hi H) as (p & h & n & hl & m & Q1 & Q2 & Q3 & Q4 & _); [discriminate|].
      destruct (Hsome i Hi) as [r Hr']. unfold thread_result in Hr'. rewrite Q1, Q2, Q3 in Hr'.
      inversion Q4; subst; discriminate. }
    exists w1, rs. cbv zeta. rewrite Eo. split; [exact Hnd|]. split; [|split; [exact Hseq|split]].
    - intros i. split; auto.
    - apply (sim_nolocks priv); auto.
    - eapply Forall2_map_some; [exact Hres|]. intros i r Hi (p & h & hl & m & Q1 & Q2 & Q3 & Q4 & _).
      destruct (Hsome i (Hlt i Hi)) as [r' Hr']. unfold thread_result in *. rewrite Q1, Q2, Q3 in *.
      inversion Q4; subst; [reflexivity | discriminate].
  Qed.
End PreludePool.

(* ====================================================================================== *)
(* §3  the hypotheses of [prelude_pool] are satisfiable by API programs: the taggers of    *)
(*     one cid (OneCid.v) are the instance with a prelude of one private acquisition       *)
(* ====================================================================================== *)

Lemma CS2_CS3 : forall A priv L (pl : nat -> lock) i (m : prog A),
  CS2 A priv L (pl i) m -> CS3 A L priv pl i [pl i] m.
Proof.
  intros A priv L pl i. induction m as [r|o k IH|]; simpl; auto.
  intros [(-> & k' & r & E1 & E2)|[Hq Hk]].
  - left. split; [reflexivity|]. exists r. rewrite E1. apply post_rel. rewrite E2. apply post_nil.
  - right. split; auto.
Qed.

(* pools of tag_object calls with pairwise distinct pids on one cid, through [prelude_pool]: the
   order is that of the threads' second steps *)
Theorem one_cid_taggers_by_prelude :
  forall (c : cid) (pids : list pid) (w0 : world) (sched : list nat) (cf : cfg),
    let calls := map (fun p => CTag p c) pids in
    locks w0 = [] -> refs_typed (fs w0) -> NoDup pids ->
    exec (map api calls) sched (init_cfg (map api calls) w0) = Some cf ->
    stuck (map api calls) cf ->
    finished (map api calls) cf = true /\ locks (snd cf) = [] /\
    exists (w' : world) (rs : list (outcome value)),
      let ord := entry_order (fun _ => 2) sched in
      NoDup ord /\ (forall i, In i ord <-> i < length pids) /\
      seq_run calls ord w0 = Some (w', rs) /\
      snd cf = w' /\
      map (thread_result (map api calls) cf) ord = map Some rs.
Proof.
  intros c pids w0 sched cf calls Hl Hrt Hnd He Hst.
  set (pl := fun i => pid_lock (nth i pids 0)).
  set (mine := fun i l => lock_eqb l (pl i)).
  assert (Hlen : length (map api calls) = length pids).
  { unfold calls. rewrite !map_length. reflexivity. }
  assert (Hnth : forall i q, nth_error (map api calls) i = Some q ->
            i < length pids /\ q = api (CTag (nth i pids 0) c)).
  { intros i q Hq. unfold calls in Hq. rewrite !nth_error_map in Hq.
    destruct (nth_error pids i) as [p|] eqn:E; [|discriminate]. inversion Hq; subst q.
    split; [apply nth_error_Some; congruence|].
    pose proof (nth_error_nth _ _ 0 E) as En. subst p. reflexivity. }
  destruct (prelude_pool (outcome value) (map api calls) (cid_lock c) ref_priv mine pl (fun _ => 2)
              (fun _ _ => True) (fun _ => True) w0) with (sched := sched) (c := cf)
    as (H1 & H2 & w' & rs & H3); auto.
  - intros i q Hq. destruct (Hnth i q Hq) as [Hi ->]. exists 1. split; [|reflexivity].
    destruct (writer2_tag (nth i pids 0) c) as (k1 & k2 & Ep & Ek & Hcs).
    rewrite Ep. change (Acquire (fst (pid_lock (nth i pids 0))) (snd (pid_lock (nth i pids 0))))
      with (Acquire (fst (pl i)) (snd (pl i))).
    apply pre_acq; [unfold mine; apply lock_eqb_refl|intros []|].
    rewrite Ek. apply pre_enter; [left; reflexivity|]. apply CS2_CS3. exact Hcs.
  - intros i l H. unfold mine in H. apply lock_eqb_true in H. subst l. reflexivity.
  - intros i j l Hi Hj H1 H2. unfold mine in *. apply lock_eqb_true in H1, H2. subst l.
    unfold pl, pid_lock in H2. inversion H2 as [E].
    assert (Hi' : i < length pids) by (rewrite <- Hlen; exact Hi).
    assert (Hj' : j < length pids) by (rewrite <- Hlen; exact Hj).
    apply (proj1 (NoDup_nth pids 0) Hnd); auto.
  - apply api_pool_ok.
  - split; [exact H1|]. split; [exact H2|]. exists w', rs.
    cbv zeta in *. destruct H3 as (N1 & N2 & N3 & N4 & N5).
    assert (N2' : forall i, In i (entry_order (fun _ => 2) sched) <-> i < length pids).
    { intros i. rewrite <- Hlen. apply N2. }
    split; [exact N1|]. split; [exact N2'|].
    split; [|split; [exact N4 | exact N5]].
    rewrite <- seq_runp_seq_run; [exact N3|]. intros i Hi. apply N2' in Hi.
    unfold calls. rewrite map_length. exact Hi.
Qed.
