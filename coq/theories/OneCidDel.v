(* OneCidDel.v — property C07 beyond the menus, second step: pools of calls that reach ONE shared
   lock after a PRELUDE of private acquisitions and of READS outside the shared lock (OneCid.v: the
   shared lock is the second operation of every call).

   delete_object q (Ops.delete_object) takes the object-pid lock and the reference-pid lock of q,
   then runs find_object q — seven reads, two of them of the SHARED cid list and two of the shared
   object — and only then takes the cid lock of the cid it found; everything it writes lies between
   that and the release of the cid lock (delete_metadata included), after which it gives its two
   pid locks back.  What it read outside the lock decides which branch it takes.

     §1  [prelude_pool]: the pool theorem.  Thread i runs  prelude ; Acquire L ; critical section ;
         Release L ; releases of its private locks ; return.  The prelude consists of acquisitions
         of private locks and of reads whose CONTINUATION is the same for every answer that a
         world satisfying the thread's stability predicate [J i] can give ([det]).  If every solo
         run of another thread keeps [J i] in every intermediate world ([Hkeep]), every schedule
         that [Sched.exec] accepts and that is complete ends in the world of the sequential run in
         the order in which the threads took L, with the same results.
     §2  the order: [entry_order entry sched] — thread j enters the order at its [entry j]-th step
     §3  the hypotheses are satisfiable by API programs: the taggers of one cid, one-step prelude
     §4  shape rules: [Pre] / [CS3] / [Post] with the part after Release L left open ([Preg],
         [CSg]) and read-only prefixes ([RD]) compose through [bind] — no associativity of bind
         (it would need functional extensionality)
     §5  delete_object q has the shape ([pre_delete]): under J = "q is bound to c" (reference,
         membership in the cid list, object present) the seven reads of find_object have one
         continuation each, the cid lock is the 10th step, and everything up to its release is
         quiet.  The decision "last reference: remove the list and the object" is taken from
         size_lines read INSIDE the lock.
     §6  [one_cid_taggers_deleters_linearizable]: pools of tag_object p_i c and delete_object q_j,
         pids pairwise distinct, every q_j bound to c in a start world satisfying Spec.Inv.  The
         stability of "q_j bound to c" under the solo run of another call, by any thread, is
         CrashGeneralT.solo_call_keeps_other (CrashGeneral.v's frame for thread t, relative to the
         pids one cares about); the invariant between complete runs is "well typed" only.
         [one_cid_deleters_linearizable]: the deleters alone. *)
From HS Require Import Base PyVal FS Ops Sched Spec SeqLemmas Bracket SchedCV Mutex Indep IndepMeta OneDoc OneCid.

(* ====================================================================================== *)
(* §0  small facts                                                                         *)
(* ====================================================================================== *)

(* reads: never block, never change the world *)
Definition rdop (o : op) : Prop :=
  match o with Probe _ | Read _ | SizeLines _ => True | _ => False end.

Lemma rdop_exec : forall t o w, rdop o -> exists a, exec_op t o w = Some (a, w).
Proof.
  intros t o w H. destruct o; simpl in H; try contradiction; simpl.
  - eauto.
  - destruct (lookup a (fs w)) as [[]|]; eauto.
  - destruct (lookup a (fs w)); eauto.
Qed.

Lemma rdop_same : forall t o w a w', rdop o -> exec_op t o w = Some (a, w') -> w' = w.
Proof.
  intros t o w a w' H He. destruct (rdop_exec t o w H) as [a' E]. rewrite E in He. congruence.
Qed.

Lemma Solo_app : forall A t (m : prog A) w hs w1 m1 hs2 w2 m2,
  Solo t m w hs w1 m1 -> Solo t m1 w1 hs2 w2 m2 -> Solo t m w (hs ++ hs2) w2 m2.
Proof.
  intros A t m w hs w1 m1 hs2 w2 m2 H. induction H; intros H2; simpl; auto.
  eapply solo_cons; eauto.
Qed.

(* give back the locks of hl, first to last *)
Fixpoint relall (hl : list lock) (w : world) : world :=
  match hl with
  | [] => w
  | l :: hl' => relall hl' (set_locks w (remove1 lock_eqb l (locks w)))
  end.

Lemma relall_fs : forall hl w, fs (relall hl w) = fs w.
Proof. induction hl as [|l hl IH]; intros w; simpl; auto. rewrite IH. reflexivity. Qed.

Lemma sim_relall_r : forall priv hl w ws, (forall l, In l hl -> priv l = true) ->
  sim priv w ws -> sim priv w (relall hl ws).
Proof.
  induction hl as [|l hl IH]; intros w ws Hp Hs; simpl; auto.
  apply IH; [intros x Hx; apply Hp; right; exact Hx|].
  apply sim_rel_priv_r; auto. apply Hp. left. reflexivity.
Qed.

Definition cnt (j : nat) (l : list nat) : nat := length (filter (Nat.eqb j) l).

(* (the schedule so far, most recent first; the order so far): thread j joins the order with its
   [entry j]-th step *)
Definition noteE (entry : nat -> nat) (s : list nat * list nat) (j : nat) : list nat * list nat :=
  (j :: fst s, if Nat.eqb (S (cnt j (fst s))) (entry j) then snd s ++ [j] else snd s).

Definition entry_order (entry : nat -> nat) (sched : list nat) : list nat :=
  snd (fold_left (noteE entry) sched ([], [])).

(* ====================================================================================== *)
(* §1  the pool theorem                                                                    *)
(* ====================================================================================== *)

Section PreludePool.
  Variable A : Type.
  Variable ps : list (prog A).
  Variable L : lock.                        (* the shared lock *)
  Variable priv : lock -> bool.
  Variable mine : nat -> lock -> bool.      (* thread i's private locks *)
  Variable pl : nat -> lock.                (* the one it may test inside the critical section *)
  Variable entry : nat -> nat.              (* the number of the step with which thread i takes L *)
  Variable J : nat -> fmap -> Prop.         (* what thread i's prelude reads rely on *)
  Variable WInv : world -> Prop.            (* an invariant of the worlds between complete runs *)
  Variable w0 : world.

  (* the continuation after the read o does not depend on the answer, in worlds satisfying J i *)
  Definition det (i : nat) (o : op) (k : ans -> prog A) (m : prog A) : Prop :=
    forall t w a w', J i (fs w) -> exec_op t o w = Some (a, w') -> k a = m.

  (* after Release L: give the private locks back, return r *)
  Inductive Post : list lock -> A -> prog A -> Prop :=
  | post_nil : forall r, Post [] r (Ret r)
  | post_rel : forall l hl r k, Post hl r (k AUnit) -> Post (l :: hl) r (Vis (Release (fst l) (snd l)) k).

  (* inside the critical section, holding the private locks hl *)
  Fixpoint CS3 (i : nat) (hl : list lock) (m : prog A) : Prop :=
    match m with
    | Ret _ => False
    | Bad => True
    | Vis o k =>
        (o = Release (fst L) (snd L) /\ exists r, Post hl r (k AUnit)) \/
        (quiet priv L (pl i) o /\ forall a, CS3 i hl (k a))
    end.

  (* n steps before the acquisition of L, holding hl *)
  Inductive Pre (i : nat) : nat -> list lock -> prog A -> Prop :=
  | pre_enter : forall hl k, In (pl i) hl -> CS3 i hl (k AUnit) ->
      Pre i 0 hl (Vis (Acquire (fst L) (snd L)) k)
  | pre_acq : forall n hl l k, mine i l = true -> ~ In l hl -> Pre i n (l :: hl) (k AUnit) ->
      Pre i (S n) hl (Vis (Acquire (fst l) (snd l)) k)
  | pre_read : forall n hl o k m, rdop o -> det i o k m -> Pre i n hl m ->
      Pre i (S n) hl (Vis o k).

  (* m, holding hl, is where the prelude of p has got to *)
  Inductive PreTo (i : nat) (p : prog A) : list lock -> prog A -> Prop :=
  | pt_start : PreTo i p [] p
  | pt_acq : forall hl l k, PreTo i p hl (Vis (Acquire (fst l) (snd l)) k) -> ~ In l hl ->
      PreTo i p (l :: hl) (k AUnit)
  | pt_read : forall hl o k m, PreTo i p hl (Vis o k) -> rdop o -> det i o k m -> PreTo i p hl m.

  Lemma Post_inv : forall hl r o k, Post hl r (Vis o k) ->
    exists l hl', hl = l :: hl' /\ o = Release (fst l) (snd l) /\ Post hl' r (k AUnit).
  Proof. intros hl r o k H. inversion H; subst. eauto. Qed.

  Lemma Pre_inv : forall i n hl o k, Pre i n hl (Vis o k) ->
    (n = 0 /\ o = Acquire (fst L) (snd L) /\ In (pl i) hl /\ CS3 i hl (k AUnit)) \/
    (exists n' l, n = S n' /\ o = Acquire (fst l) (snd l) /\ mine i l = true /\ ~ In l hl /\
                  Pre i n' (l :: hl) (k AUnit)) \/
    (exists n' m, n = S n' /\ rdop o /\ det i o k m /\ Pre i n' hl m).
  Proof.
    intros i n hl o k H. inversion H; subst.
    - left. auto.
    - right. left. eauto 10.
    - right. right. eauto 10.
  Qed.

  Lemma release_inj : forall l l' : lock, Release (fst l) (snd l) = Release (fst l') (snd l') -> l = l'.
  Proof. intros [a b] [a' b'] H. simpl in H. inversion H. reflexivity. Qed.

  Hypothesis Hshape : forall i p, nth_error ps i = Some p -> exists n, Pre i n [] p /\ S n = entry i.
  Hypothesis HprivL : priv L = false.
  Hypothesis Hmine : forall i l, mine i l = true -> priv l = true.
  Hypothesis Hdisj : forall i j l, i < length ps -> j < length ps ->
    mine i l = true -> mine j l = true -> i = j.
  Hypothesis Hok : pool_ok ps.
  Hypothesis Hl0 : locks w0 = [].
  Hypothesis Hrt0 : refs_typed (fs w0).
  Hypothesis HW0 : WInv w0.
  Hypothesis HJ0 : forall i, i < length ps -> J i (fs w0).
  Hypothesis HWstep : forall i p w w' r, nth_error ps i = Some p -> WInv w -> locks w = [] ->
    run_as i w p = Some (w', r) -> WInv w'.
  (* every solo run of thread i keeps what thread j relies on, in every intermediate world *)
  Hypothesis Hkeep : forall i j p w hs ws m, i <> j -> nth_error ps i = Some p -> j < length ps ->
    WInv w -> locks w = [] -> J i (fs w) -> J j (fs w) -> Solo i p w hs ws m -> J j (fs ws).

  Lemma mine_neq_L : forall i l, mine i l = true -> l <> L.
  Proof. intros i l H E. apply Hmine in H. rewrite E, HprivL in H. discriminate. Qed.

  Lemma seq_total' : forall i p w, nth_error ps i = Some p -> locks w = [] -> refs_typed (fs w) ->
    exists w' r, run_as i w p = Some (w', r) /\ locks w' = [] /\ refs_typed (fs w').
  Proof.
    intros i p w Hp Hl Hrt. eapply run_as_total with (h := []) (kn := []).
    - apply (Hok i p Hp).
    - exact Hrt.
    - apply KInv_nil.
    - apply LInv_empty. exact Hl.
  Qed.

  (* replaying a prelude from a world that satisfies J i and holds no lock *)
  Lemma replay : forall i p hl m, PreTo i p hl m -> forall w, J i (fs w) -> locks w = [] ->
    exists hs, Solo i p w hs (set_locks w hl) m.
  Proof.
    intros i p hl m H. induction H; intros w HJ Hl.
    - exists []. destruct w as [f k0]. simpl in Hl. subst k0. apply solo_nil.
    - destruct (IHPreTo w HJ Hl) as [hs Hs]. exists (hs ++ [AUnit]).
      eapply Solo_snoc; [exact Hs|]. simpl. rewrite lock_eta.
      apply memb_lock_notIn in H0. rewrite H0. reflexivity.
    - destruct (IHPreTo w HJ Hl) as [hs Hs].
      destruct (rdop_exec i o (set_locks w hl) H0) as [a Ea].
      exists (hs ++ [a]). rewrite <- (H1 i (set_locks w hl) a _ HJ Ea).
      eapply Solo_snoc; eauto.
  Qed.

  Lemma post_solo : forall t hl r m, Post hl r m -> forall w, NoDup hl ->
    (forall l, In l hl -> In l (locks w)) ->
    exists hs, Solo t m w hs (relall hl w) (Ret r).
  Proof.
    intros t hl r m H. induction H; intros w Hnd Hin.
    - exists []. apply solo_nil.
    - inversion Hnd; subst.
      destruct (IHPost (set_locks w (remove1 lock_eqb l (locks w)))) as [hs Hs]; auto.
      { intros x Hx. simpl. apply In_remove1_neq; [apply Hin; right; exact Hx|].
        intros ->. contradiction. }
      exists (AUnit :: hs). eapply solo_cons; [|exact Hs].
      apply release_held. apply Hin. left. reflexivity.
  Qed.

  (* thread i holds the locks hl, all its own *)
  Definition Holds (w : world) (i : nat) (hl : list lock) : Prop :=
    forall l, In l hl -> mine i l = true /\ In l (locks w).

  (* the step releases no lock of thread i *)
  Definition norel (i : nat) (o : op) : Prop :=
    forall cls x, o = Release cls x -> mine i (cls, x) = false.

  Lemma Holds_keep : forall t o w a w' i hl,
    exec_op t o w = Some (a, w') -> norel i o -> Holds w i hl -> Holds w' i hl.
  Proof.
    intros t o w a w' i hl He Hn Hh l Hl. destruct (Hh l Hl) as [H1 H2]. split; auto.
    eapply exec_keeps_lock; eauto. intros cls x E E'. specialize (Hn cls x E).
    rewrite E' in Hn. congruence.
  Qed.

  (* thread i is in its prelude *)
  Definition PreSt (c : cfg) (i : nat) : Prop :=
    exists p h n hl m,
      nth_error ps i = Some p /\ nth_error (fst c) i = Some h /\ resume p (rev h) = Some m /\
      Pre i n hl m /\ PreTo i p hl m /\ NoDup hl /\ Holds (snd c) i hl /\ length h + S n = entry i.

  (* thread i has left the critical section with result r *)
  Definition PostSt (c : cfg) (i : nat) (r : A) : Prop :=
    exists p h hl m,
      nth_error ps i = Some p /\ nth_error (fst c) i = Some h /\ resume p (rev h) = Some m /\
      Post hl r m /\ NoDup hl /\ Holds (snd c) i hl /\ entry i <= length h.

  Lemma PreSt_keep : forall c j x o a w' i, i <> j ->
    exec_op j o (snd c) = Some (a, w') -> norel i o -> PreSt c i -> PreSt (upd_nth j x (fst c), w') i.
  Proof.
    intros c j x o a w' i Hne He Hn (p & h & n & hl & m & H1 & H2 & H3 & H4 & H5 & H6 & H7 & H8).
    exists p, h, n, hl, m. simpl. rewrite nth_error_upd_nth_neq by exact Hne.
    split; [exact H1|]. split; [exact H2|]. split; [exact H3|]. split; [exact H4|].
    split; [exact H5|]. split; [exact H6|]. split; [|exact H8]. eapply Holds_keep; eauto.
  Qed.

  Lemma PostSt_keep : forall c j x o a w' i r, i <> j ->
    exec_op j o (snd c) = Some (a, w') -> norel i o -> PostSt c i r -> PostSt (upd_nth j x (fst c), w') i r.
  Proof.
    intros c j x o a w' i r Hne He Hn (p & h & hl & m & H1 & H2 & H3 & H4 & H5 & H6 & H7).
    exists p, h, hl, m. simpl. rewrite nth_error_upd_nth_neq by exact Hne.
    split; [exact H1|]. split; [exact H2|]. split; [exact H3|]. split; [exact H4|].
    split; [exact H5|]. split; [|exact H7]. eapply Holds_keep; eauto.
  Qed.

  Definition BInv3 (c : cfg) (seen ord : list nat) (act : option nat) : Prop :=
    length (fst c) = length ps /\
    NoDup ord /\
    (forall i, In i ord -> i < length ps) /\
    (forall i h, nth_error (fst c) i = Some h -> length h = cnt i seen) /\
    (forall i, i < length ps -> ~ In i ord -> act <> Some i -> PreSt c i) /\
    exists w1 rs,
      seq_runp A ps ord w0 = Some (w1, rs) /\ locks w1 = [] /\ refs_typed (fs w1) /\ WInv w1 /\
      (forall j, j < length ps -> ~ In j ord -> J j (fs w1)) /\
      Forall2 (PostSt c) ord rs /\
      match act with
      | None => sim priv (snd c) w1
      | Some i =>
          i < length ps /\ ~ In i ord /\
          exists p hist m ws hs hl,
            nth_error ps i = Some p /\ nth_error (fst c) i = Some hist /\
            resume p (rev hist) = Some m /\
            Solo i p w1 hs ws m /\ CS3 i hl m /\
            sim priv (snd c) ws /\ In L (locks ws) /\ NoDup hl /\ In (pl i) hl /\
            (forall l, In l hl -> mine i l = true /\ In l (locks ws) /\ In l (locks (snd c))) /\
            entry i <= length hist
      end.

  Lemma BInv3_init : BInv3 (init_cfg ps w0) [] [] None.
  Proof.
    unfold BInv3, init_cfg. simpl. split; [apply map_length|]. split; [constructor|].
    split; [intros i []|]. split; [|split].
    - intros i h Hh. rewrite nth_error_map in Hh.
      destruct (nth_error ps i); inversion Hh. reflexivity.
    - intros i Hi _ _. destruct (nth_error ps i) as [p|] eqn:Ep; [|apply nth_error_None in Ep; lia].
      destruct (Hshape i p Ep) as (n & Hpre & Hn).
      exists p, [], n, [], p. simpl. rewrite nth_error_map, Ep. simpl.
      split; [reflexivity|]. split; [reflexivity|]. split; [apply resume_nil|]. split; [exact Hpre|].
      split; [constructor|]. split; [constructor|]. split; [intros l []|lia].
    - exists w0, []. split; [reflexivity|]. split; [exact Hl0|]. split; [exact Hrt0|].
      split; [exact HW0|]. split; [intros j Hj _; apply HJ0; exact Hj|]. split; [constructor|].
      split; reflexivity.
  Qed.

  Lemma cnt_cons_eq : forall j l, cnt j (j :: l) = S (cnt j l).
  Proof. intros. unfold cnt. simpl. rewrite Nat.eqb_refl. reflexivity. Qed.
  Lemma cnt_cons_neq : forall i j l, i <> j -> cnt i (j :: l) = cnt i l.
  Proof.
    intros. unfold cnt. simpl. destruct (Nat.eqb i j) eqn:E; [apply Nat.eqb_eq in E; contradiction|].
    reflexivity.
  Qed.

  Lemma BInv3_step : forall c seen ord act j c',
    BInv3 c seen ord act -> thread_step ps c j = Some c' ->
    exists ord' act', BInv3 c' (j :: seen) ord' act' /\
      ord' ++ oact act' = snd (noteE entry (seen, ord ++ oact act) j).
  Proof.
    intros c seen ord act j c'
      (Hlen & Hnd & Hlt & Hcnt & Hpre & w1 & rs & Hseq & Hl1 & Hrt1 & HW1 & HJ1 & Hres & Hact) Hst.
    pose proof (@thread_step_lt _ _ _ _ _ Hst) as Hj.
    apply thread_step_inv in Hst. destruct Hst as (hist & o & k & a & w' & Hh & Hr & He & ->).
    assert (Hp : exists p, nth_error ps j = Some p /\ resume p (rev hist) = Some (Vis o k)).
    { unfold residual in Hr. destruct (nth_error ps j) as [p|]; [|discriminate].
      rewrite Hh in Hr. eauto. }
    destruct Hp as (p & Hp & Hrs).
    assert (Hjh : j < length (fst c)) by (rewrite Hlen; exact Hj).
    assert (Hlen' : forall x : list ans, length (upd_nth j x (fst c)) = length ps).
    { intros. rewrite upd_nth_length. exact Hlen. }
    assert (Hcnt' : forall i h, nth_error (upd_nth j (a :: hist) (fst c)) i = Some h ->
              length h = cnt i (j :: seen)).
    { intros i h Hi. destruct (Nat.eq_dec i j) as [->|Hij].
      - rewrite nth_error_upd_nth_eq in Hi by exact Hjh. inversion Hi; subst. simpl.
        rewrite cnt_cons_eq. f_equal. apply Hcnt. exact Hh.
      - rewrite nth_error_upd_nth_neq in Hi by exact Hij. rewrite cnt_cons_neq by exact Hij.
        apply Hcnt. exact Hi. }
    assert (Hhc : length hist = cnt j seen) by (apply Hcnt; exact Hh).
    assert (Hres' : resume p (rev (a :: hist)) = Some (k a)).
    { simpl. rewrite resume_app, Hrs. simpl. apply resume_nil. }
    unfold noteE. cbn [fst snd]. rewrite <- Hhc.
    (* the world as the threads in their preludes see it *)
    assert (HJc : forall i, i < length ps -> ~ In i ord -> act <> Some i -> J i (fs (snd c))).
    { intros i Hi Hni Hai. destruct act as [i0|].
      - destruct Hact as (Ha0 & Ha1 & p0 & hist0 & m0 & ws & hs & hl & Hp0 & _ & _ & Hsolo & _ & Hsim & _).
        destruct Hsim as [Hf _]. rewrite Hf.
        eapply (Hkeep i0 i); eauto; try (intros ->; apply Hai; reflexivity).
      - destruct Hact as [Hf _]. rewrite Hf. apply HJ1; auto. }
    destruct (in_dec Nat.eq_dec j ord) as [Hjd|Hjd];
      [|assert (Hdec : act = Some j \/ act <> Some j)
          by (destruct act as [i|]; [destruct (Nat.eq_dec i j); [left; congruence | right; congruence]
                                    | right; discriminate]);
        destruct Hdec as [Hja|Hja]].
    - (* (D) j has left its critical section: it gives a private lock back *)
      destruct (Forall2_in_l Hres Hjd) as [r0 (p0 & h0 & hl0 & m & Q1 & Q2 & Q3 & Q4 & Q5 & Q6 & Q7)].
      rewrite Hp in Q1. inversion Q1; subst p0. rewrite Hh in Q2. inversion Q2; subst h0.
      rewrite Hrs in Q3. inversion Q3; subst m. clear Q1 Q2 Q3.
      destruct (Post_inv _ _ _ _ Q4) as (l & hl & -> & -> & Hpost).
      destruct (Q6 l (or_introl eq_refl)) as [Hml Hlin].
      rewrite (release_held j l (snd c) Hlin) in He. inversion He; subst a w'. clear He.
      assert (Hnorel : forall i, i < length ps -> i <> j -> norel i (Release (fst l) (snd l))).
      { intros i Hi Hij cls x E. inversion E; subst. rewrite lock_eta.
        destruct (mine i l) eqn:Em; auto. exfalso. apply Hij. eapply Hdisj; eauto. }
      assert (Hex : exec_op j (Release (fst l) (snd l)) (snd c) =
                    Some (AUnit, set_locks (snd c) (remove1 lock_eqb l (locks (snd c)))))
        by (apply release_held; exact Hlin).
      inversion Q5; subst.
      exists ord, act. split.
      + unfold BInv3. split; [simpl; apply Hlen'|]. split; [exact Hnd|]. split; [exact Hlt|].
        split; [exact Hcnt'|]. split.
        * intros i Hi Hni Hai. assert (Hij : i <> j) by (intros ->; contradiction).
          eapply PreSt_keep; [exact Hij|exact Hex|apply Hnorel; auto|apply Hpre; auto].
        * exists w1, rs. repeat (split; [assumption|]). split.
          { eapply Forall2_mono_in; [exact Hres|]. intros i r Hi Hal.
            destruct (Nat.eq_dec i j) as [->|Hij].
            - destruct Hal as (p0 & h0 & hl0 & m0 & R1 & R2 & R3 & R4 & R5 & R6 & R7).
              rewrite Hp in R1. inversion R1; subst p0. rewrite Hh in R2. inversion R2; subst h0.
              rewrite Hrs in R3. inversion R3; subst m0.
              destruct (Post_inv _ _ _ _ R4) as (l1 & hl1 & -> & E2 & Hpost1).
              apply release_inj in E2. subst l1. inversion R5; subst.
              exists p, (AUnit :: hist), hl1, (k AUnit). simpl.
              rewrite nth_error_upd_nth_eq by exact Hjh.
              split; [exact Hp|]. split; [reflexivity|]. split; [exact Hres'|].
              split; [assumption|]. split; [assumption|]. split; [|lia].
              intros x Hx. destruct (R6 x (or_intror Hx)) as [X1 X2]. split; auto.
              apply In_remove1_neq; auto. intros ->. contradiction.
            - eapply PostSt_keep; [exact Hij|exact Hex|apply Hnorel; auto|exact Hal]. }
          destruct act as [i|].
          { destruct Hact as (Ha0 & Ha1 & p0 & hist0 & m0 & ws & hs & hl0 & Hp0 & Hh0 & Hr0 & Hsolo & Hcs & Hsim & HL & Hnd0 & Hpl & Hhl & Hen).
            assert (Hij : i <> j) by (intros ->; contradiction).
            split; [exact Ha0|]. split; [exact Ha1|]. exists p0, hist0, m0, ws, hs, hl0.
            split; [exact Hp0|]. split; [simpl; rewrite nth_error_upd_nth_neq by exact Hij; exact Hh0|].
            split; [exact Hr0|]. split; [exact Hsolo|]. split; [exact Hcs|].
            split; [apply sim_rel_priv; eauto|]. split; [exact HL|]. split; [exact Hnd0|].
            split; [exact Hpl|]. split; [|exact Hen].
            intros x Hx. destruct (Hhl x Hx) as (X1 & X2 & X3). split; auto. split; auto.
            simpl. apply In_remove1_neq; auto. intros ->. apply Hij. eapply Hdisj; eauto. }
          { apply sim_rel_priv; eauto. }
      + assert (E : Nat.eqb (S (length hist)) (entry j) = false) by (apply Nat.eqb_neq; lia).
        rewrite E. reflexivity.
    - (* (C) j is inside its critical section *)
      subst act.
      destruct Hact as (_ & _ & p0 & hist0 & m & ws & hs & hl & Hp0 & Hh0 & Hr0 & Hsolo & Hcs & Hsim & HL & Hndl & Hpl & Hhl & Hen).
      rewrite Hp in Hp0. inversion Hp0; subst p0. rewrite Hh in Hh0. inversion Hh0; subst hist0.
      rewrite Hrs in Hr0. inversion Hr0; subst m. clear Hp0 Hh0 Hr0.
      assert (E : Nat.eqb (S (length hist)) (entry j) = false) by (apply Nat.eqb_neq; lia).
      rewrite E. clear E.
      destruct (Hhl (pl j) Hpl) as (_ & Hli & Hli').
      simpl in Hcs. destruct Hcs as [(-> & r & Hpost)|[Hq Hk]].
      + (* Release L: the critical section ends *)
        assert (HLc : In L (locks (snd c))).
        { apply memb_lock_In. destruct Hsim as [_ Hf]. rewrite (np_memb priv L _ _ HprivL Hf).
          apply memb_lock_In. exact HL. }
        rewrite (release_held j L (snd c) HLc) in He. inversion He; subst a w'. clear He.
        set (ws1 := set_locks ws (remove1 lock_eqb L (locks ws))).
        pose proof (Solo_snoc Hsolo (release_held j L ws HL)) as Hs1. fold ws1 in Hs1.
        assert (Hin1 : forall l, In l hl -> In l (locks ws1)).
        { intros l Hl. destruct (Hhl l Hl) as (X1 & X2 & _). unfold ws1. simpl.
          apply In_remove1_neq; auto. eapply mine_neq_L; eauto. }
        destruct (post_solo j hl r (k AUnit) Hpost ws1 Hndl Hin1) as [hs2 Hs2].
        pose proof (Solo_app _ _ _ _ _ _ _ _ _ _ Hs1 Hs2) as Hs3.
        pose proof (Solo_run Hs3) as Hrun.
        destruct (seq_total' j p w1 Hp Hl1 Hrt1) as (w2 & r2 & Hrun2 & Hl2 & Hrt2).
        rewrite Hrun in Hrun2. inversion Hrun2; subst w2 r2. clear Hrun2.
        assert (Hsim2 : sim priv (set_locks (snd c) (remove1 lock_eqb L (locks (snd c)))) (relall hl ws1)).
        { apply sim_relall_r; [intros l Hl; destruct (Hhl l Hl) as (X & _); eauto|].
          unfold ws1. apply sim_rel_both; auto. }
        assert (Hex : exec_op j (Release (fst L) (snd L)) (snd c) =
                      Some (AUnit, set_locks (snd c) (remove1 lock_eqb L (locks (snd c)))))
          by (apply release_held; exact HLc).
        assert (Hnorel : forall i, norel i (Release (fst L) (snd L))).
        { intros i cls x E. inversion E; subst. rewrite lock_eta.
          destruct (mine i L) eqn:Em; auto. exfalso. eapply mine_neq_L; eauto. }
        exists (ord ++ [j]), None. split.
        * unfold BInv3. split; [simpl; apply Hlen'|]. split; [apply NoDup_snoc; auto|].
          split; [intros i Hi; apply in_app_or in Hi; destruct Hi as [Hi|[<-|[]]]; auto|].
          split; [exact Hcnt'|]. split.
          { intros i Hi Hni _.
            assert (Hij : i <> j) by (intros ->; apply Hni; apply in_or_app; right; left; reflexivity).
            eapply PreSt_keep; [exact Hij|exact Hex|apply Hnorel|]. apply Hpre; auto; [|congruence].
            intros H; apply Hni; apply in_or_app; left; exact H. }
          exists (relall hl ws1), (rs ++ [r]). split; [eapply seq_runp_snoc; eauto|].
          split; [exact Hl2|]. split; [exact Hrt2|]. split; [eapply HWstep; eauto|].
          split.
          { intros i Hi Hni.
            assert (Hij : j <> i) by (intros ->; apply Hni; apply in_or_app; right; left; reflexivity).
            eapply (Hkeep j i); eauto. apply HJ1; auto.
            intros H; apply Hni; apply in_or_app; left; exact H. }
          split; [|exact Hsim2].
          apply Forall2_app.
          { eapply Forall2_mono_in; [exact Hres|]. intros i r' Hi Hal.
            eapply PostSt_keep; [intros ->; contradiction|exact Hex|apply Hnorel|exact Hal]. }
          constructor; [|constructor].
          exists p, (AUnit :: hist), hl, (k AUnit). simpl.
          rewrite nth_error_upd_nth_eq by exact Hjh.
          split; [exact Hp|]. split; [reflexivity|]. split; [exact Hres'|].
          split; [exact Hpost|]. split; [exact Hndl|]. split; [|lia].
          intros l Hl. destruct (Hhl l Hl) as (X1 & X2 & X3). split; auto.
          apply In_remove1_neq; auto. eapply mine_neq_L; eauto.
        * simpl. rewrite app_nil_r. reflexivity.
      + (* a quiet operation *)
        destruct (sim_step priv j L (pl j) o (snd c) ws a w' Hsim Hli' Hli Hq He) as (ws' & He' & Hsim').
        pose proof (Solo_snoc Hsolo He') as Hsolo'.
        assert (Hnorel : forall l, priv l = true -> forall cls y, o = Release cls y -> (cls, y) <> l).
        { intros l Hl cls y -> E. simpl in Hq. destruct Hq as [Hq _]. rewrite E, Hl in Hq. discriminate. }
        assert (Hnorel' : forall i, norel i o).
        { intros i cls x E. destruct (mine i (cls, x)) eqn:Em; auto. exfalso.
          eapply (Hnorel (cls, x)); eauto. }
        exists ord, (Some j). split.
        * unfold BInv3. split; [simpl; apply Hlen'|]. split; [exact Hnd|]. split; [exact Hlt|].
          split; [exact Hcnt'|]. split.
          { intros i Hi Hni Hai. assert (Hij : i <> j) by congruence.
            eapply PreSt_keep; [exact Hij|exact He|apply Hnorel'|]. apply Hpre; auto. }
          exists w1, rs. repeat (split; [assumption|]). split.
          { eapply Forall2_mono_in; [exact Hres|]. intros i r' Hi Hal.
            eapply PostSt_keep; [intros ->; contradiction|exact He|apply Hnorel'|exact Hal]. }
          split; [exact Hj|]. split; [exact Hjd|].
          exists p, (a :: hist), (k a), ws', (hs ++ [a]), hl. split; [exact Hp|].
          split; [simpl; apply nth_error_upd_nth_eq; exact Hjh|].
          split; [exact Hres'|]. split; [exact Hsolo'|]. split; [apply Hk|]. split; [exact Hsim'|].
          split.
          { eapply exec_keeps_lock; eauto. intros cls y -> E. simpl in Hq. destruct Hq as [_ Hq].
            contradiction. }
          split; [exact Hndl|]. split; [exact Hpl|]. split; [|simpl; lia].
          intros l Hl. destruct (Hhl l Hl) as (X1 & X2 & X3). split; auto. split.
          { eapply exec_keeps_lock; eauto. }
          { simpl. eapply exec_keeps_lock; eauto. }
        * reflexivity.
    - (* (P) j is in its prelude *)
      destruct (Hpre j Hj Hjd Hja) as (p0 & h0 & n & hl & m & Q1 & Q2 & Q3 & Q4 & Q5 & Q6 & Q7 & Q8).
      rewrite Hp in Q1. inversion Q1; subst p0. rewrite Hh in Q2. inversion Q2; subst h0.
      rewrite Hrs in Q3. inversion Q3; subst m. clear Q1 Q2 Q3.
      destruct (Pre_inv _ _ _ _ _ Q4) as [(-> & -> & Hpl & Hcs)|[(n0 & l & -> & -> & Hml & Hnl & Hpre1)|(n0 & m & -> & Hrd & Hdet & Hpre1)]].
      + (* it takes L *)
        assert (E : Nat.eqb (S (length hist)) (entry j) = true) by (apply Nat.eqb_eq; lia).
        rewrite E. clear E.
        destruct (acquire_inv _ _ _ _ _ _ He) as (-> & -> & HnL). rewrite lock_eta in HnL.
        destruct act as [i|].
        { exfalso. destruct Hact as (_ & _ & p' & hist' & m & ws & hs & hl' & _ & _ & _ & _ & _ & Hsim & HL & _).
          apply HnL. apply memb_lock_In. destruct Hsim as [_ Hf]. rewrite (np_memb priv L _ _ HprivL Hf).
          apply memb_lock_In. exact HL. }
        destruct (replay j p hl _ Q5 w1 (HJ1 j Hj Hjd) Hl1) as [hs Hs].
        assert (HnLh : ~ In L hl).
        { intros H. destruct (Q7 L H) as [X _]. eapply mine_neq_L; eauto. }
        assert (Hs' : Solo j p w1 (hs ++ [AUnit]) (set_locks w1 (L :: hl)) (k AUnit)).
        { eapply Solo_snoc; [exact Hs|]. simpl. rewrite lock_eta.
          apply memb_lock_notIn in HnLh. rewrite HnLh. reflexivity. }
        assert (Hnorel : forall i, norel i (Acquire (fst L) (snd L))) by (intros i cls x E; discriminate).
        exists ord, (Some j). split.
        * unfold BInv3. split; [simpl; apply Hlen'|]. split; [exact Hnd|]. split; [exact Hlt|].
          split; [exact Hcnt'|]. split.
          { intros i Hi Hni Hai. assert (Hij : i <> j) by congruence.
            eapply PreSt_keep; [exact Hij|exact He|apply Hnorel|]. apply Hpre; auto; discriminate. }
          exists w1, rs. repeat (split; [assumption|]). split.
          { eapply Forall2_mono_in; [exact Hres|]. intros i r' Hi Hal.
            eapply PostSt_keep; [intros ->; contradiction|exact He|apply Hnorel|exact Hal]. }
          split; [exact Hj|]. split; [exact Hjd|].
          exists p, (AUnit :: hist), (k AUnit), (set_locks w1 (L :: hl)), (hs ++ [AUnit]), hl.
          split; [exact Hp|]. split; [simpl; apply nth_error_upd_nth_eq; exact Hjh|].
          split; [exact Hres'|]. split; [exact Hs'|]. split; [exact Hcs|]. split.
          { destruct Hact as [Hf1 Hf2]. split; simpl; auto. rewrite lock_eta.
            assert (Hn1 : np priv L = true) by (unfold np; rewrite HprivL; reflexivity).
            rewrite Hn1. f_equal. rewrite Hf2, Hl1. simpl.
            clear - Q7 Hmine. induction hl as [|x hl IH]; simpl; auto.
            destruct (Q7 x (or_introl eq_refl)) as [X _]. apply Hmine in X.
            unfold np at 1. rewrite X. simpl. apply IH. intros y Hy. apply Q7. right. exact Hy. }
          split; [left; reflexivity|]. split; [exact Q6|]. split; [exact Hpl|]. split; [|simpl; lia].
          intros l Hl. destruct (Q7 l Hl) as [X1 X2]. split; auto. split; [right; exact Hl|].
          simpl. right. exact X2.
        * simpl. rewrite app_nil_r. reflexivity.
      + (* it takes a private lock *)
        assert (E : Nat.eqb (S (length hist)) (entry j) = false) by (apply Nat.eqb_neq; lia).
        rewrite E. clear E.
        destruct (acquire_inv _ _ _ _ _ _ He) as (-> & -> & HnL). rewrite lock_eta in *.
        assert (Hnorel : forall i, norel i (Acquire (fst l) (snd l))) by (intros i cls x E; discriminate).
        exists ord, act. split.
        * unfold BInv3. split; [simpl; apply Hlen'|]. split; [exact Hnd|]. split; [exact Hlt|].
          split; [exact Hcnt'|]. split.
          { intros i Hi Hni Hai. destruct (Nat.eq_dec i j) as [->|Hij].
            - exists p, (AUnit :: hist), n0, (l :: hl), (k AUnit). simpl.
              rewrite nth_error_upd_nth_eq by exact Hjh.
              split; [exact Hp|]. split; [reflexivity|]. split; [exact Hres'|].
              split; [exact Hpre1|]. split; [apply pt_acq; auto|].
              split; [constructor; auto|]. split; [|lia].
              intros x [<-|Hx]; [split; auto; left; reflexivity|].
              destruct (Q7 x Hx) as [X1 X2]. split; auto. right. exact X2.
            - eapply PreSt_keep; [exact Hij|exact He|apply Hnorel|apply Hpre; auto]. }
          exists w1, rs. repeat (split; [assumption|]). split.
          { eapply Forall2_mono_in; [exact Hres|]. intros i r' Hi Hal.
            eapply PostSt_keep; [intros ->; contradiction|exact He|apply Hnorel|exact Hal]. }
          destruct act as [i|].
          { destruct Hact as (Ha0 & Ha1 & p0 & hist0 & m0 & ws & hs & hl0 & Hp0 & Hh0 & Hr0 & Hsolo & Hcs & Hsim & HL & Hnd0 & Hpl & Hhl & Hen).
            assert (Hij : i <> j) by (intros ->; apply Hja; reflexivity).
            split; [exact Ha0|]. split; [exact Ha1|]. exists p0, hist0, m0, ws, hs, hl0.
            split; [exact Hp0|]. split; [simpl; rewrite nth_error_upd_nth_neq by exact Hij; exact Hh0|].
            split; [exact Hr0|]. split; [exact Hsolo|]. split; [exact Hcs|].
            split; [apply sim_acq_priv; eauto|]. split; [exact HL|]. split; [exact Hnd0|].
            split; [exact Hpl|]. split; [|exact Hen].
            intros x Hx. destruct (Hhl x Hx) as (X1 & X2 & X3). split; auto. split; auto.
            simpl. right. exact X3. }
          { apply sim_acq_priv; eauto. }
        * reflexivity.
      + (* it reads *)
        assert (E : Nat.eqb (S (length hist)) (entry j) = false) by (apply Nat.eqb_neq; lia).
        rewrite E. clear E.
        pose proof (rdop_same _ _ _ _ _ Hrd He) as ->.
        pose proof (Hdet j (snd c) a (snd c) (HJc j Hj Hjd Hja) He) as Ek.
        assert (Hnorel : forall i, norel i o).
        { intros i cls x ->. simpl in Hrd. contradiction. }
        exists ord, act. split.
        * unfold BInv3. split; [simpl; apply Hlen'|]. split; [exact Hnd|]. split; [exact Hlt|].
          split; [exact Hcnt'|]. split.
          { intros i Hi Hni Hai. destruct (Nat.eq_dec i j) as [->|Hij].
            - exists p, (a :: hist), n0, hl, m. simpl.
              rewrite nth_error_upd_nth_eq by exact Hjh.
              split; [exact Hp|]. split; [reflexivity|]. split; [rewrite <- Ek; exact Hres'|].
              split; [exact Hpre1|]. split; [eapply pt_read; eauto|].
              split; [exact Q6|]. split; [exact Q7|lia].
            - eapply PreSt_keep; [exact Hij|exact He|apply Hnorel|apply Hpre; auto]. }
          exists w1, rs. repeat (split; [assumption|]). split.
          { eapply Forall2_mono_in; [exact Hres|]. intros i r' Hi Hal.
            eapply PostSt_keep; [intros ->; contradiction|exact He|apply Hnorel|exact Hal]. }
          destruct act as [i|]; [|exact Hact].
          destruct Hact as (Ha0 & Ha1 & p0 & hist0 & m0 & ws & hs & hl0 & Hp0 & Hh0 & Hr0 & Hrest).
          assert (Hij : i <> j) by (intros ->; apply Hja; reflexivity).
          split; [exact Ha0|]. split; [exact Ha1|]. exists p0, hist0, m0, ws, hs, hl0.
          split; [exact Hp0|]. split; [simpl; rewrite nth_error_upd_nth_neq by exact Hij; exact Hh0|].
          split; [exact Hr0|]. exact Hrest.
        * reflexivity.
  Qed.

  Lemma BInv3_exec : forall sched c seen ord act c',
    BInv3 c seen ord act -> exec ps sched c = Some c' ->
    exists seen' ord' act', BInv3 c' seen' ord' act' /\
      (seen', ord' ++ oact act') = fold_left (noteE entry) sched (seen, ord ++ oact act).
  Proof.
    induction sched as [|j s IH]; intros c seen ord act c' HB He; simpl in He.
    - inversion He; subst. exists seen, ord, act. auto.
    - destruct (thread_step ps c j) as [c1|] eqn:E; [|discriminate].
      destruct (BInv3_step _ _ _ _ _ _ HB E) as (ord1 & act1 & HB1 & E1).
      destruct (IH _ _ _ _ _ HB1 He) as (seen2 & ord2 & act2 & HB2 & E2).
      exists seen2, ord2, act2. split; auto. cbn [fold_left]. rewrite E2. f_equal.
      unfold noteE in *. cbn [fst snd] in *. rewrite E1. reflexivity.
  Qed.

  Theorem prelude_pool : forall sched c,
    exec ps sched (init_cfg ps w0) = Some c -> stuck ps c ->
    finished ps c = true /\ locks (snd c) = [] /\
    exists w' rs,
      let ord := entry_order entry sched in
      NoDup ord /\ (forall i, In i ord <-> i < length ps) /\
      seq_runp A ps ord w0 = Some (w', rs) /\
      snd c = w' /\
      map (thread_result ps c) ord = map Some rs.
  Proof.
    intros sched c He Hst.
    assert (Hfin : finished ps c = true /\ locks (snd c) = [] /\ refs_typed (fs (snd c))).
    { apply stuck_finished; auto. eapply Inv_reachable; eauto.
      eapply exec_reachable; [apply reach_init | exact He]. }
    destruct Hfin as (Hf1 & Hf2 & _). split; [exact Hf1|]. split; [exact Hf2|].
    destruct (BInv3_exec _ _ _ _ _ _ BInv3_init He) as (seen & ord & act & HB & Eord). simpl in Eord.
    assert (Eo : entry_order entry sched = ord ++ oact act).
    { unfold entry_order. rewrite <- Eord. reflexivity. }
    destruct HB as (Hlen & Hnd & Hlt & Hcnt & Hpre & w1 & rs & Hseq & Hl1 & Hrt1 & HW1 & HJ1 & Hres & Hact).
    assert (Hsome : forall i, i < length ps -> exists r, thread_result ps c i = Some r).
    { intros i Hi. unfold finished in Hf1. rewrite forallb_forall in Hf1.
      assert (Hin : In (thread_result ps c i) (results ps c)).
      { unfold results. apply in_map. apply in_seq. lia. }
      specialize (Hf1 _ Hin).
      destruct (thread_result ps c i) as [r|]; [eauto | discriminate]. }
    destruct act as [i|].
    { exfalso. destruct Hact as (Hi & _ & p & hist & m & ws & hs & hl & Hp & Hh & Hr & _ & Hcs & _).
      destruct (Hsome i Hi) as [r Hr']. unfold thread_result in Hr'. rewrite Hp, Hh, Hr in Hr'.
      destruct m; try discriminate. contradiction. }
    simpl in Eo. rewrite app_nil_r in Eo.
    assert (Hall : forall i, i < length ps -> In i ord).
    { intros i Hi. destruct (in_dec Nat.eq_dec i ord) as [H|H]; auto. exfalso.
      destruct (Hpre i Hi H) as (p & h & n & hl & m & Q1 & Q2 & Q3 & Q4 & _); [discriminate|].
      destruct (Hsome i Hi) as [r Hr']. unfold thread_result in Hr'. rewrite Q1, Q2, Q3 in Hr'.
      inversion Q4; subst; discriminate. }
    exists w1, rs. cbv zeta. rewrite Eo. split; [exact Hnd|]. split; [|split; [exact Hseq|split]].
    - intros i. split; auto.
    - apply (sim_nolocks priv); auto.
    - eapply Forall2_map_some; [exact Hres|]. intros i r Hi (p & h & hl & m & Q1 & Q2 & Q3 & Q4 & _).
      destruct (Hsome i (Hlt i Hi)) as [r' Hr']. unfold thread_result in *. rewrite Q1, Q2, Q3 in *.
      inversion Q4; subst; [reflexivity | discriminate].
  Qed.
End PreludePool.

(* ====================================================================================== *)
(* §3  the hypotheses of [prelude_pool] are satisfiable by API programs: the taggers of    *)
(*     one cid (OneCid.v) are the instance with a prelude of one private acquisition       *)
(* ====================================================================================== *)

Lemma CS2_CS3 : forall A priv L (pl : nat -> lock) i (m : prog A),
  CS2 A priv L (pl i) m -> CS3 A L priv pl i [pl i] m.
Proof.
  intros A priv L pl i. induction m as [r|o k IH|]; simpl; auto.
  intros [(-> & k' & r & E1 & E2)|[Hq Hk]].
  - left. split; [reflexivity|]. exists r. rewrite E1. apply post_rel. rewrite E2. apply post_nil.
  - right. split; auto.
Qed.

(* pools of tag_object calls with pairwise distinct pids on one cid, through [prelude_pool]: the
   order is that of the threads' second steps *)
Theorem one_cid_taggers_by_prelude :
  forall (c : cid) (pids : list pid) (w0 : world) (sched : list nat) (cf : cfg),
    let calls := map (fun p => CTag p c) pids in
    locks w0 = [] -> refs_typed (fs w0) -> NoDup pids ->
    exec (map api calls) sched (init_cfg (map api calls) w0) = Some cf ->
    stuck (map api calls) cf ->
    finished (map api calls) cf = true /\ locks (snd cf) = [] /\
    exists (w' : world) (rs : list (outcome value)),
      let ord := entry_order (fun _ => 2) sched in
      NoDup ord /\ (forall i, In i ord <-> i < length pids) /\
      seq_run calls ord w0 = Some (w', rs) /\
      snd cf = w' /\
      map (thread_result (map api calls) cf) ord = map Some rs.
Proof.
  intros c pids w0 sched cf calls Hl Hrt Hnd He Hst.
  set (pl := fun i => pid_lock (nth i pids 0)).
  set (mine := fun i l => lock_eqb l (pl i)).
  assert (Hlen : length (map api calls) = length pids).
  { unfold calls. rewrite !map_length. reflexivity. }
  assert (Hnth : forall i q, nth_error (map api calls) i = Some q ->
            i < length pids /\ q = api (CTag (nth i pids 0) c)).
  { intros i q Hq. unfold calls in Hq. rewrite !nth_error_map in Hq.
    destruct (nth_error pids i) as [p|] eqn:E; [|discriminate]. inversion Hq; subst q.
    split; [apply nth_error_Some; congruence|].
    pose proof (nth_error_nth _ _ 0 E) as En. subst p. reflexivity. }
  destruct (prelude_pool (outcome value) (map api calls) (cid_lock c) ref_priv mine pl (fun _ => 2)
              (fun _ _ => True) (fun _ => True) w0) with (sched := sched) (c := cf)
    as (H1 & H2 & w' & rs & H3); auto.
  - intros i q Hq. destruct (Hnth i q Hq) as [Hi ->]. exists 1. split; [|reflexivity].
    destruct (writer2_tag (nth i pids 0) c) as (k1 & k2 & Ep & Ek & Hcs).
    rewrite Ep. change (Acquire (fst (pid_lock (nth i pids 0))) (snd (pid_lock (nth i pids 0))))
      with (Acquire (fst (pl i)) (snd (pl i))).
    apply pre_acq; [unfold mine; apply lock_eqb_refl|intros []|].
    rewrite Ek. apply pre_enter; [left; reflexivity|]. apply CS2_CS3. exact Hcs.
  - intros i l H. unfold mine in H. apply lock_eqb_true in H. subst l. reflexivity.
  - intros i j l Hi Hj H1 H2. unfold mine in *. apply lock_eqb_true in H1, H2. subst l.
    unfold pl, pid_lock in H2. inversion H2 as [E].
    assert (Hi' : i < length pids) by (rewrite <- Hlen; exact Hi).
    assert (Hj' : j < length pids) by (rewrite <- Hlen; exact Hj).
    apply (proj1 (NoDup_nth pids 0) Hnd); auto.
  - apply api_pool_ok.
  - split; [exact H1|]. split; [exact H2|]. exists w', rs.
    cbv zeta in *. destruct H3 as (N1 & N2 & N3 & N4 & N5).
    assert (N2' : forall i, In i (entry_order (fun _ => 2) sched) <-> i < length pids).
    { intros i. rewrite <- Hlen. apply N2. }
    split; [exact N1|]. split; [exact N2'|].
    split; [|split; [exact N4 | exact N5]].
    rewrite <- seq_runp_seq_run; [exact N3|]. intros i Hi. apply N2' in Hi.
    unfold calls. rewrite map_length. exact Hi.
Qed.

(* ====================================================================================== *)
(* §4  shape rules: [Pre] / [CS3] / [Post] through [bind], without associativity of bind   *)
(* ====================================================================================== *)

From HS Require CrashGeneral CrashGeneralT.

(* q is bound to c: reference, membership in the cid list, object present *)
Definition boundto (q : pid) (c : cid) (m : fmap) : Prop :=
  lookup (APidRef q) m = Some (CCid c) /\
  (exists l, lookup (ACidRef c) m = Some (CLines l) /\ In q l) /\
  lookup (AObj c) m <> None.

Section ShapeRules.
  Variable L : lock.
  Variable priv : lock -> bool.
  Variable mine : nat -> lock -> bool.
  Variable pl : nat -> lock.
  Variable J : nat -> fmap -> Prop.
  Variable i : nat.

  (* [CS3] with what follows Release L left open *)
  Fixpoint CSg (X : Type) (Q : prog X -> Prop) (m : prog X) : Prop :=
    match m with
    | Ret _ => False
    | Bad => True
    | Vis o k =>
        (o = Release (fst L) (snd L) /\ Q (k AUnit)) \/
        (quiet priv L (pl i) o /\ forall a, CSg X Q (k a))
    end.

  (* [Pre] with what follows Release L left open; it may depend on the private locks held *)
  Inductive Preg (X : Type) (Q : list lock -> prog X -> Prop) : nat -> list lock -> prog X -> Prop :=
  | pg_enter : forall hl k, In (pl i) hl -> CSg X (Q hl) (k AUnit) ->
      Preg X Q 0 hl (Vis (Acquire (fst L) (snd L)) k)
  | pg_acq : forall n hl l k, mine i l = true -> ~ In l hl -> Preg X Q n (l :: hl) (k AUnit) ->
      Preg X Q (S n) hl (Vis (Acquire (fst l) (snd l)) k)
  | pg_read : forall n hl o k m, rdop o -> det X J i o k m -> Preg X Q n hl m ->
      Preg X Q (S n) hl (Vis o k).

  (* n reads, each with one continuation under J i, then the result r *)
  Inductive RD (X : Type) : nat -> prog X -> X -> Prop :=
  | rd_ret : forall r, RD X 0 (Ret r) r
  | rd_vis : forall n o k m r, rdop o -> det X J i o k m -> RD X n m r -> RD X (S n) (Vis o k) r.

  Lemma CSg_bind_quiet : forall X Y (m : prog X) (f : X -> prog Y) Q,
    Ops (quiet priv L (pl i)) m -> (forall a, CSg Y Q (f a)) -> CSg Y Q (bind m f).
  Proof.
    induction m as [a|o k IH|]; simpl; intros f Q Hm Hf; auto.
    destruct Hm as [Ho Hk]. right. split; auto.
  Qed.

  Lemma CSg_bind : forall X Y (m : prog X) (f : X -> prog Y) (Q1 : prog X -> Prop) (Q : prog Y -> Prop),
    CSg X Q1 m -> (forall m', Q1 m' -> Q (bind m' f)) -> CSg Y Q (bind m f).
  Proof.
    induction m as [a|o k IH|]; simpl; intros f Q1 Q Hm Hf; auto; try contradiction.
    destruct Hm as [[-> HQ]|[Hq Hk]].
    - left. split; auto.
    - right. split; auto. intros a. eapply IH; eauto.
  Qed.

  Lemma Preg_bind : forall X Y (f : X -> prog Y) (Q1 : list lock -> prog X -> Prop)
                           (Q : list lock -> prog Y -> Prop) n hl (m : prog X),
    Preg X Q1 n hl m -> (forall hl' m', Q1 hl' m' -> Q hl' (bind m' f)) -> Preg Y Q n hl (bind m f).
  Proof.
    intros X Y f Q1 Q n hl m H Hf. induction H; simpl.
    - apply pg_enter; auto. eapply CSg_bind; eauto.
    - apply pg_acq; auto.
    - eapply pg_read with (m := bind m f); auto.
      intros t w a w' HJ He. rewrite (H0 t w a w' HJ He). reflexivity.
  Qed.

  Lemma RD_bind : forall X Y n (m : prog X) r (f : X -> prog Y) n' r',
    RD X n m r -> RD Y n' (f r) r' -> RD Y (n + n') (bind m f) r'.
  Proof.
    intros X Y n m r f n' r' H Hf. induction H; simpl; auto.
    eapply rd_vis with (m := bind m f); auto.
    intros t w a w' HJ He. rewrite (H0 t w a w' HJ He). reflexivity.
  Qed.

  Lemma RD_mbind : forall X Y n (m : M X) a (f : X -> M Y) n' r',
    RD (outcome X) n m (Val a) -> RD (outcome Y) n' (f a) r' -> RD (outcome Y) (n + n') (mbind m f) r'.
  Proof. intros. unfold mbind. eapply RD_bind; eauto. Qed.

  Lemma Preg_bind_RD : forall X Y n (m : prog X) r (f : X -> prog Y) Q n' hl,
    RD X n m r -> Preg Y Q n' hl (f r) -> Preg Y Q (n + n') hl (bind m f).
  Proof.
    intros X Y n m r f Q n' hl H Hf. induction H; simpl; auto.
    eapply pg_read with (m := bind m f); auto.
    intros t w a w' HJ He. rewrite (H0 t w a w' HJ He). reflexivity.
  Qed.

  Lemma Preg_mbind_acq : forall Y cls x (f : unit -> M Y) (Q : list lock -> prog (outcome Y) -> Prop) n hl,
    mine i (cls, x) = true -> ~ In (cls, x) hl -> Preg (outcome Y) Q n ((cls, x) :: hl) (f tt) ->
    Preg (outcome Y) Q (S n) hl (mbind (acquire cls x) f).
  Proof.
    intros Y cls x f Q n hl H1 H2 H3. unfold mbind, acquire. simpl.
    apply (pg_acq (outcome Y) Q n hl (cls, x)); auto.
  Qed.

  Lemma Preg_mbind_enter : forall Y (f : unit -> M Y) (Q : list lock -> prog (outcome Y) -> Prop) hl,
    In (pl i) hl -> CSg (outcome Y) (Q hl) (f tt) ->
    Preg (outcome Y) Q 0 hl (mbind (acquire (fst L) (snd L)) f).
  Proof.
    intros Y f Q hl H2 H3. unfold mbind, acquire. simpl.
    apply (pg_enter (outcome Y) Q hl); auto.
  Qed.

  Lemma CSg_try_finally : forall Y (m : M Y) (Q : prog (outcome Y) -> Prop),
    Ops (quiet priv L (pl i)) m -> (forall r, Q (Ret r)) ->
    CSg (outcome Y) Q (try_finally m (release (fst L) (snd L))).
  Proof.
    intros Y m Q Hm HQ. unfold try_finally. apply CSg_bind_quiet; auto.
    intros r. unfold release. simpl. left. split; [reflexivity|]. simpl. apply HQ.
  Qed.

  Lemma Post_bind_pure : forall X Y hl r (m : prog X) (h : X -> prog Y),
    Post X hl r m -> (forall r0, exists r', h r0 = Ret r') -> exists r', Post Y hl r' (bind m h).
  Proof.
    intros X Y hl r m h H Hh. induction H; simpl.
    - destruct (Hh r) as [r' E]. exists r'. rewrite E. apply post_nil.
    - destruct IHPost as [r' H']. exists r'. apply post_rel. exact H'.
  Qed.

  Lemma CSg_CS3 : forall X hl (m : prog X),
    CSg X (fun m' => exists r, Post X hl r m') m -> CS3 X L priv pl i hl m.
  Proof.
    intros X hl. induction m as [r|o k IH|]; simpl; auto.
    intros [[-> H]|[Hq Hk]]; [left; auto|right; split; auto].
  Qed.

  Lemma Preg_Pre : forall X n hl (m : prog X),
    Preg X (fun hl' m' => exists r, Post X hl' r m') n hl m -> Pre X L priv mine pl J i n hl m.
  Proof.
    intros X n hl m H. induction H.
    - apply pre_enter; auto. apply CSg_CS3. exact H0.
    - apply pre_acq; auto.
    - eapply pre_read; eauto.
  Qed.
End ShapeRules.

(* ====================================================================================== *)
(* §5  delete_object has the shape                                                         *)
(* ====================================================================================== *)

(* the private locks: the reference-pid locks and the object-pid locks *)
Definition priv2 (l : lock) : bool := lockcls_eqb (fst l) LRefPid || lockcls_eqb (fst l) LObjPid.
Definition obj_lock (p : pid) : lock := (LObjPid, IPid p).

(* the operations of delete_object under the cid lock: file operations, the flock of the cid list,
   the locks of the pid's metadata documents *)
Definition delop (o : op) : Prop :=
  match o with
  | Acquire cls _ | Release cls _ => cls = LFile \/ cls = LMeta
  | Peek _ _ | Held _ _ => False
  | _ => True
  end.

Lemma delop_quiet : forall c Li o, delop o -> quiet priv2 (cid_lock c) Li o.
Proof.
  intros c Li o H. destruct o; simpl in *; auto; try contradiction.
  - destruct H as [->| ->]; split; try reflexivity; discriminate.
  - destruct H as [->| ->]; split; try reflexivity; discriminate.
Qed.

Lemma tagop_quiet2 : forall p c o, tagop p o -> quiet priv2 (cid_lock c) (pid_lock p) o.
Proof.
  intros p c o H. destruct o; simpl in *; auto.
  - subst. split; [reflexivity | discriminate].
  - subst. split; [reflexivity | discriminate].
  - destruct H as [->|H]; [left; reflexivity | right; exact H].
  - destruct H as [->|H]; [left; reflexivity | right; exact H].
Qed.

Lemma writer2_tag2 : forall p c,
  writer2 (outcome value) priv2 (cid_lock c) (pid_lock p) (api (CTag p c)).
Proof.
  intros. unfold api, lift_unit. unfold mbind at 1. apply writer2_bind_pure.
  - rewrite tag_object_brackets. apply writer2_brackets.
    eapply Ops_mono; [|apply Ops_tag_body]. intros o. apply tagop_quiet2.
  - intros [u|e]; eexists; reflexivity.
Qed.

Lemma Ops_acquire : forall (P : op -> Prop) cls x, P (Acquire cls x) -> Ops P (acquire cls x).
Proof. intros. simpl. split; auto. intros y; destruct y; simpl; auto. Qed.
Lemma Ops_release : forall (P : op -> Prop) cls x, P (Release cls x) -> Ops P (release cls x).
Proof. intros. simpl. split; auto. intros y; destruct y; simpl; auto. Qed.
Lemma Ops_listdir : forall (P : op -> Prop) p, P (ListDir p) -> Ops P (listdir p).
Proof. intros. simpl. split; auto. intros y; destruct y; simpl; auto. Qed.

Create HintDb delopsdb.

Ltac dops1 :=
  lazymatch goal with
  | |- Ops _ (mbind _ _) => apply Ops_mbind; [|intros ?]
  | |- Ops _ (catch _) => apply Ops_catch
  | |- Ops _ (try_finally _ _) => apply Ops_try_finally
  | |- Ops _ (probe _) => apply Ops_probe
  | |- Ops _ (read _) => apply Ops_read
  | |- Ops _ (unit_op _) => apply Ops_unit_op
  | |- Ops _ (swallow_op _) => apply Ops_swallow_op
  | |- Ops _ (size_lines _) => apply Ops_size_lines
  | |- Ops _ (rewrite_write _ _) => apply Ops_rewrite_write
  | |- Ops _ (funlock _) => apply Ops_funlock
  | |- Ops _ (acquire _ _) => apply Ops_acquire
  | |- Ops _ (release _ _) => apply Ops_release
  | |- Ops _ (listdir _) => apply Ops_listdir
  | |- Ops _ (ret _) => exact I
  | |- Ops _ (raise _) => exact I
  | |- Ops _ Bad => exact I
  | |- Ops _ (if ?b then _ else _) => destruct b
  | |- Ops _ (match ?x with _ => _ end) => destruct x
  | |- delop _ => solve [simpl; auto]
  | |- _ => solve [auto with delopsdb]
  end.
Ltac dops := repeat dops1.

Lemma DOps_rename_for_deletion : forall a, Ops delop (rename_for_deletion a).
Proof. intros. unfold rename_for_deletion. dops. Qed.
Lemma DOps_delete_marked : forall l, Ops delop (delete_marked l).
Proof.
  induction l as [|a l IH]; [exact I|].
  change (Ops delop (swallow_op (Remove a) ;;; delete_marked l)).
  apply Ops_mbind; [apply Ops_swallow_op; exact I | intros _; exact IH].
Qed.
Lemma DOps_update_refs_remove : forall a q, Ops delop (update_refs_remove a q).
Proof. intros. unfold update_refs_remove. dops. Qed.
Lemma DOps_probe_all : forall l, Ops delop (probe_all l).
Proof.
  induction l as [|a l IH]; [exact I|].
  change (Ops delop (b <- probe a ;; r <- probe_all l ;; ret (if b then a :: r else r))).
  apply Ops_mbind; [apply Ops_probe; exact I|]. intros b.
  apply Ops_mbind; [exact IH|]. intros r. exact I.
Qed.
#[export] Hint Resolve DOps_rename_for_deletion DOps_delete_marked DOps_update_refs_remove DOps_probe_all : delopsdb.
Lemma DOps_mark_docs : forall l, Ops delop (mark_docs l).
Proof.
  induction l as [|a l IH]; [exact I|].
  cbn [mark_docs]. dops.
Qed.
#[export] Hint Resolve DOps_mark_docs : delopsdb.
Lemma DOps_delete_metadata : forall p f, Ops delop (delete_metadata p f).
Proof. intros. unfold delete_metadata. dops. Qed.
#[export] Hint Resolve DOps_delete_metadata : delopsdb.

Section DelShape.
  Variable mine : nat -> lock -> bool.
  Variable pl : nat -> lock.
  Variable J : nat -> fmap -> Prop.
  Variable i : nat.
  Variable q : pid.
  Variable c : cid.
  Hypothesis HJ : forall m, J i m -> boundto q c m.
  Hypothesis Hm1 : mine i (obj_lock q) = true.
  Hypothesis Hm2 : mine i (pid_lock q) = true.
  Hypothesis Hpl : pl i = pid_lock q.

  Lemma rd_probe_present : forall a, (forall m, J i m -> lookup a m <> None) ->
    RD J i (outcome bool) 1 (probe a) (Val true).
  Proof.
    intros a Ha. unfold probe. eapply rd_vis with (m := ret true); [exact I| |apply rd_ret].
    intros t w x w' Hj He. simpl in He. inversion He; subst. specialize (Ha _ Hj).
    destruct (lookup a (fs w')); [reflexivity|congruence].
  Qed.

  Lemma rd_probe_ignore : forall a X n (f : M X) r,
    RD J i (outcome X) n f r -> RD J i (outcome X) (S n) (mbind (probe a) (fun _ => f)) r.
  Proof.
    intros a X n f r H. unfold mbind, probe. simpl. eapply rd_vis with (m := f); [exact I| |exact H].
    intros t w x w' _ He. simpl in He. inversion He; subst. reflexivity.
  Qed.

  Lemma rd_read_cid : RD J i (outcome cid) 1 (read_cid (APidRef q)) (Val c).
  Proof.
    unfold read_cid, mbind, read. simpl. eapply rd_vis with (m := Ret (Val c)); [exact I| |apply rd_ret].
    intros t w x w' Hj He. destruct (HJ _ Hj) as (H1 & _). simpl in He. rewrite H1 in He.
    inversion He; subst. reflexivity.
  Qed.

  Lemma rd_is_in_refs : RD J i (outcome bool) 1 (is_in_refs q (ACidRef c)) (Val true).
  Proof.
    unfold is_in_refs, read_lines, mbind, read. simpl.
    eapply rd_vis with (m := Ret (Val true)); [exact I| |apply rd_ret].
    intros t w x w' Hj He. destruct (HJ _ Hj) as (_ & (l & Hl & Hin) & _). simpl in He. rewrite Hl in He.
    inversion He; subst. simpl. unfold ret.
    apply (proj2 (memb_In Nat.eqb nat_eqb_true Nat.eqb_refl q l)) in Hin. rewrite Hin. reflexivity.
  Qed.

  Lemma rd_find_object : RD J i (outcome cid) 7 (find_object q) (Val c).
  Proof.
    unfold find_object.
    eapply RD_mbind with (n := 1) (n' := 6) (a := true).
    { apply rd_probe_present. intros m Hj. destruct (HJ _ Hj) as (H1 & _). congruence. }
    cbv beta. cbn [negb].
    eapply RD_mbind with (n := 1) (n' := 5) (a := c); [apply rd_read_cid|]. cbv beta.
    eapply RD_mbind with (n := 1) (n' := 4) (a := true).
    { apply rd_probe_present. intros m Hj. destruct (HJ _ Hj) as (_ & (l & Hl & _) & _). congruence. }
    cbv beta. cbn [negb].
    eapply RD_mbind with (n := 1) (n' := 3) (a := true); [apply rd_is_in_refs|]. cbv beta. cbn [negb].
    eapply RD_mbind with (n := 1) (n' := 2) (a := true).
    { apply rd_probe_present. intros m Hj. destruct (HJ _ Hj) as (_ & _ & H3). exact H3. }
    cbv beta. cbn [negb].
    eapply RD_mbind with (n := 1) (n' := 1) (a := true).
    { apply rd_probe_present. intros m Hj. destruct (HJ _ Hj) as (_ & _ & H3). exact H3. }
    cbv beta. cbn [negb].
    apply rd_probe_ignore. apply rd_ret.
  Qed.

  Lemma pre_delete : Pre (outcome value) (cid_lock c) priv2 mine pl J i 9 [] (api (CDelete q)).
  Proof.
    apply Preg_Pre. unfold api, lift_unit. unfold mbind at 1.
    eapply Preg_bind with (Q1 := fun hl m' => exists r, Post (outcome unit) hl r m').
    2:{ intros hl' m' [r H]. eapply Post_bind_pure; [exact H|]. intros [u|e]; eexists; reflexivity. }
    unfold delete_object. unfold try_finally at 1.
    eapply Preg_bind with
      (Q1 := fun hl (m' : prog (outcome unit)) => hl = [pid_lock q; obj_lock q] /\ exists r, m' = Ret r).
    2:{ intros hl' m' [-> [r ->]]. exists r. simpl.
        apply (post_rel (outcome unit) (pid_lock q)). simpl.
        apply (post_rel (outcome unit) (obj_lock q)). simpl. apply post_nil. }
    apply Preg_mbind_acq; [exact Hm1|intros []|].
    apply Preg_mbind_acq; [exact Hm2|intros [H|[]]; discriminate|].
    unfold mbind at 1.
    eapply Preg_bind_RD with (n := 7) (n' := 0) (r := Val (Val c)).
    { unfold catch. eapply RD_bind with (n := 7) (n' := 0); [apply rd_find_object|apply rd_ret]. }
    cbv beta iota.
    apply (Preg_mbind_enter (cid_lock c)).
    { rewrite Hpl. left. reflexivity. }
    apply (CSg_try_finally (cid_lock c)).
    - eapply Ops_mono; [intros o; apply delop_quiet|]. dops.
    - intros r. split; [reflexivity|]. exists r. reflexivity.
  Qed.
End DelShape.

(* ====================================================================================== *)
(* §6  taggers and deleters of one cid                                                     *)
(* ====================================================================================== *)

Lemma run_as_Solo : forall A t (m : prog A) w w' r,
  run_as t w m = Some (w', r) -> exists hs, Solo t m w hs w' (Ret r).
Proof.
  induction m as [a|o k IH|]; intros w w' r H; simpl in H.
  - inversion H; subst. exists []. apply solo_nil.
  - destruct (exec_op t o w) as [[x w1]|] eqn:E; [|discriminate].
    destruct (IH x w1 w' r H) as [hs Hs]. exists (x :: hs). eapply solo_cons; eauto.
  - discriminate.
Qed.

(* the calls of the pools: tag_object p c and delete_object q, on ONE cid c *)
Definition td_call (c : cid) (cl : call) : Prop :=
  match cl with
  | CTag _ c' => c' = c
  | CDelete _ => True
  | _ => False
  end.

Definition td_pid (cl : call) : pid :=
  match cl with CTag p _ | CDelete p => p | _ => 0 end.

(* a tagger takes the cid lock with its 2nd step, a deleter (two pid locks, the seven reads of
   find_object) with its 10th *)
Definition td_entry (calls : list call) (i : nat) : nat :=
  match nth_error calls i with Some (CDelete _) => 10 | _ => 2 end.

Theorem one_cid_taggers_deleters_linearizable :
  forall (c : cid) (calls : list call) (w0 : world) (sched : list nat) (cf : cfg),
    Spec.Inv w0 ->
    (forall cl, In cl calls -> td_call c cl) ->
    NoDup (map td_pid calls) ->
    (forall q, In (CDelete q) calls -> boundto q c (fs w0)) ->
    exec (map api calls) sched (init_cfg (map api calls) w0) = Some cf ->
    stuck (map api calls) cf ->
    finished (map api calls) cf = true /\ locks (snd cf) = [] /\
    exists (w' : world) (rs : list (outcome value)),
      let ord := entry_order (td_entry calls) sched in
      NoDup ord /\ (forall i, In i ord <-> i < length calls) /\
      seq_run calls ord w0 = Some (w', rs) /\
      snd cf = w' /\
      map (thread_result (map api calls) cf) ord = map Some rs.
Proof.
  intros c calls w0 sched cf HI Hcalls Hnd Hbound He Hst.
  set (pidat := fun i => nth i (map td_pid calls) 0).
  set (pl := fun i => pid_lock (pidat i)).
  set (mine := fun i l => lock_eqb l (pid_lock (pidat i)) || lock_eqb l (obj_lock (pidat i))).
  set (J := fun i m => match nth_error calls i with Some (CDelete q) => boundto q c m | _ => True end).
  set (WInv := fun w : world => CrashGeneral.typed (fs w)).
  assert (Hlen : length (map api calls) = length calls) by apply map_length.
  assert (Hpid : forall i cl, nth_error calls i = Some cl -> pidat i = td_pid cl).
  { intros i cl E. unfold pidat. apply nth_error_nth. rewrite nth_error_map, E. reflexivity. }
  assert (Hnth : forall i p, nth_error (map api calls) i = Some p ->
            exists cl, nth_error calls i = Some cl /\ p = api cl /\
                       (cl = CDelete (pidat i) \/ cl = CTag (pidat i) c)).
  { intros i p Hp. rewrite nth_error_map in Hp.
    destruct (nth_error calls i) as [cl|] eqn:E; [|discriminate]. inversion Hp; subst p.
    exists cl. split; [reflexivity|]. split; [reflexivity|].
    pose proof (Hcalls cl (nth_error_In _ _ E)) as Hc. rewrite (Hpid i cl E).
    destruct cl; simpl in Hc; try contradiction; [subst; right|left]; reflexivity. }
  assert (Hmine_pid : forall i l, mine i l = true -> l = pid_lock (pidat i) \/ l = obj_lock (pidat i)).
  { intros i l H. unfold mine in H. apply orb_true_iff in H.
    destruct H as [H|H]; apply lock_eqb_true in H; auto. }
  assert (Hinj : forall i j, i < length calls -> j < length calls -> pidat i = pidat j -> i = j).
  { intros i j Hi Hj E. apply (proj1 (NoDup_nth (map td_pid calls) 0) Hnd); auto;
      rewrite map_length; auto. }
  destruct (prelude_pool (outcome value) (map api calls) (cid_lock c) priv2 mine pl (td_entry calls)
              J WInv w0) with (sched := sched) (c := cf)
    as (H1 & H2 & w' & rs & H3); auto.
  - (* the shapes *)
    intros i p Hp. destruct (Hnth i p Hp) as (cl & E & -> & [->| ->]).
    + exists 9. split; [|unfold td_entry; rewrite E; reflexivity].
      apply pre_delete.
      * intros m Hj. unfold J in Hj. rewrite E in Hj. exact Hj.
      * unfold mine. rewrite (lock_eqb_refl (obj_lock (pidat i))). apply orb_true_r.
      * unfold mine. rewrite (lock_eqb_refl (pid_lock (pidat i))). reflexivity.
      * reflexivity.
    + exists 1. split; [|unfold td_entry; rewrite E; reflexivity].
      destruct (writer2_tag2 (pidat i) c) as (k1 & k2 & Ep & Ek & Hcs).
      rewrite Ep. change (Acquire (fst (pid_lock (pidat i))) (snd (pid_lock (pidat i))))
        with (Acquire (fst (pl i)) (snd (pl i))).
      apply pre_acq; [unfold mine, pl; rewrite lock_eqb_refl; reflexivity|intros []|].
      rewrite Ek. apply pre_enter; [left; reflexivity|]. apply CS2_CS3. exact Hcs.
  - (* private locks are private *)
    intros i l H. destruct (Hmine_pid i l H) as [->| ->]; reflexivity.
  - (* ... and belong to one thread *)
    intros i j l Hi Hj Hi' Hj'.
    assert (Hi2 : i < length calls) by (rewrite <- Hlen; exact Hi).
    assert (Hj2 : j < length calls) by (rewrite <- Hlen; exact Hj).
    apply Hinj; auto.
    destruct (Hmine_pid i l Hi') as [Ei|Ei]; destruct (Hmine_pid j l Hj') as [Ej|Ej];
      rewrite Ei in Ej; unfold pid_lock, obj_lock in Ej; inversion Ej; auto.
  - apply api_pool_ok.
  - destruct HI; assumption.
  - apply well_typed_refs_typed. apply InvF_wt. destruct HI; assumption.
  - unfold WInv. apply CrashGeneralT.Inv_typed. exact HI.
  - (* the deleters' pids are bound in the start world *)
    intros i Hi. unfold J. destruct (nth_error calls i) as [cl|] eqn:E; [|exact I].
    destruct cl; try exact I. apply Hbound. eapply nth_error_In; eauto.
  - (* complete runs keep the files well typed *)
    intros i p w w1 r Hp HW Hl Hrun. destruct (Hnth i p Hp) as (cl & E & -> & Hcl).
    destruct (run_as_Solo _ _ _ _ _ _ Hrun) as [hs Hs]. unfold WInv in *.
    eapply (CrashGeneralT.solo_call_typed i cl (pidat i)); eauto.
    destruct Hcl as [->| ->]; [left; reflexivity|right; eexists; reflexivity].
  - (* a solo run of thread i keeps what thread j's reads rely on *)
    intros i j p w hs ws m Hij Hp Hj HW Hl HJi HJj Hsolo. unfold J in *.
    destruct (nth_error calls j) as [clj|] eqn:Ej; [|exact I].
    destruct clj; try exact I. rename p0 into qj.
    destruct (Hnth i p Hp) as (cl & E & -> & Hcl).
    assert (Hqj : pidat j = qj) by (apply (Hpid j _ Ej)).
    assert (Hne : qj <> pidat i).
    { intros Eq. apply Hij. apply Hinj.
      - apply nth_error_Some. congruence.
      - apply nth_error_Some. congruence.
      - congruence. }
    destruct HJj as (B1 & (l & B2 & B3) & B4).
    destruct (CrashGeneralT.solo_call_keeps_other i cl (pidat i) qj w hs ws m) as (_ & K1 & K2); auto.
    { destruct Hcl as [->| ->]; [left; reflexivity|right; eexists; reflexivity]. }
    { intros k Hk. rewrite B1 in Hk. inversion Hk; subst k. eauto. }
    destruct (K2 c B1) as [K3 K4].
    split; [rewrite K1; exact B1|]. split; [exact K3|].
    destruct (lookup (AObj c) (fs w)) as [x|] eqn:Ex; [|congruence].
    rewrite (K4 x eq_refl). discriminate.
  - (* the conclusion, over [seq_run] *)
    split; [exact H1|]. split; [exact H2|]. exists w', rs.
    cbv zeta in *. destruct H3 as (N1 & N2 & N3 & N4 & N5).
    assert (N2' : forall i, In i (entry_order (td_entry calls) sched) <-> i < length calls).
    { intros i. rewrite <- Hlen. apply N2. }
    split; [exact N1|]. split; [exact N2'|].
    split; [|split; [exact N4 | exact N5]].
    rewrite <- seq_runp_seq_run; [exact N3|]. intros i Hi. apply N2' in Hi. exact Hi.
Qed.

(* the deleters alone: N delete_object calls of pairwise distinct pids bound to one cid *)
Corollary one_cid_deleters_linearizable :
  forall (c : cid) (pids : list pid) (w0 : world) (sched : list nat) (cf : cfg),
    let calls := map CDelete pids in
    Spec.Inv w0 -> NoDup pids ->
    (forall q, In q pids -> boundto q c (fs w0)) ->
    exec (map api calls) sched (init_cfg (map api calls) w0) = Some cf ->
    stuck (map api calls) cf ->
    finished (map api calls) cf = true /\ locks (snd cf) = [] /\
    exists (w' : world) (rs : list (outcome value)),
      let ord := entry_order (td_entry calls) sched in
      NoDup ord /\ (forall i, In i ord <-> i < length pids) /\
      seq_run calls ord w0 = Some (w', rs) /\
      snd cf = w' /\
      map (thread_result (map api calls) cf) ord = map Some rs.
Proof.
  intros c pids w0 sched cf calls HI Hnd Hb He Hst.
  assert (El : length calls = length pids) by (unfold calls; apply map_length).
  rewrite <- El.
  apply (one_cid_taggers_deleters_linearizable c calls w0 sched cf); auto.
  - intros cl Hcl. unfold calls in Hcl. apply in_map_iff in Hcl. destruct Hcl as (q & <- & _). exact I.
  - unfold calls. rewrite map_map. simpl. rewrite map_id. exact Hnd.
  - intros q Hq. apply Hb. unfold calls in Hq. apply in_map_iff in Hq.
    destruct Hq as (q' & E & Hq'). inversion E; subst. exact Hq'.
Qed.
