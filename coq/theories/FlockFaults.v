(* FlockFaults.v — properties C08 / C13 (F2): the failing FILE LOCK.  Bracket.v proves deadlock
   freedom and "no lock is left" for every pool, every schedule and every pattern of I/O failures
   at the [Bracket.faultable] operations, i.e. the fault sites of [Sched.is_site] MINUS
   [Acquire LFile _]; FaultGeneral.v's [fault_returns_no_lock] inherits the exclusion as the
   hypothesis [noflock].  This file removes the exclusion: the flock itself may fail, too.

   What happens when flock fails.  In [update_refs_add] / [update_refs_remove] the flock is taken
   inside [try_finally ... (funlock a)]: a failed [Acquire LFile (IDoc a)] raises OSError, the
   finaliser issues [Release LFile (IDoc a)] although the thread does not hold that lock.  The
   model's [Release] is not owner-aware: if nobody holds the lock it answers [AErr EFault], which
   [funlock] swallows (the world is unchanged); if ANOTHER thread held it, it would be taken
   away from that thread — whose own [funlock] would then be answered [AErr EFault], swallowed
   again.  Neither case breaks anything that C08 states: the discipline below tolerates both.
   (Whether the second case can arise at all for the API programs is NOT decided here: every
   flock is taken on a cid reference file by a thread that holds that cid's lock, which suggests
   it cannot, but this file neither needs nor proves that.  What the real code does — closing a
   file whose flock was never obtained releases nothing — corresponds to the first case.)

   The discipline.  [Bracket.pre], [next_h], [next_k] are kept as they are: the thread-local view
   [h] of the held locks does not depend on the answers.  A failed flock therefore leaves a
   GHOST entry (LFile, IDoc a) in the view — the thread believes it must close the file, which
   is exactly what the [with open(...)] block does — and the following [funlock] removes it.
   Only two things change with respect to Bracket.v:
     * [ans_ok]: [Acquire LFile _] and [Release LFile _] may be answered by an error;
     * [LInv]: the view and the world agree exactly on the IDENTIFIER locks (classes LObjPid,
       LRefPid, LCid, LMeta: every entry of a view is in the world, no two views share one);
       for the class LFile only "every lock of the world is in some view" is kept.
   That is enough: a thread that waits for a lock waits for a lock of the world, which is in the
   view of a thread that has not returned and that waits, if at all, for a strictly higher
   rank; and when every thread has returned all views are empty, hence so is the world.

   §2, §3 re-run Bracket.v's proof that every API program is bracketed for the relaxed [ans_ok]
   (only the flock bracket [Bal_bracket_file] has a new proof; the brackets of the identifier
   locks get the side condition cls <> LFile); §4-§6 are Bracket.v's with the weaker [LInv].
   Definitions with the same name as in Bracket.v shadow them in this file; everything that does
   not depend on [ans_ok] or [LInv] (pre, next_h, next_k, refs_typed, KInv, ...) IS Bracket.v's.

   Theorems
     [no_deadlock_no_leak_any_fault], [no_deadlock_no_leak_any_fault_stuck], [progress_any_fault],
     [gstep_terminates], [runs_to_completion_any_fault]        pools, faults at every [is_site]
     [fault_returns_no_lock_any]          single call, every [Sched.run_fault] plan, no [noflock]
     [one_off_fault_returns_no_lock_any]  its instance for [FWait k false], every k
     [C13_general_partial_any]            FaultGeneral.C13_general_partial with (F2) unconditional *)
From HS Require Import Base PyVal FS Ops Sched Spec Bracket.
From HS Require FaultGeneral.

Set Implicit Arguments.

(* ====================================================================================== *)
(* §1  admissible answers, flock included                                                  *)
(* ====================================================================================== *)

(* the answers thread i may receive for o: Bracket.v's, and an error for flock / close *)
Definition ans_ok (i : nat) (kn : knowl) (o : op) (a : ans) : Prop :=
  match o with
  | Acquire LFile _ | Release LFile _ => unit_or_err a
  | _ => Bracket.ans_ok i kn o a
  end.

Lemma ans_ok_weaken : forall i kn o a, Bracket.ans_ok i kn o a -> ans_ok i kn o a.
Proof.
  intros i kn o a H. destruct o; try exact H; destruct cls; try exact H;
    simpl in H; subst; exact I.
Qed.

(* the faults of this file: every site, flock included *)
Definition faultable (o : op) : bool := is_site o.

Lemma faultable_ans_ok : forall i kn o, faultable o = true -> ans_ok i kn o (AErr EFault).
Proof.
  intros i kn o H. destruct o; simpl in *; try discriminate; try exact I.
  destruct cls; try discriminate. exact I.
Qed.

(* ====================================================================================== *)
(* §2  the discipline predicate                                                            *)
(* ====================================================================================== *)

(* ====================================================================================== *)
(* §2  the discipline predicate                                                            *)
(* ====================================================================================== *)

Fixpoint Br {A} (i : nat) (m : prog A) (h : list lock) (kn : knowl)
         (Q : A -> list lock -> knowl -> Prop) : Prop :=
  match m with
  | Ret a => Q a h kn
  | Bad => False
  | Vis o k => pre i h kn o /\ forall a, ans_ok i kn o a -> Br i (k a) (next_h h o) (next_k kn o a) Q
  end.

Lemma Br_mono : forall A i (m : prog A) h kn (Q Q' : A -> list lock -> knowl -> Prop),
  Br i m h kn Q -> (forall a h' kn', Q a h' kn' -> Q' a h' kn') -> Br i m h kn Q'.
Proof.
  induction m as [a|o k IH|]; simpl; intros h kn Q Q' H HQ; auto.
  destruct H as [Hp H]. split; auto. intros a Ha. eapply IH; eauto.
Qed.

Lemma Br_bind : forall A B i (m : prog A) (f : A -> prog B) h kn Q,
  Br i m h kn (fun a h' kn' => Br i (f a) h' kn' Q) -> Br i (bind m f) h kn Q.
Proof.
  induction m as [a|o k IH|]; simpl; intros f h kn Q H; auto.
  destruct H as [Hp H]. split; auto.
Qed.

Lemma Br_mbind : forall A B i (m : M A) (f : A -> M B) h kn Q,
  Br i m h kn (fun r h' kn' => match r with Val a => Br i (f a) h' kn' Q | Exn e => Q (Exn e) h' kn' end) ->
  Br i (mbind m f) h kn Q.
Proof.
  intros. unfold mbind. apply Br_bind. eapply Br_mono; [exact H|].
  intros [a|e] h' kn' H'; simpl; auto.
Qed.

Lemma Br_catch : forall A i (m : M A) h kn (Q : outcome (outcome A) -> _),
  Br i m h kn (fun r h' kn' => Q (Val r) h' kn') -> Br i (catch m) h kn Q.
Proof. intros. unfold catch. apply Br_bind. eapply Br_mono; [exact H|]. simpl. auto. Qed.

Lemma Br_try_finally : forall A i (m : M A) (fin : M unit) h kn Q,
  Br i m h kn (fun r h' kn' =>
    Br i fin h' kn' (fun rf h'' kn'' => match rf with Val _ => Q r h'' kn'' | Exn e => Q (Exn e) h'' kn'' end)) ->
  Br i (try_finally m fin) h kn Q.
Proof.
  intros. unfold try_finally. apply Br_bind. eapply Br_mono; [exact H|].
  intros r h' kn' H'. simpl. apply Br_bind. eapply Br_mono; [exact H'|].
  intros [u|e] h'' kn'' H''; simpl; auto.
Qed.

(* [Bal kp i R m P]: started with locks of rank < R only, m returns with exactly the same locks
   (and, when kp = true, the same knowledge), and a returned value satisfies P *)
Definition Bal {A} (kp : bool) (i R : nat) (m : M A) (P : A -> Prop) : Prop :=
  forall h kn, lt_all R h ->
    Br i m h kn (fun r h' kn' => h' = h /\ (kp = true -> kn' = kn) /\ forall a, r = Val a -> P a).

Definition TT {A} : A -> Prop := fun _ => True.

Lemma Bal_forget : forall A kp i R (m : M A) P, Bal true i R m P -> Bal kp i R m P.
Proof.
  intros A kp i R m P H h kn Hh. eapply Br_mono; [apply H; exact Hh|]. simpl.
  intros r h' kn' (H1 & H2 & H3). repeat split; auto.
Qed.

Lemma Bal_weaken : forall A kp i R R' (m : M A) P, Bal kp i R m P -> R' <= R -> Bal kp i R' m P.
Proof. intros A kp i R R' m P H Hle h kn Hh. apply H. eapply lt_all_mono; eauto. Qed.

Lemma Bal_conseq : forall A kp i R (m : M A) (P P' : A -> Prop),
  Bal kp i R m P -> (forall a, P a -> P' a) -> Bal kp i R m P'.
Proof.
  intros A kp i R m P P' H HP h kn Hh. eapply Br_mono; [apply H; exact Hh|].
  simpl. intros r h' kn' (H1 & H2 & H3). repeat split; auto.
Qed.

Lemma Bal_TT : forall A kp i R (m : M A) P, Bal kp i R m P -> Bal kp i R m TT.
Proof. intros. eapply Bal_conseq; eauto. intros; exact I. Qed.

Lemma Bal_ret : forall A kp i R (a : A) (P : A -> Prop), P a -> Bal kp i R (ret a) P.
Proof. intros A kp i R a P H h kn _. simpl. repeat split; auto. intros a' E. inversion E; subst; auto. Qed.

Lemma Bal_raise : forall A kp i R e (P : A -> Prop), Bal kp i R (raise e) P.
Proof. intros A kp i R e P h kn _. simpl. repeat split; auto. intros a' E. discriminate. Qed.

Lemma Bal_mbind : forall A B kp i R (m : M A) (f : A -> M B) P1 P,
  Bal kp i R m P1 -> (forall a, P1 a -> Bal kp i R (f a) P) -> Bal kp i R (mbind m f) P.
Proof.
  intros A B kp i R m f P1 P Hm Hf h kn Hh. apply Br_mbind.
  eapply Br_mono; [apply Hm; exact Hh|]. simpl.
  intros [a|e] h' kn' (-> & H2 & H3).
  - eapply Br_mono; [apply Hf; auto|]. simpl.
    intros r h'' kn'' (-> & H2' & H3'). repeat split; auto.
    intros Hk. rewrite (H2' Hk). auto.
  - repeat split; auto. intros a E; discriminate.
Qed.

Lemma Bal_catch : forall A kp i R (m : M A) P,
  Bal kp i R m P -> Bal kp i R (catch m) (fun r => match r with Val a => P a | Exn _ => True end).
Proof.
  intros A kp i R m P Hm h kn Hh. apply Br_catch.
  eapply Br_mono; [apply Hm; exact Hh|]. simpl.
  intros r h' kn' (-> & H2 & H3). repeat split; auto.
  intros a E. inversion E; subst. destruct a; auto.
Qed.

Lemma Bal_catch_TT : forall A kp i R (m : M A),
  Bal kp i R m TT -> Bal kp i R (catch m) TT.
Proof. intros. eapply Bal_TT. apply Bal_catch. eassumption. Qed.

Lemma Bal_try_finally : forall A kp i R (m : M A) fin P Pf,
  Bal kp i R m P -> Bal kp i R fin Pf -> Bal kp i R (try_finally m fin) P.
Proof.
  intros A kp i R m fin P Pf Hm Hf h kn Hh. apply Br_try_finally.
  eapply Br_mono; [apply Hm; exact Hh|]. simpl.
  intros r h' kn' (-> & H2 & H3).
  eapply Br_mono; [apply Hf; exact Hh|]. simpl.
  intros [u|e] h' kn'' (-> & H2' & _); repeat split; auto;
    try (intros Hk; rewrite (H2' Hk); auto).
  intros a E; discriminate.
Qed.

(* one operation that changes neither the locks nor the knowledge: the generic leaf rule *)
Lemma Bal_vis : forall A kp i R o (k : ans -> M A) (P : A -> Prop),
  (forall h kn, lt_all R h -> pre i h kn o) ->
  (forall h, next_h h o = h) ->
  (forall kn a, ans_ok i kn o a -> next_k kn o a = kn) ->
  (forall kn a, ans_ok i kn o a -> Bal kp i R (k a) P) ->
  Bal kp i R (Vis o k) P.
Proof.
  intros A kp i R o k P Hpre Hh Hk Hc h kn Hlt. simpl. split; [auto|].
  intros a Ha. rewrite Hh, (Hk _ _ Ha). eapply Hc; eauto.
Qed.

(* the bracket shapes *)
Lemma remove1_head : forall (l : lock) h, remove1 lock_eqb l (l :: h) = h.
Proof. intros. simpl. rewrite lock_eqb_refl. reflexivity. Qed.

(* an identifier lock (any class but LFile) is answered AUnit, as in Bracket.v *)
Ltac lock_ans :=
  let a := fresh "a" in let Ha := fresh "Ha" in let E := fresh "E" in
  intros a Ha;
  assert (E : a = AUnit) by
    (revert Ha; repeat match goal with c : lockcls |- _ => destruct c end;
     try congruence; simpl; auto; fail);
  subst a; clear Ha.

Lemma Bal_bracket_in : forall A kp i R cls x (body : M A) P,
  cls <> LFile ->
  R <= rank cls -> Bal kp i (S (rank cls)) body P ->
  Bal kp i R (try_finally (acquire cls x ;;; body) (release cls x)) P.
Proof.
  intros A kp i R cls x body P NF HR Hb h kn Hh. apply Br_try_finally. apply Br_mbind.
  cbn [acquire Br]. split; [simpl; eapply lt_all_mono; eauto|].
  lock_ans. cbn [Br ret next_h next_k].
  eapply Br_mono; [apply Hb; apply lt_all_cons; [lia | eapply lt_all_mono; [|exact Hh]; lia]|].
  cbn beta. intros r h' kn' (-> & H2 & H3).
  assert (Hrel : forall r' : outcome A, (forall a, r' = Val a -> P a) ->
            Br i (release cls x) ((cls, x) :: h) kn'
            (fun rf h'' kn'' => match rf with
                                | Val _ => h'' = h /\ (kp = true -> kn'' = kn) /\ (forall a, r' = Val a -> P a)
                                | Exn e => h'' = h /\ (kp = true -> kn'' = kn) /\ (forall a : A, Exn e = Val a -> P a)
                                end)).
  { intros r' Hr'. cbn [release Br]. split; [left; reflexivity|]. lock_ans.
    cbn [Br ret next_h next_k]. rewrite remove1_head. auto. }
  destruct r; apply Hrel; auto; intros a E; discriminate.
Qed.

(* two locks taken in rank order, released in the reverse order by one finaliser *)
Lemma Bal_bracket_in2 : forall A kp i R c1 x1 c2 x2 (body : M A) P,
  c1 <> LFile -> c2 <> LFile ->
  R <= rank c1 -> rank c1 < rank c2 -> Bal kp i (S (rank c2)) body P ->
  Bal kp i R (try_finally (acquire c1 x1 ;;; acquire c2 x2 ;;; body)
                          (release c2 x2 ;;; release c1 x1)) P.
Proof.
  intros A kp i R c1 x1 c2 x2 body P NF1 NF2 HR H12 Hb h kn Hh. apply Br_try_finally. apply Br_mbind.
  cbn [acquire Br]. split; [simpl; eapply lt_all_mono; eauto|].
  lock_ans. cbn [Br ret next_h next_k]. apply Br_mbind. cbn [acquire Br].
  split; [simpl; apply lt_all_cons; [exact H12 | eapply lt_all_mono; [|exact Hh]; lia]|].
  lock_ans. cbn [Br ret next_h next_k].
  eapply Br_mono.
  { apply Hb. apply lt_all_cons; [lia|]. apply lt_all_cons; [lia|].
    eapply lt_all_mono; [|exact Hh]. lia. }
  cbn beta. intros r h' kn' (-> & H2 & H3).
  apply Br_mbind. cbn [release Br]. split; [left; reflexivity|].
  lock_ans. cbn [Br ret next_h next_k]. rewrite remove1_head.
  split; [left; reflexivity|].
  lock_ans. cbn [Br ret next_h next_k]. rewrite remove1_head.
  destruct r; repeat split; auto; intros a E; discriminate.
Qed.

Lemma Bal_bracket_out : forall A kp i R cls x (body : M A) P,
  cls <> LFile ->
  R <= rank cls -> Bal kp i (S (rank cls)) body P ->
  Bal kp i R (acquire cls x ;;; try_finally body (release cls x)) P.
Proof.
  intros A kp i R cls x body P NF HR Hb h kn Hh. apply Br_mbind.
  cbn [acquire Br]. split; [simpl; eapply lt_all_mono; eauto|].
  lock_ans. cbn [Br ret next_h next_k]. apply Br_try_finally.
  eapply Br_mono; [apply Hb; apply lt_all_cons; [lia | eapply lt_all_mono; [|exact Hh]; lia]|].
  cbn beta. intros r h' kn' (-> & H2 & H3).
  cbn [release Br]. split; [left; reflexivity|]. lock_ans.
  cbn [Br ret next_h next_k]. rewrite remove1_head. auto.
Qed.

(* flock ... close.  NEW with respect to Bracket.v: flock may fail.  The view then carries the
   ghost entry (LFile, IDoc a) until the close; the close may be answered by an error. *)
Lemma Bal_bracket_file : forall A kp i R a (body : M A) P,
  R <= 3 -> Bal kp i 4 body P ->
  Bal kp i R (try_finally (unit_op (Acquire LFile (IDoc a)) ;;; body) (funlock a)) P.
Proof.
  intros A kp i R a body P HR Hb h kn Hh. apply Br_try_finally. apply Br_mbind.
  cbn [unit_op Br]. split; [simpl; eapply lt_all_mono; eauto|].
  assert (Hclose : forall (r : outcome A) kn', (kp = true -> kn' = kn) -> (forall a0, r = Val a0 -> P a0) ->
            Br i (funlock a) ((LFile, IDoc a) :: h) kn'
              (fun rf h'' kn'' => match rf with
                 | Val _ => h'' = h /\ (kp = true -> kn'' = kn) /\ (forall a0, r = Val a0 -> P a0)
                 | Exn e => h'' = h /\ (kp = true -> kn'' = kn) /\ (forall a0 : A, Exn e = Val a0 -> P a0)
                 end)).
  { intros r kn' Hk HP. cbn [funlock Br]. split; [left; reflexivity|].
    intros x Hx. cbn [next_h next_k]. rewrite remove1_head.
    destruct x; simpl in Hx; try contradiction; simpl; auto. }
  intros x Hx. destruct x; simpl in Hx; try contradiction; cbn [Br ret raise next_h next_k].
  - (* flock obtained *)
    eapply Br_mono; [apply Hb; apply lt_all_cons; [simpl; lia | eapply lt_all_mono; [|exact Hh]; lia]|].
    cbn beta. intros r h' kn' (-> & H2 & H3). apply Hclose; auto.
  - (* flock failed: OSError, the file is closed all the same *)
    apply Hclose; auto. intros a0 E; discriminate.
Qed.

(* ====================================================================================== *)
(* §3  every API program is bracketed                                                      *)
(* ====================================================================================== *)

Section API.
  Variable i : nat.

  Local Ltac leaf_ans :=
    let kn := fresh "kn" in let a := fresh "a" in let Ha := fresh "Ha" in
    intros kn a Ha; destruct a; simpl in Ha; try contradiction; try discriminate.

  Lemma Bal_probe : forall kp R a, Bal kp i R (probe a) TT.
  Proof.
    intros. apply Bal_vis; [intros; exact I | reflexivity | reflexivity |].
    leaf_ans. apply Bal_ret. exact I.
  Qed.

  Lemma Bal_peek : forall kp R cls x, Bal kp i R (peek cls x) TT.
  Proof.
    intros. apply Bal_vis; [intros; exact I | reflexivity | reflexivity |].
    leaf_ans. apply Bal_ret. exact I.
  Qed.

  Lemma Bal_held : forall kp R cls x, Bal kp i R (held cls x) TT.
  Proof.
    intros. apply Bal_vis; [intros; exact I | reflexivity | reflexivity |].
    leaf_ans. apply Bal_ret. exact I.
  Qed.

  Definition read_post (a : addr) (c : fcontent) : Prop :=
    match a with
    | APidRef _ => has_kind c KCid
    | ACidRef _ => has_kind c KLines
    | _ => True
    end.

  Lemma Bal_read : forall kp R a, Bal kp i R (read a) (read_post a).
  Proof.
    intros. apply Bal_vis; [intros; exact I | reflexivity | reflexivity |].
    leaf_ans; [apply Bal_ret; exact Ha | apply Bal_raise].
  Qed.

  Lemma Bal_size_lines : forall kp R a, Bal kp i R (size_lines a) TT.
  Proof.
    intros. apply Bal_vis; [intros; exact I | reflexivity | reflexivity |].
    leaf_ans; [apply Bal_ret; exact I | apply Bal_raise].
  Qed.

  Lemma Bal_listdir : forall kp R p, Bal kp i R (listdir p) (Forall nontmp).
  Proof.
    intros. apply Bal_vis; [intros; exact I | reflexivity | reflexivity |].
    leaf_ans; [apply Bal_ret; exact Ha | apply Bal_raise].
  Qed.

  Lemma Bal_rewrite_write : forall kp R a p, mine i a -> Bal kp i R (rewrite_write a p) TT.
  Proof.
    intros. apply Bal_vis; [intros; assumption | reflexivity | reflexivity |].
    leaf_ans; [apply Bal_ret; exact I | apply Bal_raise].
  Qed.

  Lemma Bal_unit_op : forall kp R o,
    (forall h kn, lt_all R h -> pre i h kn o) ->
    (forall h, next_h h o = h) ->
    (forall kn a, next_k kn o a = kn) ->
    (forall kn a, ans_ok i kn o a -> unit_or_err a) ->
    Bal kp i R (unit_op o) TT.
  Proof.
    intros kp R o H1 H2 H3 H4. apply Bal_vis; auto.
    intros kn a Ha. apply H4 in Ha. destruct a; simpl in Ha; try contradiction;
      [apply Bal_ret; exact I | apply Bal_raise].
  Qed.

  Lemma Bal_swallow_op : forall kp R o,
    (forall h kn, lt_all R h -> pre i h kn o) ->
    (forall h, next_h h o = h) ->
    (forall kn a, next_k kn o a = kn) ->
    (forall kn a, ans_ok i kn o a -> unit_or_err a) ->
    Bal kp i R (swallow_op o) TT.
  Proof.
    intros kp R o H1 H2 H3 H4. apply Bal_vis; auto.
    intros kn a Ha. apply H4 in Ha. destruct a; simpl in Ha; try contradiction;
      apply Bal_ret; exact I.
  Qed.

  (* a fresh temp file outside refs/tmp: the knowledge is not concerned *)
  Lemma Bal_mktmp_bind : forall A kp R ar init (f : addr -> M A) P,
    (forall n, Bal kp i R (f (ATmp ar i n)) P) ->
    Bal kp i R (mbind (mktmp ar init) f) P.
  Proof.
    intros A kp R ar init f P H h kn Hh. apply Br_mbind. simpl. split; [exact I|].
    intros a Ha. destruct a; simpl in Ha; try contradiction; simpl.
    - destruct Ha as [[n ->] _]. apply H. exact Hh.
    - repeat split; auto. intros x E; discriminate.
  Qed.
End API.

Global Hint Resolve Bal_probe Bal_peek Bal_held Bal_read Bal_size_lines Bal_listdir
  Bal_rewrite_write : fbal.
Global Hint Extern 1 (nontmp _) => exact I : fbal.
Global Hint Extern 1 (mine _ _) => first [exact I | reflexivity | apply nontmp_mine; assumption] : fbal.
Global Hint Extern 1 (_ <= _) => simpl; lia : fbal.

(* side conditions of a neutral operation *)
Ltac op_side :=
  first
    [ apply Bal_unit_op | apply Bal_swallow_op ];
  [ intros; simpl; auto with fbal
  | reflexivity
  | intros; simpl; first [reflexivity | apply kdrop_nontmp; auto with fbal]
  | let kn := fresh in let a := fresh in let H := fresh in
    intros kn a H; first [exact H | simpl in H; subst; exact I] ].

Ltac bal :=
  lazymatch goal with
  | |- Bal _ _ _ (ret _) _ =>
      apply Bal_ret; first [exact I | solve [repeat constructor; auto with fbal] | auto with fbal]
  | |- Bal _ _ _ (raise _) _ => apply Bal_raise
  | |- Bal _ _ _ (if ?b then _ else _) _ => destruct b; bal
  | |- Bal _ _ _ (match ?x with _ => _ end) _ => destruct x; bal
  | |- Bal _ _ _ (try_finally (mbind (unit_op (Acquire LFile (IDoc ?a))) _) (funlock ?a)) _ =>
      apply Bal_bracket_file; [auto with fbal | bal]
  | |- Bal _ _ _ (try_finally (mbind (acquire ?c1 ?x1) (fun _ => mbind (acquire ?c2 ?x2) _))
                              (mbind (release ?c2 ?x2) (fun _ => release ?c1 ?x1))) _ =>
      apply Bal_bracket_in2; [discriminate | discriminate | auto with fbal | simpl; lia | cbn [rank]; bal]
  | |- Bal _ _ _ (try_finally (mbind (acquire ?c ?x) _) (release ?c ?x)) _ =>
      apply Bal_bracket_in; [discriminate | auto with fbal | cbn [rank]; bal]
  | |- Bal _ _ _ (mbind (acquire ?c ?x) (fun _ => try_finally _ (release ?c ?x))) _ =>
      apply Bal_bracket_out; [discriminate | auto with fbal | cbn [rank]; bal]
  | |- Bal _ _ _ (mbind _ _) _ =>
      first [ eapply Bal_mbind; [solve [eauto 4 with fbal] | intros ? ?; bal]
            | eapply Bal_mbind with (P1 := Forall nontmp); [bal | intros ? ?; bal]
            | eapply Bal_mbind with (P1 := TT); [bal | intros ? ?; bal] ]
  | |- Bal _ _ _ (catch _) _ => apply Bal_catch_TT; bal
  | |- Bal _ _ _ (try_finally _ _) _ => eapply Bal_try_finally; bal
  | |- Bal _ _ _ (unit_op _) _ => first [solve [op_side] | idtac]
  | |- Bal _ _ _ (swallow_op _) _ => first [solve [op_side] | idtac]
  | |- _ => first [solve [eauto 4 with fbal] | solve [eapply Bal_TT; eauto 4 with fbal] | idtac]
  end.

Section API2.
  Variable i : nat.

  Lemma Bal_read_cid : forall kp R p, Bal kp i R (read_cid (APidRef p)) TT.
  Proof.
    intros. unfold read_cid. eapply Bal_mbind; [apply Bal_read|].
    intros c Hc. destruct c; simpl in Hc; try contradiction. bal.
  Qed.

  Lemma Bal_read_lines : forall kp R c, Bal kp i R (read_lines (ACidRef c)) TT.
  Proof.
    intros. unfold read_lines. eapply Bal_mbind; [apply Bal_read|].
    intros x Hc. destruct x; simpl in Hc; try contradiction; bal.
  Qed.
  Hint Resolve Bal_read_cid Bal_read_lines : fbal.

  Lemma Bal_is_in_refs : forall kp R p c, Bal kp i R (is_in_refs p (ACidRef c)) TT.
  Proof. intros. unfold is_in_refs. bal. Qed.
  Hint Resolve Bal_is_in_refs : fbal.

  Lemma Bal_find_object : forall kp R p, Bal kp i R (find_object p) TT.
  Proof. intros. unfold find_object. bal. Qed.
  Hint Resolve Bal_find_object : fbal.

  Lemma Bal_open_object : forall kp R c, Bal kp i R (open_object c) TT.
  Proof. intros. unfold open_object. bal. Qed.
  Hint Resolve Bal_open_object : fbal.

  Lemma Bal_retrieve_object : forall kp R p, Bal kp i R (retrieve_object p) TT.
  Proof. intros. unfold retrieve_object. bal. Qed.

  Lemma Bal_get_hex_digest : forall kp R p, Bal kp i R (get_hex_digest p) TT.
  Proof. intros. unfold get_hex_digest. bal. Qed.
  Hint Resolve Bal_retrieve_object Bal_get_hex_digest : fbal.

  Lemma Bal_rename_for_deletion : forall kp R a, nontmp a -> Bal kp i R (rename_for_deletion a) nontmp.
  Proof.
    intros. unfold rename_for_deletion.
    eapply Bal_mbind; [op_side|]. intros ? ?. bal.
  Qed.
  Hint Resolve Bal_rename_for_deletion : fbal.

  Lemma Bal_delete_marked : forall kp R l, Forall nontmp l -> Bal kp i R (delete_marked l) TT.
  Proof.
    induction l as [|a l IH]; intros Hl; simpl.
    - bal.
    - inversion Hl; subst. eapply Bal_mbind; [op_side|]. intros. apply IH. assumption.
  Qed.
  Hint Resolve Bal_delete_marked : fbal.

  Lemma Bal_update_refs_remove : forall kp R c p, R <= 3 ->
    Bal kp i R (update_refs_remove (ACidRef c) p) TT.
  Proof.
    intros. unfold update_refs_remove. bal.
  Qed.

  Lemma Bal_update_refs_add : forall kp R c p, R <= 3 ->
    Bal kp i R (update_refs_add (ACidRef c) p) TT.
  Proof.
    intros. unfold update_refs_add. bal.
  Qed.
  Hint Resolve Bal_update_refs_remove Bal_update_refs_add : fbal.

  Lemma Bal_verify_refs : forall kp R p c, Bal kp i R (verify_refs p c) TT.
  Proof. intros. unfold verify_refs. bal. Qed.

  Lemma Bal_validate : forall kp R c c', Bal kp i R (validate_and_check_cid_lock c c') TT.
  Proof. intros. unfold validate_and_check_cid_lock. bal. Qed.
  Hint Resolve Bal_verify_refs Bal_validate : fbal.

  Lemma Bal_mark_pid_refs : forall kp R p, Bal kp i R (mark_pid_refs p) (Forall nontmp).
  Proof.
    intros. unfold mark_pid_refs.
    eapply Bal_mbind; [apply Bal_catch; apply Bal_rename_for_deletion; exact I|].
    intros [d|e] Hd; apply Bal_ret; auto.
  Qed.

  Lemma Bal_remove_pid_and_handle_cid : forall kp R p c, R <= 3 ->
    Bal kp i R (remove_pid_and_handle_cid p c) (Forall nontmp).
  Proof.
    intros. unfold remove_pid_and_handle_cid.
    eapply Bal_mbind with (P1 := fun r => match r with Val l => Forall nontmp l | Exn _ => True end).
    - apply Bal_catch. bal.
    - intros [l|e] Hl; apply Bal_ret; auto.
  Qed.
  Hint Resolve Bal_mark_pid_refs Bal_remove_pid_and_handle_cid : fbal.

  Lemma Forall_app_intro : forall (P : addr -> Prop) l1 l2, Forall P l1 -> Forall P l2 -> Forall P (l1 ++ l2).
  Proof. intros. apply Forall_app. split; assumption. Qed.
  Hint Resolve Forall_app_intro : fbal.

  Lemma Bal_untag_object : forall kp R p c, R <= 3 -> Bal kp i R (untag_object p c) TT.
  Proof. intros. unfold untag_object. bal. Qed.
  Hint Resolve Bal_untag_object : fbal.

  Lemma Bal_write_chunks : forall kp R t n, mine i t -> Bal kp i R (write_chunks t n) TT.
  Proof.
    induction n as [|n IH]; intros Ht; simpl.
    - bal.
    - eapply Bal_mbind; [op_side|]. intros ? ?. apply IH. assumption.
  Qed.
  Hint Resolve Bal_write_chunks : fbal.

  Lemma Bal_open_source : forall kp R s, Bal kp i R (open_source s) TT.
  Proof. intros. unfold open_source. bal. Qed.
  Hint Resolve Bal_open_source : fbal.

  Lemma Bal_delete_object_file : forall kp R c, Bal kp i R (delete_object_file c) TT.
  Proof. intros. unfold delete_object_file. bal. Qed.
  Hint Resolve Bal_delete_object_file : fbal.

  Lemma Bal_verify_object : forall kp R g ar n sz ck, ar <> ArRefs ->
    Bal kp i R (verify_object g (ATmp ar i n) sz ck) TT.
  Proof. intros. unfold verify_object. destruct ar; try congruence; bal. Qed.
  Hint Resolve Bal_verify_object : fbal.

  Lemma Bal_move_and_get_checksums : forall kp R p b n sz ck,
    Bal kp i R (move_and_get_checksums p b n sz ck) TT.
  Proof.
    intros. unfold move_and_get_checksums. apply Bal_mktmp_bind. intros n0.
    assert (ArObj <> ArRefs) by discriminate.
    bal.
  Qed.
  Hint Resolve Bal_move_and_get_checksums : fbal.

  (* ---- the tagging path: knowledge about the two reference temp files is needed ---- *)

  Lemma Br_of_Bal : forall A kp R (m : M A) P h kn,
    Bal kp i R m P -> lt_all R h -> Br i m h kn (fun _ h' _ => h' = h).
  Proof. intros. eapply Br_mono; [apply H; assumption|]. simpl. tauto. Qed.

  Lemma Br_mbind_Bal : forall A B R (m : M A) (f : A -> M B) P h kn Q,
    Bal true i R m P -> lt_all R h ->
    (forall a, P a -> Br i (f a) h kn Q) -> (forall e, Q (Exn e) h kn) ->
    Br i (mbind m f) h kn Q.
  Proof.
    intros A B R m f P h kn Q Hm Hh Hf He. apply Br_mbind.
    eapply Br_mono; [apply Hm; exact Hh|]. simpl.
    intros [a|e] h' kn' (-> & H2 & H3); rewrite (H2 eq_refl); auto.
  Qed.

  Lemma Bal_false_intro : forall A R (m : M A),
    (forall h kn, lt_all R h -> Br i m h kn (fun _ h' _ => h' = h)) -> Bal false i R m TT.
  Proof.
    intros A R m H h kn Hh. eapply Br_mono; [apply H; exact Hh|]. simpl.
    intros r h' kn' ->. repeat split; auto. discriminate.
  Qed.

  Lemma Br_write_refs_tmp : forall B content k (f : addr -> M B) h kn Q,
    kind_of content = Some k ->
    (forall n, (forall k', ~ In (ATmp ArRefs i n, k') kn) ->
               Br i (f (ATmp ArRefs i n)) h ((ATmp ArRefs i n, k) :: kn) Q) ->
    (forall e, Q (Exn e) h kn) ->
    Br i (mbind (write_refs_tmp content) f) h kn Q.
  Proof.
    intros B content k f h kn Q Hk Hf He. unfold write_refs_tmp.
    apply Br_mbind. apply Br_mbind. cbn [mktmp Br]. split; [exact I|].
    intros a Ha. destruct a; simpl in Ha; try contradiction.
    - destruct Ha as [[n ->] Hfresh]. cbn [Br ret next_h next_k]. apply Br_mbind.
      cbn [unit_op Br]. split; [simpl; eauto|].
      intros a Ha. destruct a; simpl in Ha; try contradiction; cbn [Br ret raise next_h next_k].
      + unfold kset. rewrite Hk. rewrite kdrop_absent by exact Hfresh. apply Hf. exact Hfresh.
      + apply He.
    - cbn [Br raise next_h next_k]. apply He.
  Qed.

  Lemma Br_rename_ref : forall B s d k (f : unit -> M B) h kn Q,
    mine i s -> In (s, k) kn ->
    match d, k with APidRef _, KCid => True | ACidRef _, KLines => True | _, _ => False end ->
    Br i (f tt) h (kdrop s kn) Q ->
    (forall e, Q (Exn e) h (kdrop s kn)) ->
    Br i (mbind (unit_op (Rename s d)) f) h kn Q.
  Proof.
    intros B s d k f h kn Q Hs Hin Hd Hf He. apply Br_mbind. cbn [unit_op Br]. split.
    - simpl. split; [exact Hs|]. destruct d, k; try contradiction; exact Hin.
    - intros a Ha. destruct a; simpl in Ha; try contradiction; cbn [Br ret raise next_h next_k]; auto.
  Qed.

  Lemma Bal_store_refs_body : forall R p c, R <= 3 -> Bal false i R (store_refs_body p c) TT.
  Proof.
    intros R p c HR. apply Bal_false_intro. intros h kn Hh. unfold store_refs_body.
    eapply Br_mbind_Bal; [op_side | exact Hh | intros _ _ | intros; reflexivity].
    eapply Br_mbind_Bal; [op_side | exact Hh | intros _ _ | intros; reflexivity].
    eapply Br_mbind_Bal with (P := TT); [unfold and_sc; bal | exact Hh | intros c1 _ | intros; reflexivity].
    destruct c1.
    { eapply (@Br_of_Bal _ true R _ TT); [bal | exact Hh]. }
    eapply Br_mbind_Bal with (P := TT); [unfold and_sc, notm; bal | exact Hh | intros c2 _ | intros; reflexivity].
    destruct c2.
    { reflexivity. }
    eapply Br_mbind_Bal with (P := TT); [unfold and_sc, notm; bal | exact Hh | intros c3 _ | intros; reflexivity].
    destruct c3.
    - eapply Br_write_refs_tmp; [reflexivity | | intros; reflexivity].
      intros n Hn.
      eapply Br_rename_ref with (k := KCid); [reflexivity | left; reflexivity | exact I | | intros; reflexivity].
      eapply (@Br_of_Bal _ false R _ TT); [bal | exact Hh].
    - eapply Br_write_refs_tmp; [reflexivity | | intros; reflexivity].
      intros n1 Hn1.
      eapply Br_write_refs_tmp; [reflexivity | | intros; reflexivity].
      intros n2 Hn2.
      assert (Hne : ATmp ArRefs i n1 <> ATmp ArRefs i n2).
      { intros E. apply (Hn2 KCid). rewrite <- E. left. reflexivity. }
      eapply Br_rename_ref with (k := KCid);
        [reflexivity | right; left; reflexivity | exact I | | intros; reflexivity].
      eapply Br_rename_ref with (k := KLines);
        [reflexivity | | exact I | | intros; reflexivity].
      + apply kdrop_In_keep; [left; reflexivity | congruence].
      + eapply (@Br_of_Bal _ false R _ TT); [bal | exact Hh].
  Qed.
  Hint Resolve Bal_store_refs_body : fbal.

  Lemma Bal_tag_object : forall R p c, R <= 1 -> Bal false i R (tag_object p c) TT.
  Proof.
    intros R p c HR. apply Bal_false_intro. intros h kn Hh. unfold tag_object.
    apply Br_try_finally. apply Br_mbind. cbn [acquire Br]. split.
    { simpl. eapply lt_all_mono; [|exact Hh]. simpl. lia. }
    intros a ->. cbn [Br ret next_h next_k]. apply Br_mbind. cbn [acquire Br]. split.
    { simpl. apply lt_all_cons; [simpl; lia|]. eapply lt_all_mono; [|exact Hh]. simpl. lia. }
    intros a ->. cbn [Br ret next_h next_k].
    assert (Hh2 : lt_all 3 ((LCid, ICid c) :: (LRefPid, IPid p) :: h)).
    { apply lt_all_cons; [simpl; lia|]. apply lt_all_cons; [simpl; lia|].
      eapply lt_all_mono; [|exact Hh]. lia. }
    eapply Br_mono.
    { eapply (@Br_of_Bal _ false 3 _ TT); [|exact Hh2]. bal. }
    cbn beta. intros r h' kn' ->.
    apply Br_mbind. cbn [release Br]. split; [left; reflexivity|].
    intros a ->. cbn [Br ret next_h next_k]. rewrite remove1_head.
    split; [left; reflexivity|].
    intros a ->. cbn [Br ret next_h next_k]. rewrite remove1_head.
    destruct r; reflexivity.
  Qed.
  Hint Resolve Bal_tag_object : fbal.

  Lemma Bal_store_object : forall p s b n sz ck, Bal false i 0 (store_object p s b n sz ck) TT.
  Proof. intros. unfold store_object. bal. Qed.

  (* ---- metadata and deletion ---- *)

  Lemma Bal_probe_all : forall kp R l, Forall nontmp l -> Bal kp i R (probe_all l) (Forall nontmp).
  Proof.
    induction l as [|a l IH]; intros Hl; simpl.
    - bal.
    - inversion Hl; subst.
      eapply Bal_mbind; [apply Bal_probe|]. intros b _.
      eapply Bal_mbind; [apply IH; assumption|]. intros r Hr.
      apply Bal_ret. destruct b; auto.
  Qed.
  Hint Resolve Bal_probe_all : fbal.

  Lemma Bal_bracket_out_bind : forall A B kp R cls x (body : M A) (f : A -> M B) P1 P,
    cls <> LFile ->
    R <= rank cls -> Bal kp i (S (rank cls)) body P1 ->
    (forall d, P1 d -> Bal kp i R (f d) P) ->
    Bal kp i R (acquire cls x ;;; (d <- try_finally body (release cls x) ;; f d)) P.
  Proof.
    intros A B kp R cls x body f P1 P NF HR Hb Hf h kn Hh. apply Br_mbind.
    cbn [acquire Br]. split; [simpl; eapply lt_all_mono; eauto|].
    lock_ans. cbn [Br ret next_h next_k]. apply Br_mbind. apply Br_try_finally.
    eapply Br_mono; [apply Hb; apply lt_all_cons; [lia | eapply lt_all_mono; [|exact Hh]; lia]|].
    cbn beta. intros r h' kn' (-> & H2 & H3).
    cbn [release Br]. split; [left; reflexivity|]. lock_ans.
    cbn [Br ret next_h next_k]. rewrite remove1_head.
    destruct r as [d|e].
    - eapply Br_mono; [apply Hf; auto|]. simpl.
      intros r h'' kn'' (-> & H2' & H3'). repeat split; auto.
      intros Hk. rewrite (H2' Hk). auto.
    - repeat split; auto. discriminate.
  Qed.

  (* rename a document for deletion; its disappearance in the meantime is tolerated *)
  Lemma Bal_mark_one : forall kp R a, nontmp a ->
    Bal kp i R (r <- catch (rename_for_deletion a) ;;
                match r with
                | Val d => ret [d]
                | Exn EFileNotFound => ret []
                | Exn e => raise e
                end) (Forall nontmp).
  Proof.
    intros kp R a Ha.
    eapply Bal_mbind; [apply Bal_catch; apply Bal_rename_for_deletion; exact Ha|].
    intros [d|e] Hd; [apply Bal_ret; auto | destruct e; bal].
  Qed.

  Lemma Bal_mark_docs : forall kp R l, R <= 3 -> Forall nontmp l ->
    Bal kp i R (mark_docs l) (Forall nontmp).
  Proof.
    induction l as [|a l IH]; intros HR Hl; simpl.
    - bal.
    - inversion Hl; subst.
      eapply Bal_bracket_out_bind with (P1 := Forall nontmp); [discriminate | simpl; lia | cbn [rank] |].
      { eapply Bal_mbind; [apply Bal_probe|]. intros b _.
        destruct b; [apply Bal_mark_one; assumption | bal]. }
      intros d Hd.
      eapply Bal_mbind; [apply IH; assumption|]. intros r Hr.
      apply Bal_ret. apply Forall_app. split; assumption.
  Qed.
  Hint Resolve Bal_mark_docs : fbal.

  Lemma Bal_delete_metadata : forall kp R p f, R <= 3 -> Bal kp i R (delete_metadata p f) TT.
  Proof. intros. unfold delete_metadata. bal. Qed.
  Hint Resolve Bal_delete_metadata : fbal.

  Lemma Bal_delete_object : forall kp p, Bal kp i 0 (delete_object p) TT.
  Proof. intros. unfold delete_object. bal. Qed.

  Lemma Bal_delete_object_unfixed : forall kp p, Bal kp i 0 (delete_object_unfixed p) TT.
  Proof. intros. unfold delete_object_unfixed. bal. Qed.

  Lemma Bal_store_metadata : forall kp p f s v n, Bal kp i 0 (store_metadata p f s v n) TT.
  Proof.
    intros. unfold store_metadata.
    apply Bal_bracket_out; [discriminate | simpl; lia|]. cbn [rank].
    eapply Bal_mbind; [apply Bal_open_source|]. intros _ _.
    apply Bal_mktmp_bind. intros n0. bal.
  Qed.

  Lemma Bal_retrieve_metadata : forall kp p f, Bal kp i 0 (retrieve_metadata p f) TT.
  Proof. intros. unfold retrieve_metadata. bal. Qed.

  Lemma Bal_delete_object_only : forall kp R c, R <= 2 -> Bal kp i R (delete_object_only c) TT.
  Proof. intros. unfold delete_object_only. bal. Qed.
  Hint Resolve Bal_delete_object_only : fbal.

  Lemma Bal_delete_if_invalid : forall kp c sz pre ok, Bal kp i 0 (delete_if_invalid c sz pre ok) TT.
  Proof. intros. unfold delete_if_invalid. bal. Qed.

  Hint Resolve Bal_store_object Bal_delete_object Bal_delete_object_unfixed Bal_store_metadata
    Bal_retrieve_metadata Bal_delete_if_invalid : fbal.

  Theorem api_balanced : forall c, Bal false i 0 (api c) TT.
  Proof.
    intros c. destruct c; unfold api, lift_unit; bal.
  Qed.

  (* the statement in the form used by the pool invariant *)
  Theorem api_bracketed : forall c, Br i (api c) [] [] (fun _ h _ => h = []).
  Proof.
    intros c. eapply Br_of_Bal; [apply api_balanced | apply lt_all_nil].
  Qed.
End API2.

(* ====================================================================================== *)
(* §4  one operation against the real semantics                                            *)
(* ====================================================================================== *)

(* the effect of one operation, answered by a, on the lock list of the world.  NEW: a failed flock
   changes nothing; a close of a flock that is not held changes nothing *)
Definition locks_step (o : op) (a : ans) (L L' : list lock) : Prop :=
  match o with
  | Acquire cls x =>
      (a = AUnit /\ ~ In (cls, x) L /\ L' = (cls, x) :: L) \/ (cls = LFile /\ a <> AUnit /\ L' = L)
  | Release cls x =>
      (In (cls, x) L /\ L' = remove1 lock_eqb (cls, x) L) \/ (cls = LFile /\ ~ In (cls, x) L /\ L' = L)
  | _ => L' = L
  end.

(* [h] is the thread's view: its identifier locks are in the world; an LFile entry may be a ghost *)
Theorem exec_op_sound : forall i h kn o w a w',
  refs_typed (fs w) -> KInv i kn (fs w) ->
  (forall l, In l h -> fst l <> LFile -> In l (locks w)) ->
  pre i h kn o -> exec_op i o w = Some (a, w') ->
  ans_ok i kn o a /\
  refs_typed (fs w') /\
  KInv i (next_k kn o a) (fs w') /\
  (forall b, ~ mine i b -> lookup b (fs w') = lookup b (fs w)) /\
  locks_step o a (locks w) (locks w').
Proof.
  intros i h kn o w a w' Hrt Hk Hh Hpre Hex.
  assert (Hother : (forall cls x, o <> Release cls x) ->
    ans_ok i kn o a /\ refs_typed (fs w') /\ KInv i (next_k kn o a) (fs w') /\
    (forall b, ~ mine i b -> lookup b (fs w') = lookup b (fs w)) /\
    locks_step o a (locks w) (locks w')).
  { intros Hnr.
    assert (Hpre0 : pre i [] kn o).
    { destruct o; simpl in *; auto. - apply lt_all_nil. - exfalso. eapply Hnr. reflexivity. }
    destruct (@Bracket.exec_op_sound i [] kn o w a w' Hrt Hk (fun l (F : In l []) => match F with end) Hpre0 Hex)
      as (H1 & H2 & H3 & H4 & H5).
    split; [apply ans_ok_weaken; exact H1|]. split; [exact H2|]. split; [exact H3|]. split; [exact H4|].
    destruct o; simpl in H5 |- *; auto. }
  destruct o; try (apply Hother; discriminate).
  (* Release *)
  simpl in Hpre, Hex.
  destruct (memb lock_eqb (cls, i0) (locks w)) eqn:E; inversion Hex; subst; clear Hex.
  - apply memb_lock_In in E. simpl.
    split; [destruct cls; simpl; auto|]. split; [exact Hrt|]. split; [exact Hk|]. split; [auto|].
    left. split; auto.
  - apply memb_lock_notIn in E.
    assert (cls = LFile).
    { destruct cls; auto; exfalso; apply E; apply Hh; auto; simpl; discriminate. }
    subst cls. simpl. split; [exact I|]. split; [exact Hrt|]. split; [exact Hk|]. split; [auto|].
    right. repeat split; auto.
Qed.

(* ====================================================================================== *)
(* §5  pools of threads: steps with faults, the invariant, preservation                    *)
(* ====================================================================================== *)

(* the lock part of the invariant.  Identifier locks: the world holds exactly the disjoint union
   of the views.  File locks: every flock of the world is in some view (a view may carry a ghost
   entry after a failed flock, or an entry that another thread's close has taken away). *)
Definition LInv (H : nat -> list lock) (L : list lock) : Prop :=
  NoDup L /\
  (forall i, NoDup (H i)) /\
  (forall i l, In l (H i) -> fst l <> LFile -> In l L) /\
  (forall l, In l L -> exists i, In l (H i)) /\
  (forall i j l, fst l <> LFile -> In l (H i) -> In l (H j) -> i = j).

Lemma LInv_ext : forall H H' L, (forall j, H' j = H j) -> LInv H L -> LInv H' L.
Proof.
  intros H H' L E (H1 & H2 & H3 & H4 & H5). repeat split; auto.
  - intros i. rewrite E. auto.
  - intros i l. rewrite E. eauto.
  - intros l Hl. destruct (H4 l Hl) as [i Hi]. exists i. rewrite E. exact Hi.
  - intros i j l. rewrite !E. eauto.
Qed.

Lemma rank_not_lt_all : forall cls x h, lt_all (rank cls) h -> ~ In (cls, x) h.
Proof. intros cls x h H Hin. specialize (H _ Hin). simpl in H. lia. Qed.

Lemma LInv_step : forall H L L' i o a,
  LInv H L ->
  (forall cls x, o = Release cls x -> In (cls, x) (H i)) ->
  (forall cls x, o = Acquire cls x -> lt_all (rank cls) (H i)) ->
  locks_step o a L L' ->
  LInv (upd_fun H i (next_h (H i) o)) L'.
Proof.
  intros H L L' i o a HL Hrel Hacq Hst.
  assert (Hneutral : L' = L -> next_h (H i) o = H i -> LInv (upd_fun H i (next_h (H i) o)) L').
  { intros -> E. eapply LInv_ext; [|exact HL]. intros j. unfold upd_fun.
    destruct (Nat.eqb j i) eqn:Ej; auto. apply Nat.eqb_eq in Ej. subst. exact E. }
  destruct HL as (H1 & H2 & H3 & H4 & H5).
  destruct o; try (apply Hneutral; [exact Hst | reflexivity]); simpl in Hst; simpl next_h.
  - (* Acquire *)
    set (x := (cls, i0)) in *.
    assert (Hxi : ~ In x (H i)) by (apply rank_not_lt_all; eapply Hacq; reflexivity).
    destruct Hst as [(_ & Hnin & ->)|(-> & _ & ->)].
    + (* obtained *)
      repeat split.
      * constructor; auto.
      * intros j. destruct (Nat.eq_dec j i) as [->|Hne].
        -- rewrite upd_fun_eq. constructor; auto.
        -- rewrite upd_fun_neq by exact Hne. auto.
      * intros j l. destruct (Nat.eq_dec j i) as [->|Hne].
        -- rewrite upd_fun_eq. intros [<-|Hl] Hc; [left; auto | right; eauto].
        -- rewrite upd_fun_neq by exact Hne. intros Hl Hc. right. eauto.
      * intros l [<-|Hl].
        -- exists i. rewrite upd_fun_eq. left. reflexivity.
        -- destruct (H4 l Hl) as [j Hj]. exists j. destruct (Nat.eq_dec j i) as [->|Hne].
           ++ rewrite upd_fun_eq. right. exact Hj.
           ++ rewrite upd_fun_neq by exact Hne. exact Hj.
      * intros j1 j2 l Hc.
        destruct (Nat.eq_dec j1 i) as [->|Hne1]; destruct (Nat.eq_dec j2 i) as [->|Hne2];
          rewrite ?upd_fun_eq, ?(upd_fun_neq _ _ Hne1), ?(upd_fun_neq _ _ Hne2); auto.
        -- intros [<-|Hl1] Hl2; [exfalso; apply Hnin; eauto | eauto].
        -- intros Hl1 [<-|Hl2]; [exfalso; apply Hnin; eauto | eauto].
        -- eauto.
    + (* flock failed: a ghost entry in the view of thread i *)
      repeat split.
      * exact H1.
      * intros j. destruct (Nat.eq_dec j i) as [->|Hne].
        -- rewrite upd_fun_eq. constructor; auto.
        -- rewrite upd_fun_neq by exact Hne. auto.
      * intros j l. destruct (Nat.eq_dec j i) as [->|Hne].
        -- rewrite upd_fun_eq. intros [<-|Hl] Hc; [exfalso; apply Hc; reflexivity | eauto].
        -- rewrite upd_fun_neq by exact Hne. eauto.
      * intros l Hl. destruct (H4 l Hl) as [j Hj]. exists j. destruct (Nat.eq_dec j i) as [->|Hne].
        -- rewrite upd_fun_eq. right. exact Hj.
        -- rewrite upd_fun_neq by exact Hne. exact Hj.
      * intros j1 j2 l Hc.
        destruct (Nat.eq_dec j1 i) as [->|Hne1]; destruct (Nat.eq_dec j2 i) as [->|Hne2];
          rewrite ?upd_fun_eq, ?(upd_fun_neq _ _ Hne1), ?(upd_fun_neq _ _ Hne2); auto.
        -- intros [<-|Hl1] Hl2; [exfalso; apply Hc; reflexivity | eauto].
        -- intros Hl1 [<-|Hl2]; [exfalso; apply Hc; reflexivity | eauto].
        -- eauto.
  - (* Release *)
    set (x := (cls, i0)) in *.
    assert (Hxi : In x (H i)) by (apply Hrel with (cls := cls) (x := i0); reflexivity).
    assert (Hviews : forall j, NoDup (upd_fun H i (remove1 lock_eqb x (H i)) j)).
    { intros j. destruct (Nat.eq_dec j i) as [->|Hne].
      - rewrite upd_fun_eq. apply NoDup_remove1; auto.
      - rewrite upd_fun_neq by exact Hne. auto. }
    assert (Hin_old : forall j l, In l (upd_fun H i (remove1 lock_eqb x (H i)) j) -> In l (H j)).
    { intros j l. destruct (Nat.eq_dec j i) as [->|Hne].
      - rewrite upd_fun_eq. apply In_remove1.
      - rewrite upd_fun_neq by exact Hne. auto. }
    assert (Hdisj : forall j1 j2 l, fst l <> LFile ->
              In l (upd_fun H i (remove1 lock_eqb x (H i)) j1) ->
              In l (upd_fun H i (remove1 lock_eqb x (H i)) j2) -> j1 = j2).
    { intros j1 j2 l Hc Hl1 Hl2. eapply H5; eauto. }
    assert (Hkeep : forall l, In l L -> l <> x -> exists j, In l (upd_fun H i (remove1 lock_eqb x (H i)) j)).
    { intros l Hl Hlx. destruct (H4 l Hl) as [j Hj]. exists j. destruct (Nat.eq_dec j i) as [->|Hne].
      - rewrite upd_fun_eq. apply In_remove1_neq; auto.
      - rewrite upd_fun_neq by exact Hne. exact Hj. }
    destruct Hst as [(Hin & ->)|(Ecls & Hnin & ->)].
    + (* released *)
      repeat split; auto.
      * apply NoDup_remove1; auto.
      * intros j l Hl Hc. apply In_remove1_neq; [eapply H3; eauto|]. intros ->.
        destruct (Nat.eq_dec j i) as [->|Hne].
        -- rewrite upd_fun_eq in Hl. eapply NoDup_remove1_notin; [apply (H2 i) | exact Hl].
        -- rewrite upd_fun_neq in Hl by exact Hne. apply Hne. eapply H5; eauto.
      * intros l Hl. assert (Hl' := In_remove1 _ _ _ Hl).
        apply Hkeep; auto. intros ->. eapply NoDup_remove1_notin; [exact H1 | exact Hl].
    + (* the flock was not held (ghost entry, or taken away): the world is unchanged *)
      repeat split; auto.
      * intros j l Hl Hc. eapply H3; eauto.
      * intros l Hl. apply Hkeep; auto. intros ->. contradiction.
Qed.

(* what one step of thread i does, as far as the invariant is concerned *)
Definition effect (i : nat) (o : op) (w : world) (a : ans) (w' : world) : Prop :=
  forall h kn,
    refs_typed (fs w) -> KInv i kn (fs w) ->
    (forall l, In l h -> fst l <> LFile -> In l (locks w)) -> pre i h kn o ->
    ans_ok i kn o a /\
    refs_typed (fs w') /\
    KInv i (next_k kn o a) (fs w') /\
    (forall b, ~ mine i b -> lookup b (fs w') = lookup b (fs w)) /\
    locks_step o a (locks w) (locks w').

Lemma exec_effect : forall i o w a w', exec_op i o w = Some (a, w') -> effect i o w a w'.
Proof. intros i o w a w' H h kn H1 H2 H3 H4. eapply exec_op_sound; eauto. Qed.

(* a failure at ANY fault site, flock included: the world is unchanged *)
Lemma fault_effect : forall i o w, faultable o = true -> effect i o w (AErr EFault) w.
Proof.
  intros i o w Hf h kn H1 H2 H3 H4.
  split; [apply faultable_ans_ok; exact Hf|]. split; [exact H1|]. split; [|split; [auto|]].
  - destruct o; simpl; auto; apply KInv_kdrop; auto.
  - destruct o; simpl in *; try discriminate; auto.
    destruct cls; try discriminate. right. repeat split; auto. discriminate.
Qed.

Section Pools.
  Variable A : Type.
  Variable ps : list (prog A).

  Definition Qfin : A -> list lock -> knowl -> Prop := fun _ h _ => h = [].

  (* every program of the pool is bracketed, as thread number i *)
  Definition pool_ok : Prop := forall i p, nth_error ps i = Some p -> Br i p [] [] Qfin.

  Definition residual (c : cfg) (i : nat) : option (prog A) :=
    match nth_error ps i, nth_error (fst c) i with
    | Some p, Some h => resume p (rev h)
    | _, _ => None
    end.

  (* thread i's next operation fails with an I/O error: the world is unchanged, the thread
     receives the error.  EVERY fault site of Sched.is_site, flock included. *)
  Definition fault_step (c : cfg) (i : nat) : option cfg :=
    match nth_error ps i, nth_error (fst c) i with
    | Some p, Some h =>
        match resume p (rev h) with
        | Some (Vis o k) =>
            if faultable o then Some (upd_nth i (AErr EFault :: h) (fst c), snd c) else None
        | _ => None
        end
    | _, _ => None
    end.

  Inductive gstep : cfg -> cfg -> Prop :=
  | gs_norm : forall c i c', thread_step ps c i = Some c' -> gstep c c'
  | gs_fault : forall c i c', fault_step c i = Some c' -> gstep c c'.

  Inductive reachable (w0 : world) : cfg -> Prop :=
  | reach_init : reachable w0 (init_cfg ps w0)
  | reach_step : forall c c', reachable w0 c -> gstep c c' -> reachable w0 c'.

  (* no thread can take any step, normal or faulted *)
  Definition gstuck (c : cfg) : Prop := forall c', ~ gstep c c'.

  Lemma gstuck_stuck : forall c, gstuck c -> stuck ps c.
  Proof.
    intros c H i. destruct (thread_step ps c i) eqn:E; auto.
    exfalso. eapply H. eapply gs_norm. exact E.
  Qed.

  Lemma exec_reachable : forall sched w0 c c',
    reachable w0 c -> exec ps sched c = Some c' -> reachable w0 c'.
  Proof.
    induction sched as [|i s IH]; intros w0 c c' Hr He; simpl in He.
    - inversion He; subst; auto.
    - destruct (thread_step ps c i) eqn:E; [|discriminate].
      eapply IH; [|exact He]. eapply reach_step; [exact Hr|]. eapply gs_norm. exact E.
  Qed.

  Definition PInv (c : cfg) : Prop :=
    length (fst c) = length ps /\
    refs_typed (fs (snd c)) /\
    exists (H : nat -> list lock) (K : nat -> knowl),
      LInv H (locks (snd c)) /\
      (forall i, length ps <= i -> H i = []) /\
      (forall i, KInv i (K i) (fs (snd c))) /\
      (forall i, i < length ps -> exists m, residual c i = Some m /\ Br i m (H i) (K i) Qfin).

  Lemma PInv_init : forall w0, pool_ok -> locks w0 = [] -> refs_typed (fs w0) -> PInv (init_cfg ps w0).
  Proof.
    intros w0 Hok Hl Hrt. unfold PInv, init_cfg. simpl. split; [apply map_length|]. split; [exact Hrt|].
    exists (fun _ => []), (fun _ => []). split; [|split; [auto|split]].
    - rewrite Hl. unfold LInv. repeat split; try constructor; simpl; try tauto.
    - intros i. apply KInv_nil.
    - intros i Hi. destruct (nth_error ps i) as [p|] eqn:E; [|apply nth_error_None in E; lia].
      exists p. split; [|apply Hok; exact E].
      unfold residual. simpl. rewrite E.
      rewrite nth_error_map. rewrite E. simpl. apply resume_nil.
  Qed.

  Lemma PInv_advance : forall c i hist o k a w',
    PInv c -> nth_error (fst c) i = Some hist -> residual c i = Some (Vis o k) ->
    effect i o (snd c) a w' ->
    PInv (upd_nth i (a :: hist) (fst c), w').
  Proof.
    intros [hs w] i hist o k a w' (Hlen & Hrt & H & K & HL & Hout & HK & HT) Hh Hres Heff.
    simpl in *.
    assert (Hi : i < length ps).
    { rewrite <- Hlen. apply nth_error_Some. congruence. }
    destruct (HT i Hi) as (m & Hm & Hbr). rewrite Hres in Hm. inversion Hm; subst m. clear Hm.
    simpl in Hbr. destruct Hbr as [Hpre Hbr].
    assert (HLw := HL). destruct HLw as (_ & _ & Hsub & _).
    destruct (Heff (H i) (K i) Hrt (HK i) (Hsub i) Hpre) as (Hans & Hrt' & HK' & Hfr & Hls).
    unfold PInv. simpl. split; [rewrite upd_nth_length; exact Hlen|]. split; [exact Hrt'|].
    exists (upd_fun H i (next_h (H i) o)), (upd_fun K i (next_k (K i) o a)).
    split; [|split; [|split]].
    - eapply LInv_step; eauto; intros cls x ->; exact Hpre.
    - intros j Hj. rewrite upd_fun_neq by lia. auto.
    - intros j. destruct (Nat.eq_dec j i) as [->|Hne].
      + rewrite upd_fun_eq. exact HK'.
      + rewrite upd_fun_neq by exact Hne. eapply KInv_agree; [apply HK|].
        intros b kk Hin. apply Hfr. destruct (HK j b kk Hin) as [[n ->] _]. simpl. congruence.
    - intros j Hj. destruct (Nat.eq_dec j i) as [->|Hne].
      + rewrite !upd_fun_eq. exists (k a). split; [|apply Hbr; exact Hans].
        unfold residual in *. simpl in *.
        destruct (nth_error ps i) as [p|]; [|discriminate].
        rewrite nth_error_upd_nth_eq by (rewrite Hlen; exact Hi).
        rewrite Hh in Hres. simpl. rewrite resume_app, Hres. simpl. apply resume_nil.
      + rewrite !upd_fun_neq by exact Hne.
        destruct (HT j Hj) as (m & Hm & Hb). exists m. split; [|exact Hb].
        unfold residual in *. simpl in *. rewrite nth_error_upd_nth_neq by exact Hne. exact Hm.
  Qed.

  Lemma thread_step_inv : forall c i c', thread_step ps c i = Some c' ->
    exists hist o k a w', nth_error (fst c) i = Some hist /\ residual c i = Some (Vis o k) /\
      exec_op i o (snd c) = Some (a, w') /\ c' = (upd_nth i (a :: hist) (fst c), w').
  Proof.
    intros c i c' H. unfold thread_step in H. unfold residual.
    destruct (nth_error ps i) as [p|]; [|discriminate].
    destruct (nth_error (fst c) i) as [hist|]; [|discriminate].
    destruct (resume p (rev hist)) as [[r|o k|]|]; try discriminate.
    destruct (exec_op i o (snd c)) as [[a w']|] eqn:E; [|discriminate].
    inversion H; subst. exists hist, o, k, a, w'. auto.
  Qed.

  Lemma fault_step_inv : forall c i c', fault_step c i = Some c' ->
    exists hist o k, nth_error (fst c) i = Some hist /\ residual c i = Some (Vis o k) /\
      faultable o = true /\ c' = (upd_nth i (AErr EFault :: hist) (fst c), snd c).
  Proof.
    intros c i c' H. unfold fault_step in H. unfold residual.
    destruct (nth_error ps i) as [p|]; [|discriminate].
    destruct (nth_error (fst c) i) as [hist|]; [|discriminate].
    destruct (resume p (rev hist)) as [[r|o k|]|]; try discriminate.
    destruct (faultable o) eqn:E; [|discriminate].
    inversion H; subst. exists hist, o, k. auto.
  Qed.

  Lemma PInv_gstep : forall c c', PInv c -> gstep c c' -> PInv c'.
  Proof.
    intros c c' HI Hs. destruct Hs as [c i c' H|c i c' H].
    - apply thread_step_inv in H. destruct H as (hist & o & k & a & w' & H1 & H2 & H3 & ->).
      eapply PInv_advance; eauto. apply exec_effect. exact H3.
    - apply fault_step_inv in H. destruct H as (hist & o & k & H1 & H2 & H3 & ->).
      eapply PInv_advance; eauto. apply fault_effect. exact H3.
  Qed.

  Lemma PInv_reachable : forall w0 c,
    pool_ok -> locks w0 = [] -> refs_typed (fs w0) -> reachable w0 c -> PInv c.
  Proof.
    intros w0 c Hok Hl Hrt Hr. induction Hr.
    - apply PInv_init; auto.
    - eapply PInv_gstep; eauto.
  Qed.

  (* ---- a configuration that cannot move ---- *)

  Lemma exec_op_enabled : forall i o w,
    exec_op i o w = None -> exists cls x, o = Acquire cls x /\ In (cls, x) (locks w).
  Proof.
    intros i o w H. destruct o; simpl in H; try discriminate;
      repeat match type of H with
             | context [match ?x with _ => _ end] => destruct x eqn:?; try discriminate
             end.
    exists cls, i0. split; auto. apply memb_lock_In. assumption.
  Qed.

  Lemma stuck_thread : forall c i m, stuck ps c -> residual c i = Some m ->
    (exists r, m = Ret r) \/ m = Bad \/
    (exists cls x k, m = Vis (Acquire cls x) k /\ In (cls, x) (locks (snd c))).
  Proof.
    intros c i m Hst Hres. specialize (Hst i). unfold thread_step in Hst. unfold residual in Hres.
    destruct (nth_error ps i) as [p|]; [|discriminate].
    destruct (nth_error (fst c) i) as [hist|]; [|discriminate].
    rewrite Hres in Hst. destruct m as [r|o k|]; eauto.
    right. right.
    destruct (exec_op i o (snd c)) as [[a w']|] eqn:E; [discriminate|].
    apply exec_op_enabled in E. destruct E as (cls & x & -> & Hin). eauto.
  Qed.

  (* nobody waits: a thread waiting for a lock of rank r forces its holder to wait for a lock
     of a strictly higher rank, and ranks are bounded *)
  Lemma nobody_waits : forall c, PInv c -> stuck ps c ->
    forall n i cls x k, 4 - rank cls <= n ->
      residual c i = Some (Vis (Acquire cls x) k) -> In (cls, x) (locks (snd c)) -> False.
  Proof.
    intros c (Hlen & Hrt & H & K & HL & Hout & HK & HT) Hst.
    destruct HL as (L1 & L2 & L3 & L4 & L5).
    induction n as [|n IH]; intros i cls x k Hn Hres Hin.
    - pose proof (rank_le_3 cls). lia.
    - destruct (L4 _ Hin) as [j Hj].
      assert (Hjlt : j < length ps).
      { destruct (le_lt_dec (length ps) j) as [Hle|]; auto. rewrite (Hout j Hle) in Hj. contradiction. }
      destruct (HT j Hjlt) as (m & Hm & Hbr).
      destruct (stuck_thread _ Hst Hm) as [[r ->]|[->|(cls' & x' & k' & -> & Hin')]].
      + simpl in Hbr. unfold Qfin in Hbr. rewrite Hbr in Hj. contradiction.
      + simpl in Hbr. contradiction.
      + simpl in Hbr. destruct Hbr as [Hpre _]. specialize (Hpre _ Hj). simpl in Hpre.
        eapply (IH j cls' x' k'); eauto. lia.
  Qed.

  Lemma stuck_all_returned : forall c, PInv c -> stuck ps c ->
    forall i, i < length ps -> exists r, residual c i = Some (Ret r).
  Proof.
    intros c HI Hst. pose proof (nobody_waits HI Hst) as Hnw.
    destruct HI as (Hlen & Hrt & H & K & HL & Hout & HK & HT).
    intros i Hi. destruct (HT i Hi) as (m & Hm & Hbr).
    destruct (stuck_thread _ Hst Hm) as [[r ->]|[->|(cls & x & k & -> & Hin)]].
    - exists r. auto.
    - simpl in Hbr. contradiction.
    - exfalso. eapply (Hnw (4 - rank cls)); eauto.
  Qed.

  Theorem stuck_finished : forall c, PInv c -> stuck ps c ->
    finished ps c = true /\ locks (snd c) = [] /\ refs_typed (fs (snd c)).
  Proof.
    intros c HI Hst. pose proof (stuck_all_returned HI Hst) as Hall.
    destruct HI as (Hlen & Hrt & H & K & HL & Hout & HK & HT).
    assert (Hret : forall i, i < length ps -> exists r, residual c i = Some (Ret r) /\ H i = []).
    { intros i Hi. destruct (Hall i Hi) as [r Hr]. exists r. split; auto.
      destruct (HT i Hi) as (m & Hm & Hbr). rewrite Hr in Hm. inversion Hm; subst m. exact Hbr. }
    split; [|split; [|exact Hrt]].
    - unfold finished, results. apply forallb_forall. intros r Hr.
      apply in_map_iff in Hr. destruct Hr as (i & <- & Hi). apply in_seq in Hi.
      destruct (Hret i) as (r & Hr & _); [lia|].
      unfold residual in Hr. unfold thread_result.
      destruct (nth_error ps i); [|discriminate]. destruct (nth_error (fst c) i); [|discriminate].
      rewrite Hr. reflexivity.
    - destruct HL as (L1 & L2 & L3 & L4 & L5).
      destruct (locks (snd c)) as [|l L]; auto. exfalso.
      destruct (L4 l (or_introl eq_refl)) as [j Hj].
      destruct (le_lt_dec (length ps) j) as [Hle|Hlt].
      + rewrite (Hout j Hle) in Hj. contradiction.
      + destruct (Hret j Hlt) as (r & _ & E). rewrite E in Hj. contradiction.
  Qed.

  (* once no thread can take a normal step, no thread can take a faulted step either: every call
     has returned.  (Without the invariant this fails here: a thread blocked at flock could
     still be failed.) *)
  Lemma stuck_gstuck : forall c, PInv c -> stuck ps c -> gstuck c.
  Proof.
    intros c HI Hst c' Hs. destruct Hs as [c i c' H|c i c' H].
    - rewrite (Hst i) in H. discriminate.
    - apply fault_step_inv in H. destruct H as (hist & o & k & H1 & H2 & _ & _).
      assert (Hi : i < length ps).
      { destruct HI as (Hlen & _). rewrite <- Hlen. apply nth_error_Some. congruence. }
      destruct (stuck_all_returned HI Hst Hi) as [r Hr]. rewrite Hr in H2. discriminate.
  Qed.
End Pools.

(* ====================================================================================== *)
(* §6  the theorems                                                                        *)
(* ====================================================================================== *)

Lemma api_pool_ok : forall calls, pool_ok (map api calls).
Proof.
  intros calls i p H. rewrite nth_error_map in H.
  destruct (nth_error calls i) as [c|]; inversion H; subst. apply api_bracketed.
Qed.

(* C08, general form, NO fault excluded.  Any number of concurrent calls, any calls, any start
   world that holds no lock and whose reference files are typed, any interleaving, any pattern of
   I/O errors at any fault site of [Sched.is_site] — the flock included, in any thread, any number
   of times: a configuration in which no thread can move is one in which every call has returned
   and NO lock is held — no pid, cid or document identifier, and no file lock either. *)
Theorem no_deadlock_no_leak_any_fault : forall calls w0 c,
  locks w0 = [] -> refs_typed (fs w0) ->
  reachable (map api calls) w0 c -> gstuck (map api calls) c ->
  finished (map api calls) c = true /\ locks (snd c) = [] /\ refs_typed (fs (snd c)).
Proof.
  intros calls w0 c Hl Hrt Hr Hst.
  apply stuck_finished.
  - eapply PInv_reachable; eauto. apply api_pool_ok.
  - apply gstuck_stuck. exact Hst.
Qed.

(* the same with the weaker hypothesis that no thread can take a NORMAL step *)
Theorem no_deadlock_no_leak_any_fault_stuck : forall calls w0 c,
  locks w0 = [] -> refs_typed (fs w0) ->
  reachable (map api calls) w0 c -> stuck (map api calls) c ->
  finished (map api calls) c = true /\ locks (snd c) = [] /\ refs_typed (fs (snd c)).
Proof.
  intros calls w0 c Hl Hrt Hr Hst.
  apply stuck_finished; auto. eapply PInv_reachable; eauto. apply api_pool_ok.
Qed.

(* Bracket.v's runs are among the runs of this file *)
Lemma bracket_faultable_is_site : forall o, Bracket.faultable o = true -> faultable o = true.
Proof. intros o H. unfold Bracket.faultable in H. apply andb_true_iff in H. tauto. Qed.

Lemma bracket_gstep : forall A (ps : list (prog A)) c c', Bracket.gstep ps c c' -> gstep ps c c'.
Proof.
  intros A ps c c' [c0 i c1 H|c0 i c1 H].
  - eapply gs_norm. exact H.
  - eapply gs_fault with (i := i). unfold Bracket.fault_step in H. unfold fault_step.
    destruct (nth_error ps i); [|discriminate]. destruct (nth_error (fst c0) i); [|discriminate].
    destruct (resume p (rev l)) as [[r|o k|]|]; try discriminate.
    destruct (Bracket.faultable o) eqn:E; [|discriminate].
    rewrite (bracket_faultable_is_site _ E). exact H.
Qed.

Lemma bracket_reachable : forall A (ps : list (prog A)) w0 c,
  Bracket.reachable ps w0 c -> reachable ps w0 c.
Proof.
  intros A ps w0 c H. induction H.
  - apply reach_init.
  - eapply reach_step; [eassumption|]. apply bracket_gstep. assumption.
Qed.

(* progress: from a reachable configuration in which some call has not returned, some thread
   can take a normal step (so a set of calls never deadlocks, at any point) *)
Lemma stuck_dec : forall A (ps : list (prog A)) c,
  stuck ps c \/ exists i c', thread_step ps c i = Some c'.
Proof.
  intros A ps c.
  assert (Hn : forall n, (forall i, i < n -> thread_step ps c i = None) \/
                         exists i c', thread_step ps c i = Some c').
  { induction n as [|n [IH|IH]]; auto.
    - left. intros; lia.
    - destruct (thread_step ps c n) as [c'|] eqn:E; [right; eauto|].
      left. intros i Hi. destruct (Nat.eq_dec i n); [subst; auto | apply IH; lia]. }
  destruct (Hn (length ps)) as [H|H]; auto.
  left. intros i. destruct (thread_step ps c i) eqn:E; auto.
  pose proof (@thread_step_lt _ _ _ _ _ E) as Hlt. rewrite (H i Hlt) in E. discriminate.
Qed.

Theorem progress_any_fault : forall calls w0 c,
  locks w0 = [] -> refs_typed (fs w0) ->
  reachable (map api calls) w0 c -> finished (map api calls) c = false ->
  exists i c', thread_step (map api calls) c i = Some c'.
Proof.
  intros calls w0 c Hl Hrt Hr Hf.
  destruct (stuck_dec (map api calls) c) as [Hst|H]; auto.
  destruct (no_deadlock_no_leak_any_fault_stuck calls Hl Hrt Hr Hst) as [E _]. congruence.
Qed.

(* ---- a single thread run alone, with the weaker lock invariant ---- *)

Lemma LInv_empty : forall t L, L = [] -> LInv (upd_fun (fun _ => []) t []) L.
Proof.
  intros t L ->. unfold LInv, upd_fun. repeat split; try constructor; simpl; try tauto;
    intros; destruct (Nat.eqb _ t); try constructor; try contradiction.
Qed.

(* ---- termination: there is no infinite run, with or without faults ---- *)

Section Termination.
  Variable A : Type.
  Variable ps : list (prog A).

  (* [prog] is an inductive type: the residual program of the thread that moves becomes one of
     its own immediate subterms, the others are unchanged *)
  Definition ochild (y x : option (prog A)) : Prop :=
    exists o k a, x = Some (Vis o k) /\ y = Some (k a).

  Lemma ochild_wf : forall x, Acc ochild x.
  Proof.
    assert (H : forall m, Acc ochild (Some m)).
    { induction m as [r|o k IH|]; constructor; intros y (o' & k' & a & E & ->); inversion E; subst.
      apply IH. }
    intros [m|]; auto. constructor. intros y (o & k & a & E & _). discriminate.
  Qed.

  Definition lstep (r' r : list (option (prog A))) : Prop :=
    exists i y x, nth_error r i = Some x /\ ochild y x /\ r' = upd_nth i y r.

  Lemma lstep_wf : forall r, Acc lstep r.
  Proof.
    induction r as [|x r IHr].
    - constructor. intros r' (i & y & x & H & _). destruct i; discriminate.
    - revert r IHr. induction (ochild_wf x) as [x _ IHx]. intros r Hr.
      induction Hr as [r Hacc IHr].
      constructor. intros r' (i & y & x0 & Hn & Hc & ->). destruct i as [|i]; simpl in *.
      + inversion Hn; subst. apply IHx; auto. constructor. exact Hacc.
      + apply IHr. exists i, y, x0. auto.
  Qed.

  Definition resid (c : cfg) : list (option (prog A)) :=
    map (residual ps c) (seq 0 (length ps)).

  Lemma nth_error_map_seq : forall B (f : nat -> B) n s i,
    i < n -> nth_error (map f (seq s n)) i = Some (f (s + i)).
  Proof.
    induction n as [|n IH]; intros s i Hi; [lia|]. destruct i as [|i]; simpl.
    - f_equal. f_equal. lia.
    - rewrite IH by lia. f_equal. f_equal. lia.
  Qed.

  Lemma map_seq_upd : forall B (f f' : nat -> B) y i,
    f' i = y -> (forall j, j <> i -> f' j = f j) ->
    forall n s, s <= i < s + n -> map f' (seq s n) = upd_nth (i - s) y (map f (seq s n)).
  Proof.
    intros B f f' y i Hy Hne. induction n as [|n IH]; intros s Hs; [lia|]. simpl.
    destruct (Nat.eq_dec i s) as [->|Hd].
    - rewrite Nat.sub_diag. simpl. f_equal; auto.
      apply map_ext_in. intros j Hj. apply in_seq in Hj. apply Hne. lia.
    - replace (i - s) with (S (i - S s)) by lia. simpl. f_equal; [apply Hne; lia|].
      apply IH. lia.
  Qed.

  Lemma advance_lstep : forall c i hist o k a w',
    nth_error (fst c) i = Some hist -> residual ps c i = Some (Vis o k) ->
    lstep (resid (upd_nth i (a :: hist) (fst c), w')) (resid c).
  Proof.
    intros [hs w] i hist o k a w' Hh Hres. simpl in *.
    assert (Hi : i < length ps).
    { unfold residual in Hres. destruct (nth_error ps i) eqn:E; [|discriminate].
      apply nth_error_Some. congruence. }
    exists i, (Some (k a)), (Some (Vis o k)). split; [|split].
    - unfold resid. rewrite nth_error_map_seq by exact Hi. simpl. f_equal. exact Hres.
    - exists o, k, a. auto.
    - unfold resid. replace i with (i - 0) at 2 by lia. apply map_seq_upd; [| |lia].
      + unfold residual in *. simpl in *. destruct (nth_error ps i) as [p|]; [|discriminate].
        rewrite nth_error_upd_nth_eq by (apply nth_error_Some; congruence).
        rewrite Hh in Hres. simpl. rewrite resume_app, Hres. simpl. apply resume_nil.
      + intros j Hj. unfold residual. simpl. rewrite nth_error_upd_nth_neq by exact Hj. reflexivity.
  Qed.

  Lemma gstep_lstep : forall c c', gstep ps c c' -> lstep (resid c') (resid c).
  Proof.
    intros c c' [c0 i c1 H|c0 i c1 H].
    - apply thread_step_inv in H. destruct H as (hist & o & k & a & w' & H1 & H2 & _ & ->).
      eapply advance_lstep; eauto.
    - apply fault_step_inv in H. destruct H as (hist & o & k & H1 & H2 & _ & ->).
      eapply advance_lstep; eauto.
  Qed.

  (* every configuration is accessible for the converse of [gstep]: all runs are finite *)
  Theorem gstep_terminates : forall c, Acc (fun c' c => gstep ps c c') c.
  Proof.
    intros c. remember (resid c) as r eqn:E. revert c E.
    induction (lstep_wf r) as [r _ IH]. intros c ->.
    constructor. intros c' Hs. eapply IH; [apply gstep_lstep; exact Hs | reflexivity].
  Qed.

  Corollary no_infinite_run : forall f : nat -> cfg, ~ (forall n, gstep ps (f n) (f (S n))).
  Proof.
    intros f H. remember (f 0) as c eqn:E. revert f H E.
    induction (gstep_terminates c) as [c _ IH]. intros f H ->.
    apply (IH (f 1) (H 0) (fun n => f (S n))); auto.
  Qed.
End Termination.

(* together: from every reachable configuration the pool can be run to completion (and, by
   [no_deadlock_no_leak] and [gstep_terminates], every maximal run, however scheduled and however
   faulted, is finite and ends like this) *)
Theorem runs_to_completion_any_fault : forall calls w0 c,
  locks w0 = [] -> refs_typed (fs w0) -> reachable (map api calls) w0 c ->
  exists sched c', exec (map api calls) sched c = Some c' /\
    finished (map api calls) c' = true /\ locks (snd c') = [].
Proof.
  intros calls w0 c Hl Hrt. induction (gstep_terminates (map api calls) c) as [c _ IH]. intros Hr.
  destruct (stuck_dec (map api calls) c) as [Hst|(i & c1 & Hs)].
  - exists [], c. simpl. split; auto.
    destruct (no_deadlock_no_leak_any_fault_stuck calls Hl Hrt Hr Hst) as (H1 & H2 & _). auto.
  - assert (Hg : gstep (map api calls) c c1) by (eapply gs_norm; exact Hs).
    destruct (IH c1 Hg) as (s & c' & He & Hf); [eapply reach_step; eauto|].
    exists (i :: s), c'. simpl. rewrite Hs. auto.
Qed.

(* ---- executable runs with faults, for concrete witnesses ---- *)

Section GExec.
  Variable A : Type.
  Variable ps : list (prog A).

  (* a schedule entry (i, true) makes thread i's next operation fail *)
  Fixpoint gexec (s : list (nat * bool)) (c : cfg) : option cfg :=
    match s with
    | [] => Some c
    | (i, f) :: s' =>
        match (if f then fault_step ps c i else thread_step ps c i) with
        | Some c' => gexec s' c'
        | None => None
        end
    end.

  Lemma gexec_reachable : forall s w0 c c',
    reachable ps w0 c -> gexec s c = Some c' -> reachable ps w0 c'.
  Proof.
    induction s as [|[i f] s IH]; intros w0 c c' Hr He; simpl in He.
    - inversion He; subst; auto.
    - destruct f.
      + destruct (fault_step ps c i) eqn:E; [|discriminate].
        eapply IH; [|exact He]. eapply reach_step; [exact Hr|]. eapply gs_fault. exact E.
      + destruct (thread_step ps c i) eqn:E; [|discriminate].
        eapply IH; [|exact He]. eapply reach_step; [exact Hr|]. eapply gs_norm. exact E.
  Qed.
End GExec.

(* ====================================================================================== *)
(* §7  a single call under every fault plan of [Sched.run_fault] (C13, clause F2)          *)
(* ====================================================================================== *)

Lemma faulted_is_site : forall st o, FaultGeneral.faulted st o = true -> faultable o = true.
Proof. intros st o H. unfold FaultGeneral.faulted in H. apply andb_true_iff in H. apply H. Qed.

(* FaultGeneral.run_fault_total without the hypothesis [noflock] *)
Lemma run_fault_total : forall A (m : prog A) st h kn w,
  Br 0 m h kn (fun _ h' _ => h' = []) ->
  refs_typed (fs w) -> KInv 0 kn (fs w) ->
  LInv (upd_fun (fun _ => []) 0 h) (locks w) ->
  exists w' r, run_fault st w m = Some (w', r) /\ locks w' = [] /\ refs_typed (fs w').
Proof.
  induction m as [r|o k IH|]; intros st h kn w Hbr Hrt Hk HL; simpl in Hbr.
  - subst h. exists w, r. simpl. split; auto. split; auto.
    destruct HL as (_ & _ & _ & L4 & _). destruct (locks w) as [|l L]; auto. exfalso.
    destruct (L4 l (or_introl eq_refl)) as [j Hj]. unfold upd_fun in Hj.
    destruct (Nat.eqb j 0); contradiction.
  - destruct Hbr as [Hpre Hbr]. simpl.
    rewrite FaultGeneral.fault_op_faulted.
    assert (Hsub : forall l, In l h -> fst l <> LFile -> In l (locks w)).
    { intros l Hl Hc. destruct HL as (_ & _ & L3 & _). apply (L3 0); [rewrite upd_fun_eq; exact Hl | exact Hc]. }
    assert (Hadv : forall a w', effect 0 o w a w' ->
              exists w'' r, run_fault (snd (fault_op st o w)) w' (k a) = Some (w'', r) /\
                            locks w'' = [] /\ refs_typed (fs w'')).
    { intros a w' Heff.
      destruct (Heff h kn Hrt Hk Hsub Hpre) as (Hans & Hrt' & Hk' & _ & Hls).
      apply (IH a _ (next_h h o) (next_k kn o a) w'); auto.
      eapply LInv_ext; [|eapply (@LInv_step _ _ _ 0 o a); [exact HL| | |exact Hls]].
      - intros j. unfold upd_fun. rewrite Nat.eqb_refl. destruct (Nat.eqb j 0); auto.
      - intros cls x ->. rewrite upd_fun_eq. exact Hpre.
      - intros cls x ->. rewrite upd_fun_eq. exact Hpre. }
    destruct (FaultGeneral.faulted st o) eqn:Ef.
    + apply Hadv. apply fault_effect. eapply faulted_is_site. exact Ef.
    + destruct (exec_op 0 o w) as [[a w']|] eqn:E.
      * apply Hadv. apply exec_effect. exact E.
      * exfalso. apply exec_op_enabled in E. destruct E as (cls & x & -> & Hin).
        destruct HL as (_ & _ & _ & L4 & _). destruct (L4 _ Hin) as [j Hj]. unfold upd_fun in Hj.
        destruct (Nat.eqb j 0); [|contradiction].
        simpl in Hpre. specialize (Hpre _ Hj). simpl in Hpre. lia.
  - contradiction.
Qed.

(* (F2), every fault plan: the fault state st is arbitrary — FWait k pers for every k and both
   modes, FStuck d, FDone — and the failing operation may be the flock itself.  The call returns
   (a value or an exception) and no lock whatsoever is left. *)
Theorem fault_returns_no_lock_any : forall w0 c st,
  Spec.Inv w0 ->
  exists w r, run_fault st w0 (api c) = Some (w, r) /\ locks w = [].
Proof.
  intros w0 c st [(W & _) HL].
  destruct (@run_fault_total _ (api c) st [] [] w0) as (w & r & Hr & Hl & _).
  - apply api_bracketed.
  - apply well_typed_refs_typed. exact W.
  - apply KInv_nil.
  - apply LInv_empty. exact HL.
  - exists w, r. auto.
Qed.

Corollary one_off_fault_returns_no_lock_any : forall w0 c k,
  Spec.Inv w0 -> exists w r, run_fault (FWait k false) w0 (api c) = Some (w, r) /\ locks w = [].
Proof. intros. apply fault_returns_no_lock_any. assumption. Qed.

(* ====================================================================================== *)
(* §8  non-vacuity: tag_object of an additional pid, the flock fails                        *)
(* ====================================================================================== *)

(* pid 1 is bound to object 7 *)
Definition w_bound : world :=
  mkWorld [(AObj 7, CData 7 1 1); (APidRef 1, CCid 7); (ACidRef 7, CLines [1])] [].

(* single call: the 9th fault site of tag_object(2, 7) is the flock of the cid reference file; it
   fails once: the call raises OSError, the store is as before, no lock is left.  It fails
   persistently: the roll-back (untag_object), which needs the same flock, fails too — OSError,
   the pid reference of 2 stays behind (the D10 family, FaultGeneral.persistent_fault_defeats_rollback,
   is not specific to flock) — and still no lock is left.
   The plans are among those that [FaultGeneral.noflock] excluded. *)
Example flock_fault_tag_additional_pid :
  FaultGeneral.fault_target 8 w_bound (api (CTag 2 7)) = Some (Acquire LFile (IDoc (ACidRef 7))) /\
  run_fault (FWait 8 false) w_bound (api (CTag 2 7)) = Some (w_bound, Exn EOSError) /\
  run_fault (FWait 8 true) w_bound (api (CTag 2 7)) =
    Some (mkWorld [(AObj 7, CData 7 1 1); (APidRef 1, CCid 7); (APidRef 2, CCid 7); (ACidRef 7, CLines [1])] [],
          Exn EOSError) /\
  ~ FaultGeneral.noflock (FWait 8 false) w_bound (api (CTag 2 7)).
Proof.
  split; [vm_compute; reflexivity|]. split; [vm_compute; reflexivity|]. split; [vm_compute; reflexivity|].
  intros H. vm_compute in H. repeat match type of H with _ /\ _ => destruct H as [? H] end.
  repeat match goal with H' : true = true -> _ |- _ => specialize (H' eq_refl); try discriminate H' end.
Qed.

(* a pool: tag_object(2, 7) and tag_object(3, 7) race; thread 0 reaches its flock (15 steps),
   thread 1 takes its pid lock, the flock of thread 0 FAILS (a step that Bracket.v's runs do not
   contain), thread 0 rolls back and returns OSError, thread 1 runs to the end *)
Definition flock_sched : list (nat * bool) :=
  repeat (0, false) 15 ++ [(1, false); (0, true)] ++ repeat (0, false) 12 ++ repeat (1, false) 23.

Example flock_fault_in_a_pool :
  let ps := map api [CTag 2 7; CTag 3 7] in
  (exists c, gexec ps (repeat (0, false) 15 ++ [(1, false)]) (init_cfg ps w_bound) = Some c /\
             Bracket.fault_step ps c 0 = None /\ fault_step ps c 0 <> None) /\
  exists c, gexec ps flock_sched (init_cfg ps w_bound) = Some c /\
    results ps c = [Some (Exn EOSError); Some (Val VUnit)] /\
    finished ps c = true /\ locks (snd c) = [] /\
    fs (snd c) = [(AObj 7, CData 7 1 1); (APidRef 1, CCid 7); (APidRef 3, CCid 7); (ACidRef 7, CLines [1; 3])].
Proof.
  split.
  - eexists. split; [vm_compute; reflexivity|]. split; [vm_compute; reflexivity|]. vm_compute. discriminate.
  - eexists. split; [vm_compute; reflexivity|]. repeat split; vm_compute; reflexivity.
Qed.
