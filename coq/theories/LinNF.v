(* LinNF.v — linearizability "up to the reader's two not-found errors".

   retrieve_metadata tests that the document exists and then opens it.  Sequentially an absent
   document is reported by the first test (ValueError); when a deleter removes the document between
   the test and the open, the reader raises FileNotFoundError instead.  C12 words the reader's
   guarantee as "one complete version or a not-found error"; the strict checker [lin_ok] of Lin.v
   compares exception classes and so refutes these scenarios (family R of the C12 menu).

   [lin_ok_nf] is [lin_ok] with that one identification made: a retrieve_metadata thread that
   raised FileNotFoundError is compared as if it had raised ValueError.  Nothing else is relaxed:
   all threads returned, no identifier locked, every other outcome and the final files equal those
   of some sequential order. *)
From HS Require Import Base PyVal FS Ops Spec Sched Lin.

Definition nf_norm_one (c : option call) (r : option (outcome value)) : option (outcome value) :=
  match c, r with
  | Some (CRetrMeta _ _), Some (Exn EFileNotFound) => Some (Exn EValueError)
  | _, _ => r
  end.

Definition nf_norm (calls : list call) (outs : list (option (outcome value)))
  : list (option (outcome value)) :=
  map (fun i => nf_norm_one (nth_error calls i) (nth i outs None)) (seq 0 (length calls)).

Definition lin_ok_nf (w0 : world) (calls : list call) (c : cfg) : bool :=
  let ps := map api calls in
  let outs := nf_norm calls (results ps c) in
  finished ps c &&
  is_nil (locks (snd c)) &&
  existsb (seq_matches w0 (adjust calls outs) outs (fs (snd c))) (perms (seq 0 (length calls))).

Theorem lin_ok_nf_spec : forall w0 calls c,
  lin_ok_nf w0 calls c = true ->
  finished (map api calls) c = true /\ locks (snd c) = [] /\
  exists pi, In pi (perms (seq 0 (length calls))) /\
             seq_matches w0 (adjust calls (nf_norm calls (results (map api calls) c)))
                         (nf_norm calls (results (map api calls) c)) (fs (snd c)) pi = true.
Proof.
  intros w0 calls c H. unfold lin_ok_nf in H.
  apply andb_true_iff in H. destruct H as [H12 H3].
  apply andb_true_iff in H12. destruct H12 as [H1 H2].
  split; [exact H1|]. split.
  - destruct (locks (snd c)); [reflexivity|discriminate].
  - apply existsb_exists in H3. destruct H3 as [pi [Hin Hm]]. exists pi. split; assumption.
Qed.

(* the normalisation touches nothing but a reader's FileNotFoundError *)
Lemma nf_norm_one_id : forall c r,
  (forall p f, c <> Some (CRetrMeta p f)) \/ r <> Some (Exn EFileNotFound) -> nf_norm_one c r = r.
Proof.
  intros c r [H|H]; unfold nf_norm_one.
  - destruct c as [[]|]; try reflexivity. exfalso. eapply H. reflexivity.
  - destruct c as [[]|]; try reflexivity.
    destruct r as [[v|e]|]; try reflexivity. destruct e; try reflexivity. congruence.
Qed.

Definition scenario_ok_nf (s : scenario) : bool :=
  match start_world s with
  | Some w0 =>
      check_all (map api (sc_calls s)) sched_fuel w0
                (fun c => lin_ok_nf w0 (sc_calls s) c && stored_retrievable (sc_calls s) c)
  | None => false
  end.

Theorem scenario_nf_sound : forall s w0,
  scenario_ok_nf s = true -> start_world s = Some w0 ->
  forall sched c, exec (map api (sc_calls s)) sched (init_cfg (map api (sc_calls s)) w0) = Some c ->
             stuck (map api (sc_calls s)) c ->
             lin_ok_nf w0 (sc_calls s) c = true /\ stored_retrievable (sc_calls s) c = true.
Proof.
  intros s w0 H Hw sched c Hex Hst. unfold scenario_ok_nf in H. rewrite Hw in H.
  pose proof (check_all_sound _ _ _ _ _ H sched c Hex Hst) as HP. cbv beta in HP.
  apply andb_true_iff in HP. exact HP.
Qed.

Lemma all_ok_nf_sound : forall l,
  forallb scenario_ok_nf l = true ->
  forall s, In s l ->
  forall w0 sched c, start_world s = Some w0 ->
    exec (map api (sc_calls s)) sched (init_cfg (map api (sc_calls s)) w0) = Some c ->
    stuck (map api (sc_calls s)) c ->
    lin_ok_nf w0 (sc_calls s) c = true /\ stored_retrievable (sc_calls s) c = true.
Proof.
  intros l H s Hs w0 sched c Hw Hex Hst. rewrite forallb_forall in H.
  exact (scenario_nf_sound s w0 (H s Hs) Hw sched c Hex Hst).
Qed.
