(* CrashFault.v — executable checkers for the crash property (C10) and the fault property (C13)
   on top of the crash / fault machinery of Sched.v, their lifting from the finitely many crash
   points / fault sites of a call to ALL naturals, and their meaning spelled out as propositions.

   Nothing here is specific to a menu: the menus (Crash10_menu.v, Fault13_menu.v) instantiate the
   checkers on closed scenarios and the shards evaluate them. *)
From HS Require Import Base PyVal FS Ops Spec Sched.

(* ====================================================================================== *)
(* small helpers                                                                           *)
(* ====================================================================================== *)

Definition is_some {A} (o : option A) : bool := match o with Some _ => true | None => false end.

(* outcome of retrieve_object q in world w ([None]: the program blocks — never, it takes no lock) *)
Definition retr (w : world) (q : pid) : option (outcome fcontent) :=
  match run_seq w (retrieve_object q) with Some (_, r) => Some r | None => None end.

Definition ofc_eqb (a b : outcome fcontent) : bool :=
  match a, b with
  | Val x, Val y => fcontent_eqb x y
  | Exn e, Exn e' => exn_eqb e e'
  | _, _ => false
  end.

Lemma ofc_eqb_true : forall a b, ofc_eqb a b = true -> a = b.
Proof.
  destruct a, b; simpl; intros H; try discriminate.
  - apply fcontent_eqb_true in H. congruence.
  - apply exn_eqb_true in H. congruence.
Qed.

Lemma option_eqb_true : forall A (eqb : A -> A -> bool),
  (forall x y, eqb x y = true -> x = y) ->
  forall a b, option_eqb eqb a b = true -> a = b.
Proof.
  intros A eqb H [x|] [y|]; simpl; intros E; try discriminate; auto.
  f_equal. auto.
Qed.

Definition ocont_eqb := option_eqb fcontent_eqb.
Lemma ocont_eqb_true : forall a b, ocont_eqb a b = true -> a = b.
Proof. apply option_eqb_true. apply fcontent_eqb_true. Qed.

Definition oretr_eqb := option_eqb ofc_eqb.
Lemma oretr_eqb_true : forall a b, oretr_eqb a b = true -> a = b.
Proof. apply option_eqb_true. apply ofc_eqb_true. Qed.

(* the cid a pid reference names *)
Definition bound_cid (w : world) (q : pid) : option cid :=
  match lookup (APidRef q) (fs w) with Some (CCid k) => Some k | _ => None end.

(* q is a line of the list of cid k *)
Definition listed (w : world) (q : pid) (k : cid) : bool :=
  match lookup (ACidRef k) (fs w) with Some (CLines l) => memb Nat.eqb q l | _ => false end.

Lemma memb_nat_In : forall q l, memb Nat.eqb q l = true -> In q l.
Proof.
  intros q l H. apply (memb_In Nat.eqb nat_eqb_true Nat.eqb_refl). exact H.
Qed.

Lemma memb_nat_notIn : forall q l, memb Nat.eqb q l = false -> ~ In q l.
Proof.
  intros q l H. apply (memb_false_not_In Nat.eqb nat_eqb_true Nat.eqb_refl). exact H.
Qed.

Lemma listed_spec : forall w q k, listed w q k = true ->
  exists l, lookup (ACidRef k) (fs w) = Some (CLines l) /\ In q l.
Proof.
  intros w q k H. unfold listed in H.
  destruct (lookup (ACidRef k) (fs w)) as [[b n i|c|l|]|]; try discriminate.
  exists l. split; [reflexivity|]. apply memb_nat_In. exact H.
Qed.

(* ====================================================================================== *)
(* (a) / (4): another pid is untouched                                                      *)
(* ====================================================================================== *)

(* Comparing world [w] with the start world [w0] for a pid q other than the interrupted one:
   same pid reference, same metadata documents (formats fmts), same answer from retrieve_object
   (hence the same object bytes), and q is still a line of the list of the cid it is bound to. *)
Definition other_ok (fmts : list fmt) (w0 w : world) (q : pid) : bool :=
  ocont_eqb (lookup (APidRef q) (fs w)) (lookup (APidRef q) (fs w0)) &&
  forallb (fun f => ocont_eqb (lookup (AMeta q f) (fs w)) (lookup (AMeta q f) (fs w0))) fmts &&
  is_some (retr w0 q) &&
  oretr_eqb (retr w q) (retr w0 q) &&
  match bound_cid w0 q with Some k => listed w q k | None => true end.

Definition others_ok (fmts : list fmt) (w0 w : world) (ip : pid) (others : list pid) : bool :=
  forallb (fun q => Nat.eqb q ip || other_ok fmts w0 w q) others.

Definition other_untouched (fmts : list fmt) (w0 w : world) (q : pid) : Prop :=
  lookup (APidRef q) (fs w) = lookup (APidRef q) (fs w0) /\
  (forall f, In f fmts -> lookup (AMeta q f) (fs w) = lookup (AMeta q f) (fs w0)) /\
  (exists r, retr w0 q = Some r /\ retr w q = Some r) /\
  (forall k, lookup (APidRef q) (fs w0) = Some (CCid k) ->
             exists l, lookup (ACidRef k) (fs w) = Some (CLines l) /\ In q l).

Lemma other_ok_spec : forall fmts w0 w q,
  other_ok fmts w0 w q = true -> other_untouched fmts w0 w q.
Proof.
  intros fmts w0 w q H. unfold other_ok in H.
  repeat (apply andb_true_iff in H; let H' := fresh "H" in destruct H as [H H']).
  unfold other_untouched. split; [|split; [|split]].
  - apply ocont_eqb_true. exact H.
  - intros f Hf. rewrite forallb_forall in H3. apply ocont_eqb_true. apply H3. exact Hf.
  - apply oretr_eqb_true in H1. destruct (retr w0 q) as [r|]; [|discriminate].
    exists r. split; [reflexivity|exact H1].
  - intros k Hk. unfold bound_cid in H0. rewrite Hk in H0. apply listed_spec. exact H0.
Qed.

Lemma others_ok_spec : forall fmts w0 w ip others,
  others_ok fmts w0 w ip others = true ->
  forall q, In q others -> q <> ip -> other_untouched fmts w0 w q.
Proof.
  intros fmts w0 w ip others H q Hq Hne. unfold others_ok in H.
  rewrite forallb_forall in H. specialize (H q Hq).
  apply orb_true_iff in H. destruct H as [H|H].
  - apply Nat.eqb_eq in H. contradiction.
  - apply other_ok_spec. exact H.
Qed.

(* ====================================================================================== *)
(* C10: crash                                                                              *)
(* ====================================================================================== *)

(* the four "not found / inconsistent" answers of _find_object *)
Definition notfound_exn (e : exn) : bool :=
  match e with
  | EPidRefsDoesNotExist | EOrphanPidRefsFileFound | EPidNotFoundInCidRefsFile
  | ERefsFileExistsButCidObjMissing => true
  | _ => false
  end.

Definition NotFoundOrInconsistent (e : exn) : Prop :=
  e = EPidRefsDoesNotExist \/ e = EOrphanPidRefsFileFound \/ e = EPidNotFoundInCidRefsFile \/
  e = ERefsFileExistsButCidObjMissing.

Lemma notfound_exn_spec : forall e, notfound_exn e = true -> NotFoundOrInconsistent e.
Proof. unfold NotFoundOrInconsistent. destruct e; simpl; intros H; try discriminate; tauto. Qed.

(* the complete content the interrupted call was binding the pid to *)
Definition call_contents (w0 : world) (c : call) (ip : pid) : list fcontent :=
  match c with
  | CStore (Some p) _ b n _ _ => if Nat.eqb p ip then [CData b n n] else []
  | CTag p k =>
      if Nat.eqb p ip
      then match lookup (AObj k) (fs w0) with Some x => [x] | None => [] end
      else []
  | _ => []
  end.

(* the content the pid was bound to in the start world *)
Definition old_contents (w0 : world) (ip : pid) : list fcontent :=
  match retr w0 ip with Some (Val x) => [x] | _ => [] end.

Definition allowed_contents (w0 : world) (c : call) (ip : pid) : list fcontent :=
  old_contents w0 ip ++ call_contents w0 c ip.

(* (b): complete correct bytes under their own name, or not found / inconsistent *)
Definition pid_state_ok (w0 : world) (c : call) (ip : pid) (w : world) : bool :=
  match retr w ip with
  | Some (Val (CData b n i)) =>
      Nat.eqb i n &&
      memb fcontent_eqb (CData b n i) (allowed_contents w0 c ip) &&
      option_eqb Nat.eqb (bound_cid w ip) (Some b)
  | Some (Val _) => false
  | Some (Exn e) => notfound_exn e
  | None => false
  end.

Definition recovery_contents : list nat := [7; 8].

Definition del_outcome_ok (r : outcome unit) : bool :=
  match r with Val _ => true | Exn e => exn_eqb e EPidRefsDoesNotExist end.

(* (c): delete_object pid (may say "unknown"), then store_object pid d succeeds, pid retrievable
   with d, the others still untouched *)
Definition recover_ok (fmts : list fmt) (w0 : world) (ip : pid) (others : list pid)
           (w : world) (d : nat) : bool :=
  match run_seq w (delete_object ip) with
  | Some (w1, r1) =>
      del_outcome_ok r1 &&
      match run_seq w1 (store_object (Some ip) SrcPath d 1 VSzNone VCkNone) with
      | Some (w2, Val _) =>
          oretr_eqb (retr w2 ip) (Some (Val (CData d 1 1))) &&
          others_ok fmts w0 w2 ip others
      | _ => false
      end
  | None => false
  end.

Definition crash_world_ok (w0 : world) (c : call) (ip : pid) (others : list pid)
           (fmts : list fmt) (w : world) : bool :=
  others_ok fmts w0 w ip others &&
  pid_state_ok w0 c ip w &&
  forallb (recover_ok fmts w0 ip others w) recovery_contents.

Definition crash_point_ok (w0 : world) (c : call) (ip : pid) (others : list pid)
           (fmts : list fmt) (n : nat) : bool :=
  crash_world_ok w0 c ip others fmts (reopen (run_crash n w0 (api c))).

Definition crash_fuel : nat := 1000.

Definition crash_ok (w0 : world) (c : call) (ip : pid) (others : list pid) (fmts : list fmt) : bool :=
  Nat.ltb (run_length crash_fuel w0 (api c)) crash_fuel &&
  forallb (crash_point_ok w0 c ip others fmts) (seq 0 (S (S (run_length crash_fuel w0 (api c))))).

(* the crash points at which the checker fails (for classification and the json menus) *)
Definition crash_fails (w0 : world) (c : call) (ip : pid) (others : list pid) (fmts : list fmt) : list nat :=
  filter (fun n => negb (crash_point_ok w0 c ip others fmts n))
         (seq 0 (S (S (run_length crash_fuel w0 (api c))))).

(* beyond the last operation of the run, dying "before the n-th operation" is dying after the
   call: [run_crash] is constant from [S (run_length ...)] on, provided the fuel of [run_length]
   was not exhausted *)
Lemma run_crash_stable : forall A (m : prog A) F w,
  run_length F w m < F ->
  forall n, run_length F w m < n -> run_crash n w m = run_crash (S (run_length F w m)) w m.
Proof.
  induction m as [a|o k IH|]; intros F w HF n Hn.
  - destruct n; [inversion Hn|]. destruct F; reflexivity.
  - destruct F as [|F']; [inversion HF|].
    destruct n as [|n']; [inversion Hn|].
    simpl in HF, Hn |- *. destruct (exec_op 0 o w) as [[x w1]|] eqn:E.
    + apply IH; lia.
    + reflexivity.
  - destruct n; [inversion Hn|]. destruct F; reflexivity.
Qed.

Theorem crash_ok_sound : forall w0 c ip others fmts,
  crash_ok w0 c ip others fmts = true ->
  forall n, crash_point_ok w0 c ip others fmts n = true.
Proof.
  intros w0 c ip others fmts H n. unfold crash_ok in H.
  apply andb_true_iff in H. destruct H as [HF Hall].
  apply Nat.ltb_lt in HF. rewrite forallb_forall in Hall.
  set (L := run_length crash_fuel w0 (api c)) in *.
  destruct (Nat.le_gt_cases n (S L)) as [Hle|Hgt].
  - apply Hall. apply in_seq. lia.
  - unfold crash_point_ok.
    rewrite (run_crash_stable _ (api c) crash_fuel w0 HF n) by (fold L; lia).
    fold L. apply (Hall (S L)). apply in_seq. lia.
Qed.

(* with an exclusion list (for scenarios that have refuted crash points) *)
Definition crash_ok_except (excl : nat -> bool) (w0 : world) (c : call) (ip : pid)
           (others : list pid) (fmts : list fmt) : bool :=
  Nat.ltb (run_length crash_fuel w0 (api c)) crash_fuel &&
  forallb (fun n => excl n || crash_point_ok w0 c ip others fmts n)
          (seq 0 (S (run_length crash_fuel w0 (api c)))) &&
  crash_point_ok w0 c ip others fmts (S (run_length crash_fuel w0 (api c))).

Theorem crash_ok_except_sound : forall excl w0 c ip others fmts,
  crash_ok_except excl w0 c ip others fmts = true ->
  forall n, excl n = false -> crash_point_ok w0 c ip others fmts n = true.
Proof.
  intros excl w0 c ip others fmts H n Hex. unfold crash_ok_except in H.
  apply andb_true_iff in H. destruct H as [H Hlast].
  apply andb_true_iff in H. destruct H as [HF Hall].
  apply Nat.ltb_lt in HF. rewrite forallb_forall in Hall.
  set (L := run_length crash_fuel w0 (api c)) in *.
  destruct (Nat.le_gt_cases n L) as [Hle|Hgt].
  - assert (Hin : In n (seq 0 (S L))) by (apply in_seq; lia).
    specialize (Hall n Hin). rewrite Hex in Hall. exact Hall.
  - unfold crash_point_ok.
    rewrite (run_crash_stable _ (api c) crash_fuel w0 HF n) by (fold L; lia).
    fold L. exact Hlast.
Qed.

(* ---------- what [crash_point_ok = true] means ---------- *)

Definition pid_retrievable_or_notfound (w0 : world) (c : call) (ip : pid) (w : world) : Prop :=
  (exists b n, retr w ip = Some (Val (CData b n n)) /\
               In (CData b n n) (allowed_contents w0 c ip) /\
               lookup (APidRef ip) (fs w) = Some (CCid b))
  \/
  (exists e, retr w ip = Some (Exn e) /\ NotFoundOrInconsistent e).

Definition recovers (fmts : list fmt) (w0 : world) (ip : pid) (others : list pid)
           (w : world) (d : nat) : Prop :=
  exists w1 r1 w2 v,
    run_seq w (delete_object ip) = Some (w1, r1) /\
    (r1 = Val tt \/ r1 = Exn EPidRefsDoesNotExist) /\
    run_seq w1 (store_object (Some ip) SrcPath d 1 VSzNone VCkNone) = Some (w2, Val v) /\
    retr w2 ip = Some (Val (CData d 1 1)) /\
    (forall q, In q others -> q <> ip -> other_untouched fmts w0 w2 q).

Lemma memb_fcontent_In : forall x l, memb fcontent_eqb x l = true -> In x l.
Proof.
  induction l as [|y l IH]; simpl; intros H; [discriminate|].
  destruct (fcontent_eqb x y) eqn:E.
  - left. symmetry. apply fcontent_eqb_true. exact E.
  - right. auto.
Qed.

Lemma pid_state_ok_spec : forall w0 c ip w,
  pid_state_ok w0 c ip w = true -> pid_retrievable_or_notfound w0 c ip w.
Proof.
  intros w0 c ip w H. unfold pid_state_ok in H. unfold pid_retrievable_or_notfound.
  destruct (retr w ip) as [[[b n i|k|l|]|e]|]; try discriminate.
  - left.
    apply andb_true_iff in H. destruct H as [H H3].
    apply andb_true_iff in H. destruct H as [H1 H2].
    apply Nat.eqb_eq in H1. subst i.
    exists b, n. split; [reflexivity|]. split; [apply memb_fcontent_In; exact H2|].
    unfold bound_cid in H3.
    destruct (lookup (APidRef ip) (fs w)) as [[b' n' i'|k|l|]|]; simpl in H3; try discriminate.
    apply Nat.eqb_eq in H3. congruence.
  - right. exists e. split; [reflexivity|]. apply notfound_exn_spec. exact H.
Qed.

Lemma recover_ok_spec : forall fmts w0 ip others w d,
  recover_ok fmts w0 ip others w d = true -> recovers fmts w0 ip others w d.
Proof.
  intros fmts w0 ip others w d H. unfold recover_ok in H. unfold recovers.
  destruct (run_seq w (delete_object ip)) as [[w1 r1]|] eqn:E1; [|discriminate].
  apply andb_true_iff in H. destruct H as [Hd H].
  destruct (run_seq w1 (store_object (Some ip) SrcPath d 1 VSzNone VCkNone)) as [[w2 [v|e]]|] eqn:E2;
    try discriminate.
  apply andb_true_iff in H. destruct H as [Hr Ho].
  exists w1, r1, w2, v. split; [reflexivity|]. split; [|split; [exact E2|split]].
  - destruct r1 as [[]|e]; [left; reflexivity|].
    right. simpl in Hd. apply exn_eqb_true in Hd. congruence.
  - apply oretr_eqb_true. exact Hr.
  - apply others_ok_spec. exact Ho.
Qed.

Theorem crash_point_ok_spec : forall w0 c ip others fmts n,
  crash_point_ok w0 c ip others fmts n = true ->
  let w := reopen (run_crash n w0 (api c)) in
  (forall q, In q others -> q <> ip -> other_untouched fmts w0 w q) /\
  pid_retrievable_or_notfound w0 c ip w /\
  (forall d, In d recovery_contents -> recovers fmts w0 ip others w d).
Proof.
  intros w0 c ip others fmts n H w. unfold crash_point_ok, crash_world_ok in H. fold w in H.
  apply andb_true_iff in H. destruct H as [H H3].
  apply andb_true_iff in H. destruct H as [H1 H2].
  split; [apply others_ok_spec; exact H1|].
  split; [apply pid_state_ok_spec; exact H2|].
  intros d Hd. rewrite forallb_forall in H3. apply recover_ok_spec. apply H3. exact Hd.
Qed.

(* ====================================================================================== *)
(* C13: faults                                                                             *)
(* ====================================================================================== *)

(* permanent files: everything except deletion markers and temporary files, which a swallowed
   removal failure may leave behind *)
Definition permanent (a : addr) : bool :=
  match a with ADel _ | ATmp _ _ _ => false | _ => true end.

Definition perm_eqb (m1 m2 : fmap) : bool :=
  forallb (fun a => negb (permanent a) || ocont_eqb (lookup a m1) (lookup a m2))
          (keys m1 ++ keys m2).

Lemma lookup_None_not_key : forall a m, ~ In a (keys m) -> lookup a m = None.
Proof.
  intros a m H. destruct (lookup a m) eqn:E; auto.
  exfalso. apply H. eapply lookup_Some_In_keys. exact E.
Qed.

Lemma perm_eqb_spec : forall m1 m2, perm_eqb m1 m2 = true ->
  forall a, permanent a = true -> lookup a m1 = lookup a m2.
Proof.
  intros m1 m2 H a Ha. unfold perm_eqb in H. rewrite forallb_forall in H.
  destruct (in_dec addr_eq_dec a (keys m1 ++ keys m2)) as [Hin|Hnin].
  - specialize (H a Hin). rewrite Ha in H. simpl in H. apply ocont_eqb_true. exact H.
  - rewrite (lookup_None_not_key a m1), (lookup_None_not_key a m2); auto;
      intros Hk; apply Hnin; apply in_or_app; auto.
Qed.

(* pid is a line of no cid list *)
Definition in_no_list (m : fmap) (p : pid) : bool :=
  forallb (fun kv => match kv with
                     | (ACidRef _, CLines l) => negb (memb Nat.eqb p l)
                     | _ => true
                     end) m.

Lemma lookup_Some_In : forall a m v, lookup a m = Some v -> In (a, v) m.
Proof.
  induction m as [|[k v'] m IH]; simpl; intros v H; [discriminate|].
  destruct (addr_eqb a k) eqn:E.
  - apply addr_eqb_true in E. inversion H; subst. left. reflexivity.
  - right. auto.
Qed.

Lemma in_no_list_spec : forall m p, in_no_list m p = true ->
  forall k l, lookup (ACidRef k) m = Some (CLines l) -> ~ In p l.
Proof.
  intros m p H k l Hl. unfold in_no_list in H. rewrite forallb_forall in H.
  specialize (H _ (lookup_Some_In _ _ _ Hl)). simpl in H.
  apply memb_nat_notIn. destruct (memb Nat.eqb p l); [discriminate|reflexivity].
Qed.

Definition unbound (w : world) (ip : pid) : bool :=
  match lookup (APidRef ip) (fs w) with None => true | Some _ => false end &&
  in_no_list (fs w) ip.

(* the same call issued again, fault-free, succeeds and binds the pid as asked *)
Definition retry_ok (c : call) (ip : pid) (w : world) : bool :=
  match run_seq w (api c) with
  | Some (w2, Val _) =>
      match c with
      | CStore _ _ b n _ _ => oretr_eqb (retr w2 ip) (Some (Val (CData b n n)))
      | CTag _ k => option_eqb Nat.eqb (bound_cid w2 ip) (Some k) && listed w2 ip k
      | _ => true
      end
  | _ => false
  end.

(* the binding the pid had in the start world is as it was: reference, list line, object *)
Definition binding_intact (w0 w : world) (ip : pid) : bool :=
  match lookup (APidRef ip) (fs w0) with
  | Some x =>
      ocont_eqb (lookup (APidRef ip) (fs w)) (Some x) &&
      match x with CCid k => Bool.eqb (listed w ip k) (listed w0 ip k) | _ => true end &&
      is_some (retr w0 ip) && oretr_eqb (retr w ip) (retr w0 ip)
  | None => false
  end.

(* the pid can be operated on again: delete_object completes with success or "unknown pid" *)
Definition followup_delete_ok (w : world) (ip : pid) : bool :=
  match run_seq w (delete_object ip) with
  | Some (_, r) => del_outcome_ok r
  | None => false
  end.

Definition call_pid (c : call) : option pid :=
  match c with
  | CStore p _ _ _ _ _ => p
  | CTag p _ | CDelete p | CStoreMeta p _ _ _ _ | CDelMeta p _ | CRetrMeta p _
  | CRetrieve p | CGetHex p | CDeleteUnfixed p => Some p
  | _ => None
  end.

(* (2), (3): the call raised *)
Definition exn_case_ok (w0 : world) (c : call) (ip : pid) (w : world) : bool :=
  match c with
  | CStore _ _ _ _ _ _ | CTag _ _ =>
      (unbound w ip && retry_ok c ip w) || binding_intact w0 w ip
  | CStoreMeta p f _ _ _ => ocont_eqb (lookup (AMeta p f) (fs w)) (lookup (AMeta p f) (fs w0))
  | CDelete _ | CDelMeta _ _ => followup_delete_ok w ip
  | _ => true
  end.

(* (1): the call reported success: same answer and same permanent files as the fault-free run *)
Definition val_case_ok (w0 : world) (c : call) (w : world) (out : outcome value) : bool :=
  match run_seq w0 (api c) with
  | Some (wf, rf) => outcome_eqb out rf && perm_eqb (fs w) (fs wf)
  | None => false
  end.

Definition fault_result_ok (w0 : world) (c : call) (ip : pid) (others : list pid) (fmts : list fmt)
           (res : option (world * outcome value)) : bool :=
  match res with
  | None => false
  | Some (w, out) =>
      is_nil (locks w) &&
      is_some (run_seq w (api c)) &&            (* a follow-up call completes (C08) *)
      match out with
      | Val _ => val_case_ok w0 c w out
      | Exn _ => exn_case_ok w0 c ip w
      end &&
      others_ok fmts w0 w ip others
  end.

Definition fault_point_ok (w0 : world) (c : call) (ip : pid) (others : list pid) (fmts : list fmt)
           (k : nat) (pers : bool) : bool :=
  fault_result_ok w0 c ip others fmts (run_fault (FWait k pers) w0 (api c)).

Definition modes : list bool := [false; true].

(* [excl k pers]: the point is a recorded known failure and is not required to pass *)
Definition fault_ok (excl : nat -> bool -> bool) (w0 : world) (c : call) (ip : pid)
           (others : list pid) (fmts : list fmt) : bool :=
  option_eqb Nat.eqb (call_pid c) (Some ip) &&
  is_some (run_seq w0 (api c)) &&
  fault_result_ok w0 c ip others fmts (run_seq w0 (api c)) &&
  forallb (fun k => forallb (fun pers => excl k pers || fault_point_ok w0 c ip others fmts k pers) modes)
          (seq 0 (count_sites w0 (api c))).

Definition fault_fails (w0 : world) (c : call) (ip : pid) (others : list pid) (fmts : list fmt)
  : list (nat * bool) :=
  filter (fun kp => negb (fault_point_ok w0 c ip others fmts (fst kp) (snd kp)))
         (flat_map (fun k => map (fun pers => (k, pers)) modes) (seq 0 (S (count_sites w0 (api c))))).

Theorem fault_ok_sound : forall excl w0 c ip others fmts,
  fault_ok excl w0 c ip others fmts = true ->
  forall k pers, excl k pers = false -> fault_point_ok w0 c ip others fmts k pers = true.
Proof.
  intros excl w0 c ip others fmts H k pers Hex. unfold fault_ok in H.
  apply andb_true_iff in H. destruct H as [H Hall].
  apply andb_true_iff in H. destruct H as [H Hff].
  apply andb_true_iff in H. destruct H as [_ Hrun].
  rewrite forallb_forall in Hall.
  destruct (Nat.lt_ge_cases k (count_sites w0 (api c))) as [Hlt|Hge].
  - assert (Hin : In k (seq 0 (count_sites w0 (api c)))) by (apply in_seq; lia).
    specialize (Hall k Hin). rewrite forallb_forall in Hall.
    assert (Hp : In pers modes) by (destruct pers; simpl; auto).
    specialize (Hall pers Hp). rewrite Hex in Hall. exact Hall.
  - unfold fault_point_ok.
    destruct (run_seq w0 (api c)) as [[wf rf]|] eqn:E; [|discriminate].
    rewrite (run_fault_beyond _ (api c) w0 k pers wf rf E Hge). exact Hff.
Qed.

(* ---------- what [fault_point_ok = true] means ---------- *)

Definition binds_pid (c : call) : bool :=
  match c with CStore _ _ _ _ _ _ | CTag _ _ => true | _ => false end.

Definition unbound_and_retry (c : call) (ip : pid) (w : world) : Prop :=
  lookup (APidRef ip) (fs w) = None /\
  (forall k l, lookup (ACidRef k) (fs w) = Some (CLines l) -> ~ In ip l) /\
  exists w2 v, run_seq w (api c) = Some (w2, Val v) /\
    match c with
    | CStore _ _ b n _ _ => retr w2 ip = Some (Val (CData b n n))
    | CTag _ k => lookup (APidRef ip) (fs w2) = Some (CCid k) /\
                  exists l, lookup (ACidRef k) (fs w2) = Some (CLines l) /\ In ip l
    | _ => True
    end.

Definition earlier_binding_intact (w0 w : world) (ip : pid) : Prop :=
  exists x, lookup (APidRef ip) (fs w0) = Some x /\ lookup (APidRef ip) (fs w) = Some x /\
    (forall k, x = CCid k -> listed w ip k = listed w0 ip k) /\
    exists r, retr w0 ip = Some r /\ retr w ip = Some r.

Definition fault_outcome_ok (w0 : world) (c : call) (ip : pid) (others : list pid) (fmts : list fmt)
           (w : world) (out : outcome value) : Prop :=
  locks w = [] /\
  (exists w' r, run_seq w (api c) = Some (w', r)) /\
  (forall v, out = Val v ->
     exists wf, run_seq w0 (api c) = Some (wf, Val v) /\
                forall a, permanent a = true -> lookup a (fs w) = lookup a (fs wf)) /\
  (forall e, out = Exn e ->
     (binds_pid c = true -> unbound_and_retry c ip w \/ earlier_binding_intact w0 w ip) /\
     (forall p f s v n, c = CStoreMeta p f s v n ->
        lookup (AMeta p f) (fs w) = lookup (AMeta p f) (fs w0)) /\
     ((exists p, c = CDelete p) \/ (exists p f, c = CDelMeta p f) ->
        exists w1 r1, run_seq w (delete_object ip) = Some (w1, r1) /\
                      (r1 = Val tt \/ r1 = Exn EPidRefsDoesNotExist))) /\
  (forall q, In q others -> q <> ip -> other_untouched fmts w0 w q).

Lemma outcome_eqb_Val : forall v r, outcome_eqb (Val v) r = true -> r = Val v.
Proof.
  intros v r H. destruct r as [v'|e]; [|destruct v; discriminate].
  destruct v, v'; simpl in H; try discriminate.
  - reflexivity.
  - apply andb_true_iff in H. destruct H as [H1 H2].
    apply Nat.eqb_eq in H1, H2. congruence.
  - apply fcontent_eqb_true in H. congruence.
  - apply addr_eqb_true in H. congruence.
Qed.

Lemma retry_ok_spec : forall c ip w, unbound w ip = true -> retry_ok c ip w = true ->
  unbound_and_retry c ip w.
Proof.
  intros c ip w Hu Hr. unfold unbound in Hu. apply andb_true_iff in Hu. destruct Hu as [Hu1 Hu2].
  unfold unbound_and_retry. split; [|split].
  - destruct (lookup (APidRef ip) (fs w)); [discriminate|reflexivity].
  - apply in_no_list_spec. exact Hu2.
  - unfold retry_ok in Hr.
    destruct (run_seq w (api c)) as [[w2 [v|e]]|]; try discriminate.
    exists w2, v. split; [reflexivity|].
    destruct c; auto.
    + apply oretr_eqb_true. exact Hr.
    + apply andb_true_iff in Hr. destruct Hr as [Hb Hl]. split.
      * unfold bound_cid in Hb.
        destruct (lookup (APidRef ip) (fs w2)) as [[b' n' i'|k|l|]|]; simpl in Hb; try discriminate.
        apply Nat.eqb_eq in Hb. congruence.
      * apply listed_spec. exact Hl.
Qed.

Lemma binding_intact_spec : forall w0 w ip, binding_intact w0 w ip = true ->
  earlier_binding_intact w0 w ip.
Proof.
  intros w0 w ip H. unfold binding_intact in H. unfold earlier_binding_intact.
  destruct (lookup (APidRef ip) (fs w0)) as [x|]; [|discriminate].
  apply andb_true_iff in H. destruct H as [H H4].
  apply andb_true_iff in H. destruct H as [H H3].
  apply andb_true_iff in H. destruct H as [H1 H2].
  exists x. split; [reflexivity|]. split; [apply ocont_eqb_true; exact H1|]. split.
  - intros k ->. apply Bool.eqb_prop. exact H2.
  - apply oretr_eqb_true in H4. destruct (retr w0 ip) as [r|]; [|discriminate].
    exists r. split; [reflexivity|exact H4].
Qed.

Lemma followup_delete_ok_spec : forall w ip, followup_delete_ok w ip = true ->
  exists w1 r1, run_seq w (delete_object ip) = Some (w1, r1) /\
                (r1 = Val tt \/ r1 = Exn EPidRefsDoesNotExist).
Proof.
  intros w ip H. unfold followup_delete_ok in H.
  destruct (run_seq w (delete_object ip)) as [[w1 r1]|] eqn:E1; [|discriminate].
  exists w1, r1. split; [reflexivity|].
  destruct r1 as [[]|e]; [left; reflexivity|].
  right. simpl in H. apply exn_eqb_true in H. congruence.
Qed.

Theorem fault_point_ok_spec : forall w0 c ip others fmts k pers,
  fault_point_ok w0 c ip others fmts k pers = true ->
  exists w out, run_fault (FWait k pers) w0 (api c) = Some (w, out) /\
                fault_outcome_ok w0 c ip others fmts w out.
Proof.
  intros w0 c ip others fmts k pers H. unfold fault_point_ok, fault_result_ok in H.
  destruct (run_fault (FWait k pers) w0 (api c)) as [[w out]|]; [|discriminate].
  exists w, out. split; [reflexivity|].
  apply andb_true_iff in H. destruct H as [H Hoth].
  apply andb_true_iff in H. destruct H as [H Hcase].
  apply andb_true_iff in H. destruct H as [Hlocks Hfollow].
  unfold fault_outcome_ok. split; [|split; [|split; [|split]]].
  - destruct (locks w); [reflexivity|discriminate].
  - destruct (run_seq w (api c)) as [[w' r]|]; [|discriminate]. exists w', r. reflexivity.
  - intros v ->. unfold val_case_ok in Hcase.
    destruct (run_seq w0 (api c)) as [[wf rf]|]; [|discriminate].
    apply andb_true_iff in Hcase. destruct Hcase as [Ho Hp].
    apply outcome_eqb_Val in Ho. subst rf.
    exists wf. split; [reflexivity|]. apply perm_eqb_spec. exact Hp.
  - intros e ->. unfold exn_case_ok in Hcase. split; [|split].
    + intros Hb. destruct c; simpl in Hb; try discriminate.
      * apply orb_true_iff in Hcase. destruct Hcase as [Hc|Hc].
        -- apply andb_true_iff in Hc. destruct Hc as [Hu Hr].
           left. apply retry_ok_spec; assumption.
        -- right. apply binding_intact_spec. exact Hc.
      * apply orb_true_iff in Hcase. destruct Hcase as [Hc|Hc].
        -- apply andb_true_iff in Hc. destruct Hc as [Hu Hr].
           left. apply retry_ok_spec; assumption.
        -- right. apply binding_intact_spec. exact Hc.
    + intros p f s v n ->. apply ocont_eqb_true. exact Hcase.
    + intros [[p ->]|[p [f ->]]]; apply followup_delete_ok_spec; exact Hcase.
  - apply others_ok_spec. exact Hoth.
Qed.

(* ---------- the operation at the k-th fault site of the fault-free run (for classifying
   the recorded failures by what failed) ---------- *)

Fixpoint site_op {A} (k : nat) (w : world) (m : prog A) : option op :=
  match m with
  | Vis o kk =>
      match exec_op 0 o w with
      | Some (x, w') =>
          if is_site o
          then match k with 0 => Some o | S k' => site_op k' w' (kk x) end
          else site_op k w' (kk x)
      | None => None
      end
  | _ => None
  end.

(* ====================================================================================== *)
(* scenarios (a start state built by running the model on a setup history, and one call)    *)
(* ====================================================================================== *)

Record scen := mkScen {
  sc_id : nat;                 (* position in its menu; the recorded failures refer to it *)
  sc_setup : list call;        (* history that builds the start state from the empty store *)
  sc_call : call;              (* the interrupted / faulted call *)
  sc_pid : pid;                (* its pid *)
  sc_others : list pid;        (* the other pids that are watched *)
  sc_fmts : list fmt           (* the metadata formats that are watched *)
}.

Definition is_val {A} (r : outcome A) : bool := match r with Val _ => true | Exn _ => false end.

(* the start world: every setup call must succeed *)
Definition setup_world (h : list call) : option world :=
  match run_history empty_world h with
  | Some (w, rs) => if forallb is_val rs && is_nil (locks w) then Some w else None
  | None => None
  end.

Definition sc_world (s : scen) : world :=
  match setup_world (sc_setup s) with Some w => w | None => empty_world end.

(* ---------- crash scenarios ---------- *)

Definition cscen_ok (s : scen) : bool :=
  is_some (setup_world (sc_setup s)) &&
  option_eqb Nat.eqb (call_pid (sc_call s)) (Some (sc_pid s)) &&
  crash_ok (sc_world s) (sc_call s) (sc_pid s) (sc_others s) (sc_fmts s).

Lemma cscen_ok_sound : forall s, cscen_ok s = true ->
  forall n, crash_point_ok (sc_world s) (sc_call s) (sc_pid s) (sc_others s) (sc_fmts s) n = true.
Proof.
  intros s H. unfold cscen_ok in H. apply andb_true_iff in H. destruct H as [_ H].
  apply crash_ok_sound. exact H.
Qed.

Lemma cscen_ok_defined : forall s, cscen_ok s = true ->
  setup_world (sc_setup s) = Some (sc_world s) /\ call_pid (sc_call s) = Some (sc_pid s).
Proof.
  intros s H. unfold cscen_ok in H. apply andb_true_iff in H. destruct H as [H _].
  apply andb_true_iff in H. destruct H as [H1 H2]. split.
  - unfold sc_world. destruct (setup_world (sc_setup s)); [reflexivity|discriminate].
  - apply (option_eqb_true _ Nat.eqb nat_eqb_true). exact H2.
Qed.

Lemma forallb_app_In : forall A (f : A -> bool) l, forallb f l = true -> forall x, In x l -> f x = true.
Proof. intros A f l H. apply forallb_forall. exact H. Qed.

(* ---------- fault scenarios ---------- *)

Definition known_t := (nat * nat * bool)%type.     (* scenario id, fault site, persistent? *)

Definition known_eqb (a b : known_t) : bool :=
  Nat.eqb (fst (fst a)) (fst (fst b)) && Nat.eqb (snd (fst a)) (snd (fst b)) && Bool.eqb (snd a) (snd b).

Lemma known_eqb_true : forall a b, known_eqb a b = true -> a = b.
Proof.
  intros [[i k] p] [[i' k'] p']; unfold known_eqb; simpl; intros H.
  apply andb_true_iff in H. destruct H as [H H3].
  apply andb_true_iff in H. destruct H as [H1 H2].
  apply Nat.eqb_eq in H1, H2. apply Bool.eqb_prop in H3. congruence.
Qed.

Lemma known_eqb_refl : forall a, known_eqb a a = true.
Proof.
  intros [[i k] p]; unfold known_eqb; simpl. rewrite !Nat.eqb_refl. destruct p; reflexivity.
Qed.

(* whatever the fault: the call returns, no identifier is left locked, and the same call issued
   again completes (the part C08 uses; no exception list) *)
Definition fault_nolock_point (w0 : world) (c : call) (k : nat) (pers : bool) : bool :=
  match run_fault (FWait k pers) w0 (api c) with
  | Some (w, _) => is_nil (locks w) && is_some (run_seq w (api c))
  | None => false
  end.

Definition fault_nolock_ok (w0 : world) (c : call) : bool :=
  is_some (run_seq w0 (api c)) &&
  forallb (fun k => forallb (fault_nolock_point w0 c k) modes) (seq 0 (S (count_sites w0 (api c)))).

Lemma fault_nolock_ok_sound : forall w0 c, fault_nolock_ok w0 c = true ->
  forall k pers, fault_nolock_point w0 c k pers = true.
Proof.
  intros w0 c H k pers. unfold fault_nolock_ok in H.
  apply andb_true_iff in H. destruct H as [Hrun Hall]. rewrite forallb_forall in Hall.
  assert (Hp : In pers modes) by (destruct pers; simpl; auto).
  destruct (Nat.le_gt_cases k (count_sites w0 (api c))) as [Hle|Hgt].
  - assert (Hin : In k (seq 0 (S (count_sites w0 (api c))))) by (apply in_seq; lia).
    specialize (Hall k Hin). rewrite forallb_forall in Hall. apply Hall. exact Hp.
  - assert (Hin : In (count_sites w0 (api c)) (seq 0 (S (count_sites w0 (api c)))))
      by (apply in_seq; lia).
    specialize (Hall _ Hin). rewrite forallb_forall in Hall. specialize (Hall pers Hp).
    unfold fault_nolock_point in *.
    destruct (run_seq w0 (api c)) as [[wf rf]|] eqn:E; [|discriminate].
    rewrite (run_fault_beyond _ (api c) w0 k pers wf rf E) by lia.
    rewrite (run_fault_beyond _ (api c) w0 _ pers wf rf E (le_n _)) in Hall. exact Hall.
Qed.

Lemma fault_nolock_point_spec : forall w0 c k pers, fault_nolock_point w0 c k pers = true ->
  exists w out, run_fault (FWait k pers) w0 (api c) = Some (w, out) /\ locks w = [] /\
                exists w' r, run_seq w (api c) = Some (w', r).
Proof.
  intros w0 c k pers H. unfold fault_nolock_point in H.
  destruct (run_fault (FWait k pers) w0 (api c)) as [[w out]|]; [|discriminate].
  apply andb_true_iff in H. destruct H as [H1 H2].
  exists w, out. split; [reflexivity|]. split.
  - destruct (locks w); [reflexivity|discriminate].
  - destruct (run_seq w (api c)) as [[w' r]|]; [|discriminate]. exists w', r. reflexivity.
Qed.

Definition fscen_ok (known : list known_t) (s : scen) : bool :=
  is_some (setup_world (sc_setup s)) &&
  fault_nolock_ok (sc_world s) (sc_call s) &&
  fault_ok (fun k pers => memb known_eqb (sc_id s, k, pers) known)
           (sc_world s) (sc_call s) (sc_pid s) (sc_others s) (sc_fmts s).

Lemma fscen_ok_sound : forall known s, fscen_ok known s = true ->
  forall k pers, ~ In (sc_id s, k, pers) known ->
  fault_point_ok (sc_world s) (sc_call s) (sc_pid s) (sc_others s) (sc_fmts s) k pers = true.
Proof.
  intros known s H k pers Hn. unfold fscen_ok in H. apply andb_true_iff in H. destruct H as [_ H].
  eapply fault_ok_sound; [exact H|]. cbv beta.
  apply (memb_false_not_In known_eqb known_eqb_true known_eqb_refl). exact Hn.
Qed.

Lemma fscen_ok_nolock : forall known s, fscen_ok known s = true ->
  forall k pers, fault_nolock_point (sc_world s) (sc_call s) k pers = true.
Proof.
  intros known s H. unfold fscen_ok in H. apply andb_true_iff in H. destruct H as [H _].
  apply andb_true_iff in H. destruct H as [_ H]. apply fault_nolock_ok_sound. exact H.
Qed.

Lemma fscen_ok_defined : forall known s, fscen_ok known s = true ->
  setup_world (sc_setup s) = Some (sc_world s) /\ call_pid (sc_call s) = Some (sc_pid s).
Proof.
  intros known s H. unfold fscen_ok in H. apply andb_true_iff in H. destruct H as [H H2].
  apply andb_true_iff in H. destruct H as [H1 _]. split.
  - unfold sc_world. destruct (setup_world (sc_setup s)); [reflexivity|discriminate].
  - unfold fault_ok in H2. apply andb_true_iff in H2. destruct H2 as [H2 _].
    apply andb_true_iff in H2. destruct H2 as [H2 _].
    apply andb_true_iff in H2. destruct H2 as [H2 _].
    apply (option_eqb_true _ Nat.eqb nat_eqb_true). exact H2.
Qed.

(* a recorded failure really fails (no over-exclusion) *)
Definition known_fails (menu : list scen) (x : known_t) : bool :=
  match find (fun s => Nat.eqb (sc_id s) (fst (fst x))) menu with
  | Some s => negb (fault_point_ok (sc_world s) (sc_call s) (sc_pid s) (sc_others s) (sc_fmts s)
                                   (snd (fst x)) (snd x))
  | None => false
  end.

Lemma known_fails_spec : forall menu i k pers, known_fails menu (i, k, pers) = true ->
  exists s, In s menu /\ sc_id s = i /\
            fault_point_ok (sc_world s) (sc_call s) (sc_pid s) (sc_others s) (sc_fmts s) k pers = false.
Proof.
  intros menu i k pers H. unfold known_fails in H. simpl in H.
  destruct (find (fun s => Nat.eqb (sc_id s) i) menu) as [s|] eqn:E; [|discriminate].
  apply find_some in E. destruct E as [Hin Hid]. apply Nat.eqb_eq in Hid.
  exists s. split; [exact Hin|]. split; [exact Hid|].
  destruct (fault_point_ok _ _ _ _ _ k pers); [discriminate|reflexivity].
Qed.

(* ---------- the D10 family ----------
   A PERSISTENT failure whose destination is the pid's reference file or the list of the cid being
   bound: the call (store_object / tag_object of a pid that was unbound) raises, but its roll-back
   (_untag_object -> _find_object) needs the same file and fails too.  The pid reference is left
   in place — with its list line ([D10Bound]) or without it ([D10HalfBound]) — and the same call
   issued again is rejected with HashStoreRefsAlreadyExists. *)

Inductive d10kind := D10Bound | D10HalfBound.

Definition call_cid (c : call) : option cid :=
  match c with
  | CStore _ _ b _ _ _ => Some b
  | CTag _ k => Some k
  | _ => None
  end.

Definition retry_rejected (w : world) (c : call) : bool :=
  match run_seq w (api c) with
  | Some (_, Exn EHashStoreRefsAlreadyExists) => true
  | _ => false
  end.

Definition d10_class (w0 : world) (c : call) (ip : pid) (k : nat) (pers : bool) : option d10kind :=
  match call_cid c, site_op k w0 (api c), run_fault (FWait k pers) w0 (api c) with
  | Some cd, Some o, Some (w, Exn _) =>
      if pers &&
         (dest_eqb (dest_of o) (DAddr (APidRef ip)) || dest_eqb (dest_of o) (DAddr (ACidRef cd))) &&
         negb (is_some (lookup (APidRef ip) (fs w0))) &&
         ocont_eqb (lookup (APidRef ip) (fs w)) (Some (CCid cd)) &&
         retry_rejected w c
      then Some (if listed w ip cd then D10Bound else D10HalfBound)
      else None
  | _, _, _ => None
  end.

Definition d10kind_eqb (a b : d10kind) : bool :=
  match a, b with D10Bound, D10Bound | D10HalfBound, D10HalfBound => true | _, _ => false end.

Definition known_class (menu : list scen) (x : known_t) : option d10kind :=
  match find (fun s => Nat.eqb (sc_id s) (fst (fst x))) menu with
  | Some s => d10_class (sc_world s) (sc_call s) (sc_pid s) (snd (fst x)) (snd x)
  | None => None
  end.

Definition D10_shape (w0 : world) (c : call) (ip : pid) (k : nat) (pers : bool) (kind : d10kind) : Prop :=
  pers = true /\
  exists cd o w e,
    call_cid c = Some cd /\
    site_op k w0 (api c) = Some o /\
    (dest_of o = DAddr (APidRef ip) \/ dest_of o = DAddr (ACidRef cd)) /\
    run_fault (FWait k pers) w0 (api c) = Some (w, Exn e) /\
    lookup (APidRef ip) (fs w0) = None /\
    lookup (APidRef ip) (fs w) = Some (CCid cd) /\
    (exists w', run_seq w (api c) = Some (w', Exn EHashStoreRefsAlreadyExists)) /\
    listed w ip cd = match kind with D10Bound => true | D10HalfBound => false end.

Lemma dest_eqb_true : forall x y, dest_eqb x y = true -> x = y.
Proof.
  destruct x, y; simpl; intros H; try discriminate; try reflexivity.
  - apply addr_eqb_true in H. congruence.
  - apply area_eqb_true in H. congruence.
  - apply addr_eqb_true in H. congruence.
Qed.

Lemma d10_class_spec : forall w0 c ip k pers kind,
  d10_class w0 c ip k pers = Some kind -> D10_shape w0 c ip k pers kind.
Proof.
  intros w0 c ip k pers kind H. unfold d10_class in H.
  destruct (call_cid c) as [cd|] eqn:Ec; [|discriminate].
  destruct (site_op k w0 (api c)) as [o|] eqn:Eo; [|discriminate].
  destruct (run_fault (FWait k pers) w0 (api c)) as [[w [v|e]]|] eqn:Er; try discriminate.
  match type of H with (if ?b then _ else _) = _ => destruct b eqn:Eb end; [|discriminate].
  apply andb_true_iff in Eb. destruct Eb as [Eb H5].
  apply andb_true_iff in Eb. destruct Eb as [Eb H4].
  apply andb_true_iff in Eb. destruct Eb as [Eb H3].
  apply andb_true_iff in Eb. destruct Eb as [H1 H2].
  unfold D10_shape. split; [exact H1|].
  exists cd, o, w, e. split; [exact Ec|]. split; [exact Eo|]. split.
  { apply orb_true_iff in H2. destruct H2 as [H2|H2]; apply dest_eqb_true in H2; auto. }
  split; [exact Er|]. split.
  { destruct (lookup (APidRef ip) (fs w0)); [discriminate|reflexivity]. }
  split; [apply ocont_eqb_true; exact H4|]. split.
  { unfold retry_rejected in H5.
    destruct (run_seq w (api c)) as [[w' [v|e']]|] eqn:Ey; try discriminate.
    destruct e'; try discriminate. exists w'. reflexivity. }
  inversion H. destruct (listed w ip cd); reflexivity.
Qed.
