(* OneDocReaders.v — WRITERS and READERS of one metadata document, any number, every schedule
   (property C12 beyond the menus; OneDoc.v covers pools of writers only).

   retrieve_metadata p f takes NO lock: it tests twice that the document exists and then opens it
   (three operations; [Read a] answers the whole content at once).  None of them changes the world.
   A store_metadata p f call holds the document lock from its first to its last operation; the ONE
   operation of it that changes the document is the [Rename tmp -> document] (its commit point),
   the temp file is complete by then, and the only operation after it is the Release.

     §1  [Pre]: "inside the critical section, not yet committed" as a predicate on the residual
         program AND the current world (it follows the thread's run, the other threads of these
         pools cannot disturb it); [PreK]: its compositional form for bind / mbind; store_metadata
         has it from every world
     §2  pools of writers (any program with that shape), readers, and calls that return at once:
         the invariant [MInv], its preservation, the explicit linearization order [lin_order]
     §3  [one_doc_writers_readers_linearizable], [readers_never_partial]

   The linearization order [lin_order]: every thread is placed at its first Rename / Remove
   operation if it performs one, and otherwise at its LAST operation — a writer at its commit
   point, a reader at its last step (the [Read], or the test that answered "absent").  A writer's
   Rename lies inside its critical section and a second writer cannot start before the first gave
   the lock back (the invariant [MInv]: at most one writer is inside), so the writers appear in it
   in the order in which they acquired the lock; that remark is not stated as a separate lemma.

   Scope.  Writers are store_metadata calls only: a delete_metadata makes the document absent
   again, and then a reader that saw it present raises FileNotFoundError where every sequential
   order gives the not-found ValueError (family R of the menus, LinNF.v) — the clause
   "present stays present" of [RState] is what fails; not done here. *)
From HS Require Import Base PyVal FS Ops Sched Spec SeqLemmas Bracket SchedCV Mutex Indep IndepMeta OneDoc.

(* ====================================================================================== *)
(* §1  inside the critical section: before and after the commit point                      *)
(* ====================================================================================== *)

Definition is_commit (o : op) : bool :=
  match o with Rename _ _ | Remove _ => true | _ => false end.

Section Doc.
  Variable p : pid.
  Variable f : fmt.
  Notation a := (AMeta p f).
  Notation L := (doc_lock p f).

  Definition doc (w : world) : option fcontent := lookup a (fs w).

  (* what a commit may make of the document *)
  Variable Vn : option fcontent -> Prop.

  (* after the commit: give the lock back and return *)
  Definition PostW {B} (m : prog B) : Prop :=
    match m with
    | Vis (Release cls x) k => (cls, x) = L /\ exists r, k AUnit = Ret r
    | _ => False
    end.

  (* thread t, in world w, is inside the critical section and has not committed: every operation
     up to the commit leaves the document alone and is no lock operation; the commit is a
     Rename / Remove that makes the document one of Vn and is followed by the Release at once; a
     Release without a commit ends the call as well *)
  Fixpoint Pre {B} (t : nat) (m : prog B) (w : world) : Prop :=
    match m with
    | Ret _ => False
    | Bad => False
    | Vis o k =>
        if lockop o then PostW (Vis o k)
        else match exec_op t o w with
             | None => False
             | Some (x, w') =>
                 if is_commit o then Vn (doc w') /\ PostW (k x)
                 else doc w' = doc w /\ Pre t (k x) w'
             end
    end.

  (* the same for a part of the body: Qn for a return without commit, Qc for a return right
     after the commit *)
  Fixpoint PreK {B} (t : nat) (m : prog B) (w : world)
           (Qn : world -> B -> Prop) (Qc : B -> Prop) : Prop :=
    match m with
    | Ret r => Qn w r
    | Bad => False
    | Vis o k =>
        lockop o = false /\
        match exec_op t o w with
        | None => False
        | Some (x, w') =>
            if is_commit o then Vn (doc w') /\ exists r, k x = Ret r /\ Qc r
            else doc w' = doc w /\ PreK t (k x) w' Qn Qc
        end
    end.

  Lemma PreK_bind : forall B C t (m : prog B) (g : B -> prog C) w Qn Qc,
    PreK t m w (fun w' r => PreK t (g r) w' Qn Qc) (fun r => exists r', g r = Ret r' /\ Qc r') ->
    PreK t (bind m g) w Qn Qc.
  Proof.
    induction m as [r|o k IH|]; simpl; intros g w Qn Qc H; auto.
    destruct H as [Hl H]. split; [exact Hl|].
    destruct (exec_op t o w) as [[x w']|]; [|contradiction].
    destruct (is_commit o).
    - destruct H as (Hv & r & Hr & r' & Hg & Hq). split; [exact Hv|].
      exists r'. rewrite Hr. simpl. auto.
    - destruct H as [Hd H]. split; [exact Hd|]. apply IH. exact H.
  Qed.

  Lemma PreK_mbind : forall B C t (m : M B) (g : B -> M C) w Qn Qc,
    PreK t m w
      (fun w' r => match r with Val x => PreK t (g x) w' Qn Qc | Exn e => Qn w' (Exn e) end)
      (fun r => match r with Val x => exists r', g x = Ret r' /\ Qc r' | Exn e => Qc (Exn e) end) ->
    PreK t (mbind m g) w Qn Qc.
  Proof.
    intros B C t m g w Qn Qc H. unfold mbind. apply PreK_bind.
    revert w H. induction m as [r|o k IH|]; simpl; intros w H; auto.
    - destruct r; simpl; auto.
    - destruct H as [Hl H]. split; [exact Hl|].
      destruct (exec_op t o w) as [[x w']|]; [|contradiction].
      destruct (is_commit o).
      + destruct H as (Hv & r & Hr & Hq). split; [exact Hv|]. exists r. split; [exact Hr|].
        destruct r; eauto.
      + destruct H as [Hd H]. split; [exact Hd|]. apply IH. exact H.
  Qed.

  (* the body, then the Release of try_finally *)
  Lemma Pre_of_PreK : forall B C t (m : prog B) (h : B -> prog C) w,
    PreK t m w (fun _ _ => True) (fun _ => True) -> (forall r, PostW (h r)) ->
    Pre t (bind m h) w.
  Proof.
    induction m as [r|o k IH|]; simpl; intros h w H Hh.
    - specialize (Hh r). destruct (h r) as [|o k|]; simpl in *; try contradiction.
      destruct o; simpl in *; try contradiction. exact Hh.
    - destruct H as [Hl H]. rewrite Hl.
      destruct (exec_op t o w) as [[x w']|]; [|contradiction].
      destruct (is_commit o).
      + destruct H as (Hv & r & Hr & _). split; [exact Hv|]. rewrite Hr. simpl. apply Hh.
      + destruct H as [Hd H]. split; [exact Hd|]. apply IH; auto.
    - contradiction.
  Qed.

  Lemma Pre_Vis : forall B t (m : prog B) w, Pre t m w -> exists o k, m = Vis o k.
  Proof. intros B t m w H. destruct m; simpl in H; try contradiction. eauto. Qed.

  Lemma PostW_Vis : forall B (m : prog B), PostW m ->
    exists k r, m = Vis (Release LMeta (IDoc a)) k /\ k AUnit = Ret r.
  Proof.
    intros B m H. destruct m as [|o k|]; simpl in H; try contradiction.
    destruct o; try contradiction. destruct H as [E [r Hr]]. inversion E; subst. eauto.
  Qed.

  (* writing the chunks of a temp file *)
  Lemma PreK_write_chunks : forall n t ar t' j w b n0 i (Qn : world -> outcome unit -> Prop) Qc,
    lookup (ATmp ar t' j) (fs w) = Some (CData b n0 i) ->
    (forall w', lookup (ATmp ar t' j) (fs w') = Some (CData b n0 (i + n)) -> doc w' = doc w ->
                locks w' = locks w -> Qn w' (Val tt)) ->
    PreK t (write_chunks (ATmp ar t' j) n) w Qn Qc.
  Proof.
    induction n as [|n IH]; intros t ar t' j w b n0 i Qn Qc Hl HQ.
    - simpl. apply HQ; auto. rewrite Nat.add_0_r. exact Hl.
    - cbn [write_chunks]. apply PreK_mbind. simpl. split; [reflexivity|]. rewrite Hl. simpl.
      split; [unfold doc; simpl; apply lookup_update_neq; discriminate|].
      eapply IH.
      + simpl. apply lookup_update_eq.
      + intros w' H1 H2 H3. apply HQ.
        * rewrite H1. f_equal. f_equal. lia.
        * rewrite H2. unfold doc. simpl. apply lookup_update_neq. discriminate.
        * rewrite H3. reflexivity.
  Qed.
End Doc.

Arguments doc p f w /.

(* store_metadata: Acquire, then [Pre] from EVERY world; its commit stores the complete version *)
Lemma store_metadata_pre : forall p f (Vn : option fcontent -> Prop) s v n,
  (s <> SrcMissing -> Vn (Some (CData v n n))) ->
  exists k, api (CStoreMeta p f s v n) = Vis (Acquire LMeta (IDoc (AMeta p f))) k /\
            forall t w, Pre p f Vn t (k AUnit) w.
Proof.
  intros p f Vn s v n HV0. eexists. split; [reflexivity|]. intros t w.
  cbn beta iota. change (Pre p f Vn t (try_finally
     (open_source s ;;;
      t0 <- mktmp ArMeta (CData v n 0) ;;
      write_chunks t0 n ;;;
      r <- catch (unit_op (MkDirs (AMeta p f)) ;;; unit_op (Rename t0 (AMeta p f))) ;;
      match r with
      | Val _ => ret (VPath (AMeta p f))
      | Exn e => unit_op (Remove t0) ;;; raise e
      end) (release LMeta (IDoc (AMeta p f)))) w).
  unfold try_finally. apply Pre_of_PreK.
  2:{ intros r. simpl. split; [reflexivity|]. eexists. reflexivity. }
  apply PreK_mbind.
  assert (Hrest : Vn (Some (CData v n n)) -> forall w1, doc p f w1 = doc p f w1 ->
    PreK p f Vn t
      (t0 <- mktmp ArMeta (CData v n 0) ;;
       write_chunks t0 n ;;;
       r <- catch (unit_op (MkDirs (AMeta p f)) ;;; unit_op (Rename t0 (AMeta p f))) ;;
       match r with
       | Val _ => ret (VPath (AMeta p f))
       | Exn e => unit_op (Remove t0) ;;; raise e
       end) w1 (fun _ _ => True) (fun _ => True)).
  { intros HV w1 _. apply PreK_mbind. simpl. split; [reflexivity|].
    split; [apply lookup_update_neq; discriminate|].
    apply PreK_mbind. unfold fresh_tmp.
    eapply PreK_write_chunks with (i := 0).
    - simpl. apply lookup_update_eq.
    - intros w' H1 H2 H3. simpl in H1.
      simpl. split; [reflexivity|]. split; [reflexivity|]. split; [reflexivity|].
      rewrite H1. simpl. split.
      + rewrite lookup_update_eq. exact HV.
      + eexists. split; [reflexivity|]. exact I. }
  destruct s; simpl.
  - split; [reflexivity|]. split; [reflexivity|]. apply Hrest; [apply HV0; discriminate | reflexivity].
  - exact I.
  - apply Hrest; [apply HV0; discriminate | reflexivity].
Qed.

(* ====================================================================================== *)
(* §2  pools of writers, readers and calls that return at once                             *)
(* ====================================================================================== *)

Definition isret {B} (m : prog B) : bool := match m with Ret _ => true | _ => false end.

Section Pool.
  Variable p : pid.
  Variable f : fmt.
  Notation a := (AMeta p f).
  Notation L := (doc_lock p f).
  Variable Vn : option fcontent -> Prop.
  Hypothesis HVn : forall d, Vn d -> d <> None.
  Variable ps : list (prog (outcome value)).
  Variable w0 : world.

  Definition reader_prog : M value := retrieve_metadata p f.

  (* Acquire first, then [Pre] whatever the world *)
  Definition wprog (t : nat) (q : M value) : Prop :=
    exists k, q = Vis (Acquire LMeta (IDoc a)) k /\ forall w, Pre p f Vn t (k AUnit) w.

  Hypothesis Hshape : forall i q, nth_error ps i = Some q ->
    (exists r, q = Ret r) \/ q = reader_prog \/ wprog i q.
  Hypothesis Hl0 : locks w0 = [].

  (* the versions of the document: the initial one and what the commits make of it *)
  Definition Vset (d : option fcontent) : Prop := d = doc p f w0 \/ Vn d.

  (* a reader under way: it has seen the document present once or twice, and it still is *)
  Definition RState (h : list ans) (d : option fcontent) : Prop :=
    h = [] \/ ((h = [ABool true] \/ h = [ABool true; ABool true]) /\ d <> None).

  (* what a reader may return *)
  Definition Rres (r : outcome value) : Prop :=
    r = Exn EValueError \/ exists d, r = Val (VBytes d) /\ Vset (Some d).

  Definition rd_result (d : option fcontent) : outcome value :=
    match d with None => Exn EValueError | Some c => Val (VBytes c) end.

  Lemma reader_run : forall t w, run_as t w reader_prog = Some (w, rd_result (doc p f w)).
  Proof.
    intros t w. unfold reader_prog, retrieve_metadata. simpl.
    destruct (lookup a (fs w)) as [d|] eqn:E; simpl; rewrite ?E; simpl; rewrite ?E; reflexivity.
  Qed.

  Lemma reader_step : forall h t o k x w w',
    RState h (doc p f w) -> resume reader_prog (rev h) = Some (Vis o k) ->
    exec_op t o w = Some (x, w') ->
    w' = w /\ is_commit o = false /\
    ((isret (k x) = false /\ RState (x :: h) (doc p f w)) \/ k x = Ret (rd_result (doc p f w))).
  Proof.
    intros h t o k x w w' HS Hrs He. unfold reader_prog, retrieve_metadata in Hrs.
    destruct HS as [->|[[->| ->] Hd]]; simpl in Hrs; inversion Hrs; subst o k; clear Hrs;
      simpl in He; simpl; try (simpl in Hd).
    - destruct (lookup a (fs w)) as [d|] eqn:E; inversion He; subst x w'; simpl.
      + split; auto. split; auto. left. split; auto. right. split; auto; discriminate.
      + split; auto.
    - destruct (lookup a (fs w)) as [d|] eqn:E; [|contradiction Hd; reflexivity].
      inversion He; subst x w'; simpl.
      split; auto. split; auto. left. split; auto. right. split; auto; discriminate.
    - destruct (lookup a (fs w)) as [d|] eqn:E; [|contradiction Hd; reflexivity].
      inversion He; subst x w'; simpl. auto.
  Qed.

  Lemma RState_mono : forall h d d', RState h d -> (d <> None -> d' <> None) -> RState h d'.
  Proof. intros h d d' [H|[H Hd]] Hm; [left; exact H | right; split; auto]. Qed.

  Lemma wprog_not_reader : forall t, ~ wprog t reader_prog.
  Proof. intros t (k & E & _). unfold reader_prog, retrieve_metadata in E. simpl in E. discriminate. Qed.

  (* results with the committed writer's result known in advance *)
  Definition resx (c : cfg) (x : option (nat * outcome value)) (j : nat) : option (outcome value) :=
    match x with
    | Some (i, r) => if Nat.eqb j i then Some r else thread_result ps c j
    | None => thread_result ps c j
    end.

  Lemma resx_upd_notin : forall c j y w' X ord, ~ In j ord ->
    map (resx (upd_nth j y (fst c), w') X) ord = map (resx c X) ord.
  Proof.
    intros c j y w' X ord Hn. apply map_ext_in. intros i Hi.
    assert (i <> j) by (intros ->; contradiction).
    unfold resx. destruct X as [[i0 r]|]; [destruct (Nat.eqb i i0); auto|];
      apply thread_result_upd_neq; auto.
  Qed.

  Lemma residual_upd_neq : forall (c : cfg) j y w' i, i <> j ->
    residual ps (upd_nth j y (fst c), w') i = residual ps c i.
  Proof.
    intros c j y w' i Hne. unfold residual. simpl.
    rewrite nth_error_upd_nth_neq by exact Hne. reflexivity.
  Qed.

  Lemma resume_step : forall (q : M value) hist o k x,
    resume q (rev hist) = Some (Vis o k) -> resume q (rev (x :: hist)) = Some (k x).
  Proof. intros. simpl. rewrite resume_app, H. simpl. apply resume_nil. Qed.

  Lemma tr_after : forall (c : cfg) j q hist o k x w',
    nth_error ps j = Some q -> resume q (rev hist) = Some (Vis o k) -> j < length (fst c) ->
    thread_result ps (upd_nth j (x :: hist) (fst c), w') j =
    match k x with Ret r => Some r | _ => None end.
  Proof.
    intros c j q hist o k x w' Hp Hrs Hj. unfold thread_result. cbn [fst].
    rewrite Hp, nth_error_upd_nth_eq by exact Hj. rewrite (resume_step _ _ _ _ x Hrs). reflexivity.
  Qed.

  Lemma res_after : forall (c : cfg) j q hist o k x w',
    nth_error ps j = Some q -> resume q (rev hist) = Some (Vis o k) -> j < length (fst c) ->
    residual ps (upd_nth j (x :: hist) (fst c), w') j = Some (k x).
  Proof.
    intros c j q hist o k x w' Hp Hrs Hj. unfold residual. cbn [fst].
    rewrite Hp, nth_error_upd_nth_eq by exact Hj. apply (resume_step _ _ _ _ x Hrs).
  Qed.

  (* ---------- the linearization order ---------- *)

  (* thread j, stepping from c to c', performs a Rename / Remove or its last operation *)
  Definition commit_now (c c' : cfg) (j : nat) : bool :=
    (match residual ps c j with Some (Vis o _) => is_commit o | _ => false end)
    || (match thread_result ps c' j with Some _ => true | None => false end).

  Definition lnote (c c' : cfg) (j : nat) (l : list nat) : list nat :=
    if commit_now c c' j && negb (existsb (Nat.eqb j) l) then l ++ [j] else l.

  Fixpoint lin_from (sched : list nat) (c : cfg) (l : list nat) : list nat :=
    match sched with
    | [] => l
    | j :: s =>
        match thread_step ps c j with
        | Some c' => lin_from s c' (lnote c c' j l)
        | None => l
        end
    end.

  Definition lin_order (sched : list nat) : list nat := lin_from sched (init_cfg ps w0) [].

  Lemma lnote_eq : forall (c : cfg) j q hist o k x w' l,
    nth_error ps j = Some q -> nth_error (fst c) j = Some hist ->
    resume q (rev hist) = Some (Vis o k) -> j < length (fst c) ->
    lnote c (upd_nth j (x :: hist) (fst c), w') j l =
    if (is_commit o || isret (k x)) && negb (existsb (Nat.eqb j) l) then l ++ [j] else l.
  Proof.
    intros c j q hist o k x w' l Hp Hh Hrs Hj. unfold lnote, commit_now.
    rewrite (tr_after c j q hist o k x w' Hp Hrs Hj). unfold residual. rewrite Hp, Hh, Hrs.
    destruct (k x); reflexivity.
  Qed.

  Lemma notin_existsb : forall j l, ~ In j l -> existsb (Nat.eqb j) l = false.
  Proof.
    intros j l H. destruct (existsb (Nat.eqb j) l) eqn:E; auto.
    apply existsb_eqb_In in E. contradiction.
  Qed.

  (* ---------- the invariant ---------- *)

  Inductive astate := ANone | APre (i : nat) | APost (i : nat).
  Definition aidx (s : astate) : option nat :=
    match s with ANone => None | APre i | APost i => Some i end.

  Definition MInv (c : cfg) (ord : list nat) (act : astate) : Prop :=
    length (fst c) = length ps /\
    NoDup ord /\
    (forall i, In i ord -> i < length ps) /\
    (forall i, i < length ps -> ~ In i ord -> aidx act <> Some i ->
       exists h, nth_error (fst c) i = Some h /\
         (h = [] \/ (nth_error ps i = Some reader_prog /\ RState h (doc p f (snd c))))) /\
    Vset (doc p f (snd c)) /\
    (forall j r, nth_error ps j = Some reader_prog -> thread_result ps c j = Some r -> Rres r) /\
    exists w1 rs,
      seq_runp _ ps ord w0 = Some (w1, rs) /\ locks w1 = [] /\ doc p f w1 = doc p f (snd c) /\
      match act with
      | ANone => snd c = w1 /\ map (thread_result ps c) ord = map Some rs
      | APre i =>
          ~ In i ord /\ map (thread_result ps c) ord = map Some rs /\
          exists q hist m,
            nth_error ps i = Some q /\ q <> reader_prog /\ nth_error (fst c) i = Some hist /\
            Solo i q w1 (rev hist) (snd c) m /\ Pre p f Vn i m (snd c) /\ locks (snd c) = [L]
      | APost i =>
          In i ord /\ nth_error ps i <> Some reader_prog /\
          w1 = set_locks (snd c) [] /\ locks (snd c) = [L] /\
          exists r k,
            residual ps c i = Some (Vis (Release LMeta (IDoc a)) k) /\ k AUnit = Ret r /\
            map (resx c (Some (i, r))) ord = map Some rs
      end.

  Lemma MInv_init : MInv (init_cfg ps w0) [] ANone.
  Proof.
    unfold MInv, init_cfg. simpl. split; [apply map_length|]. split; [constructor|].
    split; [intros i []|]. split.
    { intros i Hi _ _. rewrite nth_error_map.
      destruct (nth_error ps i) eqn:E; [eexists; split; [reflexivity|left; reflexivity]|].
      apply nth_error_None in E. lia. }
    split; [left; reflexivity|]. split.
    { intros j r Hp Hr. unfold thread_result in Hr. simpl in Hr. rewrite Hp, nth_error_map, Hp in Hr.
      simpl in Hr. unfold reader_prog, retrieve_metadata in Hr. simpl in Hr. discriminate. }
    exists w0, []. auto.
  Qed.

  (* a step of a reader: the world does not change; at its last step the reader joins the order *)
  Lemma MInv_reader : forall c ord act j hist o k x w',
    MInv c ord act -> nth_error ps j = Some reader_prog -> nth_error (fst c) j = Some hist ->
    ~ In j ord -> aidx act <> Some j -> RState hist (doc p f (snd c)) ->
    resume reader_prog (rev hist) = Some (Vis o k) -> exec_op j o (snd c) = Some (x, w') ->
    exists ord', MInv (upd_nth j (x :: hist) (fst c), w') ord' act /\
      ord' = if (is_commit o || isret (k x)) && negb (existsb (Nat.eqb j) ord) then ord ++ [j] else ord.
  Proof.
    intros c ord act j hist o k x w'
      (Hlen & Hnd & Hlt & Hoth & HV & HR & w1 & rs & Hseq & Hl1 & Hd1 & Hact) Hp Hh Hnin Hna HS Hrs He.
    destruct (reader_step _ _ _ _ _ _ _ HS Hrs He) as (-> & Hc & Hk).
    rewrite Hc, (notin_existsb _ _ Hnin). cbn [orb negb]. rewrite andb_true_r.
    assert (Hj : j < length (fst c)) by (apply nth_error_Some; congruence).
    assert (Hjp : j < length ps) by (apply nth_error_Some; congruence).
    pose proof (tr_after c j _ hist o k x (snd c) Hp Hrs Hj) as Htr.
    destruct Hk as [[Hnr HS'] | Hret].
    - rewrite Hnr. exists ord. split; [|reflexivity]. unfold MInv. cbn [fst snd].
      split; [rewrite upd_nth_length; exact Hlen|]. split; [exact Hnd|]. split; [exact Hlt|]. split.
      { intros i Hi Hni Hai. destruct (Nat.eq_dec i j) as [->|Hne].
        - exists (x :: hist). split; [apply nth_error_upd_nth_eq; exact Hj | right; split; auto].
        - rewrite nth_error_upd_nth_neq by exact Hne. apply Hoth; auto. }
      split; [exact HV|]. split.
      { intros j0 r Hp0 Hr0. destruct (Nat.eq_dec j0 j) as [->|Hne].
        - rewrite Htr in Hr0. destruct (k x); simpl in Hnr; discriminate.
        - rewrite thread_result_upd_neq in Hr0 by exact Hne. eapply HR; eauto. }
      exists w1, rs. split; [exact Hseq|]. split; [exact Hl1|]. split; [exact Hd1|].
      destruct act as [|i|i]; simpl in Hna.
      + destruct Hact as [E Hres]. split; [exact E|].
        rewrite results_upd_notin by exact Hnin. exact Hres.
      + destruct Hact as (Hni & Hres & q & hi & m & Hq & Hqr & Hhi & Hrest).
        split; [exact Hni|]. split; [rewrite results_upd_notin by exact Hnin; exact Hres|].
        exists q, hi, m. split; [exact Hq|]. split; [exact Hqr|]. split; [|exact Hrest].
        rewrite nth_error_upd_nth_neq; [exact Hhi | intros ->; apply Hna; reflexivity].
      + destruct Hact as (Hi & Hnr' & Ew & Hlk & r & k2 & Hres2 & Hk2 & Hmap).
        split; [exact Hi|]. split; [exact Hnr'|]. split; [exact Ew|]. split; [exact Hlk|].
        exists r, k2. split.
        { rewrite residual_upd_neq; [exact Hres2 | intros ->; apply Hna; reflexivity]. }
        split; [exact Hk2|]. rewrite resx_upd_notin by exact Hnin. exact Hmap.
    - rewrite Hret in *. cbn [isret]. exists (ord ++ [j]). split; [|reflexivity].
      set (r := rd_result (doc p f (snd c))) in *.
      assert (Hrun : seq_runp _ ps (ord ++ [j]) w0 = Some (w1, rs ++ [r])).
      { eapply seq_runp_snoc; [exact Hseq | exact Hp|]. rewrite reader_run, Hd1. reflexivity. }
      unfold MInv. cbn [fst snd].
      split; [rewrite upd_nth_length; exact Hlen|]. split; [apply NoDup_snoc; auto|]. split.
      { intros i Hi. apply in_app_or in Hi. destruct Hi as [Hi|[<-|[]]]; auto. }
      split.
      { intros i Hi Hni Hai.
        assert (Hne : i <> j) by (intros ->; apply Hni; apply in_or_app; right; left; reflexivity).
        rewrite nth_error_upd_nth_neq by exact Hne. apply Hoth; auto.
        intros Hin. apply Hni. apply in_or_app. left. exact Hin. }
      split; [exact HV|]. split.
      { intros j0 r0 Hp0 Hr0. destruct (Nat.eq_dec j0 j) as [->|Hne].
        - rewrite Htr in Hr0. inversion Hr0; subst r0. unfold Rres, r, rd_result.
          destruct (doc p f (snd c)) as [d|] eqn:Ed; [right; exists d; split; auto | left; reflexivity].
        - rewrite thread_result_upd_neq in Hr0 by exact Hne. eapply HR; eauto. }
      exists w1, (rs ++ [r]). split; [exact Hrun|]. split; [exact Hl1|]. split; [exact Hd1|].
      destruct act as [|i|i]; simpl in Hna.
      + destruct Hact as [E Hres]. split; [exact E|]. rewrite !map_app. f_equal.
        * rewrite results_upd_notin by exact Hnin. exact Hres.
        * simpl. rewrite Htr. reflexivity.
      + destruct Hact as (Hni & Hres & q & hi & m & Hq & Hqr & Hhi & Hrest).
        split.
        { intros Hin. apply in_app_or in Hin. destruct Hin as [Hin|[E|[]]]; [contradiction|].
          subst. apply Hna. reflexivity. }
        split.
        { rewrite !map_app. f_equal.
          - rewrite results_upd_notin by exact Hnin. exact Hres.
          - simpl. rewrite Htr. reflexivity. }
        exists q, hi, m. split; [exact Hq|]. split; [exact Hqr|]. split; [|exact Hrest].
        rewrite nth_error_upd_nth_neq; [exact Hhi | intros ->; apply Hna; reflexivity].
      + destruct Hact as (Hi & Hnr' & Ew & Hlk & r2 & k2 & Hres2 & Hk2 & Hmap).
        split; [apply in_or_app; left; exact Hi|]. split; [exact Hnr'|]. split; [exact Ew|].
        split; [exact Hlk|]. exists r2, k2. split.
        { rewrite residual_upd_neq; [exact Hres2 | intros ->; apply Hna; reflexivity]. }
        split; [exact Hk2|]. rewrite !map_app. f_equal.
        * rewrite resx_upd_notin by exact Hnin. exact Hmap.
        * simpl. unfold resx. destruct (Nat.eqb j i) eqn:E.
          { apply Nat.eqb_eq in E. subst. exfalso. apply Hna. reflexivity. }
          rewrite Htr. reflexivity.
  Qed.

  Lemma doc_set_locks : forall w l, doc p f (set_locks w l) = doc p f w.
  Proof. reflexivity. Qed.

  Lemma MInv_step : forall c ord act j c',
    MInv c ord act -> thread_step ps c j = Some c' ->
    exists ord' act', MInv c' ord' act' /\ ord' = lnote c c' j ord.
  Proof.
    intros c ord act j c' HM Hst.
    pose proof (@thread_step_lt _ _ _ _ _ Hst) as Hj.
    apply thread_step_inv in Hst. destruct Hst as (hist & o & k & x & w' & Hh & Hr & He & ->).
    assert (Hp : exists q, nth_error ps j = Some q /\ resume q (rev hist) = Some (Vis o k)).
    { unfold residual in Hr. destruct (nth_error ps j) as [q|]; [|discriminate].
      rewrite Hh in Hr. eauto. }
    destruct Hp as (q & Hp & Hrs).
    pose proof HM as HM0.
    destruct HM as (Hlen & Hnd & Hlt & Hoth & HV & HR & w1 & rs & Hseq & Hl1 & Hd1 & Hact).
    assert (Hjh : j < length (fst c)) by (rewrite Hlen; exact Hj).
    rewrite (lnote_eq c j q hist o k x w' ord Hp Hh Hrs Hjh).
    pose proof (tr_after c j q hist o k x w' Hp Hrs Hjh) as Htr.
    assert (Hnotret : thread_result ps c j = None).
    { unfold thread_result. rewrite Hp, Hh, Hrs. reflexivity. }
    assert (Hfree : ~ In j ord -> aidx act <> Some j ->
              (q = reader_prog /\ RState hist (doc p f (snd c))) \/
              ((hist = [] /\ o = Acquire LMeta (IDoc a) /\ forall w, Pre p f Vn j (k AUnit) w) /\
               q <> reader_prog)).
    { intros Hnin Hna. destruct (Hoth j Hj Hnin Hna) as (h & Hh' & Hcase).
      rewrite Hh in Hh'. inversion Hh'; subst h. destruct Hcase as [->|[Hq HS]].
      - simpl in Hrs. rewrite resume_nil in Hrs. inversion Hrs; subst q.
        destruct (Hshape j _ Hp) as [[r E]|[E|Hw]]; [discriminate | left; split; [exact E | left; reflexivity] |].
        right. split.
        + destruct Hw as (k0 & E & Hk0). inversion E; subst. auto.
        + intros E. rewrite E in Hw. exact (wprog_not_reader _ Hw).
      - left. rewrite Hp in Hq. inversion Hq. split; auto. }
    assert (Hothers : forall (y : list ans) w2 act2 ord2,
              (doc p f (snd c) <> None -> doc p f w2 <> None) ->
              (forall i, ~ In i ord2 -> aidx act2 <> Some i -> i <> j /\ ~ In i ord /\ aidx act <> Some i) ->
              forall i, i < length ps -> ~ In i ord2 -> aidx act2 <> Some i ->
              exists h, nth_error (upd_nth j y (fst c)) i = Some h /\
                (h = [] \/ (nth_error ps i = Some reader_prog /\ RState h (doc p f w2)))).
    { intros y w2 act2 ord2 Hm Hsel i Hi Hni Hai. destruct (Hsel i Hni Hai) as (Hne & Hni' & Hai').
      rewrite nth_error_upd_nth_neq by exact Hne.
      destruct (Hoth i Hi Hni' Hai') as (h & H1 & H2). exists h. split; [exact H1|].
      destruct H2 as [H2|[H2 H3]]; [left; exact H2 | right; split; [exact H2|]].
      eapply RState_mono; eauto. }
    assert (HR' : forall (y : list ans) w2, q <> reader_prog ->
              forall j0 r, nth_error ps j0 = Some reader_prog ->
                thread_result ps (upd_nth j y (fst c), w2) j0 = Some r -> Rres r).
    { intros y w2 Hqr j0 r Hp0 Hr0. destruct (Nat.eq_dec j0 j) as [->|Hne].
      - rewrite Hp in Hp0. inversion Hp0. contradiction.
      - rewrite thread_result_upd_neq in Hr0 by exact Hne. eapply HR; eauto. }
    destruct act as [|i|i].
    - (* nobody holds the lock *)
      destruct Hact as [Ew Hres].
      assert (Hnin : ~ In j ord).
      { intros Hin. destruct (map_some_in _ _ _ _ _ _ Hres Hin) as [r Hr']. congruence. }
      destruct (Hfree Hnin ltac:(simpl; discriminate)) as [[-> HS] | [(-> & -> & Hk) Hqr]].
      + destruct (MInv_reader _ _ _ _ _ _ _ _ _ HM0 Hp Hh Hnin ltac:(simpl; discriminate) HS Hrs He)
          as (ord' & H1 & H2). exists ord', ANone. split; auto.
      + subst w1. change (Acquire LMeta (IDoc a)) with (Acquire (fst L) (snd L)) in He.
        rewrite (acquire_L_free L j (snd c) Hl1) in He. inversion He; subst x w'.
        destruct (Pre_Vis _ _ _ _ _ _ _ (Hk (set_locks (snd c) [L]))) as (o2 & k2 & Ek).
        rewrite Ek. cbn [is_commit isret orb andb]. exists ord, (APre j). split; [|reflexivity].
        unfold MInv. cbn [fst snd].
        split; [rewrite upd_nth_length; exact Hlen|]. split; [exact Hnd|]. split; [exact Hlt|]. split.
        { apply Hothers; [auto|]. intros i Hni Hai. simpl in Hai.
          repeat split; auto; try discriminate; try congruence. }
        split; [exact HV|]. split; [apply HR'; exact Hqr|].
        exists (snd c), rs. split; [exact Hseq|]. split; [exact Hl1|]. split; [reflexivity|].
        split; [exact Hnin|]. split; [rewrite results_upd_notin by exact Hnin; exact Hres|].
        exists q, [AUnit], (k AUnit). split; [exact Hp|]. split; [exact Hqr|]. split.
        { apply nth_error_upd_nth_eq. exact Hjh. }
        split; [|split; [apply Hk | reflexivity]].
        simpl in Hrs. rewrite resume_nil in Hrs. inversion Hrs; subst q. simpl.
        eapply solo_cons; [apply (acquire_L_free L); exact Hl1 | apply solo_nil].
    - (* a writer is inside and has not committed *)
      destruct Hact as (Hni & Hres & q' & hi & m & Hq' & Hqr & Hhi & Hsolo & Hpre & Hlk).
      assert (Hnin : ~ In j ord).
      { intros Hin. destruct (map_some_in _ _ _ _ _ _ Hres Hin) as [r Hr']. congruence. }
      destruct (Nat.eq_dec i j) as [->|Hne].
      + rewrite Hp in Hq'. inversion Hq'; subst q'. rewrite Hh in Hhi. inversion Hhi; subst hi.
        pose proof (Solo_resume Hsolo) as Hrs'. rewrite Hrs in Hrs'. inversion Hrs'; subst m.
        pose proof (Solo_snoc Hsolo He) as Hsolo'.
        rewrite (notin_existsb _ _ Hnin). cbn [negb]. rewrite andb_true_r.
        simpl in Hpre. destruct (lockop o) eqn:Elo.
        * (* Release without a commit *)
          destruct (PostW_Vis p f _ (Vis o k) Hpre) as (k2 & r & E & Hk2). inversion E; subst o k2.
          change (Release LMeta (IDoc a)) with (Release (fst L) (snd L)) in He.
          rewrite (release_L_held L j (snd c) Hlk) in He. inversion He; subst x w'.
          rewrite Hk2 in *. cbn [is_commit isret orb]. exists (ord ++ [j]), ANone. split; [|reflexivity].
          unfold MInv. cbn [fst snd].
          split; [rewrite upd_nth_length; exact Hlen|]. split; [apply NoDup_snoc; auto|]. split.
          { intros i Hi. apply in_app_or in Hi. destruct Hi as [Hi|[<-|[]]]; auto. }
          split.
          { apply Hothers; [auto|]. intros i Hni' _.
            assert (i <> j) by (intros ->; apply Hni'; apply in_or_app; right; left; reflexivity).
            repeat split; auto.
            - intros Hin. apply Hni'. apply in_or_app. left. exact Hin.
            - simpl. congruence. }
          split; [exact HV|]. split; [apply HR'; exact Hqr|].
          exists (set_locks (snd c) []), (rs ++ [r]). split.
          { eapply seq_runp_snoc; eauto. eapply Solo_run. exact Hsolo'. }
          split; [reflexivity|]. split; [reflexivity|]. split; [reflexivity|].
          rewrite !map_app. f_equal.
          { rewrite results_upd_notin by exact Hnin. exact Hres. }
          simpl. rewrite Htr. reflexivity.
        * rewrite He in Hpre. destruct (is_commit o) eqn:Ec.
          -- (* the commit *)
             destruct Hpre as [Hvn Hpost]. change (Vn (doc p f w')) in Hvn. destruct (PostW_Vis _ _ _ _ Hpost) as (k2 & r & Ek & Hk2).
             rewrite Ek in *. cbn [isret orb]. exists (ord ++ [j]), (APost j). split; [|reflexivity].
             assert (Hlk' : locks w' = [L]) by (rewrite (exec_nonlock_locks _ _ _ _ _ Elo He); exact Hlk).
             assert (Hrun : run_as j w1 q = Some (set_locks w' [], r)).
             { eapply Solo_run. rewrite <- Hk2. eapply Solo_snoc; [exact Hsolo'|].
               apply (release_L_held L). exact Hlk'. }
             unfold MInv. cbn [fst snd].
             split; [rewrite upd_nth_length; exact Hlen|]. split; [apply NoDup_snoc; auto|]. split.
             { intros i Hi. apply in_app_or in Hi. destruct Hi as [Hi|[<-|[]]]; auto. }
             split.
             { apply Hothers; [intros _; apply HVn; exact Hvn|]. intros i Hni' _.
               assert (i <> j) by (intros ->; apply Hni'; apply in_or_app; right; left; reflexivity).
               repeat split; auto.
               - intros Hin. apply Hni'. apply in_or_app. left. exact Hin.
               - simpl. congruence. }
             split; [right; exact Hvn|]. split; [apply HR'; exact Hqr|].
             exists (set_locks w' []), (rs ++ [r]). split; [eapply seq_runp_snoc; eauto|].
             split; [reflexivity|]. split; [reflexivity|].
             split; [apply in_or_app; right; left; reflexivity|]. split.
             { rewrite Hp. intros E. inversion E. contradiction. }
             split; [reflexivity|]. split; [exact Hlk'|]. exists r, k2. split.
             { rewrite (res_after c j q hist o k x w' Hp Hrs Hjh). rewrite Ek. reflexivity. }
             split; [exact Hk2|]. rewrite !map_app. f_equal.
             ++ rewrite <- Hres. apply map_ext_in. intros i0 Hi0. unfold resx.
                assert (i0 <> j) by (intros ->; contradiction).
                destruct (Nat.eqb i0 j) eqn:E; [apply Nat.eqb_eq in E; contradiction|].
                apply thread_result_upd_neq. auto.
             ++ simpl. unfold resx. rewrite Nat.eqb_refl. reflexivity.
          -- (* an operation before the commit *)
             destruct Hpre as [Hdoc Hpre']. change (doc p f w' = doc p f (snd c)) in Hdoc. destruct (Pre_Vis _ _ _ _ _ _ _ Hpre') as (o2 & k2 & Ek).
             rewrite Ek. cbn [isret orb]. exists ord, (APre j). split; [|reflexivity].
             unfold MInv. cbn [fst snd].
             split; [rewrite upd_nth_length; exact Hlen|]. split; [exact Hnd|]. split; [exact Hlt|]. split.
             { apply Hothers; [rewrite Hdoc; auto|]. intros i Hni' Hai. simpl in Hai.
               repeat split; auto; congruence. }
             split; [rewrite Hdoc; exact HV|]. split; [apply HR'; exact Hqr|].
             exists w1, rs. split; [exact Hseq|]. split; [exact Hl1|]. split; [rewrite Hdoc; exact Hd1|].
             split; [exact Hnin|]. split; [rewrite results_upd_notin by exact Hnin; exact Hres|].
             exists q, (x :: hist), (k x). split; [exact Hp|]. split; [exact Hqr|]. split.
             { apply nth_error_upd_nth_eq. exact Hjh. }
             split; [exact Hsolo'|]. split; [exact Hpre'|].
             rewrite (exec_nonlock_locks _ _ _ _ _ Elo He). exact Hlk.
      + assert (Hna : aidx (APre i) <> Some j) by (simpl; congruence).
        destruct (Hfree Hnin Hna) as [[-> HS] | [(-> & -> & Hk) Hqr']].
        * destruct (MInv_reader _ _ _ _ _ _ _ _ _ HM0 Hp Hh Hnin Hna HS Hrs He) as (ord' & H1 & H2).
          exists ord', (APre i). split; auto.
        * exfalso. change (Acquire LMeta (IDoc a)) with (Acquire (fst L) (snd L)) in He.
          rewrite (acquire_L_held L j (snd c) Hlk) in He. discriminate.
    - (* a writer is inside and has committed *)
      destruct Hact as (Hi & Hnr & Ew & Hlk & r & k2 & Hres2 & Hk2 & Hmap).
      destruct (Nat.eq_dec i j) as [->|Hne].
      + rewrite Hr in Hres2. inversion Hres2; subst o k.
        change (Release LMeta (IDoc a)) with (Release (fst L) (snd L)) in He.
        rewrite (release_L_held L j (snd c) Hlk) in He. inversion He; subst x w'.
        rewrite Hk2 in *. cbn [is_commit isret orb].
        assert (Hex : existsb (Nat.eqb j) ord = true) by (apply existsb_eqb_In; exact Hi).
        rewrite Hex. cbn [negb andb]. exists ord, ANone. split; [|reflexivity].
        unfold MInv. cbn [fst snd].
        split; [rewrite upd_nth_length; exact Hlen|]. split; [exact Hnd|]. split; [exact Hlt|]. split.
        { apply Hothers; [auto|]. intros i Hni' _.
          assert (i <> j) by (intros ->; contradiction). repeat split; auto. simpl. congruence. }
        split; [exact HV|]. split.
        { apply HR'. intros E. apply Hnr. rewrite Hp, E. reflexivity. }
        exists w1, rs. split; [exact Hseq|]. split; [exact Hl1|]. split; [rewrite Ew; reflexivity|].
        split; [symmetry; exact Ew|]. rewrite <- Hmap. apply map_ext_in. intros i0 _. unfold resx.
        destruct (Nat.eqb i0 j) eqn:E.
        * apply Nat.eqb_eq in E. subst i0. exact Htr.
        * apply Nat.eqb_neq in E. apply thread_result_upd_neq. exact E.
      + assert (Hnin : ~ In j ord).
        { intros Hin. destruct (map_some_in _ _ _ _ _ _ Hmap Hin) as [r' Hr']. unfold resx in Hr'.
          destruct (Nat.eqb j i) eqn:E; [apply Nat.eqb_eq in E; congruence | congruence]. }
        assert (Hna : aidx (APost i) <> Some j) by (simpl; congruence).
        destruct (Hfree Hnin Hna) as [[-> HS] | [(-> & -> & Hk) Hqr']].
        * destruct (MInv_reader _ _ _ _ _ _ _ _ _ HM0 Hp Hh Hnin Hna HS Hrs He) as (ord' & H1 & H2).
          exists ord', (APost i). split; auto.
        * exfalso. change (Acquire LMeta (IDoc a)) with (Acquire (fst L) (snd L)) in He.
          rewrite (acquire_L_held L j (snd c) Hlk) in He. discriminate.
  Qed.

  Lemma MInv_exec : forall sched c ord act c',
    MInv c ord act -> exec ps sched c = Some c' ->
    exists ord' act', MInv c' ord' act' /\ ord' = lin_from sched c ord.
  Proof.
    induction sched as [|j s IH]; intros c ord act c' HB He; simpl in He |- *.
    - inversion He; subst. exists ord, act. auto.
    - destruct (thread_step ps c j) as [c1|] eqn:E; [|discriminate].
      destruct (MInv_step _ _ _ _ _ HB E) as (ord1 & act1 & HB1 & E1).
      destruct (IH _ _ _ _ HB1 He) as (ord2 & act2 & HB2 & E2).
      exists ord2, act2. split; auto. rewrite <- E1. exact E2.
  Qed.

  (* at every configuration that any schedule reaches *)
  Lemma reached_reader_results : forall sched c,
    exec ps sched (init_cfg ps w0) = Some c ->
    Vset (doc p f (snd c)) /\
    forall j r, nth_error ps j = Some reader_prog -> thread_result ps c j = Some r -> Rres r.
  Proof.
    intros sched c He. destruct (MInv_exec _ _ _ _ _ MInv_init He) as (ord & act & HB & _).
    destruct HB as (_ & _ & _ & _ & HV & HR & _). auto.
  Qed.

  Lemma RState_Vis : forall h d, RState h d -> exists o k, resume reader_prog (rev h) = Some (Vis o k).
  Proof.
    intros h d [->|[[->| ->] _]]; unfold reader_prog, retrieve_metadata; simpl; eauto.
  Qed.

  (* the threads outside a list *)
  Definition rest_of (n : nat) (l : list nat) : list nat :=
    filter (fun i => negb (existsb (Nat.eqb i) l)) (seq 0 n).

  Theorem writers_readers_pool : forall sched c,
    pool_ok ps -> refs_typed (fs w0) ->
    exec ps sched (init_cfg ps w0) = Some c -> stuck ps c ->
    finished ps c = true /\ locks (snd c) = [] /\
    (forall j r, nth_error ps j = Some reader_prog -> thread_result ps c j = Some r -> Rres r) /\
    exists w' rs,
      let ord := lin_order sched ++ rest_of (length ps) (lin_order sched) in
      NoDup ord /\ (forall i, In i ord <-> i < length ps) /\
      seq_runp _ ps ord w0 = Some (w', rs) /\
      snd c = w' /\
      map (thread_result ps c) ord = map Some rs.
  Proof.
    intros sched c Hok Hrt He Hst.
    assert (Hfin : finished ps c = true /\ locks (snd c) = [] /\ refs_typed (fs (snd c))).
    { apply stuck_finished; auto. eapply Inv_reachable; eauto.
      eapply exec_reachable; [apply reach_init | exact He]. }
    destruct Hfin as (Hf1 & Hf2 & _). split; [exact Hf1|]. split; [exact Hf2|].
    destruct (MInv_exec _ _ _ _ _ MInv_init He) as (ord & act & HB & Eord).
    fold (lin_order sched) in Eord.
    destruct HB as (Hlen & Hnd & Hlt & Hoth & HV & HR & w1 & rs & Hseq & Hl1 & Hd1 & Hact).
    split; [exact HR|].
    assert (Hsome : forall i, i < length ps -> exists r, thread_result ps c i = Some r).
    { intros i Hi. unfold finished in Hf1. rewrite forallb_forall in Hf1.
      assert (Hin : In (thread_result ps c i) (results ps c)).
      { unfold results. apply in_map. apply in_seq. lia. }
      specialize (Hf1 _ Hin).
      destruct (thread_result ps c i) as [r|]; [eauto | discriminate]. }
    destruct act as [|i|i].
    2:{ exfalso. destruct Hact as (_ & _ & q & hist & m & Hq & _ & Hh & Hsolo & Hpre & _).
        assert (Hi : i < length ps) by (apply nth_error_Some; congruence).
        destruct (Hsome i Hi) as [r Hr]. unfold thread_result in Hr. rewrite Hq, Hh in Hr.
        rewrite (Solo_resume Hsolo) in Hr. destruct (Pre_Vis _ _ _ _ _ _ _ Hpre) as (o & k & ->).
        discriminate. }
    2:{ exfalso. destruct Hact as (Hi & _ & _ & _ & r & k & Hres & _).
        destruct (Hsome i (Hlt i Hi)) as [r' Hr]. unfold thread_result in Hr. unfold residual in Hres.
        destruct (nth_error ps i); [|discriminate]. destruct (nth_error (fst c) i); [|discriminate].
        rewrite Hres in Hr. discriminate. }
    destruct Hact as [Ew Hres]. subst ord.
    set (ord := lin_order sched) in *.
    assert (Hin : forall i, In i (rest_of (length ps) ord) ->
              exists r, nth_error ps i = Some (Ret r) /\ thread_result ps c i = Some r).
    { intros i Hi. unfold rest_of in Hi. apply filter_In in Hi. destruct Hi as [Hi Hn].
      apply in_seq in Hi. assert (Hilt : i < length ps) by lia.
      assert (Hni : ~ In i ord).
      { intros H. apply existsb_eqb_In in H. rewrite H in Hn. discriminate. }
      destruct (Hoth i Hilt Hni ltac:(simpl; discriminate)) as (h & Hh & Hcase).
      destruct (Hsome i Hilt) as [r Hr]. unfold thread_result in Hr.
      destruct (nth_error ps i) as [q|] eqn:Ep; [|discriminate]. rewrite Hh in Hr.
      destruct Hcase as [->|[Hq HS]].
      - simpl in Hr. destruct q; try discriminate. inversion Hr; subst. exists r. split; auto.
        unfold thread_result. rewrite Ep, Hh. reflexivity.
      - exfalso. inversion Hq; subst q. destruct (RState_Vis _ _ HS) as (o & k & E).
        rewrite E in Hr. discriminate. }
    assert (Hrest : forall l, (forall i, In i l -> In i (rest_of (length ps) ord)) ->
              exists rs2, seq_runp _ ps l w1 = Some (w1, rs2) /\ map (thread_result ps c) l = map Some rs2).
    { induction l as [|i l IH]; intros Hl.
      - exists []. auto.
      - destruct (Hin i (Hl i (or_introl eq_refl))) as (r & Hp & Hr).
        destruct IH as (rs2 & H1 & H2); [intros y Hy; apply Hl; right; exact Hy|].
        exists (r :: rs2). simpl. rewrite Hp. simpl. rewrite H1, Hr, H2. auto. }
    destruct (Hrest (rest_of (length ps) ord)) as (rs2 & Hs2 & Hr2); [auto|].
    exists w1, (rs ++ rs2). cbv zeta. split; [|split; [|split; [|split]]].
    - apply NoDup_app_disj; auto.
      + unfold rest_of. apply NoDup_filter. apply seq_NoDup.
      + intros y Hy Hy'. unfold rest_of in Hy'. apply filter_In in Hy'. destruct Hy' as [_ Hn].
        apply existsb_eqb_In in Hy. rewrite Hy in Hn. discriminate.
    - intros i. split.
      + intros Hi. apply in_app_or in Hi. destruct Hi as [Hi|Hi]; auto.
        unfold rest_of in Hi. apply filter_In in Hi. destruct Hi as [Hi _]. apply in_seq in Hi. lia.
      + intros Hi. destruct (existsb (Nat.eqb i) ord) eqn:E.
        * apply in_or_app. left. apply existsb_eqb_In. exact E.
        * apply in_or_app. right. unfold rest_of. apply filter_In. split; [apply in_seq; lia|].
          rewrite E. reflexivity.
    - eapply seq_runp_app; eauto.
    - exact Ew.
    - rewrite !map_app. f_equal; auto.
  Qed.
End Pool.

(* ====================================================================================== *)
(* §3  store_metadata and retrieve_metadata calls on one document                          *)
(* ====================================================================================== *)

(* the calls of the pools: store_metadata and retrieve_metadata on ONE document (p, f); calls that
   the argument checks reject (they perform no operation) may be among them *)
Definition wr_call (p : pid) (f : fmt) (c : call) : Prop :=
  match c with
  | CStoreMeta p' f' _ _ _ => p' = p /\ f' = f
  | CRetrMeta p' f' => p' = p /\ f' = f
  | CRejected _ => True
  | _ => False
  end.

(* the versions the writers of the pool store: complete, all n chunks *)
Definition stored_version (calls : list call) (d : option fcontent) : Prop :=
  exists p f s v n, In (CStoreMeta p f s v n) calls /\ s <> SrcMissing /\ d = Some (CData v n n).

Lemma wr_shape : forall p f calls i q,
  (forall ci, In ci calls -> wr_call p f ci) -> nth_error (map api calls) i = Some q ->
  (exists r, q = Ret r) \/ q = reader_prog p f \/ wprog p f (stored_version calls) i q.
Proof.
  intros p f calls i q Hc Hq. rewrite nth_error_map in Hq.
  destruct (nth_error calls i) as [ci|] eqn:E; [|discriminate]. inversion Hq; subst q.
  pose proof (nth_error_In _ _ E) as Hin. specialize (Hc ci Hin).
  destruct ci; simpl in Hc; try contradiction.
  - destruct Hc as [-> ->]. right. right.
    destruct (store_metadata_pre p f (stored_version calls) s v n) as (k & Ek & Hk).
    { intros Hs. exists p, f, s, v, n. auto. }
    exists k. split; [exact Ek|]. intros w. apply Hk.
  - destruct Hc as [-> ->]. right. left. reflexivity.
  - left. eexists. reflexivity.
Qed.

(* (2) THE THEOREM.  Any number of store_metadata and retrieve_metadata calls on one document,
   started in any world that holds no lock (reference files typed: every world satisfying
   Spec.Inv), under ANY schedule: a configuration in which no thread can move is one in which every
   call has returned and no lock is held, and the final WORLD and every call's outcome are exactly
   those of running the calls one after the other in the order [lin_order]: each writer at its
   Rename (the writers in the order in which they acquired the lock), each reader at its last
   operation; the rejected calls last. *)
Theorem one_doc_writers_readers_linearizable :
  forall (p : pid) (f : fmt) (calls : list call) (w0 : world) (sched : list nat) (c : cfg),
    locks w0 = [] -> refs_typed (fs w0) ->
    (forall ci, In ci calls -> wr_call p f ci) ->
    exec (map api calls) sched (init_cfg (map api calls) w0) = Some c ->
    stuck (map api calls) c ->
    finished (map api calls) c = true /\ locks (snd c) = [] /\
    exists (w' : world) (rs : list (outcome value)),
      let lin := lin_order (map api calls) w0 sched in
      let ord := lin ++ rest_of (length calls) lin in
      NoDup ord /\ (forall i, In i ord <-> i < length calls) /\
      seq_run calls ord w0 = Some (w', rs) /\
      snd c = w' /\
      map (thread_result (map api calls) c) ord = map Some rs.
Proof.
  intros p f calls w0 sched c Hl Hrt Hcalls He Hst.
  destruct (writers_readers_pool p f (stored_version calls)) with (ps := map api calls) (w0 := w0)
    (sched := sched) (c := c) as (H1 & H2 & _ & w' & rs & H3); auto.
  - intros d (p' & f' & s & v & n & _ & _ & ->). discriminate.
  - intros i q Hq. eapply wr_shape; eauto.
  - apply api_pool_ok.
  - split; [exact H1|]. split; [exact H2|]. exists w', rs.
    rewrite map_length in H3. cbv zeta in *. destruct H3 as (N1 & N2 & N3 & N4 & N5).
    split; [exact N1|]. split; [exact N2|].
    split; [|split; [exact N4 | exact N5]].
    rewrite <- seq_runp_seq_run; [exact N3|]. intros i Hi. apply N2 in Hi. exact Hi.
Qed.

(* (1) A READER NEVER SEES A PARTIAL DOCUMENT.  In every configuration that any schedule reaches
   (stuck or not), a retrieve_metadata call that has returned has returned either the not-found
   ValueError or the COMPLETE content of a version: the document of the start world, whole as it
   was, or [CData v n n] — all n chunks — of a store_metadata … v n call of the pool. *)
Theorem readers_never_partial :
  forall (p : pid) (f : fmt) (calls : list call) (w0 : world) (sched : list nat) (c : cfg),
    locks w0 = [] ->
    (forall ci, In ci calls -> wr_call p f ci) ->
    exec (map api calls) sched (init_cfg (map api calls) w0) = Some c ->
    forall j r, nth_error calls j = Some (CRetrMeta p f) ->
      thread_result (map api calls) c j = Some r ->
      r = Exn EValueError \/
      exists d, r = Val (VBytes d) /\
        (lookup (AMeta p f) (fs w0) = Some d \/
         exists s v n, In (CStoreMeta p f s v n) calls /\ s <> SrcMissing /\ d = CData v n n).
Proof.
  intros p f calls w0 sched c Hl Hcalls He j r Hj Hr.
  destruct (reached_reader_results p f (stored_version calls)) with (ps := map api calls) (w0 := w0)
    (sched := sched) (c := c) as (_ & HR); auto.
  - intros d (p' & f' & s & v & n & _ & _ & ->). discriminate.
  - intros i q Hq. eapply wr_shape; eauto.
  - destruct (HR j r) as [E|(d & E & HV)]; auto.
    + rewrite nth_error_map, Hj. reflexivity.
    + right. exists d. split; [exact E|]. destruct HV as [HV|(p' & f' & s & v & n & Hin & Hs & E')].
      * left. symmetry. exact HV.
      * right. inversion E'; subst d. specialize (Hcalls _ Hin). simpl in Hcalls.
        destruct Hcalls as [-> ->]. exists s, v, n. auto.
Qed.

(* the document itself is never partial either: in every reached configuration it is the start
   document or a complete stored version *)
Theorem document_never_partial :
  forall (p : pid) (f : fmt) (calls : list call) (w0 : world) (sched : list nat) (c : cfg),
    locks w0 = [] ->
    (forall ci, In ci calls -> wr_call p f ci) ->
    exec (map api calls) sched (init_cfg (map api calls) w0) = Some c ->
    lookup (AMeta p f) (fs (snd c)) = lookup (AMeta p f) (fs w0) \/
    exists s v n, In (CStoreMeta p f s v n) calls /\ s <> SrcMissing /\
                  lookup (AMeta p f) (fs (snd c)) = Some (CData v n n).
Proof.
  intros p f calls w0 sched c Hl Hcalls He.
  destruct (reached_reader_results p f (stored_version calls)) with (ps := map api calls) (w0 := w0)
    (sched := sched) (c := c) as (HV & _); auto.
  - intros d (p' & f' & s & v & n & _ & _ & ->). discriminate.
  - intros i q Hq. eapply wr_shape; eauto.
  - destruct HV as [HV|(p' & f' & s & v & n & Hin & Hs & E')]; [left; exact HV|].
    right. specialize (Hcalls _ Hin). simpl in Hcalls. destruct Hcalls as [-> ->].
    exists s, v, n. auto.
Qed.
