(* Base.v — small shared utilities (stdlib only). *)
From Coq Require Export List Arith Bool Lia PeanoNat.
Export ListNotations.

Set Implicit Arguments.

(* Boolean membership / removal on lists with an explicit equality test. *)
Section ListB.
  Variable A : Type.
  Variable eqb : A -> A -> bool.

  Fixpoint memb (x : A) (l : list A) : bool :=
    match l with
    | [] => false
    | y :: l' => if eqb x y then true else memb x l'
    end.

  (* Python's list.remove: removes the first occurrence only. *)
  Fixpoint remove1 (x : A) (l : list A) : list A :=
    match l with
    | [] => []
    | y :: l' => if eqb x y then l' else y :: remove1 x l'
    end.

  Fixpoint list_eqb (l1 l2 : list A) : bool :=
    match l1, l2 with
    | [], [] => true
    | x :: l1', y :: l2' => eqb x y && list_eqb l1' l2'
    | _, _ => false
    end.

  Hypothesis eqb_true : forall x y, eqb x y = true -> x = y.
  Hypothesis eqb_refl : forall x, eqb x x = true.

  Lemma list_eqb_true : forall l1 l2, list_eqb l1 l2 = true -> l1 = l2.
  Proof.
    induction l1 as [|x l1 IH]; destruct l2 as [|y l2]; simpl; intros H; try discriminate; auto.
    apply andb_true_iff in H. destruct H as [H1 H2].
    f_equal; auto.
  Qed.

  Lemma list_eqb_refl : forall l, list_eqb l l = true.
  Proof. induction l as [|x l IH]; simpl; auto. rewrite eqb_refl, IH. reflexivity. Qed.

  Lemma memb_In : forall x l, memb x l = true <-> In x l.
  Proof.
    induction l as [|y l IH]; simpl.
    - split; [discriminate | tauto].
    - destruct (eqb x y) eqn:E.
      + split; auto. intros _. left. symmetry. auto.
      + rewrite IH. split; auto. intros [H|H]; auto. subst. rewrite eqb_refl in E. discriminate.
  Qed.

  Lemma memb_false_not_In : forall x l, memb x l = false <-> ~ In x l.
  Proof.
    intros x l. rewrite <- memb_In. destruct (memb x l); split; intros H.
    - discriminate.
    - exfalso. apply H. reflexivity.
    - intros H'. discriminate.
    - reflexivity.
  Qed.
End ListB.

Definition option_eqb {A} (eqb : A -> A -> bool) (a b : option A) : bool :=
  match a, b with
  | Some x, Some y => eqb x y
  | None, None => true
  | _, _ => false
  end.

Lemma nat_eqb_true : forall x y, Nat.eqb x y = true -> x = y.
Proof. intros. apply Nat.eqb_eq. assumption. Qed.
