(* Codec.v — textual encoding of calls, results, worlds and traces, written in Coq so that the
   OCaml driver is pure I/O glue: the extracted [run_line : string -> string] and the kernel's
   [Eval vm_compute in run_line "..."] evaluate the very same function on the very same text. *)
From Coq Require Import String Ascii DecimalString Decimal.
From HS Require Import Base PyVal FS Ops Spec Sched Lin.
Open Scope string_scope.

Definition show_nat (n : nat) : string := NilEmpty.string_of_uint (Nat.to_uint n).
Definition read_nat (s : string) : option nat :=
  match s with
  | EmptyString => None
  | _ => match NilEmpty.uint_of_string s with Some u => Some (Nat.of_uint u) | None => None end
  end.

Fixpoint join (sep : string) (l : list string) : string :=
  match l with
  | [] => ""
  | [x] => x
  | x :: l' => x ++ sep ++ join sep l'
  end.

(* split on single spaces, dropping empty words *)
Fixpoint words_aux (s : string) (cur : string) : list string :=
  match s with
  | EmptyString => match cur with EmptyString => [] | _ => [cur] end
  | String c s' =>
      if Ascii.eqb c " "%char
      then match cur with EmptyString => words_aux s' "" | _ => cur :: words_aux s' "" end
      else words_aux s' (cur ++ String c EmptyString)
  end.
Definition words (s : string) : list string := words_aux s "".

(* split a word list at a separator word *)
Fixpoint split_at (sep : string) (l : list string) (cur : list string) : list (list string) :=
  match l with
  | [] => [rev cur]
  | x :: l' => if String.eqb x sep then rev cur :: split_at sep l' [] else split_at sep l' (x :: cur)
  end.

(* ---------- showing ---------- *)

Definition show_area (a : area) : string :=
  match a with ArObj => "o" | ArMeta => "m" | ArRefs => "r" end.

Fixpoint show_addr (a : addr) : string :=
  match a with
  | AObj c => "O" ++ show_nat c
  | APidRef p => "P" ++ show_nat p
  | ACidRef c => "R" ++ show_nat c
  | AMeta p f => "M" ++ show_nat p ++ "." ++ show_nat f
  | ATmp ar t n => "T" ++ show_area ar ++ show_nat t ++ "." ++ show_nat n
  | ADel x => "X" ++ show_addr x
  end.

Definition show_content (c : fcontent) : string :=
  match c with
  | CData b n i => "D" ++ show_nat b ++ "." ++ show_nat n ++ "." ++ show_nat i
  | CCid c => "C" ++ show_nat c
  | CLines l => "L" ++ join "," (map show_nat l)
  | CEmpty => "E"
  end.

Definition show_exn (e : exn) : string :=
  match e with
  | EValueError => "ValueError" | ETypeError => "TypeError" | EKeyError => "KeyError"
  | ERuntimeError => "RuntimeError" | EFileNotFound => "FileNotFoundError"
  | EFileExists => "FileExistsError" | EOSError => "OSError" | EAttributeError => "AttributeError"
  | EAssertionError => "AssertionError" | EGeneric => "Exception"
  | EUnsupportedAlgorithm => "UnsupportedAlgorithm" | ENonMatchingObjSize => "NonMatchingObjSize"
  | ENonMatchingChecksum => "NonMatchingChecksum"
  | EHashStoreRefsAlreadyExists => "HashStoreRefsAlreadyExists"
  | EPidRefsAlreadyExists => "PidRefsAlreadyExistsError"
  | EPidRefsDoesNotExist => "PidRefsDoesNotExist"
  | EOrphanPidRefsFileFound => "OrphanPidRefsFileFound"
  | ERefsFileExistsButCidObjMissing => "RefsFileExistsButCidObjMissing"
  | EPidNotFoundInCidRefsFile => "PidNotFoundInCidRefsFile"
  | EStoreObjectForPidAlreadyInProgress => "StoreObjectForPidAlreadyInProgress"
  | EIdentifierNotLocked => "IdentifierNotLocked"
  | EPidRefsFileNotFound => "PidRefsFileNotFound" | ECidRefsFileNotFound => "CidRefsFileNotFound"
  | EPidRefsContentError => "PidRefsContentError" | ECidRefsContentError => "CidRefsContentError"
  end.

Definition all_exns : list exn :=
  [EValueError; ETypeError; EKeyError; ERuntimeError; EFileNotFound; EFileExists; EOSError;
   EAttributeError; EAssertionError; EGeneric; EUnsupportedAlgorithm; ENonMatchingObjSize;
   ENonMatchingChecksum; EHashStoreRefsAlreadyExists; EPidRefsAlreadyExists; EPidRefsDoesNotExist;
   EOrphanPidRefsFileFound; ERefsFileExistsButCidObjMissing; EPidNotFoundInCidRefsFile;
   EStoreObjectForPidAlreadyInProgress; EIdentifierNotLocked; EPidRefsFileNotFound;
   ECidRefsFileNotFound; EPidRefsContentError; ECidRefsContentError].

Definition read_exn (s : string) : option exn :=
  find (fun e => String.eqb (show_exn e) s) all_exns.

Definition show_value (v : value) : string :=
  match v with
  | VUnit => "unit"
  | VMeta c n => "meta:" ++ show_nat c ++ ":" ++ show_nat n
  | VBytes c => "bytes:" ++ show_content c
  | VPath a => "path:" ++ show_addr a
  end.

Definition show_outcome (r : outcome value) : string :=
  match r with
  | Val v => "ok:" ++ show_value v
  | Exn e => "exn:" ++ show_exn e
  end.

Definition show_lockcls (c : lockcls) : string :=
  match c with LObjPid => "op" | LRefPid => "rp" | LCid => "ci" | LMeta => "md" | LFile => "fl" end.
Definition show_ident (i : ident) : string :=
  match i with IPid p => show_nat p | ICid c => show_nat c | IDoc a => show_addr a end.
Definition show_lock (l : lock) : string := show_lockcls (fst l) ++ ":" ++ show_ident (snd l).

Definition show_fs (m : fmap) : string :=
  join " " (map (fun kv => show_addr (fst kv) ++ "=" ++ show_content (snd kv)) m).
Definition show_world (w : world) : string :=
  "{" ++ show_fs (fs w) ++ "}[" ++ join " " (map show_lock (locks w)) ++ "]".

Definition show_err (e : err) : string := match e with ENoEnt => "noent" | EFault => "fault" end.

Definition show_ans (x : ans) : string :=
  match x with
  | AUnit => "u"
  | ABool b => if b then "t" else "f"
  | ANat n => show_nat n
  | ACont c => show_content c
  | AAddr a => show_addr a
  | AList l => "[" ++ join "," (map show_addr l) ++ "]"
  | AErr e => "!" ++ show_err e
  end.

Definition show_op (o : op) : string :=
  match o with
  | Probe a => "probe " ++ show_addr a
  | SizeLines a => "size " ++ show_addr a
  | Read a => "read " ++ show_addr a
  | OpenSrc => "opensrc"
  | MkTmp ar _ => "mktmp " ++ show_area ar
  | WriteChunk t => "write " ++ show_addr t
  | OpenWr t c => "openw " ++ show_addr t ++ " " ++ show_content c
  | Rename s d => "rename " ++ show_addr s ++ " " ++ show_addr d
  | Remove a => "remove " ++ show_addr a
  | MkDirs a => "mkdirs " ++ show_addr a
  | ListDir p => "listdir " ++ show_nat p
  | AppendOpen a => "opena " ++ show_addr a
  | AppendWrite a p => "append " ++ show_addr a ++ " " ++ show_nat p
  | OpenRW a => "openrw " ++ show_addr a
  | RewriteWrite a p => "rewrite " ++ show_addr a ++ " " ++ show_nat p
  | Truncate a k => "truncate " ++ show_addr a
  | Acquire cls i => "acq " ++ show_lockcls cls ++ ":" ++ show_ident i
  | Release cls i => "rel " ++ show_lockcls cls ++ ":" ++ show_ident i
  | Peek cls i => "peek " ++ show_lockcls cls ++ ":" ++ show_ident i
  | Held cls i => "held " ++ show_lockcls cls ++ ":" ++ show_ident i
  end.

Definition show_step (s : op * ans) : string := show_op (fst s) ++ " -> " ++ show_ans (snd s).

(* ---------- reading calls ---------- *)

Definition read_opt_nat (s : string) : option (option nat) :=
  if String.eqb s "-" then Some None
  else match read_nat s with Some n => Some (Some n) | None => None end.

Definition read_src (s : string) : option src :=
  if String.eqb s "p" then Some SrcPath
  else if String.eqb s "m" then Some SrcMissing
  else if String.eqb s "s" then Some SrcStream else None.

Definition read_vsz (s : string) : option vsz :=
  if String.eqb s "n" then Some VSzNone
  else if String.eqb s "o" then Some VSzOk
  else if String.eqb s "b" then Some VSzBad else None.

Definition read_vck (s : string) : option vck :=
  if String.eqb s "n" then Some VCkNone
  else if String.eqb s "o" then Some VCkOk
  else if String.eqb s "b" then Some VCkBad else None.

Definition read_bool (s : string) : option bool :=
  if String.eqb s "1" then Some true else if String.eqb s "0" then Some false else None.

Definition read_call (ws : list string) : option call :=
  match ws with
  | [k; p; s; b; n; sz; ck] =>
      if String.eqb k "so" then
        match read_opt_nat p, read_src s, read_nat b, read_nat n, read_vsz sz, read_vck ck with
        | Some p', Some s', Some b', Some n', Some sz', Some ck' => Some (CStore p' s' b' n' sz' ck')
        | _, _, _, _, _, _ => None
        end
      else None
  | [k; p; f; s; v; n] =>
      if String.eqb k "sm" then
        match read_nat p, read_nat f, read_src s, read_nat v, read_nat n with
        | Some p', Some f', Some s', Some v', Some n' => Some (CStoreMeta p' f' s' v' n')
        | _, _, _, _, _ => None
        end
      else None
  | [k; c; sz; pre; ok] =>
      if String.eqb k "dii" then
        match read_nat c, read_vsz sz, read_bool pre, read_bool ok with
        | Some c', Some sz', Some pre', Some ok' => Some (CDelInvalid c' sz' pre' ok')
        | _, _, _, _ => None
        end
      else None
  | [k; a; b] =>
      if String.eqb k "tag" then
        match read_nat a, read_nat b with Some p, Some c => Some (CTag p c) | _, _ => None end
      else if String.eqb k "rm" then
        match read_nat a, read_nat b with Some p, Some f => Some (CRetrMeta p f) | _, _ => None end
      else if String.eqb k "dm" then
        match read_nat a, read_opt_nat b with Some p, Some f => Some (CDelMeta p f) | _, _ => None end
      else None
  | [k; a] =>
      if String.eqb k "del" then option_map CDelete (read_nat a)
      else if String.eqb k "ro" then option_map CRetrieve (read_nat a)
      else if String.eqb k "gh" then option_map CGetHex (read_nat a)
      else if String.eqb k "rej" then option_map CRejected (read_exn a)
      else if String.eqb k "delu" then option_map CDeleteUnfixed (read_nat a)
      else None
  | _ => None
  end.

Fixpoint read_calls (l : list (list string)) : option (list call) :=
  match l with
  | [] => Some []
  | [] :: l' => read_calls l'            (* tolerate empty segments *)
  | ws :: l' =>
      match read_call ws, read_calls l' with
      | Some c, Some cs => Some (c :: cs)
      | _, _ => None
      end
  end.

Definition read_history (ws : list string) : option (list call) := read_calls (split_at ";" ws []).

(* ---------- commands ---------- *)

(* seq | h        : outcomes of every call and the final world
   states | h     : additionally the world after every call
   trace | h      : operation trace of the LAST call of h (the others build the start state) *)

Fixpoint run_states (w : world) (h : list call) : list string :=
  match h with
  | [] => []
  | c :: h' =>
      match run_seq w (api c) with
      | Some (w', r) => (show_outcome r ++ " " ++ show_world w') :: run_states w' h'
      | None => ["STUCK"]
      end
  end.

Definition cmd_seq (h : list call) : string :=
  match run_history empty_world h with
  | Some (w, rs) => join " ; " (map show_outcome rs) ++ " | " ++ show_world w
  | None => "STUCK"
  end.

Definition cmd_states (h : list call) : string := join " ; " (run_states empty_world h).

Definition cmd_trace (h : list call) : string :=
  match rev h with
  | [] => "EMPTY"
  | last :: pre =>
      match run_history empty_world (rev pre) with
      | Some (w, _) =>
          match run_trace w (api last) [] with
          | Some (w', r, tr) =>
              show_outcome r ++ " | " ++ join " ; " (map show_step tr) ++ " | " ++ show_world w'
          | None => "STUCK"
          end
      | None => "STUCK"
      end
  end.

(* semcheck | h : the programs and the functional specification side by side *)
Definition cmd_semcheck (h : list call) : string :=
  match sem_agrees empty_world h 0 with
  | None => "AGREE"
  | Some k => "DIFFER " ++ show_nat k
  end.

(* sched | setup | c1 || c2 [|| c3] : every stuck configuration reachable by some schedule, with
   one witness schedule each:  <out1> , <out2> {files}[locks] lin=<0|1> retr=<0|1> @<schedule> *)
Definition show_opt_outcome (r : option (outcome value)) : string :=
  match r with Some x => show_outcome x | None => "BLOCKED" end.

Definition show_final (w0 : world) (calls : list call) (pc : pcfg) : string :=
  let c := fst pc in
  join " , " (map show_opt_outcome (results (map api calls) c)) ++ " " ++ show_world (snd c)
  ++ " lin=" ++ (if lin_ok w0 calls c then "1" else "0")
  ++ " retr=" ++ (if stored_retrievable calls c then "1" else "0")
  ++ " @" ++ join "," (map show_nat (rev (snd pc))).

Definition cmd_sched (setup : list call) (calls : list call) : string :=
  match run_history empty_world setup with
  | Some (w0, _) =>
      let ps := map api calls in
      let finals := explore_paths ps sched_fuel [(init_cfg ps w0, [])] [] in
      join " ; " (map (show_final w0 calls) finals)
  | None => "STUCK"
  end.

(* schedok | setup | c1 || c2 : the closed boolean the menu theorems evaluate *)
Definition cmd_schedok (setup : list call) (calls : list call) : string :=
  if scenario_ok {| sc_setup := setup; sc_calls := calls |} then "OK" else "FAIL".

(* crash n | setup | call : files left when the process dies before the n-th operation of the call,
   and the number of operations of the complete call *)
Definition cmd_crash (n : nat) (setup : list call) (c : call) : string :=
  match run_history empty_world setup with
  | Some (w0, _) =>
      show_world (reopen (run_crash n w0 (api c))) ++ " len=" ++ show_nat (run_length 1000 w0 (api c))
  | None => "STUCK"
  end.

(* fault k p|o | setup | call : outcome and world with the k-th fault site failing once / persistently *)
Definition cmd_fault (k : nat) (pers : bool) (setup : list call) (c : call) : string :=
  match run_history empty_world setup with
  | Some (w0, _) =>
      match run_fault (FWait k pers) w0 (api c) with
      | Some (w, r) => show_outcome r ++ " " ++ show_world w ++ " sites=" ++ show_nat (count_sites w0 (api c))
      | None => "STUCK"
      end
  | None => "STUCK"
  end.

Definition run_line (line : string) : string :=
  match split_at "|" (words line) [] with
  | [[cmd]; sw; cw] =>
      match read_history sw, read_calls (split_at "||" cw []) with
      | Some setup, Some calls =>
          if String.eqb cmd "sched" then cmd_sched setup calls
          else if String.eqb cmd "schedok" then cmd_schedok setup calls
          else "BADCMD"
      | _, _ => "PARSE"
      end
  | [[cmd; arg]; sw; cw] =>
      match read_nat arg, read_history sw, read_call cw with
      | Some n, Some setup, Some c =>
          if String.eqb cmd "crash" then cmd_crash n setup c
          else if String.eqb cmd "faulto" then cmd_fault n false setup c
          else if String.eqb cmd "faultp" then cmd_fault n true setup c
          else "BADCMD"
      | _, _, _ => "PARSE"
      end
  | [[cmd]; hw] =>
      match read_history hw with
      | Some h =>
          if String.eqb cmd "seq" then cmd_seq h
          else if String.eqb cmd "states" then cmd_states h
          else if String.eqb cmd "trace" then cmd_trace h
          else if String.eqb cmd "semcheck" then cmd_semcheck h
          else "BADCMD"
      | None => "PARSE"
      end
  | _ => "PARSE"
  end.
