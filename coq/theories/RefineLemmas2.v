(* RefineLemmas2.v — the loop of delete_metadata(pid, None), the specification-side filter, and
   the object-storing sub-program. *)
From HS Require Import Base PyVal FS Ops Spec RefineLemmas.

(* ---------- ownership ---------- *)

Lemma owned_shape : forall p x, owned_by p x = true ->
  (exists f, x = AMeta p f) \/ (exists y, x = ADel y).
Proof.
  intros p x H. destruct x; try discriminate H; [left|right; eauto].
  unfold owned_by in H. cbn [meta_owner] in H. apply Nat.eqb_eq in H. subst. eauto.
Qed.

Lemma owned_meta : forall p f, owned_by p (AMeta p f) = true.
Proof. intros. unfold owned_by. cbn [meta_owner]. apply Nat.eqb_refl. Qed.

Lemma owned_del : forall p x, owned_by p (ADel x) = owned_by p x.
Proof. reflexivity. Qed.

Lemma lookup_delete_all_meta : forall p a m,
  lookup a (delete_all_meta p m) = if owned_by p a then None else lookup a m.
Proof.
  intros p a. induction m as [|[k v] m IH]; cbn [delete_all_meta filter lookup fst negb].
  - destruct (owned_by p a); reflexivity.
  - fold (delete_all_meta p m). destruct (owned_by p k) eqn:Ek; cbn [negb lookup].
    + rewrite IH. destruct (addr_eqb a k) eqn:E; auto.
      apply addr_eqb_true in E. subst. rewrite Ek. reflexivity.
    + rewrite IH. destruct (addr_eqb a k) eqn:E; auto.
      apply addr_eqb_true in E. subst. rewrite Ek. reflexivity.
Qed.

(* ---------- delete_marked, probe_all, mark_docs ---------- *)

Lemma run_delete_marked : forall ds m L,
  exists m', run_seq (mkWorld m L) (delete_marked ds) = Some (mkWorld m' L, Val tt) /\
             forall x, lookup x m' = if memb addr_eqb x ds then None else lookup x m.
Proof.
  induction ds as [|d ds IH]; intros m L.
  - exists m. split; reflexivity.
  - cbn [delete_marked]. step1. step1.
    destruct (IH (match lookup d m with Some _ => delete d m | None => m end) L) as (m' & Hr & Hl).
    exists m'. rewrite Hr. split; [reflexivity|].
    intros x. rewrite Hl. cbn [memb].
    destruct (addr_eqb x d) eqn:E.
    + apply addr_eqb_true in E. subst x. destruct (memb addr_eqb d ds); auto.
      destruct (lookup d m) eqn:Hd; [apply lookup_delete_eq|exact Hd].
    + destruct (memb addr_eqb x ds); auto.
      destruct (lookup d m); auto. rewrite lookup_delete, E. reflexivity.
Qed.

Lemma run_probe_all : forall l m L,
  run_seq (mkWorld m L) (probe_all l) = Some (mkWorld m L, Val (filter (fun a => present a m) l)).
Proof.
  induction l as [|a l IH]; intros m L; cbn [probe_all filter].
  - reflexivity.
  - step1. step1. rewrite run_mbind, IH. cbn beta iota. rewrite run_ret.
    unfold present. destruct (lookup a m); reflexivity.
Qed.

Lemma run_mark_docs : forall p l m L,
  (forall a, In a l -> exists f, a = AMeta p f) ->
  (forall a, memb lock_eqb (LMeta, IDoc a) L = false) ->
  exists m1 ds,
    run_seq (mkWorld m L) (mark_docs l) = Some (mkWorld m1 L, Val ds) /\
    (forall x, In x ds -> exists f, x = ADel (AMeta p f)) /\
    (forall x, (forall f, x <> AMeta p f) -> ~ In x ds -> lookup x m1 = lookup x m) /\
    (forall f, In (AMeta p f) l \/ lookup (AMeta p f) m = None -> lookup (AMeta p f) m1 = None).
Proof.
  intros p. induction l as [|a l IH]; intros m L Hl HL.
  - exists m, []. split; [reflexivity|]. split; [intros x []|]. split; [auto|].
    intros f [[]|H]; exact H.
  - destruct (Hl a (or_introl eq_refl)) as [f0 ->].
    assert (Hl' : forall a, In a l -> exists f, a = AMeta p f) by (intros; apply Hl; right; auto).
    cbn [mark_docs]. step1. step1. rewrite run_mbind, run_try_finally. step1. step1.
    destruct (lookup (AMeta p f0) m) as [v|] eqn:Ha.
    + unfold rename_for_deletion. steps.
      destruct (IH (update (ADel (AMeta p f0)) v (delete (AMeta p f0) m)) L Hl' HL)
        as (m1 & ds & Hr & P1 & P2 & P3).
      rewrite Hr. cbn beta iota. rewrite run_ret.
      exists m1, ([ADel (AMeta p f0)] ++ ds). split; [reflexivity|]. split; [|split].
      * intros x [<-|Hx]; eauto.
      * intros x Hx Hn. rewrite P2; auto.
        -- rewrite lookup_update, lookup_delete.
           destruct (addr_eqb x (ADel (AMeta p f0))) eqn:E1.
           ++ apply addr_eqb_true in E1. exfalso. apply Hn. left. auto.
           ++ destruct (addr_eqb x (AMeta p f0)) eqn:E2; auto.
              apply addr_eqb_true in E2. exfalso. eapply Hx. eauto.
        -- intros Hd. apply Hn. right. exact Hd.
      * intros f Hf. apply P3.
        destruct (addr_eqb (AMeta p f) (AMeta p f0)) eqn:E.
        -- right. rewrite lookup_update, lookup_delete, E. reflexivity.
        -- destruct Hf as [[Hf|Hf]|Hf].
           ++ rewrite Hf, addr_eqb_refl in E. discriminate.
           ++ left. exact Hf.
           ++ right. rewrite lookup_update, lookup_delete, E. exact Hf.
    + steps.
      destruct (IH m L Hl' HL) as (m1 & ds & Hr & P1 & P2 & P3).
      rewrite Hr. cbn beta iota. rewrite run_ret.
      exists m1, ds. split; [reflexivity|]. split; [exact P1|]. split; [exact P2|].
      intros f [[Hf|Hf]|Hf]; apply P3; auto.
      right. inversion Hf. subst. exact Ha.
Qed.

Lemma run_delete_metadata_all : forall p m L,
  (forall x, owned_by p (ADel x) = true -> lookup (ADel x) m = None) ->
  (forall a, memb lock_eqb (LMeta, IDoc a) L = false) ->
  exists m2, run_seq (mkWorld m L) (delete_metadata p None) = Some (mkWorld m2 L, Val tt) /\
             forall x, lookup x m2 = if owned_by p x then None else lookup x m.
Proof.
  intros p m L Hd HL. cbn [delete_metadata]. step1. step1.
  rewrite run_mbind, run_probe_all. cbn beta iota.
  set (l' := filter (fun a => present a m) (filter (owned_by p) (keys m))).
  assert (Hl' : forall a, In a l' -> exists f, a = AMeta p f).
  { intros a Ha. apply filter_In in Ha. destruct Ha as [Ha Hp].
    apply filter_In in Ha. destruct Ha as [_ Ho].
    destruct (owned_shape _ _ Ho) as [Hs|[y ->]]; auto.
    unfold present in Hp. rewrite (Hd _ Ho) in Hp. discriminate. }
  destruct (run_mark_docs p l' m L Hl' HL) as (m1 & ds & Hr & P1 & P2 & P3).
  rewrite run_mbind, Hr. cbn beta iota.
  destruct (run_delete_marked ds m1 L) as (m2 & Hr2 & Hm2).
  exists m2. split; [exact Hr2|].
  intros x. rewrite Hm2. destruct (memb addr_eqb x ds) eqn:Eds.
  - apply memb_addr_In in Eds. destruct (P1 _ Eds) as [f ->].
    rewrite owned_del, owned_meta. reflexivity.
  - apply memb_addr_not_In in Eds. destruct (owned_by p x) eqn:Eo.
    + destruct (owned_shape _ _ Eo) as [[f ->]|[y ->]].
      * apply P3. destruct (lookup (AMeta p f) m) eqn:Hf; auto. left.
        unfold l'. apply filter_In. split.
        -- apply filter_In. split; [eapply lookup_Some_In_keys; eauto|exact Eo].
        -- unfold present. rewrite Hf. reflexivity.
      * rewrite P2; auto. intros f. discriminate.
    + apply P2; auto. intros f ->. rewrite owned_meta in Eo. discriminate.
Qed.

(* ---------- pointwise equality of explicit maps ---------- *)

Ltac fseq :=
  let a := fresh "a" in
  intro a; lk; case_addr a; lk; try reflexivity; try congruence.

Ltac finish := eexists; (split; [reflexivity|]); fseq.

(* ---------- _move_and_get_checksums ---------- *)

Definition verdict (sz : vsz) (ck : vck) : option exn :=
  match sz with
  | VSzBad => Some ENonMatchingObjSize
  | _ => match ck with VCkBad => Some ENonMatchingChecksum | _ => None end
  end.

Definition obj_added (b n : nat) (m : fmap) : fmap :=
  if present (AObj b) m then m else update (AObj b) (CData b n n) m.

Lemma run_mgc_some : forall p b n sz ck m L,
  lookup (ATmp ArObj 0 0) m = None ->
  exists m', run_seq (mkWorld m L) (move_and_get_checksums (Some p) b n sz ck) =
               Some (mkWorld m' L, match verdict sz ck with Some e => Exn e | None => Val b end) /\
             fs_eq m' (match verdict sz ck with Some _ => m | None => obj_added b n m end).
Proof.
  intros p b n sz ck m L Ht. unfold move_and_get_checksums, obj_added, present. cbv zeta.
  rewrite run_mbind, run_mktmp, (fresh_tmp_0 _ _ Ht). cbn beta iota.
  rewrite run_mbind, run_catch.
  destruct (run_write_chunks n (ATmp ArObj 0 0) b n 0 (update (ATmp ArObj 0 0) (CData b n 0) m) L)
    as (m1 & Hr & Hm1); [apply lookup_update_eq|].
  rewrite Hr. cbn beta iota. cbn [Nat.add] in Hm1.
  destruct (lookup (AObj b) m) as [o|] eqn:Ho.
  - destruct sz, ck; cbn [verdict verify_object]; steps; finish.
  - destruct sz, ck; cbn [verdict verify_object]; steps; finish.
Qed.

Lemma run_mgc_none : forall b n m L,
  lookup (ATmp ArObj 0 0) m = None ->
  exists m', run_seq (mkWorld m L) (move_and_get_checksums None b n VSzNone VCkNone) =
               Some (mkWorld m' L, Val b) /\
             fs_eq m' (obj_added b n m).
Proof.
  intros b n m L Ht. unfold move_and_get_checksums, obj_added, present. cbv zeta.
  rewrite run_mbind, run_mktmp, (fresh_tmp_0 _ _ Ht). cbn beta iota.
  rewrite run_mbind, run_catch.
  destruct (run_write_chunks n (ATmp ArObj 0 0) b n 0 (update (ATmp ArObj 0 0) (CData b n 0) m) L)
    as (m1 & Hr & Hm1); [apply lookup_update_eq|].
  rewrite Hr. cbn beta iota. cbn [Nat.add] in Hm1.
  destruct (lookup (AObj b) m) as [o|] eqn:Ho; cbn [verify_object]; steps; finish.
Qed.

(* the invariant does not constrain objects beyond their type *)
Lemma InvF_obj_added : forall b n m, InvF m -> InvF (obj_added b n m).
Proof.
  intros b n m H. unfold obj_added. destruct (present (AObj b) m); [exact H|].
  destruct H as (W & I1 & I2). split; [|split].
  - intros a x. rewrite lookup_update. destruct (addr_eqb a (AObj b)) eqn:E.
    + apply addr_eqb_true in E. subst a. intros [= <-]. eauto.
    + apply W.
  - intros p c. rewrite !lookup_update. cbn [addr_eqb]. apply I1.
  - intros c l. rewrite !lookup_update. cbn [addr_eqb]. intros H.
    destruct (I2 _ _ H) as (H1 & H2 & H3). split; [|split]; auto.
    intros p Hp. rewrite lookup_update. cbn [addr_eqb]. auto.
Qed.
