(* FaultPersist.v — property C13, first clause, PERSISTENT faults, the calls that remove deletion
   markers (delete_object, delete_metadata(pid, None)) — the case FaultSuccess.v left open.

   A persistent failure sticks to the destination [d] of the operation it was delivered to
   ([FStuck d]): every later fault site with that destination fails too.  On a path to success the
   only failure that is swallowed is the removal of a deletion marker (_delete_marked_files), so
   [d] is the address of a marker.  What runs after it:
   - further removals of markers: whether they fail or not, only markers differ;
   - delete_metadata(pid, None), after the markers of the reference files / the object were
     removed: it is local to the metadata directories (Indep.Lc) and takes no flock, so no
     operation of it has the destination [d] — it runs as without fault ([Lc_stuck]) and does not
     see the marker left behind (the projection lemma, as in FaultSuccess.v);
   - lock releases (no fault site).
   Judgement [RFQ R D m P]: once a persistent fault has been delivered in [m], either the result
   satisfies [P] (an exception), or the fault-free run gives the same result and a world related by
   [R], and the destination the failure sticks to satisfies [D].  [NIS R1 R2 D m]: the run of [m]
   in a stuck state satisfying [D], from an [R1]-related world, against the fault-free run.

   Result: [persistent_fault_success_markers] / [persistent_fault_success_whole_effect], every
   call, every k, every world with a sorted file map. *)
From HS Require Import Base PyVal FS Ops Spec Sched RefineLemmas Refine SeqProps CrashFault Integrity
  CrashGeneral FaultGeneral FaultSuccess.
From HS Require Indep.

(* ================================================================================== *)
(* 1. A local program that takes no flock never meets a destination outside its footprint *)
(* ================================================================================== *)

Fixpoint noflk {A} (m : prog A) : Prop :=
  match m with
  | Vis o k => (forall a, o <> Acquire LFile a) /\ forall x, noflk (k x)
  | _ => True
  end.

Lemma noflk_bind : forall A B (m : prog A) (f : A -> prog B),
  noflk m -> (forall a, noflk (f a)) -> noflk (bind m f).
Proof.
  induction m as [a|o k IH|]; intros f Hm Hf; simpl; auto.
  destruct Hm as [Hs Hk]. split; auto.
Qed.

Lemma noflk_mbind : forall A B (m : M A) (f : A -> M B),
  noflk m -> (forall a, noflk (f a)) -> noflk (mbind m f).
Proof. intros. unfold mbind. apply noflk_bind; auto. intros [a|e]; simpl; auto. Qed.

Lemma noflk_catch : forall A (m : M A), noflk m -> noflk (catch m).
Proof. intros. unfold catch. apply noflk_bind; auto. intros r. exact I. Qed.

Lemma noflk_try_finally : forall A (m : M A) fin, noflk m -> noflk fin -> noflk (try_finally m fin).
Proof.
  intros A m fin Hm Hf. unfold try_finally. apply noflk_bind; auto. intros r.
  apply noflk_bind; auto. intros [u|e]; exact I.
Qed.

Ltac noflk_leaf := simpl; split; [intros ? E; discriminate E|intros []; exact I].

Lemma noflk_probe : forall a, noflk (probe a). Proof. intros. noflk_leaf. Qed.
Lemma noflk_listdir : forall p, noflk (listdir p). Proof. intros. noflk_leaf. Qed.
Lemma noflk_acquire_meta : forall x, noflk (acquire LMeta x). Proof. intros. noflk_leaf. Qed.
Lemma noflk_release : forall cls x, noflk (release cls x). Proof. intros. noflk_leaf. Qed.
Lemma noflk_rfd : forall a, noflk (rename_for_deletion a).
Proof. intros. unfold rename_for_deletion. apply noflk_mbind; [unfold unit_op; noflk_leaf|intros; exact I]. Qed.

Lemma noflk_probe_all : forall l, noflk (probe_all l).
Proof.
  induction l as [|a l IH]; cbn [probe_all]; [exact I|].
  apply noflk_mbind; [apply noflk_probe|]. intros b.
  apply noflk_mbind; [exact IH|]. intros r. exact I.
Qed.

Lemma noflk_delete_marked : forall l, noflk (delete_marked l).
Proof.
  induction l as [|a l IH]; cbn [delete_marked]; [exact I|].
  apply noflk_mbind; [unfold swallow_op; noflk_leaf|]. intros _. exact IH.
Qed.

Lemma noflk_mark_docs : forall l, noflk (mark_docs l).
Proof.
  induction l as [|a l IH]; cbn [mark_docs]; [exact I|].
  apply noflk_mbind; [apply noflk_acquire_meta|]. intros _.
  apply noflk_mbind.
  - apply noflk_try_finally; [|apply noflk_release].
    apply noflk_mbind; [apply noflk_probe|]. intros b. destruct b; [|exact I].
    apply noflk_mbind; [apply noflk_catch; apply noflk_rfd|].
    intros [d|e]; [exact I|]. destruct e; exact I.
  - intros d. apply noflk_mbind; [exact IH|]. intros r. exact I.
Qed.

Lemma noflk_delete_metadata_all : forall p, noflk (delete_metadata p None).
Proof.
  intros p. cbn [delete_metadata].
  apply noflk_mbind; [apply noflk_listdir|]. intros l.
  apply noflk_mbind; [apply noflk_probe_all|]. intros l'.
  apply noflk_mbind; [apply noflk_mark_docs|]. intros ds.
  apply noflk_delete_marked.
Qed.

Lemma addr_eqb_out : forall (K : addr -> bool) x a, K x = false -> K a = true -> addr_eqb x a = false.
Proof.
  intros K x a Hx Ha. destruct (addr_eqb x a) eqn:E; [|reflexivity].
  apply addr_eqb_true in E. subst. congruence.
Qed.

(* a fault site of a K-local program that is no flock has its destination inside K *)
Lemma op_local_dest : forall (K : addr -> bool) Lk cok o x,
  Indep.op_local 0 K Lk cok o -> (forall a, o <> Acquire LFile a) -> K x = false ->
  dest_eqb (DAddr x) (dest_of o) = false.
Proof.
  intros K Lk cok o x Hl Hn Hx.
  destruct o; simpl in Hl |- *; try reflexivity;
    try (eapply addr_eqb_out; [exact Hx|tauto]).
  destruct cls; try reflexivity. exfalso. eapply Hn. reflexivity.
Qed.

Lemma Lc_stuck : forall (K : addr -> bool) x, K x = false ->
  forall A (m : prog A) Q w,
  Indep.Lc 0 K LkT csbT m Q -> noflk m ->
  rfs (FStuck (DAddr x)) w m =
  match run_seq w m with Some (w', a) => Some (w', a, FStuck (DAddr x)) | None => None end.
Proof.
  intros K x Hx A. induction m as [a|o k IH|]; intros Q w Hl Hn; cbn [rfs run_seq]; auto.
  simpl in Hl. destruct Hl as [Hop Hk]. destruct Hn as [Hno Hnk].
  unfold fault_op. rewrite (op_local_dest K LkT _ o x Hop Hno Hx).
  assert (E' : (if is_site o then (exec_op 0 o w, FStuck (DAddr x)) else (exec_op 0 o w, FStuck (DAddr x)))
               = (exec_op 0 o w, FStuck (DAddr x))) by (destruct (is_site o); reflexivity).
  rewrite E'. destruct (exec_op 0 o w) as [[a w1]|] eqn:E; [|reflexivity].
  apply IH with (Q := Q); [|apply Hnk].
  apply Hk. eapply (@Indep.exec_ans_okl 0 K LkT csbT); [apply Wf_csbT|exact Hop|exact E].
Qed.

(* ================================================================================== *)
(* 2. The judgement for delivered persistent faults                                    *)
(* ================================================================================== *)

Section Persistent.
  Notation Iw := sortedw.
  Notation Ipres := sortedw_pres.

  (* the failure sticks to an address outside K *)
  Definition DK (K : addr -> bool) (d : dest) : Prop := exists a, d = DAddr a /\ K a = false.

  Lemma DK_K1_K2 : forall d, DK K1 d -> DK K2 d.
  Proof.
    intros d (a & -> & Ha). exists a. split; [reflexivity|].
    destruct a; simpl in *; try discriminate. reflexivity.
  Qed.

  Definition RFQ {A} (R : world -> world -> Prop) (D : dest -> Prop) (m : prog A) (P : A -> Prop) : Prop :=
    forall j w w' r d, Iw w -> rfs (FWait j true) w m = Some (w', r, FStuck d) ->
      (exists w0, run_seq w m = Some (w0, r) /\ R w' w0 /\ D d) \/ P r.

  Definition NIS {A} (R1 R2 : world -> world -> Prop) (D : dest -> Prop) (m : prog A) : Prop :=
    forall d w1 w2 w1' r st', Iw w1 -> Iw w2 -> D d -> R1 w1 w2 ->
      rfs (FStuck d) w1 m = Some (w1', r, st') ->
      exists w2', run_seq w2 m = Some (w2', r) /\ R2 w1' w2'.

  Lemma RFQ_of_RFP : forall A R D (m : prog A) P, RFP m P -> RFQ R D m P.
  Proof. intros A R D m P H j w w' r d _ Hr. right. eapply H. exact Hr. Qed.

  Lemma RFQ_nosite : forall A R D (m : prog A) P, nosite m -> RFQ R D m P.
  Proof. intros. apply RFQ_of_RFP. apply RFP_nosite. assumption. Qed.

  Lemma NIS_nosite : forall A R1 R2 D (m : prog A), nosite m -> NI Iw R1 R2 m -> NIS R1 R2 D m.
  Proof.
    intros A R1 R2 D m Hn HN d w1 w2 w1' r st' S1 S2 _ HR H.
    rewrite (rfs_nosite _ m _ w1 Hn) in H.
    destruct (run_seq w1 m) as [[u1 a]|] eqn:E; [|discriminate]. inversion H; subst.
    exact (HN w1 w2 w1' r S1 S2 HR E).
  Qed.

  Lemma RFQ_mbind : forall A B (R1 R2 : world -> world -> Prop) (D1 D2 : dest -> Prop)
                           (m : M A) (f : A -> M B)
                           (P1 : outcome A -> Prop) (P : outcome B -> Prop),
    (forall a b, R1 a b -> R2 a b) -> (forall d, D1 d -> D2 d) ->
    RFQ R1 D1 m P1 ->
    (forall a, RFQ R2 D2 (f a) P) ->
    (forall a, NIS R1 R2 D1 (f a)) ->
    (forall a, P1 (Val a) -> Always (f a) P) ->
    (forall e, P1 (Exn e) -> P (Exn e)) ->
    RFQ R2 D2 (mbind m f) P.
  Proof.
    intros A B R1 R2 D1 D2 m f P1 P HR HD Hm Hf HNI HA HE j w w' r d HI H.
    rewrite rfs_mbind in H. rewrite run_mbind.
    destruct (rfs (FWait j true) w m) as [[[w1 a] st1]|] eqn:Em; [|discriminate].
    pose proof (rfs_Iw Iw Ipres _ _ _ _ _ _ _ HI Em) as HI1.
    destruct (rfs_wait_cases _ _ _ _ _ _ _ _ Em) as [[[j1 ->] Hrun]|[[Hp _]|[_ [d1 ->]]]];
      [|discriminate|].
    - rewrite Hrun. destruct a as [x|e]; [|discriminate].
      eapply Hf; [exact HI1|exact H].
    - destruct (Hm j w w1 a d1 HI Em) as [(w01 & Hr & HR1 & HD1)|HP].
      + rewrite Hr. pose proof (run_seq_Iw Iw Ipres _ _ _ _ _ HI Hr) as HI01. destruct a as [x|e].
        * pose proof (rfs_stuck_state _ _ _ _ _ _ _ H) as Hd. inversion Hd; subst d.
          destruct (HNI x d1 w1 w01 w' r _ HI1 HI01 HD1 HR1 H) as (w2' & Hr2 & HR2).
          left. exists w2'. auto.
        * inversion H; subst. left. exists w01. auto.
      + destruct a as [x|e].
        * right. eapply HA; [exact HP|]. eapply rfs_frun. exact H.
        * inversion H; subst. right. auto.
  Qed.

  (* bind after a program in which a delivered persistent fault is never swallowed *)
  Lemma RFQ_mbind_pQ : forall A B R D (m : M A) (f : A -> M B) (V : A -> Prop)
                              (P1 : outcome A -> Prop) (P : outcome B -> Prop),
    RFP m P1 -> Always m (postV V) ->
    (forall a, V a -> RFQ R D (f a) P) ->
    (forall a, P1 (Val a) -> Always (f a) P) ->
    (forall e, P1 (Exn e) -> P (Exn e)) ->
    RFQ R D (mbind m f) P.
  Proof.
    intros A B R D m f V P1 P Hm HV Hf HA HE j w w' r d HI H.
    rewrite rfs_mbind in H. rewrite run_mbind.
    destruct (rfs (FWait j true) w m) as [[[w1 a] st1]|] eqn:Em; [|discriminate].
    pose proof (rfs_Iw Iw Ipres _ _ _ _ _ _ _ HI Em) as HI1.
    destruct (rfs_wait_cases _ _ _ _ _ _ _ _ Em) as [[[j1 ->] Hrun]|[[Hp _]|[_ [d1 ->]]]];
      [|discriminate|].
    - rewrite Hrun. destruct a as [x|e]; [|discriminate].
      eapply Hf; [|exact HI1|exact H]. apply (HV _ _ _ (run_seq_frun _ _ _ _ _ Hrun)).
    - pose proof (Hm j w w1 a d1 Em) as HP. destruct a as [x|e].
      + right. eapply HA; [exact HP|]. eapply rfs_frun. exact H.
      + inversion H; subst. right. auto.
  Qed.

  Lemma RFQ_mbind_eqQ : forall A B R D (m : M A) (f : A -> M B) (V : A -> Prop),
    RFP m isExn -> Always m (postV V) ->
    (forall a, V a -> RFQ R D (f a) isExn) -> RFQ R D (mbind m f) isExn.
  Proof.
    intros A B R D m f V Hm HV Hf. eapply RFQ_mbind_pQ with (P1 := isExn); eauto.
    intros a [].
  Qed.

  Lemma RFQ_mbind_eq : forall A B R D (m : M A) (f : A -> M B),
    RFP m isExn -> (forall a, RFQ R D (f a) isExn) -> RFQ R D (mbind m f) isExn.
  Proof.
    intros A B R D m f Hm Hf. eapply RFQ_mbind_eqQ with (V := fun _ => True); auto.
    intros w w' r _. destruct r; exact I.
  Qed.

  Lemma RFQ_try_finally : forall A R D (m : M A) fin,
    RFQ R D m isExn -> nosite fin -> NI Iw R R fin -> RFQ R D (try_finally m fin) isExn.
  Proof.
    intros A R D m fin Hm Hn HNI j w w' r d HI H. rewrite rfs_try_finally in H.
    rewrite run_try_finally.
    destruct (rfs (FWait j true) w m) as [[[w1 a] st1]|] eqn:Em; [|discriminate].
    rewrite (rfs_nosite _ fin st1 w1 Hn) in H.
    destruct (run_seq w1 fin) as [[w2 rf]|] eqn:Ef; [|discriminate].
    pose proof (rfs_Iw Iw Ipres _ _ _ _ _ _ _ HI Em) as HI1.
    destruct rf as [u|e]; inversion H; subst; [|right; exact I].
    destruct (Hm j w w1 r d HI Em) as [(w01 & Hr & HR & HD)|HP]; [|right; exact HP].
    pose proof (run_seq_Iw Iw Ipres _ _ _ _ _ HI Hr) as HI01.
    destruct (HNI w1 w01 w' (Val u) HI1 HI01 HR Ef) as (w2' & Hr2 & HR2).
    left. exists w2'. rewrite Hr, Hr2. auto.
  Qed.

  Lemma RFQ_lift_unit : forall K D m, RFQ (RJ K) D m isExn -> RFQ (RJ K) D (lift_unit m) isExn.
  Proof.
    intros K D m H. unfold lift_unit.
    eapply RFQ_mbind with (R1 := RJ K) (D1 := D) (P1 := isExn); auto.
    - intros _. apply RFQ_nosite. exact I.
    - intros _. apply NIS_nosite; [exact I|]. apply NI_ret.
    - intros x [].
  Qed.

  (* ---------- the removal of markers ---------- *)

  Lemma rfs_stuck_swallow_remove_K : forall (K : addr -> bool) a d w, K a = false ->
    exists w0, rfs (FStuck d) w (swallow_op (Remove a)) = Some (w0, Val tt, FStuck d) /\
               locks w0 = locks w /\ Indep.proj K (fs w0) = Indep.proj K (fs w).
  Proof.
    intros K a d w Ha. unfold swallow_op. cbn [rfs]. unfold fault_op. cbn [is_site dest_of].
    destruct (dest_eqb d (DAddr a)).
    - exists w. auto.
    - unfold exec_op. destruct (lookup a (fs w)); eexists; (split; [reflexivity|]); split; try reflexivity.
      simpl. apply Indep.proj_delete_out. exact Ha.
  Qed.

  Lemma rfs_stuck_delete_marked_K : forall (K : addr -> bool) l, dlK K l -> forall d w,
    exists w0, rfs (FStuck d) w (delete_marked l) = Some (w0, Val tt, FStuck d) /\
               locks w0 = locks w /\ Indep.proj K (fs w0) = Indep.proj K (fs w).
  Proof.
    intros K. induction l as [|a l IH]; intros Hl d w; cbn [delete_marked].
    - exists w. auto.
    - destruct (rfs_stuck_swallow_remove_K K a d w) as (w1 & Hr & L1 & P1); [apply Hl; left; reflexivity|].
      destruct (IH (fun x Hx => Hl x (or_intror Hx)) d w1) as (w2 & Hr2 & L2 & P2).
      exists w2. rewrite rfs_mbind, Hr. split; [exact Hr2|]. split; congruence.
  Qed.

  Lemma NIS_delete_marked : forall K D l, dlK K l -> NIS (RJ K) (RJ K) D (delete_marked l).
  Proof.
    intros K D l Hl d w1 w2 w1' r st' _ _ _ [HL HP] H.
    destruct (rfs_stuck_delete_marked_K K l Hl d w1) as (u1 & Hr1 & L1 & P1).
    rewrite Hr1 in H. inversion H; subst.
    destruct (run_delete_marked_K K l Hl w2) as (u2 & Hr2 & L2 & P2).
    exists u2. split; [exact Hr2|]. split; congruence.
  Qed.

  (* the swallowed failure: the marker stays, and the failure sticks to its address *)
  Lemma RFQ_swallow_remove : forall K a, K a = false ->
    RFQ (RJ K) (DK K) (swallow_op (Remove a)) (fun _ => False).
  Proof.
    intros K a Ha j w w' r d HI H. unfold swallow_op in H. cbn [rfs] in H.
    rewrite fault_op_wait in H. cbn [is_site] in H. destruct j as [|j].
    - cbn in H. inversion H; subst. left.
      destruct (run_swallow_remove_K K a w' Ha) as (w0 & Hr & L & P).
      exists w0. split; [exact Hr|]. split; [split; congruence|]. exists a. auto.
    - destruct (exec_op 0 (Remove a) w) as [[x w1]|]; [|discriminate].
      destruct x; cbn in H; discriminate.
  Qed.

  Lemma RFQ_delete_marked : forall K l, dlK K l -> RFQ (RJ K) (DK K) (delete_marked l) isExn.
  Proof.
    intros K. induction l as [|a l IH]; intros Hl; cbn [delete_marked].
    - apply RFQ_nosite. exact I.
    - assert (Hl' : dlK K l) by (intros x Hx; apply Hl; right; exact Hx).
      eapply RFQ_mbind with (R1 := RJ K) (D1 := DK K) (P1 := fun _ => False).
      + auto.
      + auto.
      + apply RFQ_swallow_remove. apply Hl. left. reflexivity.
      + intros _. apply IH. exact Hl'.
      + intros _. apply NIS_delete_marked. exact Hl'.
      + intros x [].
      + intros e [].
  Qed.

  (* ---------- programs in which a delivered persistent fault raises ---------- *)

  Lemma OkB_RFP : forall A (m : M A), OkB Iw m -> RFP m isExn.
  Proof. intros A m H. exact (proj2 H). Qed.

  Lemma RFPe_mbind : forall A B (m : M A) (f : A -> M B),
    RFP m isExn -> (forall a, RFP (f a) isExn) -> RFP (mbind m f) isExn.
  Proof.
    intros A B m f Hm Hf. eapply RFP_mbind with (P1 := isExn); auto. intros a [].
  Qed.

  Lemma RFPS_mbind : forall A B (m : M A) (f : A -> M B),
    RFP m isOS -> (forall a, RFP (f a) isOS) -> RFP (mbind m f) isOS.
  Proof.
    intros A B m f Hm Hf. eapply RFP_mbind with (P1 := isOS); auto.
    - intros a Ha. discriminate Ha.
    - intros e He. unfold isOS in *. inversion He. reflexivity.
  Qed.
  Lemma RFPS_leaf : forall A o (k : ans -> M A),
    (forall x, nosite (k x)) -> (is_site o = true -> Always (k (AErr EFault)) isOS) ->
    RFP (Vis o k) isOS.
  Proof. intros A o k Hk Hf. apply RFP_vis; auto. intros x. apply RFP_nosite. apply Hk. Qed.
  Lemma RFPS_probe : forall a, RFP (probe a) isOS.
  Proof. intros. apply RFPS_leaf; [intros []; exact I|intros Hs; discriminate Hs]. Qed.
  Lemma RFPS_read : forall a, RFP (read a) isOS.
  Proof. intros. apply RFPS_leaf; [intros []; exact I|]. intros _. apply Always_ret. reflexivity. Qed.

  Ltac rfps_go :=
    repeat (intros; first
      [ apply RFPS_probe | apply RFPS_read | apply RFP_nosite; exact I
      | apply RFPS_mbind
      | match goal with |- RFP (match ?x with _ => _ end) _ => destruct x end ]).

  Lemma RFPS_find_object : forall q, RFP (find_object q) isOS.
  Proof. intros. unfold find_object, read_cid, is_in_refs, read_lines. rfps_go. Qed.

  Lemma RFPS_rfd : forall a, RFP (rename_for_deletion a) isOS.
  Proof.
    intros a. unfold rename_for_deletion. apply RFPS_mbind; [|intros; apply RFP_nosite; exact I].
    unfold unit_op. apply RFPS_leaf; [intros []; exact I|]. intros _. apply Always_ret. reflexivity.
  Qed.

  Lemma RFP_mark_docs : forall l, RFP (mark_docs l) isExn.
  Proof.
    induction l as [|a l IH]; cbn [mark_docs]; [apply RFP_nosite; exact I|].
    apply RFPe_mbind; [apply OkB_RFP; apply (OkB_acquire Iw Ipres)|]. intros _.
    apply RFPe_mbind.
    - apply RFP_try_finally; [|apply nosite_release].
      apply RFPe_mbind; [apply OkB_RFP; apply (OkB_probe Iw Ipres)|]. intros b.
      destruct b; [|apply RFP_nosite; exact I].
      eapply RFP_mbind with
        (P1 := fun r => match r with Val r' => isOS r' | Exn _ => False end).
      + apply RFP_catch. apply RFPS_rfd.
      + intros [d|e]; [apply RFP_nosite; exact I|]. destruct e; apply RFP_nosite; exact I.
      + intros [x|e] Hx; [discriminate Hx|]. inversion Hx; subst. apply Always_raise.
      + intros e [].
    - intros d. apply RFPe_mbind; [exact IH|]. intros r. apply RFP_nosite. exact I.
  Qed.

  (* ---------- delete_metadata(pid, None) ---------- *)

  Lemma RFQ_delete_metadata_all : forall p, RFQ (RJ K2) (DK K2) (delete_metadata p None) isExn.
  Proof.
    intros p. cbn [delete_metadata].
    apply RFQ_mbind_eq; [apply OkB_RFP; apply (OkB_listdir Iw Ipres)|]. intros l.
    apply RFQ_mbind_eq; [apply RFP_nosite; apply nosite_probe_all|]. intros l'.
    eapply RFQ_mbind_eqQ; [apply RFP_mark_docs|apply Always_mark_docs|].
    intros ds Hds. apply RFQ_delete_marked. exact Hds.
  Qed.

  (* in a state stuck to a marker outside the metadata directories, from a world that differs by
     such markers: as the fault-free run *)
  Lemma NIS_delete_metadata_all : forall p, NIS (RJ K1) (RJ K2) (DK K1) (delete_metadata p None).
  Proof.
    intros p d w1 w2 w1' r st' S1 S2 (x & -> & Hx) HR H.
    rewrite (Lc_stuck K1 x Hx _ _ _ w1 (LBk_delete_metadata_all p) (noflk_delete_metadata_all p)) in H.
    destruct (run_seq w1 (delete_metadata p None)) as [[u1 a]|] eqn:E; [|discriminate].
    inversion H; subst.
    exact (NI_delete_metadata_all p w1 w2 w1' r S1 S2 HR E).
  Qed.

  (* ---------- delete_object ---------- *)

  Notation R2 := (RJ K2).
  Notation D2 := (DK K2).

  Lemma RFQ_then_R2 : forall A B (m : M A) (f : A -> M B),
    RFQ R2 D2 m isExn -> (forall a, RFQ R2 D2 (f a) isExn) -> (forall a, NIS R2 R2 D2 (f a)) ->
    RFQ R2 D2 (mbind m f) isExn.
  Proof.
    intros A B m f Hm Hf HN.
    eapply RFQ_mbind with (R1 := R2) (D1 := D2) (P1 := isExn); auto. intros a [].
  Qed.

  Lemma RFQ_orphan_branch : forall p,
    RFQ R2 D2 (d <- rename_for_deletion (APidRef p) ;; delete_metadata p None ;;; delete_marked [d]) isExn.
  Proof.
    intros p.
    eapply RFQ_mbind_eqQ;
      [apply OkB_RFP; apply (OkB_rename_for_deletion Iw Ipres)|apply Always_rfd|].
    intros d ->. apply RFQ_then_R2.
    - apply RFQ_delete_metadata_all.
    - intros _. apply RFQ_delete_marked. apply dlK2_one.
    - intros _. apply NIS_delete_marked. apply dlK2_one.
  Qed.

  Definition catchOS {A} (r : outcome (outcome A)) : Prop :=
    match r with Val r' => isOS r' | Exn _ => False end.

  Lemma Always_postV_True : forall A (m : M A), Always m (postV (fun _ => True)).
  Proof. intros A m w w' r _. destruct r; exact I. Qed.

  Lemma RFQ_delete_object : forall p, RFQ R2 D2 (delete_object p) isExn.
  Proof.
    intros p. unfold delete_object.
    apply RFQ_try_finally; [|apply nosite_release2|apply NI_release2].
    apply RFQ_mbind_eq; [apply OkB_RFP; apply (OkB_acquire Iw Ipres)|]. intros _.
    apply RFQ_mbind_eq; [apply OkB_RFP; apply (OkB_acquire Iw Ipres)|]. intros _.
    eapply RFQ_mbind_pQ with (P1 := catchOS) (V := fun _ => True).
    { apply RFP_catch. apply RFPS_find_object. }
    { apply Always_postV_True. }
    2:{ intros [x|e] Hx; [discriminate Hx|]. inversion Hx; subst. apply Always_raise. }
    2:{ intros e []. }
    intros [c|e] _.
    - (* the pid is bound to c *)
      apply RFQ_mbind_eq; [apply OkB_RFP; apply (OkB_acquire Iw Ipres)|]. intros _.
      apply RFQ_try_finally; [|apply nosite_release|apply NI_release].
      eapply RFQ_mbind_eqQ;
        [apply OkB_RFP; apply (OkB_rename_for_deletion Iw Ipres)|apply Always_rfd|].
      intros d1 ->.
      apply RFQ_mbind_eq; [apply OkB_RFP; apply (OkB_update_refs_remove Iw Ipres)|]. intros _.
      apply RFQ_mbind_eq; [apply OkB_RFP; apply (OkB_size_lines Iw Ipres)|]. intros n.
      eapply RFQ_mbind_eqQ with (V := dlK K1).
      + apply OkB_RFP. destruct (Nat.eqb n 0); [|apply OkB_ret].
        apply (OkB_mbind Iw Ipres); [apply (OkB_rename_for_deletion Iw Ipres)|]. intros d2.
        apply (OkB_mbind Iw Ipres); [apply (OkB_rename_for_deletion Iw Ipres)|]. intros d3.
        apply OkB_ret.
      + destruct (Nat.eqb n 0).
        * eapply Always_mbindQ; [apply Always_rfd| |intros; exact I]. intros d2 ->.
          eapply Always_mbindQ; [apply Always_rfd| |intros; exact I]. intros d3 ->.
          apply Always_ret. intros x [<-|[<-|[<-|[]]]]; reflexivity.
        * apply Always_ret. intros x [<-|[]]. reflexivity.
      + intros l Hl.
        eapply RFQ_mbind with (R1 := RJ K1) (D1 := DK K1) (P1 := isExn).
        * apply RJ_K1_K2.
        * apply DK_K1_K2.
        * apply RFQ_delete_marked. exact Hl.
        * intros _. apply RFQ_delete_metadata_all.
        * intros _. apply NIS_delete_metadata_all.
        * intros x [].
        * auto.
    - destruct e; try (apply RFQ_nosite; exact I).
      + (* OrphanPidRefsFileFound *) apply RFQ_orphan_branch.
      + (* RefsFileExistsButCidObjMissing *)
        apply RFQ_mbind_eq; [apply OkB_RFP; apply (OkB_read_cid Iw Ipres)|]. intros c.
        eapply RFQ_mbind_eqQ;
          [apply OkB_RFP; apply (OkB_rename_for_deletion Iw Ipres)|apply Always_rfd|].
        intros d ->.
        eapply RFQ_mbind_eqQ with (V := dlK K2).
        * apply OkB_RFP. apply (OkB_try_finally Iw Ipres); [|apply nosite_release].
          apply (OkB_mbind Iw Ipres); [apply (OkB_acquire Iw Ipres)|]. intros _.
          apply (OkB_mbind Iw Ipres); [apply (OkB_is_in_refs Iw Ipres)|]. intros m.
          apply (OkB_mbind Iw Ipres);
            [destruct m; [apply (OkB_update_refs_remove Iw Ipres)|apply OkB_ret]|]. intros _.
          apply (OkB_mbind Iw Ipres); [apply (OkB_size_lines Iw Ipres)|]. intros n.
          destruct (Nat.eqb n 0); [|apply OkB_ret].
          apply (OkB_mbind Iw Ipres); [apply (OkB_rename_for_deletion Iw Ipres)|]. intros d2.
          apply OkB_ret.
        * apply Always_try_finallyQ.
          eapply Always_mbindQ with (Q1 := fun _ => True); [apply Always_any| |intros; exact I].
          intros _ _.
          eapply Always_mbindQ with (Q1 := fun _ => True); [apply Always_any| |intros; exact I].
          intros m _.
          eapply Always_mbindQ with (Q1 := fun _ => True); [apply Always_any| |intros; exact I].
          intros _ _.
          eapply Always_mbindQ with (Q1 := fun _ => True); [apply Always_any| |intros; exact I].
          intros n _. destruct (Nat.eqb n 0).
          -- eapply Always_mbindQ; [apply Always_rfd| |intros; exact I]. intros d2 ->.
             apply Always_ret. intros x [<-|[<-|[]]]; reflexivity.
          -- apply Always_ret. intros x [<-|[]]. reflexivity.
        * intros l Hl. apply RFQ_then_R2.
          -- apply RFQ_delete_metadata_all.
          -- intros _. apply RFQ_delete_marked. exact Hl.
          -- intros _. apply NIS_delete_marked. exact Hl.
      + (* PidNotFoundInCidRefsFile *) apply RFQ_orphan_branch.
  Qed.

  Lemma RFQ_delete_object_unfixed : forall p, RFQ R2 D2 (delete_object_unfixed p) isExn.
  Proof.
    intros p. unfold delete_object_unfixed.
    apply RFQ_try_finally; [|apply nosite_release|apply NI_release].
    apply RFQ_mbind_eq; [apply OkB_RFP; apply (OkB_acquire Iw Ipres)|]. intros _.
    eapply RFQ_mbind_pQ with (P1 := catchOS) (V := fun _ => True).
    { apply RFP_catch. apply RFPS_find_object. }
    { apply Always_postV_True. }
    2:{ intros [x|e] Hx; [discriminate Hx|]. inversion Hx; subst. apply Always_raise. }
    2:{ intros e []. }
    intros [c|e] _; [apply RFQ_nosite; exact I|]. destruct e; try (apply RFQ_nosite; exact I).
    eapply RFQ_mbind_eqQ;
      [apply OkB_RFP; apply (OkB_rename_for_deletion Iw Ipres)|apply Always_rfd|].
    intros d ->.
    apply RFQ_mbind_eq; [apply OkB_RFP; apply (OkB_read_cid Iw Ipres)|]. intros c.
    apply RFQ_mbind_eq.
    - apply OkB_RFP. apply (OkB_try_finally Iw Ipres); [|apply nosite_release].
      apply (OkB_mbind Iw Ipres); [apply (OkB_acquire Iw Ipres)|]. intros _.
      apply (OkB_mbind Iw Ipres); [apply (OkB_is_in_refs Iw Ipres)|]. intros m.
      destruct m; [apply (OkB_update_refs_remove Iw Ipres)|apply OkB_ret].
    - intros _. apply RFQ_then_R2.
      + apply RFQ_delete_metadata_all.
      + intros _. apply RFQ_delete_marked. apply dlK2_one.
      + intros _. apply NIS_delete_marked. apply dlK2_one.
  Qed.

  (* every call *)
  Theorem api_RFQ : forall c, RFQ R2 D2 (api c) isExn.
  Proof.
    intros c.
    assert (H : no_marker_call c -> RFQ R2 D2 (api c) isExn).
    { intros Hc. apply RFQ_of_RFP. apply OkB_RFP. apply (api_OkB Iw Ipres). exact Hc. }
    destruct c; try (apply H; exact I).
    - apply RFQ_lift_unit. apply RFQ_delete_object.
    - destruct f as [f|]; [apply H; exact I|].
      apply RFQ_lift_unit. apply RFQ_delete_metadata_all.
    - apply RFQ_lift_unit. apply RFQ_delete_object_unfixed.
  Qed.
End Persistent.

(* ================================================================================== *)
(* 3. C13, first clause, PERSISTENT faults, all calls, all states                      *)
(* ================================================================================== *)

(* A call that reports success although a PERSISTENT failure was delivered has done everything the
   undisturbed call does: the fault-free call gives the same answer, and the two final worlds have
   the same locks and the same files except deletion markers.  Every call, every k, every world
   with a sorted file map. *)
Theorem persistent_fault_success_markers : forall w c k w' v,
  Indep.fsorted (fs w) ->
  run_fault (FWait k true) w (api c) = Some (w', Val v) ->
  exists w0, run_seq w (api c) = Some (w0, Val v) /\ same_but_markers w' w0.
Proof.
  intros w c k w' v Hs H. rewrite rfs_run_fault in H.
  destruct (rfs (FWait k true) w (api c)) as [[[w1 r1] st1]|] eqn:E; [|discriminate].
  inversion H; subst.
  destruct (rfs_wait_cases _ _ _ _ _ _ _ _ E) as [[_ Hr]|[[Hp _]|[_ [d ->]]]]; [|discriminate|].
  - exists w'. split; [exact Hr|]. apply RJ_K2_spec. apply RJ_refl.
  - destruct (api_RFQ c k w w' (Val v) d Hs E) as [(w0 & Hr & HR & _)|[]].
    exists w0. split; [exact Hr|]. apply RJ_K2_spec. exact HR.
Qed.

Theorem persistent_fault_success_whole_effect : forall w c k w' v,
  Indep.fsorted (fs w) ->
  run_fault (FWait k true) w (api c) = Some (w', Val v) ->
  exists w0, run_seq w (api c) = Some (w0, Val v) /\ same_permanent w' w0.
Proof.
  intros w c k w' v Hs H. destruct (persistent_fault_success_markers w c k w' v Hs H) as (w0 & Hr & HS).
  exists w0. split; [exact Hr|]. apply same_but_markers_permanent. exact HS.
Qed.

(* both modes *)
Theorem any_fault_success_whole_effect : forall w c k pers w' v,
  Indep.fsorted (fs w) ->
  run_fault (FWait k pers) w (api c) = Some (w', Val v) ->
  exists w0, run_seq w (api c) = Some (w0, Val v) /\ same_permanent w' w0.
Proof.
  intros w c k [|] w' v Hs H;
    [eapply persistent_fault_success_whole_effect|eapply fault_success_whole_effect]; eauto.
Qed.

Corollary any_fault_success_whole_effect_reachable : forall h w rs c k pers w' v,
  run_history empty_world h = Some (w, rs) ->
  run_fault (FWait k pers) w (api c) = Some (w', Val v) ->
  exists w0, run_seq w (api c) = Some (w0, Val v) /\ same_permanent w' w0.
Proof.
  intros h w rs c k pers w' v Hh. apply any_fault_success_whole_effect.
  eapply Indep.run_history_empty_sorted. exact Hh.
Qed.

(* NON-VACUITY: delete_object(1) on the store {1 -> 7} whose object has a metadata document; fault
   site 7 is the removal of the deletion marker of the pid reference; its PERSISTENT failure is
   swallowed, the removals of the other markers and delete_metadata(1, None) run as usual, the call
   reports success and the marker of the pid reference stays — the only difference with the
   fault-free run *)
Example persistent_swallowed_marker_removal :
  let w1 := mkWorld [(AObj 7, CData 7 1 1); (APidRef 1, CCid 7); (ACidRef 7, CLines [1]);
                     (AMeta 1 0, CData 5 1 1)] [] in
  Indep.fsorted (fs w1) /\
  (site_op 7 w1 (api (CDelete 1)) = Some (Remove (ADel (APidRef 1)))) /\
  (run_fault (FWait 7 true) w1 (api (CDelete 1)) =
     Some (mkWorld [(ADel (APidRef 1), CCid 7)] [], Val VUnit)) /\
  (run_seq w1 (api (CDelete 1)) = Some (mkWorld [] [], Val VUnit)).
Proof.
  split; [|vm_compute; repeat split; reflexivity].
  simpl. repeat split; intros k' Hk; repeat (destruct Hk as [<-|Hk]; [reflexivity|]); destruct Hk.
Qed.
Print Assumptions any_fault_success_whole_effect_reachable.
Print Assumptions persistent_swallowed_marker_removal.
