(* MenuCV.v — transfer of the menu theorems to the faithful condition-variable semantics.

   The menus (C07, C12) establish their results for every configuration reachable by a schedule of
   Sched.v in which no thread can move ([exec] / [stuck]).  SchedCV.v models the condition
   variables as they are (threads fall asleep, a notify wakes one arbitrary sleeper, which
   re-tests) and proves [cv_final_is_sched_final]: a final configuration of that semantics,
   started from a world without held identifiers and with typed reference files, is such a
   configuration of Sched.v.  Every start world of a scenario is produced by [run_history] from the
   empty store, hence qualifies (Bracket.run_history_empty_ok).  So whatever holds of all
   [exec]-reachable [stuck] configurations of a scenario holds of all final configurations of the
   faithful semantics. *)
From HS Require Import Base PyVal FS Ops Spec Sched Lin Bracket SchedCV MenuLib.

Lemma start_world_ok : forall s w0,
  start_world s = Some w0 -> locks w0 = [] /\ refs_typed (fs w0).
Proof.
  intros s w0 H. unfold start_world in H.
  destruct (run_history empty_world (sc_setup s)) as [[w rs]|] eqn:E; [|discriminate].
  inversion H; subst. exact (run_history_empty_ok (sc_setup s) E).
Qed.

Theorem cv_transfer : forall s w0 (P : cfg -> Prop),
  start_world s = Some w0 ->
  (forall sched c,
     exec (map api (sc_calls s)) sched (init_cfg (map api (sc_calls s)) w0) = Some c ->
     stuck (map api (sc_calls s)) c -> P c) ->
  forall C, cvreachable (map api (sc_calls s)) false w0 C ->
            cvstuck (map api (sc_calls s)) false C -> P (fst C).
Proof.
  intros s w0 P Hw HP C Hr Hst.
  destruct (start_world_ok s w0 Hw) as [Hl Ht].
  destruct (cv_final_is_sched_final (sc_calls s) Hl Ht Hr Hst) as [sched [Hex Hs]].
  exact (HP sched (fst C) Hex Hs).
Qed.
