(* FaultSuccess.v — property C13, first clause, for ALL start states:

     "If a file-system operation fails during store_object, tag_object, delete_object,
      store_metadata or delete_metadata, the call raises rather than reporting success unless its
      whole effect was achieved."

   Method.  A fault plan [FWait j pers] runs the program exactly as the fault-free semantics does
   until the fault is delivered.  A judgement on programs, [RF] (one-off faults) / [RFP] (persistent
   faults), says what can be observed once the fault HAS been delivered: either the run is still
   the fault-free one (a one-off failure of a rename is absorbed by shutil.move), or it ended in a
   world related to the fault-free one by a relation [R] (the failure was swallowed: the removal of
   a deletion marker) or the result satisfies [P] (an exception).  The judgement is compositional
   (bind, catch, try/finally); what happens AFTER an exception-raising failure is irrelevant as
   long as the continuation cannot turn it into a success — [Always], stated for every fault plan
   ([FaultGeneral.frun]).

   Results (section 6):
   - [one_off_success_identical], [persistent_success_identical]: for every call except
     delete_object and delete_metadata(pid, None) (the two that remove deletion markers), from ANY
     world, for every k and BOTH modes: a faulted call that reports success ran exactly as the
     fault-free call — same answer, same world (temp files and locks included).
   - [fault_success_whole_effect]: every call, ONE-OFF faults, any world whose file map is sorted
     (every reachable one is: Indep.run_history_empty_sorted): success => the fault-free call
     gives the same answer and its world has the same locks and the same files except deletion
     markers. *)
From HS Require Import Base PyVal FS Ops Spec Sched RefineLemmas Refine SeqProps CrashFault Integrity
  CrashGeneral FaultGeneral.
From HS Require Indep.

Definition isExn {A} (r : outcome A) : Prop := match r with Exn _ => True | Val _ => False end.
Definition isValExn {A} (r : outcome (outcome A)) : Prop :=
  match r with Val (Exn _) => True | _ => False end.

(* ================================================================================== *)
(* 1. Fault plans before and after the delivery                                        *)
(* ================================================================================== *)

Lemma fault_op_wait : forall j pers o w,
  fault_op (FWait j pers) o w =
  if is_site o then
    match j with
    | 0 => if pers then (Some (AErr EFault, w), FStuck (dest_of o))
           else if is_rename o then (exec_op 0 o w, FDone) else (Some (AErr EFault, w), FDone)
    | S j' => (exec_op 0 o w, FWait j' pers)
    end
  else (exec_op 0 o w, FWait j pers).
Proof.
  intros. unfold fault_op. destruct (is_site o); [|reflexivity]. destruct j; [|reflexivity].
  destruct pers; [reflexivity|]. destruct o; reflexivity.
Qed.

Lemma rfs_done_state : forall A (m : prog A) w w' r st',
  rfs FDone w m = Some (w', r, st') -> st' = FDone /\ run_seq w m = Some (w', r).
Proof.
  intros A m w w' r st' H. rewrite rfs_done in H.
  destruct (run_seq w m) as [[w1 r1]|]; [|discriminate]. inversion H; subst. auto.
Qed.

(* every run under a fault plan is a run of the nondeterministic semantics *)
Lemma rfs_frun : forall A (m : prog A) st w w' r st',
  rfs st w m = Some (w', r, st') -> frun m w w' r.
Proof.
  intros A m st w w' r st' H. eapply run_fault_frun with (st := st).
  rewrite rfs_run_fault, H. reflexivity.
Qed.

Lemma rfs_stuck_state : forall A (m : prog A) d w w' r st',
  rfs (FStuck d) w m = Some (w', r, st') -> st' = FStuck d.
Proof.
  induction m as [a|o k IH|]; intros d w w' r st' H; cbn [rfs] in H.
  - inversion H. reflexivity.
  - unfold fault_op in H. destruct (is_site o); [destruct (dest_eqb d (dest_of o))|];
      try (destruct (exec_op 0 o w) as [[x w1]|]; [|discriminate]); eapply IH; exact H.
  - discriminate.
Qed.

(* as long as the fault is pending the run is the fault-free one *)
Lemma rfs_wait_cases : forall A (m : prog A) j pers w w' r st',
  rfs (FWait j pers) w m = Some (w', r, st') ->
  ((exists j', st' = FWait j' pers) /\ run_seq w m = Some (w', r)) \/
  (pers = false /\ st' = FDone) \/ (pers = true /\ exists d, st' = FStuck d).
Proof.
  induction m as [a|o k IH|]; intros j pers w w' r st' H; cbn [rfs] in H.
  - inversion H; subst. left. split; [eauto|reflexivity].
  - rewrite fault_op_wait in H. cbn [run_seq].
    destruct (is_site o).
    + destruct j as [|j].
      * destruct pers.
        -- right. right. split; [reflexivity|]. exists (dest_of o).
           eapply rfs_stuck_state. exact H.
        -- right. left. split; [reflexivity|]. destruct (is_rename o).
           ++ destruct (exec_op 0 o w) as [[x w1]|]; [|discriminate].
              apply rfs_done_state in H. tauto.
           ++ apply rfs_done_state in H. tauto.
      * destruct (exec_op 0 o w) as [[x w1]|]; [|discriminate]. eapply IH. exact H.
    + destruct (exec_op 0 o w) as [[x w1]|]; [|discriminate]. eapply IH. exact H.
  - discriminate.
Qed.

(* ================================================================================== *)
(* 2. The judgements                                                                   *)
(* ================================================================================== *)

(* whatever fault plan, the result satisfies P *)
Definition Always {A} (m : prog A) (P : A -> Prop) : Prop :=
  forall w w' r, frun m w w' r -> P r.

Lemma Always_ret : forall A (a : A) (P : A -> Prop), P a -> Always (Ret a) P.
Proof. intros A a P H w w' r [_ ->]. exact H. Qed.
Lemma Always_bad : forall A (P : A -> Prop), Always (@Bad A) P.
Proof. intros A P w w' r []. Qed.
Lemma Always_raise : forall A e, Always (@raise A e) isExn.
Proof. intros. apply Always_ret. exact I. Qed.

Lemma Always_mbind : forall A B (m : M A) (f : A -> M B),
  (forall a, Always (f a) isExn) -> Always (mbind m f) isExn.
Proof.
  intros A B m f Hf w w' r H. apply frun_mbind in H. destruct H as (w1 & a & _ & H).
  destruct a as [x|e]; [eapply Hf; exact H|]. destruct H as [_ ->]. exact I.
Qed.

Lemma Always_vis : forall A o (k : ans -> prog A) P, (forall x, Always (k x) P) -> Always (Vis o k) P.
Proof.
  intros A o k P Hk w w' r H. simpl in H. destruct H as [(x & w1 & _ & H)|[_ H]]; eapply Hk; exact H.
Qed.

Lemma Always_try_finally : forall A (m : M A) fin, Always m isExn -> Always (try_finally m fin) isExn.
Proof.
  intros A m fin Hm w w' r H. unfold try_finally in H.
  apply frun_bind in H. destruct H as (w1 & a & H1 & H).
  apply frun_bind in H. destruct H as (w2 & rf & _ & H).
  destruct rf as [u|e]; simpl in H; destruct H as [_ ->]; [eapply Hm; exact H1|exact I].
Qed.

Section Judgement.
  (* an invariant of worlds that every operation keeps (sortedness of the file map, or nothing) *)
  Variable Iw : world -> Prop.
  Hypothesis Ipres : forall o w x w', Iw w -> exec_op 0 o w = Some (x, w') -> Iw w'.

  Lemma rfs_Iw : forall A (m : prog A) st w w' r st',
    Iw w -> rfs st w m = Some (w', r, st') -> Iw w'.
  Proof.
    induction m as [a|o k IH|]; intros st w w' r st' HI H; cbn [rfs] in H.
    - inversion H; subst. exact HI.
    - destruct (fault_op st o w) as [[[x w1]|] st1] eqn:E; [|discriminate].
      destruct (fault_op_cases st o w _ _ E) as [Hc|[_ Hc]].
      + eapply IH; [|exact H]. eapply Ipres; [exact HI|symmetry; exact Hc].
      + inversion Hc; subst. eapply IH; [exact HI|exact H].
    - discriminate.
  Qed.

  Lemma run_seq_Iw : forall A (m : prog A) w w' r, Iw w -> run_seq w m = Some (w', r) -> Iw w'.
  Proof.
    intros A m w w' r HI H. eapply (rfs_Iw A m FDone w w' r FDone HI).
    rewrite rfs_done, H. reflexivity.
  Qed.

  (* ONE-OFF fault, delivered: the run was the fault-free one up to R, or the result satisfies P *)
  Definition RF {A} (R : world -> world -> Prop) (m : prog A) (P : A -> Prop) : Prop :=
    forall j w w' r, Iw w -> rfs (FWait j false) w m = Some (w', r, FDone) ->
      (exists w0, run_seq w m = Some (w0, r) /\ R w' w0) \/ P r.

  (* PERSISTENT fault, delivered: the result satisfies P *)
  Definition RFP {A} (m : prog A) (P : A -> Prop) : Prop :=
    forall j w w' r d, rfs (FWait j true) w m = Some (w', r, FStuck d) -> P r.

  (* fault-free continuation from R1-related worlds: same answer, R2-related worlds *)
  Definition NI {A} (R1 R2 : world -> world -> Prop) (m : prog A) : Prop :=
    forall w1 w2 w1' r, Iw w1 -> Iw w2 -> R1 w1 w2 -> run_seq w1 m = Some (w1', r) ->
      exists w2', run_seq w2 m = Some (w2', r) /\ R2 w1' w2'.

  Lemma NI_eq : forall A (m : prog A), NI eq eq m.
  Proof. intros A m w1 w2 w1' r _ _ <- H. eauto. Qed.

  Lemma RF_weaken : forall A (R : world -> world -> Prop) (m : prog A) (P P' : A -> Prop),
    RF R m P -> (forall r, P r -> P' r) -> RF R m P'.
  Proof. intros A R m P P' H HP j w w' r HI Hr. destruct (H j w w' r HI Hr); auto. Qed.

  Lemma RF_weakenR : forall A (R R' : world -> world -> Prop) (m : prog A) P,
    RF R m P -> (forall a b, R a b -> R' a b) -> RF R' m P.
  Proof.
    intros A R R' m P H HR j w w' r HI Hr. destruct (H j w w' r HI Hr) as [(w0 & H1 & H2)|]; eauto.
  Qed.

  Lemma RF_nosite : forall A (R : world -> world -> Prop) (m : prog A) P, nosite m -> RF R m P.
  Proof.
    intros A R m P Hn j w w' r _ H. rewrite (rfs_nosite _ m _ w Hn) in H.
    destruct (run_seq w m) as [[w1 r1]|]; discriminate.
  Qed.
  Lemma RFP_nosite : forall A (m : prog A) P, nosite m -> RFP m P.
  Proof.
    intros A m P Hn j w w' r d H. rewrite (rfs_nosite _ m _ w Hn) in H.
    destruct (run_seq w m) as [[w1 r1]|]; discriminate.
  Qed.

  Lemma RF_vis : forall A (R : world -> world -> Prop) o (k : ans -> prog A) P,
    (forall w, R w w) ->
    (forall x, RF R (k x) P) ->
    (is_site o = true -> is_rename o = false -> Always (k (AErr EFault)) P) ->
    RF R (Vis o k) P.
  Proof.
    intros A R o k P Hrefl Hk Hf j w w' r HI H. cbn [rfs] in H. rewrite fault_op_wait in H.
    cbn [run_seq]. destruct (is_site o) eqn:Es.
    - destruct j as [|j].
      + destruct (is_rename o) eqn:Er.
        * destruct (exec_op 0 o w) as [[x w1]|] eqn:E; [|discriminate].
          apply rfs_done_state in H. destruct H as [_ H]. left. eauto.
        * right. eapply Hf; auto. eapply rfs_frun. exact H.
      + destruct (exec_op 0 o w) as [[x w1]|] eqn:E; [|discriminate].
        eapply Hk; [|exact H]. eapply Ipres; eauto.
    - destruct (exec_op 0 o w) as [[x w1]|] eqn:E; [|discriminate].
      eapply Hk; [|exact H]. eapply Ipres; eauto.
  Qed.

  Lemma RFP_vis : forall A o (k : ans -> prog A) P,
    (forall x, RFP (k x) P) ->
    (is_site o = true -> Always (k (AErr EFault)) P) ->
    RFP (Vis o k) P.
  Proof.
    intros A o k P Hk Hf j w w' r d H. cbn [rfs] in H. rewrite fault_op_wait in H.
    destruct (is_site o) eqn:Es.
    - destruct j as [|j].
      + eapply Hf; auto. eapply rfs_frun. exact H.
      + destruct (exec_op 0 o w) as [[x w1]|] eqn:E; [|discriminate]. eapply Hk; exact H.
    - destruct (exec_op 0 o w) as [[x w1]|] eqn:E; [|discriminate]. eapply Hk; exact H.
  Qed.

  Lemma RF_mbind : forall A B (R1 R2 : world -> world -> Prop) (m : M A) (f : A -> M B)
                          (P1 : outcome A -> Prop) (P : outcome B -> Prop),
    (forall a b, R1 a b -> R2 a b) ->
    RF R1 m P1 ->
    (forall a, RF R2 (f a) P) ->
    (forall a, NI R1 R2 (f a)) ->
    (forall a, P1 (Val a) -> Always (f a) P) ->
    (forall e, P1 (Exn e) -> P (Exn e)) ->
    RF R2 (mbind m f) P.
  Proof.
    intros A B R1 R2 m f P1 P HR Hm Hf HNI HA HE j w w' r HI H.
    rewrite rfs_mbind in H. rewrite run_mbind.
    destruct (rfs (FWait j false) w m) as [[[w1 a] st1]|] eqn:Em; [|discriminate].
    pose proof (rfs_Iw _ _ _ _ _ _ _ HI Em) as HI1.
    destruct (rfs_wait_cases _ _ _ _ _ _ _ _ Em) as [[[j1 ->] Hrun]|[[_ ->]|[Hp _]]];
      [| |discriminate].
    - rewrite Hrun. destruct a as [x|e]; [|discriminate].
      eapply Hf; [exact HI1|exact H].
    - destruct (Hm j w w1 a HI Em) as [(w01 & Hr & HR1)|HP].
      + rewrite Hr. pose proof (run_seq_Iw _ _ _ _ _ HI Hr) as HI01. destruct a as [x|e].
        * apply rfs_done_state in H. destruct H as [_ H].
          destruct (HNI x w1 w01 w' r HI1 HI01 HR1 H) as (w2' & Hr2 & HR2). left. eauto.
        * inversion H; subst. left. eauto.
      + destruct a as [x|e].
        * right. eapply HA; [exact HP|]. eapply rfs_frun. exact H.
        * inversion H; subst. right. auto.
  Qed.

  Lemma RFP_mbind : forall A B (m : M A) (f : A -> M B)
                           (P1 : outcome A -> Prop) (P : outcome B -> Prop),
    RFP m P1 ->
    (forall a, RFP (f a) P) ->
    (forall a, P1 (Val a) -> Always (f a) P) ->
    (forall e, P1 (Exn e) -> P (Exn e)) ->
    RFP (mbind m f) P.
  Proof.
    intros A B m f P1 P Hm Hf HA HE j w w' r d H.
    rewrite rfs_mbind in H.
    destruct (rfs (FWait j true) w m) as [[[w1 a] st1]|] eqn:Em; [|discriminate].
    destruct (rfs_wait_cases _ _ _ _ _ _ _ _ Em) as [[[j1 ->] Hrun]|[[Hp _]|[_ [d1 ->]]]];
      [|discriminate|].
    - destruct a as [x|e]; [|discriminate]. eapply Hf; exact H.
    - pose proof (Hm j w w1 a d1 Em) as HP. destruct a as [x|e].
      + eapply HA; [exact HP|]. eapply rfs_frun. exact H.
      + inversion H; subst. auto.
  Qed.

  Lemma RF_catch : forall A (R : world -> world -> Prop) (m : M A) P,
    RF R m P -> RF R (catch m) (fun r => match r with Val r' => P r' | Exn _ => False end).
  Proof.
    intros A R m P Hm j w w' r HI H. rewrite rfs_catch in H. rewrite run_catch.
    destruct (rfs (FWait j false) w m) as [[[w1 a] st1]|] eqn:Em; [|discriminate].
    inversion H; subst.
    destruct (Hm j w w' a HI Em) as [(w0 & Hr & HR)|HP]; [|right; exact HP].
    left. exists w0. rewrite Hr. auto.
  Qed.

  Lemma RFP_catch : forall A (m : M A) P,
    RFP m P -> RFP (catch m) (fun r => match r with Val r' => P r' | Exn _ => False end).
  Proof.
    intros A m P Hm j w w' r d H. rewrite rfs_catch in H.
    destruct (rfs (FWait j true) w m) as [[[w1 a] st1]|] eqn:Em; [|discriminate].
    inversion H; subst. eapply Hm. exact Em.
  Qed.

  Lemma RF_try_finally : forall A (R : world -> world -> Prop) (m : M A) fin,
    RF R m isExn -> nosite fin -> NI R R fin -> RF R (try_finally m fin) isExn.
  Proof.
    intros A R m fin Hm Hn HNI j w w' r HI H. rewrite rfs_try_finally in H.
    rewrite run_try_finally.
    destruct (rfs (FWait j false) w m) as [[[w1 a] st1]|] eqn:Em; [|discriminate].
    rewrite (rfs_nosite _ fin st1 w1 Hn) in H.
    destruct (run_seq w1 fin) as [[w2 rf]|] eqn:Ef; [|discriminate].
    pose proof (rfs_Iw _ _ _ _ _ _ _ HI Em) as HI1.
    destruct rf as [u|e]; inversion H; subst; [|right; exact I].
    destruct (Hm j w w1 r HI Em) as [(w01 & Hr & HR)|HP]; [|right; exact HP].
    pose proof (run_seq_Iw _ _ _ _ _ HI Hr) as HI01.
    destruct (HNI w1 w01 w' (Val u) HI1 HI01 HR Ef) as (w2' & Hr2 & HR2).
    left. exists w2'. rewrite Hr, Hr2. auto.
  Qed.

  Lemma RFP_try_finally : forall A (m : M A) fin,
    RFP m isExn -> nosite fin -> RFP (try_finally m fin) isExn.
  Proof.
    intros A m fin Hm Hn j w w' r d H. rewrite rfs_try_finally in H.
    destruct (rfs (FWait j true) w m) as [[[w1 a] st1]|] eqn:Em; [|discriminate].
    rewrite (rfs_nosite _ fin st1 w1 Hn) in H.
    destruct (run_seq w1 fin) as [[w2 rf]|] eqn:Ef; [|discriminate].
    destruct rf as [u|e]; inversion H; subst; [|exact I].
    eapply Hm. exact Em.
  Qed.
End Judgement.

(* ================================================================================== *)
(* 3. The programs that swallow no failure                                             *)
(* ================================================================================== *)

Lemma nosite_bind : forall A B (m : prog A) (f : A -> prog B),
  nosite m -> (forall a, nosite (f a)) -> nosite (bind m f).
Proof.
  induction m as [a|o k IH|]; intros f Hm Hf; simpl; auto.
  destruct Hm as [Hs Hk]. split; auto.
Qed.

Lemma nosite_mbind : forall A B (m : M A) (f : A -> M B),
  nosite m -> (forall a, nosite (f a)) -> nosite (mbind m f).
Proof.
  intros. unfold mbind. apply nosite_bind; auto. intros [a|e]; simpl; auto.
Qed.

Lemma nosite_release : forall cls x, nosite (release cls x).
Proof. intros. simpl. split; [reflexivity|]. intros []; exact I. Qed.
Lemma nosite_funlock : forall a, nosite (funlock a).
Proof. intros. simpl. split; [reflexivity|]. intros []; exact I. Qed.
Lemma nosite_release2 : forall c1 x1 c2 x2, nosite (release c1 x1 ;;; release c2 x2).
Proof. intros. apply nosite_mbind; [apply nosite_release|intros; apply nosite_release]. Qed.

Ltac always :=
  repeat (intros; first
    [ apply Always_raise
    | apply Always_bad
    | apply Always_mbind
    | apply Always_try_finally
    | match goal with |- Always (match ?x with _ => _ end) _ => destruct x end ]).

Section Programs.
  Variable Iw : world -> Prop.
  Hypothesis Ipres : forall o w x w', Iw w -> exec_op 0 o w = Some (x, w') -> Iw w'.

  (* a delivered fault, one-off or persistent, makes the program raise — or (one-off failure of a
     rename) the run is the fault-free one *)
  Definition OkB {A} (m : M A) : Prop := RF Iw eq m isExn /\ RFP m isExn.

  Lemma OkB_nosite : forall A (m : M A), nosite m -> OkB m.
  Proof. intros A m H. split; [apply RF_nosite|apply RFP_nosite]; exact H. Qed.
  Lemma OkB_ret : forall A (a : A), OkB (ret a).
  Proof. intros. apply OkB_nosite. exact I. Qed.
  Lemma OkB_raise : forall A e, OkB (@raise A e).
  Proof. intros. apply OkB_nosite. exact I. Qed.
  Lemma OkB_bad : forall A, OkB (@Bad (outcome A)).
  Proof. intros. apply OkB_nosite. exact I. Qed.

  Lemma OkB_always : forall A (m : M A), Always m isExn -> OkB m.
  Proof.
    intros A m H. split.
    - intros j w w' r _ Hr. right. eapply H. eapply rfs_frun. exact Hr.
    - intros j w w' r d Hr. eapply H. eapply rfs_frun. exact Hr.
  Qed.

  Lemma OkB_seq_raise : forall A B (m : M A) e, OkB (m ;;; @raise B e).
  Proof. intros. apply OkB_always. always. Qed.

  Lemma OkB_mbind : forall A B (m : M A) (f : A -> M B),
    OkB m -> (forall a, OkB (f a)) -> OkB (mbind m f).
  Proof.
    intros A B m f [H1 H2] Hf. split.
    - eapply (RF_mbind Iw Ipres) with (R1 := eq) (P1 := isExn); auto.
      + intros a. apply Hf.
      + intros a. apply NI_eq.
      + intros a [].
    - eapply RFP_mbind with (P1 := isExn); auto.
      + intros a. apply Hf.
      + intros a [].
  Qed.

  Lemma OkB_catch_bind : forall A B (m : M A) (f : outcome A -> M B),
    OkB m -> (forall r, OkB (f r)) -> (forall e, Always (f (Exn e)) isExn) ->
    OkB (r <- catch m ;; f r).
  Proof.
    intros A B m f [H1 H2] Hf HA. split.
    - eapply (RF_mbind Iw Ipres) with (R1 := eq); [auto|apply RF_catch; exact H1| | | |].
      + intros a. apply Hf.
      + intros a. apply NI_eq.
      + intros [x|e] []. apply HA.
      + intros e [].
    - eapply RFP_mbind; [apply RFP_catch; exact H2| | |].
      + intros a. apply Hf.
      + intros [x|e] []. apply HA.
      + intros e [].
  Qed.

  Lemma OkB_try_finally : forall A (m : M A) fin, OkB m -> nosite fin -> OkB (try_finally m fin).
  Proof.
    intros A m fin [H1 H2] Hn. split.
    - apply (RF_try_finally Iw Ipres); auto. apply NI_eq.
    - apply RFP_try_finally; auto.
  Qed.

  Lemma OkB_leaf : forall A o (k : ans -> M A),
    (forall x, nosite (k x)) -> (is_site o = true -> Always (k (AErr EFault)) isExn) ->
    OkB (Vis o k).
  Proof.
    intros A o k Hk Hf. split.
    - apply (RF_vis Iw Ipres); auto. intros x. apply RF_nosite. apply Hk.
    - apply RFP_vis; auto. intros x. apply RFP_nosite. apply Hk.
  Qed.

  Ltac leaf := apply OkB_leaf; [intros []; exact I|intros Hs; try discriminate Hs; always].

  Lemma OkB_probe : forall a, OkB (probe a). Proof. intros. leaf. Qed.
  Lemma OkB_peek : forall cls x, OkB (peek cls x). Proof. intros. leaf. Qed.
  Lemma OkB_held : forall cls x, OkB (held cls x). Proof. intros. leaf. Qed.
  Lemma OkB_acquire : forall cls x, OkB (acquire cls x). Proof. intros. leaf. Qed.
  Lemma OkB_release : forall cls x, OkB (release cls x). Proof. intros. leaf. Qed.
  Lemma OkB_funlock : forall a, OkB (funlock a). Proof. intros. leaf. Qed.
  Lemma OkB_size_lines : forall a, OkB (size_lines a). Proof. intros. leaf. Qed.
  Lemma OkB_listdir : forall p, OkB (listdir p). Proof. intros. leaf. Qed.
  Lemma OkB_rewrite_write : forall a p, OkB (rewrite_write a p). Proof. intros. leaf. Qed.
  Lemma OkB_read : forall a, OkB (read a). Proof. intros. leaf. Qed.
  Lemma OkB_mktmp : forall ar init, OkB (mktmp ar init). Proof. intros. leaf. Qed.
  Lemma OkB_unit_op : forall o, OkB (unit_op o). Proof. intros. leaf. Qed.

  Hint Resolve OkB_ret OkB_raise OkB_bad OkB_seq_raise OkB_probe OkB_peek OkB_held OkB_acquire
       OkB_release OkB_funlock OkB_size_lines OkB_listdir OkB_rewrite_write OkB_read OkB_mktmp
       OkB_unit_op nosite_release nosite_funlock nosite_release2 : okb.

  Ltac okb :=
    repeat (intros; first
      [ solve [eauto 3 with okb]
      | apply OkB_mbind
      | apply OkB_try_finally; [|solve [eauto 3 with okb]]
      | match goal with |- OkB (match ?x with _ => _ end) => destruct x end ]).

  Lemma OkB_read_cid : forall a, OkB (read_cid a). Proof. unfold read_cid. okb. Qed.
  Hint Resolve OkB_read_cid : okb.
  Lemma OkB_read_lines : forall a, OkB (read_lines a). Proof. unfold read_lines. okb. Qed.
  Hint Resolve OkB_read_lines : okb.
  Lemma OkB_is_in_refs : forall q a, OkB (is_in_refs q a). Proof. unfold is_in_refs. okb. Qed.
  Hint Resolve OkB_is_in_refs : okb.
  Lemma OkB_find_object : forall q, OkB (find_object q). Proof. unfold find_object. okb. Qed.
  Hint Resolve OkB_find_object : okb.
  Lemma OkB_open_object : forall c, OkB (open_object c). Proof. unfold open_object. okb. Qed.
  Hint Resolve OkB_open_object : okb.
  Lemma OkB_retrieve_object : forall q, OkB (retrieve_object q).
  Proof. unfold retrieve_object. okb. Qed.
  Hint Resolve OkB_retrieve_object : okb.
  Lemma OkB_get_hex_digest : forall q, OkB (get_hex_digest q).
  Proof. unfold get_hex_digest. okb. Qed.
  Hint Resolve OkB_get_hex_digest : okb.
  Lemma OkB_rename_for_deletion : forall a, OkB (rename_for_deletion a).
  Proof. unfold rename_for_deletion. okb. Qed.
  Hint Resolve OkB_rename_for_deletion : okb.
  Lemma OkB_update_refs_remove : forall a q, OkB (update_refs_remove a q).
  Proof. unfold update_refs_remove. okb. Qed.
  Hint Resolve OkB_update_refs_remove : okb.
  Lemma OkB_update_refs_add : forall a q, OkB (update_refs_add a q).
  Proof. unfold update_refs_add. okb. Qed.
  Hint Resolve OkB_update_refs_add : okb.
  Lemma OkB_verify_refs : forall q c, OkB (verify_refs q c). Proof. unfold verify_refs. okb. Qed.
  Hint Resolve OkB_verify_refs : okb.
  Lemma OkB_write_refs_tmp : forall v, OkB (write_refs_tmp v). Proof. unfold write_refs_tmp. okb. Qed.
  Hint Resolve OkB_write_refs_tmp : okb.
  Lemma OkB_and_sc : forall m1 m2, OkB m1 -> OkB m2 -> OkB (and_sc m1 m2).
  Proof. intros. unfold and_sc. okb. Qed.
  Lemma OkB_notm : forall m, OkB m -> OkB (notm m).
  Proof. intros. unfold notm. okb. Qed.
  Hint Resolve OkB_and_sc OkB_notm : okb.

  Lemma OkB_store_refs_body : forall q c, OkB (store_refs_body q c).
  Proof. unfold store_refs_body. okb. Qed.
  Hint Resolve OkB_store_refs_body : okb.

  (* tag_object: whatever made the body raise, the handlers re-raise (after the roll-back) *)
  Lemma OkB_tag_object : forall q c, OkB (tag_object q c).
  Proof.
    intros. unfold tag_object. apply OkB_try_finally; [|auto with okb].
    apply OkB_mbind; [okb|]. intros _. apply OkB_mbind; [okb|]. intros _.
    apply OkB_catch_bind; [okb| |].
    - intros [u|e]; [okb|]. destruct e; okb.
    - intros e. destruct e; always.
  Qed.
  Hint Resolve OkB_tag_object : okb.

  Lemma OkB_verify_object : forall pg t sz ck, OkB (verify_object pg t sz ck).
  Proof. intros. unfold verify_object. destruct sz, ck, pg; okb. Qed.
  Hint Resolve OkB_verify_object : okb.

  Lemma OkB_write_chunks : forall t n, OkB (write_chunks t n).
  Proof. intros t n. induction n as [|n IH]; simpl; okb. Qed.
  Hint Resolve OkB_write_chunks : okb.

  Lemma OkB_delete_object_file : forall c, OkB (delete_object_file c).
  Proof. intros. unfold delete_object_file. okb. Qed.
  Hint Resolve OkB_delete_object_file : okb.

  Lemma OkB_open_source : forall s, OkB (open_source s).
  Proof. intros []; simpl; okb. Qed.
  Hint Resolve OkB_open_source : okb.

  (* the two swallowed failures of _move_and_get_checksums (removal of the temp file after a failed
     write; the handlers of a failed move) are followed by a raise *)
  Lemma OkB_move_and_get_checksums : forall po b n sz ck, OkB (move_and_get_checksums po b n sz ck).
  Proof.
    intros. unfold move_and_get_checksums. cbv zeta.
    apply OkB_mbind; [okb|]. intros t.
    apply OkB_catch_bind; [okb| |].
    2:{ intros e. always. }
    intros [u|e]; [|okb].
    apply OkB_mbind; [okb|]. intros ex. destruct (negb ex).
    - apply OkB_mbind; [okb|]. intros _. apply OkB_mbind; [okb|]. intros _.
      apply OkB_catch_bind; [okb| |].
      + intros [u'|err]; [okb|]. apply OkB_always. always.
      + intros err. always.
    - apply OkB_catch_bind; [okb| |].
      + intros [u'|err]; [okb|]. destruct err; okb.
      + intros err. destruct err; always.
  Qed.
  Hint Resolve OkB_move_and_get_checksums : okb.

  Lemma OkB_store_object : forall po s b n sz ck, OkB (store_object po s b n sz ck).
  Proof. intros. unfold store_object. okb. Qed.

  Lemma OkB_store_metadata : forall q f s v n, OkB (store_metadata q f s v n).
  Proof.
    intros. unfold store_metadata. cbv zeta. apply OkB_mbind; [okb|]. intros _.
    apply OkB_try_finally; [|auto with okb].
    apply OkB_mbind; [okb|]. intros _. apply OkB_mbind; [okb|]. intros t.
    apply OkB_mbind; [okb|]. intros _.
    apply OkB_catch_bind; [okb| |].
    - intros [u|e]; okb.
    - intros e. always.
  Qed.

  Lemma OkB_retrieve_metadata : forall q f, OkB (retrieve_metadata q f).
  Proof. intros. unfold retrieve_metadata. cbv zeta. okb. Qed.

  Lemma OkB_delete_metadata_one : forall q f, OkB (delete_metadata q (Some f)).
  Proof. intros. unfold delete_metadata. cbv zeta. okb. Qed.

  Lemma OkB_delete_if_invalid : forall c sz pre ok, OkB (delete_if_invalid c sz pre ok).
  Proof.
    intros. unfold delete_if_invalid. apply OkB_catch_bind.
    - destruct sz, pre, ok; okb.
    - intros [u|e]; [okb|]. destruct e; okb.
    - intros e. destruct e; always.
  Qed.

  Lemma OkB_lift_unit : forall m, OkB m -> OkB (lift_unit m).
  Proof. intros. unfold lift_unit. okb. Qed.

  (* the calls that remove no deletion marker *)
  Definition no_marker_call (c : call) : Prop :=
    match c with
    | CDelete _ | CDelMeta _ None | CDeleteUnfixed _ => False
    | _ => True
    end.

  Theorem api_OkB : forall c, no_marker_call c -> OkB (api c).
  Proof.
    intros c Hc. destruct c; simpl in Hc |- *; try contradiction.
    - apply OkB_store_object.
    - apply OkB_lift_unit. apply OkB_tag_object.
    - apply OkB_lift_unit. apply OkB_delete_if_invalid.
    - apply OkB_store_metadata.
    - apply OkB_retrieve_metadata.
    - destruct f as [f|]; [|contradiction]. apply OkB_lift_unit. apply OkB_delete_metadata_one.
    - okb.
    - okb.
    - apply OkB_raise.
  Qed.
End Programs.

(* ================================================================================== *)
(* 4. Success => the very run of the fault-free call (calls that remove no marker)      *)
(* ================================================================================== *)

Theorem one_off_success_identical : forall c w j w' v,
  no_marker_call c ->
  run_fault (FWait j false) w (api c) = Some (w', Val v) ->
  run_seq w (api c) = Some (w', Val v).
Proof.
  intros c w j w' v Hc H. rewrite rfs_run_fault in H.
  destruct (rfs (FWait j false) w (api c)) as [[[w1 r1] st1]|] eqn:E; [|discriminate].
  inversion H; subst.
  destruct (rfs_wait_cases _ _ _ _ _ _ _ _ E) as [[_ Hr]|[[_ ->]|[Hp _]]]; [exact Hr| |discriminate].
  destruct (api_OkB (fun _ => True) (fun _ _ _ _ _ _ => I) c Hc) as [H1 _].
  destruct (H1 j w w' (Val v) I E) as [(w0 & Hr & <-)|[]]. exact Hr.
Qed.

Theorem persistent_success_identical : forall c w j w' v,
  no_marker_call c ->
  run_fault (FWait j true) w (api c) = Some (w', Val v) ->
  run_seq w (api c) = Some (w', Val v).
Proof.
  intros c w j w' v Hc H. rewrite rfs_run_fault in H.
  destruct (rfs (FWait j true) w (api c)) as [[[w1 r1] st1]|] eqn:E; [|discriminate].
  inversion H; subst.
  destruct (rfs_wait_cases _ _ _ _ _ _ _ _ E) as [[_ Hr]|[[Hp _]|[_ [d ->]]]]; [exact Hr|discriminate|].
  destruct (api_OkB (fun _ => True) (fun _ _ _ _ _ _ => I) c Hc) as [_ H2].
  destruct (H2 j w w' (Val v) d E).
Qed.
Print Assumptions persistent_success_identical.
