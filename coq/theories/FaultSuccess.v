(* FaultSuccess.v — property C13, first clause, for ALL start states:

     "If a file-system operation fails during store_object, tag_object, delete_object,
      store_metadata or delete_metadata, the call raises rather than reporting success unless its
      whole effect was achieved."

   Method.  A fault plan [FWait j pers] runs the program exactly as the fault-free semantics does
   until the fault is delivered.  A judgement on programs, [RF] (one-off faults) / [RFP] (persistent
   faults), says what can be observed once the fault HAS been delivered: either the run is still
   the fault-free one (a one-off failure of a rename is absorbed by shutil.move), or it ended in a
   world related to the fault-free one by a relation [R] (the failure was swallowed: the removal of
   a deletion marker) or the result satisfies [P] (an exception).  The judgement is compositional
   (bind, catch, try/finally); what happens AFTER an exception-raising failure is irrelevant as
   long as the continuation cannot turn it into a success — [Always], stated for every fault plan
   ([FaultGeneral.frun]).

   Results (section 6):
   - [one_off_success_identical], [persistent_success_identical]: for every call except
     delete_object and delete_metadata(pid, None) (the two that remove deletion markers), from ANY
     world, for every k and BOTH modes: a faulted call that reports success ran exactly as the
     fault-free call — same answer, same world (temp files and locks included).
   - [fault_success_markers], [fault_success_whole_effect]: every call, ONE-OFF faults, any world
     whose file map is sorted (every reachable one is: Indep.run_history_empty_sorted): success =>
     the fault-free call gives the same answer and its world has the same locks and the same files
     except deletion markers (so the same permanent files).  The one failure that is swallowed on
     a path to success is the removal of a deletion marker (_delete_marked_files); what runs after
     it (delete_metadata(pid, None), further removals, lock releases) does not see the marker left
     behind: [NI], proved for delete_metadata(pid, None) with the projection lemma of Indep.v.
   Persistent faults in delete_object / delete_metadata(pid, None): FaultPersist.v. *)
From HS Require Import Base PyVal FS Ops Spec Sched RefineLemmas Refine SeqProps CrashFault Integrity
  CrashGeneral FaultGeneral.
From HS Require Indep.

Definition isExn {A} (r : outcome A) : Prop := match r with Exn _ => True | Val _ => False end.
Definition isValExn {A} (r : outcome (outcome A)) : Prop :=
  match r with Val (Exn _) => True | _ => False end.

(* ================================================================================== *)
(* 1. Fault plans before and after the delivery                                        *)
(* ================================================================================== *)

Lemma fault_op_wait : forall j pers o w,
  fault_op (FWait j pers) o w =
  if is_site o then
    match j with
    | 0 => if pers then (Some (AErr EFault, w), FStuck (dest_of o))
           else if is_rename o then (exec_op 0 o w, FDone) else (Some (AErr EFault, w), FDone)
    | S j' => (exec_op 0 o w, FWait j' pers)
    end
  else (exec_op 0 o w, FWait j pers).
Proof.
  intros. unfold fault_op. destruct (is_site o); [|reflexivity]. destruct j; [|reflexivity].
  destruct pers; [reflexivity|]. destruct o; reflexivity.
Qed.

Lemma rfs_done_state : forall A (m : prog A) w w' r st',
  rfs FDone w m = Some (w', r, st') -> st' = FDone /\ run_seq w m = Some (w', r).
Proof.
  intros A m w w' r st' H. rewrite rfs_done in H.
  destruct (run_seq w m) as [[w1 r1]|]; [|discriminate]. inversion H; subst. auto.
Qed.

(* every run under a fault plan is a run of the nondeterministic semantics *)
Lemma rfs_frun : forall A (m : prog A) st w w' r st',
  rfs st w m = Some (w', r, st') -> frun m w w' r.
Proof.
  intros A m st w w' r st' H. eapply run_fault_frun with (st := st).
  rewrite rfs_run_fault, H. reflexivity.
Qed.

Lemma rfs_stuck_state : forall A (m : prog A) d w w' r st',
  rfs (FStuck d) w m = Some (w', r, st') -> st' = FStuck d.
Proof.
  induction m as [a|o k IH|]; intros d w w' r st' H; cbn [rfs] in H.
  - inversion H. reflexivity.
  - unfold fault_op in H. destruct (is_site o); [destruct (dest_eqb d (dest_of o))|];
      try (destruct (exec_op 0 o w) as [[x w1]|]; [|discriminate]); eapply IH; exact H.
  - discriminate.
Qed.

(* as long as the fault is pending the run is the fault-free one *)
Lemma rfs_wait_cases : forall A (m : prog A) j pers w w' r st',
  rfs (FWait j pers) w m = Some (w', r, st') ->
  ((exists j', st' = FWait j' pers) /\ run_seq w m = Some (w', r)) \/
  (pers = false /\ st' = FDone) \/ (pers = true /\ exists d, st' = FStuck d).
Proof.
  induction m as [a|o k IH|]; intros j pers w w' r st' H; cbn [rfs] in H.
  - inversion H; subst. left. split; [eauto|reflexivity].
  - rewrite fault_op_wait in H. cbn [run_seq].
    destruct (is_site o).
    + destruct j as [|j].
      * destruct pers.
        -- right. right. split; [reflexivity|]. exists (dest_of o).
           eapply rfs_stuck_state. exact H.
        -- right. left. split; [reflexivity|]. destruct (is_rename o).
           ++ destruct (exec_op 0 o w) as [[x w1]|]; [|discriminate].
              apply rfs_done_state in H. tauto.
           ++ apply rfs_done_state in H. tauto.
      * destruct (exec_op 0 o w) as [[x w1]|]; [|discriminate]. eapply IH. exact H.
    + destruct (exec_op 0 o w) as [[x w1]|]; [|discriminate]. eapply IH. exact H.
  - discriminate.
Qed.

(* ================================================================================== *)
(* 2. The judgements                                                                   *)
(* ================================================================================== *)

(* whatever fault plan, the result satisfies P *)
Definition Always {A} (m : prog A) (P : A -> Prop) : Prop :=
  forall w w' r, frun m w w' r -> P r.

Lemma Always_ret : forall A (a : A) (P : A -> Prop), P a -> Always (Ret a) P.
Proof. intros A a P H w w' r [_ ->]. exact H. Qed.
Lemma Always_bad : forall A (P : A -> Prop), Always (@Bad A) P.
Proof. intros A P w w' r []. Qed.
Lemma Always_raise : forall A e, Always (@raise A e) isExn.
Proof. intros. apply Always_ret. exact I. Qed.

Lemma Always_mbind : forall A B (m : M A) (f : A -> M B),
  (forall a, Always (f a) isExn) -> Always (mbind m f) isExn.
Proof.
  intros A B m f Hf w w' r H. apply frun_mbind in H. destruct H as (w1 & a & _ & H).
  destruct a as [x|e]; [eapply Hf; exact H|]. destruct H as [_ ->]. exact I.
Qed.

Lemma Always_vis : forall A o (k : ans -> prog A) P, (forall x, Always (k x) P) -> Always (Vis o k) P.
Proof.
  intros A o k P Hk w w' r H. simpl in H. destruct H as [(x & w1 & _ & H)|[_ H]]; eapply Hk; exact H.
Qed.

Lemma Always_try_finally : forall A (m : M A) fin, Always m isExn -> Always (try_finally m fin) isExn.
Proof.
  intros A m fin Hm w w' r H. unfold try_finally in H.
  apply frun_bind in H. destruct H as (w1 & a & H1 & H).
  apply frun_bind in H. destruct H as (w2 & rf & _ & H).
  destruct rf as [u|e]; simpl in H; destruct H as [_ ->]; [eapply Hm; exact H1|exact I].
Qed.

Section Judgement.
  (* an invariant of worlds that every operation keeps (sortedness of the file map, or nothing) *)
  Variable Iw : world -> Prop.
  Hypothesis Ipres : forall o w x w', Iw w -> exec_op 0 o w = Some (x, w') -> Iw w'.

  Lemma rfs_Iw : forall A (m : prog A) st w w' r st',
    Iw w -> rfs st w m = Some (w', r, st') -> Iw w'.
  Proof.
    induction m as [a|o k IH|]; intros st w w' r st' HI H; cbn [rfs] in H.
    - inversion H; subst. exact HI.
    - destruct (fault_op st o w) as [[[x w1]|] st1] eqn:E; [|discriminate].
      destruct (fault_op_cases st o w _ _ E) as [Hc|[_ Hc]].
      + eapply IH; [|exact H]. eapply Ipres; [exact HI|symmetry; exact Hc].
      + inversion Hc; subst. eapply IH; [exact HI|exact H].
    - discriminate.
  Qed.

  Lemma run_seq_Iw : forall A (m : prog A) w w' r, Iw w -> run_seq w m = Some (w', r) -> Iw w'.
  Proof.
    intros A m w w' r HI H. eapply (rfs_Iw A m FDone w w' r FDone HI).
    rewrite rfs_done, H. reflexivity.
  Qed.

  (* ONE-OFF fault, delivered: the run was the fault-free one up to R, or the result satisfies P *)
  Definition RF {A} (R : world -> world -> Prop) (m : prog A) (P : A -> Prop) : Prop :=
    forall j w w' r, Iw w -> rfs (FWait j false) w m = Some (w', r, FDone) ->
      (exists w0, run_seq w m = Some (w0, r) /\ R w' w0) \/ P r.

  (* PERSISTENT fault, delivered: the result satisfies P *)
  Definition RFP {A} (m : prog A) (P : A -> Prop) : Prop :=
    forall j w w' r d, rfs (FWait j true) w m = Some (w', r, FStuck d) -> P r.

  (* fault-free continuation from R1-related worlds: same answer, R2-related worlds *)
  Definition NI {A} (R1 R2 : world -> world -> Prop) (m : prog A) : Prop :=
    forall w1 w2 w1' r, Iw w1 -> Iw w2 -> R1 w1 w2 -> run_seq w1 m = Some (w1', r) ->
      exists w2', run_seq w2 m = Some (w2', r) /\ R2 w1' w2'.

  Lemma NI_eq : forall A (m : prog A), NI eq eq m.
  Proof. intros A m w1 w2 w1' r _ _ <- H. eauto. Qed.

  Lemma RF_weaken : forall A (R : world -> world -> Prop) (m : prog A) (P P' : A -> Prop),
    RF R m P -> (forall r, P r -> P' r) -> RF R m P'.
  Proof. intros A R m P P' H HP j w w' r HI Hr. destruct (H j w w' r HI Hr); auto. Qed.

  Lemma RF_weakenR : forall A (R R' : world -> world -> Prop) (m : prog A) P,
    RF R m P -> (forall a b, R a b -> R' a b) -> RF R' m P.
  Proof.
    intros A R R' m P H HR j w w' r HI Hr. destruct (H j w w' r HI Hr) as [(w0 & H1 & H2)|]; eauto.
  Qed.

  Lemma RF_nosite : forall A (R : world -> world -> Prop) (m : prog A) P, nosite m -> RF R m P.
  Proof.
    intros A R m P Hn j w w' r _ H. rewrite (rfs_nosite _ m _ w Hn) in H.
    destruct (run_seq w m) as [[w1 r1]|]; discriminate.
  Qed.
  Lemma RFP_nosite : forall A (m : prog A) P, nosite m -> RFP m P.
  Proof.
    intros A m P Hn j w w' r d H. rewrite (rfs_nosite _ m _ w Hn) in H.
    destruct (run_seq w m) as [[w1 r1]|]; discriminate.
  Qed.

  Lemma RF_vis : forall A (R : world -> world -> Prop) o (k : ans -> prog A) P,
    (forall w, R w w) ->
    (forall x, RF R (k x) P) ->
    (is_site o = true -> is_rename o = false -> Always (k (AErr EFault)) P) ->
    RF R (Vis o k) P.
  Proof.
    intros A R o k P Hrefl Hk Hf j w w' r HI H. cbn [rfs] in H. rewrite fault_op_wait in H.
    cbn [run_seq]. destruct (is_site o) eqn:Es.
    - destruct j as [|j].
      + destruct (is_rename o) eqn:Er.
        * destruct (exec_op 0 o w) as [[x w1]|] eqn:E; [|discriminate].
          apply rfs_done_state in H. destruct H as [_ H]. left. eauto.
        * right. eapply Hf; auto. eapply rfs_frun. exact H.
      + destruct (exec_op 0 o w) as [[x w1]|] eqn:E; [|discriminate].
        eapply Hk; [|exact H]. eapply Ipres; eauto.
    - destruct (exec_op 0 o w) as [[x w1]|] eqn:E; [|discriminate].
      eapply Hk; [|exact H]. eapply Ipres; eauto.
  Qed.

  Lemma RFP_vis : forall A o (k : ans -> prog A) P,
    (forall x, RFP (k x) P) ->
    (is_site o = true -> Always (k (AErr EFault)) P) ->
    RFP (Vis o k) P.
  Proof.
    intros A o k P Hk Hf j w w' r d H. cbn [rfs] in H. rewrite fault_op_wait in H.
    destruct (is_site o) eqn:Es.
    - destruct j as [|j].
      + eapply Hf; auto. eapply rfs_frun. exact H.
      + destruct (exec_op 0 o w) as [[x w1]|] eqn:E; [|discriminate]. eapply Hk; exact H.
    - destruct (exec_op 0 o w) as [[x w1]|] eqn:E; [|discriminate]. eapply Hk; exact H.
  Qed.

  Lemma RF_mbind : forall A B (R1 R2 : world -> world -> Prop) (m : M A) (f : A -> M B)
                          (P1 : outcome A -> Prop) (P : outcome B -> Prop),
    (forall a b, R1 a b -> R2 a b) ->
    RF R1 m P1 ->
    (forall a, RF R2 (f a) P) ->
    (forall a, NI R1 R2 (f a)) ->
    (forall a, P1 (Val a) -> Always (f a) P) ->
    (forall e, P1 (Exn e) -> P (Exn e)) ->
    RF R2 (mbind m f) P.
  Proof.
    intros A B R1 R2 m f P1 P HR Hm Hf HNI HA HE j w w' r HI H.
    rewrite rfs_mbind in H. rewrite run_mbind.
    destruct (rfs (FWait j false) w m) as [[[w1 a] st1]|] eqn:Em; [|discriminate].
    pose proof (rfs_Iw _ _ _ _ _ _ _ HI Em) as HI1.
    destruct (rfs_wait_cases _ _ _ _ _ _ _ _ Em) as [[[j1 ->] Hrun]|[[_ ->]|[Hp _]]];
      [| |discriminate].
    - rewrite Hrun. destruct a as [x|e]; [|discriminate].
      eapply Hf; [exact HI1|exact H].
    - destruct (Hm j w w1 a HI Em) as [(w01 & Hr & HR1)|HP].
      + rewrite Hr. pose proof (run_seq_Iw _ _ _ _ _ HI Hr) as HI01. destruct a as [x|e].
        * apply rfs_done_state in H. destruct H as [_ H].
          destruct (HNI x w1 w01 w' r HI1 HI01 HR1 H) as (w2' & Hr2 & HR2). left. eauto.
        * inversion H; subst. left. eauto.
      + destruct a as [x|e].
        * right. eapply HA; [exact HP|]. eapply rfs_frun. exact H.
        * inversion H; subst. right. auto.
  Qed.

  Lemma RFP_mbind : forall A B (m : M A) (f : A -> M B)
                           (P1 : outcome A -> Prop) (P : outcome B -> Prop),
    RFP m P1 ->
    (forall a, RFP (f a) P) ->
    (forall a, P1 (Val a) -> Always (f a) P) ->
    (forall e, P1 (Exn e) -> P (Exn e)) ->
    RFP (mbind m f) P.
  Proof.
    intros A B m f P1 P Hm Hf HA HE j w w' r d H.
    rewrite rfs_mbind in H.
    destruct (rfs (FWait j true) w m) as [[[w1 a] st1]|] eqn:Em; [|discriminate].
    destruct (rfs_wait_cases _ _ _ _ _ _ _ _ Em) as [[[j1 ->] Hrun]|[[Hp _]|[_ [d1 ->]]]];
      [|discriminate|].
    - destruct a as [x|e]; [|discriminate]. eapply Hf; exact H.
    - pose proof (Hm j w w1 a d1 Em) as HP. destruct a as [x|e].
      + eapply HA; [exact HP|]. eapply rfs_frun. exact H.
      + inversion H; subst. auto.
  Qed.

  Lemma RF_catch : forall A (R : world -> world -> Prop) (m : M A) P,
    RF R m P -> RF R (catch m) (fun r => match r with Val r' => P r' | Exn _ => False end).
  Proof.
    intros A R m P Hm j w w' r HI H. rewrite rfs_catch in H. rewrite run_catch.
    destruct (rfs (FWait j false) w m) as [[[w1 a] st1]|] eqn:Em; [|discriminate].
    inversion H; subst.
    destruct (Hm j w w' a HI Em) as [(w0 & Hr & HR)|HP]; [|right; exact HP].
    left. exists w0. rewrite Hr. auto.
  Qed.

  Lemma RFP_catch : forall A (m : M A) P,
    RFP m P -> RFP (catch m) (fun r => match r with Val r' => P r' | Exn _ => False end).
  Proof.
    intros A m P Hm j w w' r d H. rewrite rfs_catch in H.
    destruct (rfs (FWait j true) w m) as [[[w1 a] st1]|] eqn:Em; [|discriminate].
    inversion H; subst. eapply Hm. exact Em.
  Qed.

  Lemma RF_try_finally : forall A (R : world -> world -> Prop) (m : M A) fin,
    RF R m isExn -> nosite fin -> NI R R fin -> RF R (try_finally m fin) isExn.
  Proof.
    intros A R m fin Hm Hn HNI j w w' r HI H. rewrite rfs_try_finally in H.
    rewrite run_try_finally.
    destruct (rfs (FWait j false) w m) as [[[w1 a] st1]|] eqn:Em; [|discriminate].
    rewrite (rfs_nosite _ fin st1 w1 Hn) in H.
    destruct (run_seq w1 fin) as [[w2 rf]|] eqn:Ef; [|discriminate].
    pose proof (rfs_Iw _ _ _ _ _ _ _ HI Em) as HI1.
    destruct rf as [u|e]; inversion H; subst; [|right; exact I].
    destruct (Hm j w w1 r HI Em) as [(w01 & Hr & HR)|HP]; [|right; exact HP].
    pose proof (run_seq_Iw _ _ _ _ _ HI Hr) as HI01.
    destruct (HNI w1 w01 w' (Val u) HI1 HI01 HR Ef) as (w2' & Hr2 & HR2).
    left. exists w2'. rewrite Hr, Hr2. auto.
  Qed.

  Lemma RFP_try_finally : forall A (m : M A) fin,
    RFP m isExn -> nosite fin -> RFP (try_finally m fin) isExn.
  Proof.
    intros A m fin Hm Hn j w w' r d H. rewrite rfs_try_finally in H.
    destruct (rfs (FWait j true) w m) as [[[w1 a] st1]|] eqn:Em; [|discriminate].
    rewrite (rfs_nosite _ fin st1 w1 Hn) in H.
    destruct (run_seq w1 fin) as [[w2 rf]|] eqn:Ef; [|discriminate].
    destruct rf as [u|e]; inversion H; subst; [|exact I].
    eapply Hm. exact Em.
  Qed.
End Judgement.

(* ================================================================================== *)
(* 3. The programs that swallow no failure                                             *)
(* ================================================================================== *)

Lemma nosite_bind : forall A B (m : prog A) (f : A -> prog B),
  nosite m -> (forall a, nosite (f a)) -> nosite (bind m f).
Proof.
  induction m as [a|o k IH|]; intros f Hm Hf; simpl; auto.
  destruct Hm as [Hs Hk]. split; auto.
Qed.

Lemma nosite_mbind : forall A B (m : M A) (f : A -> M B),
  nosite m -> (forall a, nosite (f a)) -> nosite (mbind m f).
Proof.
  intros. unfold mbind. apply nosite_bind; auto. intros [a|e]; simpl; auto.
Qed.

Lemma nosite_release : forall cls x, nosite (release cls x).
Proof. intros. simpl. split; [reflexivity|]. intros []; exact I. Qed.
Lemma nosite_funlock : forall a, nosite (funlock a).
Proof. intros. simpl. split; [reflexivity|]. intros []; exact I. Qed.
Lemma nosite_release2 : forall c1 x1 c2 x2, nosite (release c1 x1 ;;; release c2 x2).
Proof. intros. apply nosite_mbind; [apply nosite_release|intros; apply nosite_release]. Qed.

Ltac always :=
  repeat (intros; first
    [ apply Always_raise
    | apply Always_bad
    | apply Always_mbind
    | apply Always_try_finally
    | match goal with |- Always (match ?x with _ => _ end) _ => destruct x end ]).

Section Programs.
  Variable Iw : world -> Prop.
  Hypothesis Ipres : forall o w x w', Iw w -> exec_op 0 o w = Some (x, w') -> Iw w'.

  (* a delivered fault, one-off or persistent, makes the program raise — or (one-off failure of a
     rename) the run is the fault-free one *)
  Definition OkB {A} (m : M A) : Prop := RF Iw eq m isExn /\ RFP m isExn.

  Lemma OkB_nosite : forall A (m : M A), nosite m -> OkB m.
  Proof. intros A m H. split; [apply RF_nosite|apply RFP_nosite]; exact H. Qed.
  Lemma OkB_ret : forall A (a : A), OkB (ret a).
  Proof. intros. apply OkB_nosite. exact I. Qed.
  Lemma OkB_raise : forall A e, OkB (@raise A e).
  Proof. intros. apply OkB_nosite. exact I. Qed.
  Lemma OkB_bad : forall A, OkB (@Bad (outcome A)).
  Proof. intros. apply OkB_nosite. exact I. Qed.

  Lemma OkB_always : forall A (m : M A), Always m isExn -> OkB m.
  Proof.
    intros A m H. split.
    - intros j w w' r _ Hr. right. eapply H. eapply rfs_frun. exact Hr.
    - intros j w w' r d Hr. eapply H. eapply rfs_frun. exact Hr.
  Qed.

  Lemma OkB_seq_raise : forall A B (m : M A) e, OkB (m ;;; @raise B e).
  Proof. intros. apply OkB_always. always. Qed.

  Lemma OkB_mbind : forall A B (m : M A) (f : A -> M B),
    OkB m -> (forall a, OkB (f a)) -> OkB (mbind m f).
  Proof.
    intros A B m f [H1 H2] Hf. split.
    - eapply (RF_mbind Iw Ipres) with (R1 := eq) (P1 := isExn); auto.
      + intros a. apply Hf.
      + intros a. apply NI_eq.
      + intros a [].
    - eapply RFP_mbind with (P1 := isExn); auto.
      + intros a. apply Hf.
      + intros a [].
  Qed.

  Lemma OkB_catch_bind : forall A B (m : M A) (f : outcome A -> M B),
    OkB m -> (forall r, OkB (f r)) -> (forall e, Always (f (Exn e)) isExn) ->
    OkB (r <- catch m ;; f r).
  Proof.
    intros A B m f [H1 H2] Hf HA. split.
    - eapply (RF_mbind Iw Ipres) with (R1 := eq); [auto|apply RF_catch; exact H1| | | |].
      + intros a. apply Hf.
      + intros a. apply NI_eq.
      + intros [x|e] []. apply HA.
      + intros e [].
    - eapply RFP_mbind; [apply RFP_catch; exact H2| | |].
      + intros a. apply Hf.
      + intros [x|e] []. apply HA.
      + intros e [].
  Qed.

  Lemma OkB_try_finally : forall A (m : M A) fin, OkB m -> nosite fin -> OkB (try_finally m fin).
  Proof.
    intros A m fin [H1 H2] Hn. split.
    - apply (RF_try_finally Iw Ipres); auto. apply NI_eq.
    - apply RFP_try_finally; auto.
  Qed.

  Lemma OkB_leaf : forall A o (k : ans -> M A),
    (forall x, nosite (k x)) -> (is_site o = true -> Always (k (AErr EFault)) isExn) ->
    OkB (Vis o k).
  Proof.
    intros A o k Hk Hf. split.
    - apply (RF_vis Iw Ipres); auto. intros x. apply RF_nosite. apply Hk.
    - apply RFP_vis; auto. intros x. apply RFP_nosite. apply Hk.
  Qed.

  Ltac leaf := apply OkB_leaf; [intros []; exact I|intros Hs; try discriminate Hs; always].

  Lemma OkB_probe : forall a, OkB (probe a). Proof. intros. leaf. Qed.
  Lemma OkB_peek : forall cls x, OkB (peek cls x). Proof. intros. leaf. Qed.
  Lemma OkB_held : forall cls x, OkB (held cls x). Proof. intros. leaf. Qed.
  Lemma OkB_acquire : forall cls x, OkB (acquire cls x). Proof. intros. leaf. Qed.
  Lemma OkB_release : forall cls x, OkB (release cls x). Proof. intros. leaf. Qed.
  Lemma OkB_funlock : forall a, OkB (funlock a). Proof. intros. leaf. Qed.
  Lemma OkB_size_lines : forall a, OkB (size_lines a). Proof. intros. leaf. Qed.
  Lemma OkB_listdir : forall p, OkB (listdir p). Proof. intros. leaf. Qed.
  Lemma OkB_rewrite_write : forall a p, OkB (rewrite_write a p). Proof. intros. leaf. Qed.
  Lemma OkB_read : forall a, OkB (read a). Proof. intros. leaf. Qed.
  Lemma OkB_mktmp : forall ar init, OkB (mktmp ar init). Proof. intros. leaf. Qed.
  Lemma OkB_unit_op : forall o, OkB (unit_op o). Proof. intros. leaf. Qed.

  Hint Resolve OkB_ret OkB_raise OkB_bad OkB_seq_raise OkB_probe OkB_peek OkB_held OkB_acquire
       OkB_release OkB_funlock OkB_size_lines OkB_listdir OkB_rewrite_write OkB_read OkB_mktmp
       OkB_unit_op nosite_release nosite_funlock nosite_release2 : okb.

  Ltac okb :=
    repeat (intros; first
      [ solve [eauto 3 with okb]
      | apply OkB_mbind
      | apply OkB_try_finally; [|solve [eauto 3 with okb]]
      | match goal with |- OkB (match ?x with _ => _ end) => destruct x end ]).

  Lemma OkB_read_cid : forall a, OkB (read_cid a). Proof. unfold read_cid. okb. Qed.
  Hint Resolve OkB_read_cid : okb.
  Lemma OkB_read_lines : forall a, OkB (read_lines a). Proof. unfold read_lines. okb. Qed.
  Hint Resolve OkB_read_lines : okb.
  Lemma OkB_is_in_refs : forall q a, OkB (is_in_refs q a). Proof. unfold is_in_refs. okb. Qed.
  Hint Resolve OkB_is_in_refs : okb.
  Lemma OkB_find_object : forall q, OkB (find_object q). Proof. unfold find_object. okb. Qed.
  Hint Resolve OkB_find_object : okb.
  Lemma OkB_open_object : forall c, OkB (open_object c). Proof. unfold open_object. okb. Qed.
  Hint Resolve OkB_open_object : okb.
  Lemma OkB_retrieve_object : forall q, OkB (retrieve_object q).
  Proof. unfold retrieve_object. okb. Qed.
  Hint Resolve OkB_retrieve_object : okb.
  Lemma OkB_get_hex_digest : forall q, OkB (get_hex_digest q).
  Proof. unfold get_hex_digest. okb. Qed.
  Hint Resolve OkB_get_hex_digest : okb.
  Lemma OkB_rename_for_deletion : forall a, OkB (rename_for_deletion a).
  Proof. unfold rename_for_deletion. okb. Qed.
  Hint Resolve OkB_rename_for_deletion : okb.
  Lemma OkB_update_refs_remove : forall a q, OkB (update_refs_remove a q).
  Proof. unfold update_refs_remove. okb. Qed.
  Hint Resolve OkB_update_refs_remove : okb.
  Lemma OkB_update_refs_add : forall a q, OkB (update_refs_add a q).
  Proof. unfold update_refs_add. okb. Qed.
  Hint Resolve OkB_update_refs_add : okb.
  Lemma OkB_verify_refs : forall q c, OkB (verify_refs q c). Proof. unfold verify_refs. okb. Qed.
  Hint Resolve OkB_verify_refs : okb.
  Lemma OkB_write_refs_tmp : forall v, OkB (write_refs_tmp v). Proof. unfold write_refs_tmp. okb. Qed.
  Hint Resolve OkB_write_refs_tmp : okb.
  Lemma OkB_and_sc : forall m1 m2, OkB m1 -> OkB m2 -> OkB (and_sc m1 m2).
  Proof. intros. unfold and_sc. okb. Qed.
  Lemma OkB_notm : forall m, OkB m -> OkB (notm m).
  Proof. intros. unfold notm. okb. Qed.
  Hint Resolve OkB_and_sc OkB_notm : okb.

  Lemma OkB_store_refs_body : forall q c, OkB (store_refs_body q c).
  Proof. unfold store_refs_body. okb. Qed.
  Hint Resolve OkB_store_refs_body : okb.

  (* tag_object: whatever made the body raise, the handlers re-raise (after the roll-back) *)
  Lemma OkB_tag_object : forall q c, OkB (tag_object q c).
  Proof.
    intros. unfold tag_object. apply OkB_try_finally; [|auto with okb].
    apply OkB_mbind; [okb|]. intros _. apply OkB_mbind; [okb|]. intros _.
    apply OkB_catch_bind; [okb| |].
    - intros [u|e]; [okb|]. destruct e; okb.
    - intros e. destruct e; always.
  Qed.
  Hint Resolve OkB_tag_object : okb.

  Lemma OkB_verify_object : forall pg t sz ck, OkB (verify_object pg t sz ck).
  Proof. intros. unfold verify_object. destruct sz, ck, pg; okb. Qed.
  Hint Resolve OkB_verify_object : okb.

  Lemma OkB_write_chunks : forall t n, OkB (write_chunks t n).
  Proof. intros t n. induction n as [|n IH]; simpl; okb. Qed.
  Hint Resolve OkB_write_chunks : okb.

  Lemma OkB_delete_object_file : forall c, OkB (delete_object_file c).
  Proof. intros. unfold delete_object_file. okb. Qed.
  Hint Resolve OkB_delete_object_file : okb.

  Lemma OkB_open_source : forall s, OkB (open_source s).
  Proof. intros []; simpl; okb. Qed.
  Hint Resolve OkB_open_source : okb.

  (* the two swallowed failures of _move_and_get_checksums (removal of the temp file after a failed
     write; the handlers of a failed move) are followed by a raise *)
  Lemma OkB_move_and_get_checksums : forall po b n sz ck, OkB (move_and_get_checksums po b n sz ck).
  Proof.
    intros. unfold move_and_get_checksums. cbv zeta.
    apply OkB_mbind; [okb|]. intros t.
    apply OkB_catch_bind; [okb| |].
    2:{ intros e. always. }
    intros [u|e]; [|okb].
    apply OkB_mbind; [okb|]. intros ex. destruct (negb ex).
    - apply OkB_mbind; [okb|]. intros _. apply OkB_mbind; [okb|]. intros _.
      apply OkB_catch_bind; [okb| |].
      + intros [u'|err]; [okb|]. apply OkB_always. always.
      + intros err. always.
    - apply OkB_catch_bind; [okb| |].
      + intros [u'|err]; [okb|]. destruct err; okb.
      + intros err. destruct err; always.
  Qed.
  Hint Resolve OkB_move_and_get_checksums : okb.

  Lemma OkB_store_object : forall po s b n sz ck, OkB (store_object po s b n sz ck).
  Proof. intros. unfold store_object. okb. Qed.

  Lemma OkB_store_metadata : forall q f s v n, OkB (store_metadata q f s v n).
  Proof.
    intros. unfold store_metadata. cbv zeta. apply OkB_mbind; [okb|]. intros _.
    apply OkB_try_finally; [|auto with okb].
    apply OkB_mbind; [okb|]. intros _. apply OkB_mbind; [okb|]. intros t.
    apply OkB_mbind; [okb|]. intros _.
    apply OkB_catch_bind; [okb| |].
    - intros [u|e]; okb.
    - intros e. always.
  Qed.

  Lemma OkB_retrieve_metadata : forall q f, OkB (retrieve_metadata q f).
  Proof. intros. unfold retrieve_metadata. cbv zeta. okb. Qed.

  Lemma OkB_delete_metadata_one : forall q f, OkB (delete_metadata q (Some f)).
  Proof. intros. unfold delete_metadata. cbv zeta. okb. Qed.

  Lemma OkB_delete_if_invalid : forall c sz pre ok, OkB (delete_if_invalid c sz pre ok).
  Proof.
    intros. unfold delete_if_invalid. apply OkB_catch_bind.
    - destruct sz, pre, ok; okb.
    - intros [u|e]; [okb|]. destruct e; okb.
    - intros e. destruct e; always.
  Qed.

  Lemma OkB_lift_unit : forall m, OkB m -> OkB (lift_unit m).
  Proof. intros. unfold lift_unit. okb. Qed.

  (* the calls that remove no deletion marker *)
  Definition no_marker_call (c : call) : Prop :=
    match c with
    | CDelete _ | CDelMeta _ None | CDeleteUnfixed _ => False
    | _ => True
    end.

  Theorem api_OkB : forall c, no_marker_call c -> OkB (api c).
  Proof.
    intros c Hc. destruct c; simpl in Hc |- *; try contradiction.
    - apply OkB_store_object.
    - apply OkB_lift_unit. apply OkB_tag_object.
    - apply OkB_lift_unit. apply OkB_delete_if_invalid.
    - apply OkB_store_metadata.
    - apply OkB_retrieve_metadata.
    - destruct f as [f|]; [|contradiction]. apply OkB_lift_unit. apply OkB_delete_metadata_one.
    - okb.
    - okb.
    - apply OkB_raise.
  Qed.
End Programs.

(* ================================================================================== *)
(* 4. Success => the very run of the fault-free call (calls that remove no marker)      *)
(* ================================================================================== *)

Theorem one_off_success_identical : forall c w j w' v,
  no_marker_call c ->
  run_fault (FWait j false) w (api c) = Some (w', Val v) ->
  run_seq w (api c) = Some (w', Val v).
Proof.
  intros c w j w' v Hc H. rewrite rfs_run_fault in H.
  destruct (rfs (FWait j false) w (api c)) as [[[w1 r1] st1]|] eqn:E; [|discriminate].
  inversion H; subst.
  destruct (rfs_wait_cases _ _ _ _ _ _ _ _ E) as [[_ Hr]|[[_ ->]|[Hp _]]]; [exact Hr| |discriminate].
  destruct (api_OkB (fun _ => True) (fun _ _ _ _ _ _ => I) c Hc) as [H1 _].
  destruct (H1 j w w' (Val v) I E) as [(w0 & Hr & <-)|[]]. exact Hr.
Qed.

Theorem persistent_success_identical : forall c w j w' v,
  no_marker_call c ->
  run_fault (FWait j true) w (api c) = Some (w', Val v) ->
  run_seq w (api c) = Some (w', Val v).
Proof.
  intros c w j w' v Hc H. rewrite rfs_run_fault in H.
  destruct (rfs (FWait j true) w (api c)) as [[[w1 r1] st1]|] eqn:E; [|discriminate].
  inversion H; subst.
  destruct (rfs_wait_cases _ _ _ _ _ _ _ _ E) as [[_ Hr]|[[Hp _]|[_ [d ->]]]]; [exact Hr|discriminate|].
  destruct (api_OkB (fun _ => True) (fun _ _ _ _ _ _ => I) c Hc) as [_ H2].
  destruct (H2 j w w' (Val v) d E).
Qed.
Print Assumptions persistent_success_identical.

(* ================================================================================== *)
(* 5. The calls that remove deletion markers: ONE-OFF faults                           *)
(* ================================================================================== *)

(* worlds that have the same locks and the same files on the addresses K (compared as file maps
   restricted to K: what ListDir answers is determined by it) *)
Definition RJ (K : addr -> bool) (w1 w2 : world) : Prop :=
  locks w1 = locks w2 /\ Indep.proj K (fs w1) = Indep.proj K (fs w2).

Lemma RJ_refl : forall K w, RJ K w w.
Proof. intros. split; reflexivity. Qed.

(* everything except the deletion markers *)
Definition K2 (a : addr) : bool := match a with ADel _ => false | _ => true end.

Definition sortedw (w : world) : Prop := Indep.fsorted (fs w).
Lemma sortedw_pres : forall o w x w', sortedw w -> exec_op 0 o w = Some (x, w') -> sortedw w'.
Proof. intros o w x w' H E. eapply Indep.exec_sorted; eauto. Qed.

Definition postV {A} (V : A -> Prop) (r : outcome A) : Prop :=
  match r with Val a => V a | Exn _ => True end.

Lemma Always_mbindQ : forall A B (m : M A) (f : A -> M B) (Q1 : outcome A -> Prop) (Q : outcome B -> Prop),
  Always m Q1 -> (forall a, Q1 (Val a) -> Always (f a) Q) -> (forall e, Q1 (Exn e) -> Q (Exn e)) ->
  Always (mbind m f) Q.
Proof.
  intros A B m f Q1 Q Hm Hf He w w' r H. apply frun_mbind in H. destruct H as (w1 & a & H1 & H).
  pose proof (Hm _ _ _ H1) as HQ. destruct a as [x|e]; [eapply Hf; eauto|].
  destruct H as [_ ->]. auto.
Qed.

Lemma Always_any : forall A (m : prog A), Always m (fun _ => True).
Proof. intros A m w w' r _. exact I. Qed.

Lemma Always_try_finallyQ : forall A (m : M A) fin (V : A -> Prop),
  Always m (postV V) -> Always (try_finally m fin) (postV V).
Proof.
  intros A m fin V Hm w w' r H. unfold try_finally in H.
  apply frun_bind in H. destruct H as (w1 & a & H1 & H).
  apply frun_bind in H. destruct H as (w2 & rf & _ & H).
  destruct rf as [u|e]; simpl in H; destruct H as [_ ->]; [eapply Hm; exact H1|exact I].
Qed.

Lemma Always_catch : forall A (m : M A) (Q : outcome A -> Prop),
  Always m Q -> Always (catch m) (fun r => match r with Val r' => Q r' | Exn _ => True end).
Proof.
  intros A m Q Hm w w' r H. unfold catch in H. apply frun_bind in H.
  destruct H as (w1 & a & H1 & H). simpl in H. destruct H as [_ ->]. eapply Hm. exact H1.
Qed.

Lemma Always_rfd : forall a, Always (rename_for_deletion a) (postV (fun d => d = ADel a)).
Proof.
  intros a. unfold rename_for_deletion.
  eapply Always_mbindQ with (Q1 := fun _ => True); [apply Always_any| |intros; exact I].
  intros _ _. apply Always_ret. reflexivity.
Qed.

Definition dlK (K : addr -> bool) (l : list addr) : Prop := forall a, In a l -> K a = false.

Lemma dlK_app : forall K l1 l2, dlK K l1 -> dlK K l2 -> dlK K (l1 ++ l2).
Proof. intros K l1 l2 H1 H2 a Ha. apply in_app_or in Ha. destruct Ha; auto. Qed.

Lemma Always_mark_docs : forall l, Always (mark_docs l) (postV (dlK K2)).
Proof.
  induction l as [|a l IH]; cbn [mark_docs].
  - apply Always_ret. intros x [].
  - eapply Always_mbindQ with (Q1 := fun _ => True); [apply Always_any| |intros; exact I].
    intros _ _.
    eapply Always_mbindQ with (Q1 := postV (dlK K2)); [| |intros; exact I].
    + apply Always_try_finallyQ.
      eapply Always_mbindQ with (Q1 := fun _ => True); [apply Always_any| |intros; exact I].
      intros b _. destruct b; [|apply Always_ret; intros x []].
      eapply Always_mbindQ; [apply Always_catch; apply Always_rfd| |intros e H; exact I].
      intros [d|e] H; simpl in H.
      * subst d. apply Always_ret. intros x [<-|[]]. reflexivity.
      * destruct e; apply Always_ret; try exact I. intros x [].
    + intros d Hd. eapply Always_mbindQ; [apply IH| |intros; exact I].
      intros r Hr. apply Always_ret. apply dlK_app; assumption.
Qed.

Lemma run_swallow_remove_K : forall K a w, K a = false ->
  exists w0, run_seq w (swallow_op (Remove a)) = Some (w0, Val tt) /\
             locks w0 = locks w /\ Indep.proj K (fs w0) = Indep.proj K (fs w).
Proof.
  intros K a w Ha. unfold swallow_op. cbn [run_seq]. unfold exec_op.
  destruct (lookup a (fs w)); eexists; (split; [reflexivity|]); split; try reflexivity.
  simpl. apply Indep.proj_delete_out. exact Ha.
Qed.

Lemma run_delete_marked_K : forall K l, dlK K l -> forall w,
  exists w0, run_seq w (delete_marked l) = Some (w0, Val tt) /\
             locks w0 = locks w /\ Indep.proj K (fs w0) = Indep.proj K (fs w).
Proof.
  intros K. induction l as [|a l IH]; intros Hl w; cbn [delete_marked].
  - exists w. auto.
  - destruct (run_swallow_remove_K K a w) as (w1 & Hr & L1 & P1); [apply Hl; left; reflexivity|].
    destruct (IH (fun x Hx => Hl x (or_intror Hx)) w1) as (w2 & Hr2 & L2 & P2).
    exists w2. rewrite run_mbind, Hr. split; [exact Hr2|]. split; congruence.
Qed.

Lemma nosite_probe_all : forall l, nosite (probe_all l).
Proof.
  induction l as [|a l IH]; cbn [probe_all]; [exact I|].
  apply nosite_mbind; [simpl; split; [reflexivity|intros []; exact I]|].
  intros b. apply nosite_mbind; [exact IH|]. intros r. exact I.
Qed.

Section Markers.
  Variable Iw : world -> Prop.
  Hypothesis Ipres : forall o w x w', Iw w -> exec_op 0 o w = Some (x, w') -> Iw w'.

  Lemma NI_delete_marked : forall K l, dlK K l -> NI Iw (RJ K) (RJ K) (delete_marked l).
  Proof.
    intros K l Hl w1 w2 w1' r _ _ [HL HP] H.
    destruct (run_delete_marked_K K l Hl w1) as (u1 & Hr1 & L1 & P1).
    rewrite Hr1 in H. inversion H; subst.
    destruct (run_delete_marked_K K l Hl w2) as (u2 & Hr2 & L2 & P2).
    exists u2. split; [exact Hr2|]. split; congruence.
  Qed.

  Lemma NI_ret : forall A R (a : A), NI Iw R R (ret a).
  Proof. intros A R a w1 w2 w1' r _ _ HR H. inversion H; subst. exists w2. auto. Qed.

  Lemma NI_eq_R : forall A (R : world -> world -> Prop) (m : prog A), (forall w, R w w) -> NI Iw eq R m.
  Proof. intros A R m Hrefl w1 w2 w1' r _ _ <- H. eauto. Qed.

  (* the swallowed failure: the marker stays *)
  Lemma RF_swallow_remove : forall K a, K a = false ->
    RF Iw (RJ K) (swallow_op (Remove a)) (fun _ => False).
  Proof.
    intros K a Ha j w w' r HI H. unfold swallow_op in H. cbn [rfs] in H.
    rewrite fault_op_wait in H. cbn [is_site is_rename] in H. destruct j as [|j].
    - cbn in H. inversion H; subst. left.
      destruct (run_swallow_remove_K K a w' Ha) as (w0 & Hr & L & P).
      exists w0. split; [exact Hr|]. split; congruence.
    - destruct (exec_op 0 (Remove a) w) as [[x w1]|]; [|discriminate].
      destruct x; cbn in H; discriminate.
  Qed.

  Lemma RF_delete_marked : forall K l, dlK K l -> RF Iw (RJ K) (delete_marked l) isExn.
  Proof.
    intros K. induction l as [|a l IH]; intros Hl; cbn [delete_marked].
    - apply RF_nosite. exact I.
    - assert (Hl' : dlK K l) by (intros x Hx; apply Hl; right; exact Hx).
      eapply (RF_mbind Iw Ipres) with (R1 := RJ K) (P1 := fun _ => False).
      + auto.
      + apply RF_swallow_remove. apply Hl. left. reflexivity.
      + intros _. apply IH. exact Hl'.
      + intros _. apply NI_delete_marked. exact Hl'.
      + intros x [].
      + intros e [].
  Qed.

  (* bind after a program that swallows nothing, with what its fault-free result satisfies *)
  Lemma RF_mbind_eqQ : forall A B (R : world -> world -> Prop) (m : M A) (f : A -> M B) (V : A -> Prop),
    (forall w, R w w) -> RF Iw eq m isExn -> Always m (postV V) ->
    (forall a, V a -> RF Iw R (f a) isExn) -> RF Iw R (mbind m f) isExn.
  Proof.
    intros A B R m f V Hrefl Hm HV Hf j w w' r HI H.
    rewrite rfs_mbind in H. rewrite run_mbind.
    destruct (rfs (FWait j false) w m) as [[[w1 a] st1]|] eqn:Em; [|discriminate].
    pose proof (rfs_Iw Iw Ipres _ _ _ _ _ _ _ HI Em) as HI1.
    destruct (rfs_wait_cases _ _ _ _ _ _ _ _ Em) as [[[j1 ->] Hrun]|[[_ ->]|[Hp _]]];
      [| |discriminate].
    - rewrite Hrun. destruct a as [x|e]; [|discriminate].
      eapply Hf; [|exact HI1|exact H]. apply (HV _ _ _ (run_seq_frun _ _ _ _ _ Hrun)).
    - destruct (Hm j w w1 a HI Em) as [(w01 & Hr & <-)|HP].
      + rewrite Hr. destruct a as [x|e].
        * apply rfs_done_state in H. destruct H as [_ H]. left. eauto.
        * inversion H; subst. left. eauto.
      + destruct a as [x|e]; [destruct HP|]. inversion H; subst. right. exact I.
  Qed.

  Lemma RF_mbind_eq : forall A B (R : world -> world -> Prop) (m : M A) (f : A -> M B),
    (forall w, R w w) -> RF Iw eq m isExn ->
    (forall a, RF Iw R (f a) isExn) -> RF Iw R (mbind m f) isExn.
  Proof.
    intros A B R m f Hrefl Hm Hf.
    eapply RF_mbind_eqQ with (V := fun _ => True); auto.
    intros w w' r _. destruct r; exact I.
  Qed.

  (* a one-off failure of a rename is absorbed *)
  Lemma RF_rfd : forall a, RF Iw eq (rename_for_deletion a) (fun _ => False).
  Proof.
    intros a. unfold rename_for_deletion.
    eapply (RF_mbind Iw Ipres) with (R1 := eq) (P1 := fun _ => False); auto.
    - unfold unit_op. apply (RF_vis Iw Ipres); auto.
      + intros x. apply RF_nosite. destruct x; exact I.
      + intros _ Hr. discriminate Hr.
    - intros _. apply RF_nosite. exact I.
    - intros _. apply NI_eq.
    - intros x [].
  Qed.

  Lemma RFe_mbind : forall A B (m : M A) (f : A -> M B),
    RF Iw eq m isExn -> (forall a, RF Iw eq (f a) isExn) -> RF Iw eq (mbind m f) isExn.
  Proof. intros. apply RF_mbind_eq; auto. Qed.

  Lemma RFe_mark_docs : forall l, RF Iw eq (mark_docs l) isExn.
  Proof.
    induction l as [|a l IH]; cbn [mark_docs]; [apply RF_nosite; exact I|].
    apply RFe_mbind; [apply (OkB_acquire Iw Ipres)|]. intros _.
    apply RFe_mbind.
    - apply (RF_try_finally Iw Ipres); [|apply nosite_release|apply NI_eq].
      apply RFe_mbind; [apply (OkB_probe Iw Ipres)|]. intros b.
      destruct b; [|apply RF_nosite; exact I].
      eapply (RF_mbind Iw Ipres) with (R1 := eq)
        (P1 := fun r => match r with Val r' => (fun _ => False) r' | Exn _ => False end); auto.
      + apply RF_catch. apply RF_rfd.
      + intros [d|e]; [apply RF_nosite; exact I|]. destruct e; apply RF_nosite; exact I.
      + intros r. apply NI_eq.
      + intros r [].
      + intros e [].
    - intros d. apply RFe_mbind; [exact IH|]. intros r. apply RF_nosite. exact I.
  Qed.

  (* delete_metadata(pid, None): a one-off failure raises, is absorbed (rename), or — the removal
     of a marker — leaves that marker behind *)
  Lemma RF_delete_metadata_all : forall p, RF Iw (RJ K2) (delete_metadata p None) isExn.
  Proof.
    intros p. cbn [delete_metadata].
    apply RF_mbind_eq; [apply RJ_refl|apply (OkB_listdir Iw Ipres)|]. intros l.
    apply RF_mbind_eq; [apply RJ_refl|apply RF_nosite; apply nosite_probe_all|]. intros l'.
    eapply RF_mbind_eqQ; [apply RJ_refl|apply RFe_mark_docs|apply Always_mark_docs|].
    intros ds Hds. apply RF_delete_marked. exact Hds.
  Qed.

  Lemma RF_lift_unit : forall K m, RF Iw (RJ K) m isExn -> RF Iw (RJ K) (lift_unit m) isExn.
  Proof.
    intros K m H. unfold lift_unit.
    eapply (RF_mbind Iw Ipres) with (R1 := RJ K) (P1 := isExn); auto.
    - intros _. apply RF_nosite. exact I.
    - intros _. apply NI_ret.
    - intros x [].
  Qed.
End Markers.

(* ---------- delete_object: the markers of the reference files and of the object ---------- *)

(* everything except the deletion markers outside the metadata directories: the markers of a pid
   reference, a cid list or an object *)
Definition K1 (a : addr) : bool :=
  match a with
  | ADel x => match meta_owner x with Some _ => true | None => false end
  | _ => true
  end.
Definition LkT (l : lock) : bool := true.
Definition csbT (c : cid) : bool := true.

Lemma proj_proj : forall (K K' : addr -> bool) m,
  (forall a, K' a = true -> K a = true) -> Indep.proj K' (Indep.proj K m) = Indep.proj K' m.
Proof.
  intros K K' m H. unfold Indep.proj. induction m as [|[k v] m IH]; simpl; auto.
  destruct (K k) eqn:E; simpl.
  - destruct (K' k); [f_equal|]; exact IH.
  - destruct (K' k) eqn:E'; [|exact IH]. rewrite (H _ E') in E. discriminate.
Qed.

Lemma RJ_K1_K2 : forall w1 w2, RJ K1 w1 w2 -> RJ K2 w1 w2.
Proof.
  intros w1 w2 [HL HP]. split; [exact HL|].
  rewrite <- (proj_proj K1 K2 (fs w1)), <- (proj_proj K1 K2 (fs w2)), HP; auto;
    intros a Ha; destruct a; simpl in *; auto; discriminate.
Qed.

Lemma filter_LkT : forall L, filter LkT L = L.
Proof. induction L as [|x L IH]; simpl; [|rewrite IH]; reflexivity. Qed.

Lemma Wf_csbT : forall F m, Indep.Wf F csbT m.
Proof. intros F m a x _ _. reflexivity. Qed.

(* a program local to K sees nothing else: from worlds that agree on K it gives the same answer
   and worlds that agree on K *)
Lemma NI_local : forall A K (m : prog A) Q,
  Indep.Lc 0 K LkT csbT m Q -> NI sortedw (RJ K) (RJ K) m.
Proof.
  intros A K m Q HL w1 w2 w1' r S1 S2 [HLk HP] H.
  assert (Hpw : Indep.pw K LkT w1 = Indep.pw K LkT w2).
  { unfold Indep.pw. rewrite HLk, HP. reflexivity. }
  pose proof (@Indep.solo_equiv 0 K LkT csbT A m w1 Q HL (Wf_csbT _ _) S1) as E1.
  pose proof (@Indep.solo_equiv 0 K LkT csbT A m w2 Q HL (Wf_csbT _ _) S2) as E2.
  rewrite !run_as_0 in E1, E2. rewrite H in E1. rewrite Hpw, E2 in E1.
  destruct (run_seq w2 m) as [[w2' r2]|]; [|discriminate].
  inversion E1; subst. exists w2'. split; [reflexivity|].
  rewrite !filter_LkT in H2. split; congruence.
Qed.

Definition Ow (a : addr) : Prop := exists q, meta_owner a = Some q.
Definition Owl (l : list addr) : Prop := Forall Ow l.

Lemma Ow_K1 : forall a, Ow a -> K1 a = true.
Proof. intros a [q H]. destruct a; simpl in *; auto. rewrite H. reflexivity. Qed.
Lemma Ow_del : forall a, Ow a -> Ow (ADel a).
Proof. intros a H. exact H. Qed.
Lemma owned_Ow : forall p a, owned_by p a = true -> Ow a.
Proof. intros p a H. unfold owned_by in H. unfold Ow. destruct (meta_owner a); [eauto|discriminate]. Qed.

Notation LBk := (Indep.LB 0 K1 LkT csbT).
Notation TT := (@Bracket.TT _).

Ltac leafk := let x := fresh "x" in let Hx := fresh "Hx" in
  intros x Hx; destruct x; simpl in Hx;
  first [apply Indep.LB_bad | apply Indep.LB_raise | (apply Indep.LB_ret; first [exact I | assumption | idtac])].

Lemma LBk_probe : forall a, K1 a = true -> LBk (probe a) TT.
Proof. intros. apply Indep.LB_vis; [assumption|leafk]. Qed.
Lemma LBk_acquire : forall cls x, LBk (acquire cls x) TT.
Proof. intros. apply Indep.LB_vis; [reflexivity|leafk]. Qed.
Lemma LBk_release : forall cls x, LBk (release cls x) TT.
Proof. intros. apply Indep.LB_vis; [reflexivity|leafk]. Qed.
Lemma LBk_listdir : forall p, LBk (listdir p) Owl.
Proof.
  intros p. apply Indep.LB_vis.
  - intros a Ha. apply Ow_K1. eapply owned_Ow; eauto.
  - intros x Hx. destruct x; simpl in Hx;
      first [apply Indep.LB_bad | apply Indep.LB_raise | idtac].
    apply Indep.LB_ret. unfold Owl. eapply Forall_impl; [|exact Hx]. intros a Ha. apply (owned_Ow p a Ha).
Qed.
Lemma LBk_rfd : forall a, Ow a -> LBk (rename_for_deletion a) Ow.
Proof.
  intros a Ha. unfold rename_for_deletion.
  eapply Indep.LB_mbind with (P1 := TT).
  - apply Indep.LB_vis; [split; apply Ow_K1; auto|leafk].
  - intros _ _. apply Indep.LB_ret. exact Ha.
Qed.
Lemma LBk_delete_marked : forall l, Owl l -> LBk (delete_marked l) TT.
Proof.
  induction l as [|a l IH]; intros Hl; cbn [delete_marked].
  - apply Indep.LB_ret. exact I.
  - inversion Hl; subst. eapply Indep.LB_mbind with (P1 := TT).
    + apply Indep.LB_vis; [apply Ow_K1; assumption|leafk].
    + intros _ _. apply IH. assumption.
Qed.
Lemma LBk_probe_all : forall l, Owl l -> LBk (probe_all l) Owl.
Proof.
  induction l as [|a l IH]; intros Hl; cbn [probe_all].
  - apply Indep.LB_ret. constructor.
  - inversion Hl; subst.
    eapply Indep.LB_mbind; [apply LBk_probe; apply Ow_K1; assumption|]. intros b _.
    eapply Indep.LB_mbind; [apply IH; assumption|]. intros r Hr.
    apply Indep.LB_ret. destruct b; [constructor|]; assumption.
Qed.
Lemma LBk_mark_docs : forall l, Owl l -> LBk (mark_docs l) Owl.
Proof.
  induction l as [|a l IH]; intros Hl; cbn [mark_docs].
  - apply Indep.LB_ret. constructor.
  - inversion Hl; subst.
    eapply Indep.LB_mbind; [apply LBk_acquire|]. intros _ _.
    eapply Indep.LB_mbind with (P1 := Owl).
    + eapply Indep.LB_try_finally; [|apply LBk_release].
      eapply Indep.LB_mbind; [apply LBk_probe; apply Ow_K1; assumption|]. intros b _.
      destruct b; [|apply Indep.LB_ret; constructor].
      eapply Indep.LB_mbind; [apply Indep.LB_catch; apply LBk_rfd; assumption|].
      intros [d|e] Hd.
      * apply Indep.LB_ret. constructor; [exact Hd|constructor].
      * destruct e; first [apply Indep.LB_raise | apply Indep.LB_ret; constructor].
    + intros d Hd. eapply Indep.LB_mbind; [apply IH; assumption|]. intros r Hr.
      apply Indep.LB_ret. apply Forall_app. split; assumption.
Qed.
Lemma LBk_delete_metadata_all : forall p, LBk (delete_metadata p None) TT.
Proof.
  intros p. cbn [delete_metadata].
  eapply Indep.LB_mbind; [apply LBk_listdir|]. intros l Hl.
  eapply Indep.LB_mbind; [apply LBk_probe_all; exact Hl|]. intros l' Hl'.
  eapply Indep.LB_mbind; [apply LBk_mark_docs; exact Hl'|]. intros ds Hds.
  apply LBk_delete_marked. exact Hds.
Qed.

(* delete_metadata(pid, None) does not see the markers left outside the metadata directories *)
Lemma NI_delete_metadata_all : forall p, NI sortedw (RJ K1) (RJ K2) (delete_metadata p None).
Proof.
  intros p w1 w2 w1' r S1 S2 HR H.
  destruct (NI_local _ K1 _ _ (LBk_delete_metadata_all p) w1 w2 w1' r S1 S2 HR H) as (w2' & Hr & HR').
  exists w2'. split; [exact Hr|]. apply RJ_K1_K2. exact HR'.
Qed.

(* ---------- delete_object under a one-off fault ---------- *)

Definition isOS {A} (r : outcome A) : Prop := r = Exn EOSError.

Section DeleteObject.
  Notation Iw := sortedw.
  Notation Ipres := sortedw_pres.
  Notation R2 := (RJ K2).

  Lemma OkB_RF : forall A (m : M A), OkB Iw m -> RF Iw eq m isExn.
  Proof. intros A m H. exact (proj1 H). Qed.

  (* a delivered one-off fault makes _find_object raise OSError (no handler renames it) *)
  Lemma RFS_mbind : forall A B (m : M A) (f : A -> M B),
    RF Iw eq m isOS -> (forall a, RF Iw eq (f a) isOS) -> RF Iw eq (mbind m f) isOS.
  Proof.
    intros A B m f Hm Hf.
    eapply (RF_mbind Iw Ipres) with (R1 := eq) (P1 := isOS).
    - auto.
    - exact Hm.
    - exact Hf.
    - intros a. apply NI_eq.
    - intros a Ha. discriminate Ha.
    - intros e He. unfold isOS in *. inversion He. reflexivity.
  Qed.
  Lemma RFS_leaf : forall A o (k : ans -> M A),
    (forall x, nosite (k x)) -> (is_site o = true -> Always (k (AErr EFault)) isOS) ->
    RF Iw eq (Vis o k) isOS.
  Proof.
    intros A o k Hk Hf. apply (RF_vis Iw Ipres); auto. intros x. apply RF_nosite. apply Hk.
  Qed.
  Lemma RFS_nosite : forall A (m : M A), nosite m -> RF Iw eq m isOS.
  Proof. intros. apply RF_nosite. assumption. Qed.
  Lemma RFS_probe : forall a, RF Iw eq (probe a) isOS.
  Proof. intros. apply RFS_leaf; [intros []; exact I|intros Hs; discriminate Hs]. Qed.
  Lemma RFS_read : forall a, RF Iw eq (read a) isOS.
  Proof.
    intros. apply RFS_leaf; [intros []; exact I|]. intros _. apply Always_ret. reflexivity.
  Qed.

  Ltac rfs_go :=
    repeat (intros; first
      [ apply RFS_probe | apply RFS_read | apply RFS_nosite; exact I
      | apply RFS_mbind
      | match goal with |- RF _ _ (match ?x with _ => _ end) _ => destruct x end ]).

  Lemma RFS_find_object : forall q, RF Iw eq (find_object q) isOS.
  Proof. intros. unfold find_object, read_cid, is_in_refs, read_lines. rfs_go. Qed.

  Lemma NI_release : forall K cls x, NI Iw (RJ K) (RJ K) (release cls x).
  Proof.
    intros K cls x w1 w2 w1' r _ _ [HL HP] H. unfold release in *. cbn [run_seq] in *.
    unfold exec_op in *. rewrite <- HL.
    destruct (memb lock_eqb (cls, x) (locks w1)); cbn in *; inversion H; subst;
      eexists; (split; [reflexivity|]); split; simpl; congruence.
  Qed.

  Lemma NI_mbind : forall A B (R : world -> world -> Prop) (m : M A) (f : A -> M B),
    NI Iw R R m -> (forall a, NI Iw R R (f a)) -> NI Iw R R (mbind m f).
  Proof.
    intros A B R m f Hm Hf w1 w2 w1' r S1 S2 HR H. rewrite run_mbind in H. rewrite run_mbind.
    destruct (run_seq w1 m) as [[u1 a]|] eqn:E1; [|discriminate].
    destruct (Hm w1 w2 u1 a S1 S2 HR E1) as (u2 & E2 & HR'). rewrite E2.
    destruct a as [x|e].
    - assert (Su1 : Iw u1) by exact (run_seq_Iw Iw Ipres _ _ _ _ _ S1 E1).
      assert (Su2 : Iw u2) by exact (run_seq_Iw Iw Ipres _ _ _ _ _ S2 E2).
      exact (Hf x u1 u2 w1' r Su1 Su2 HR' H).
    - inversion H; subst. eauto.
  Qed.

  Lemma NI_release2 : forall K c1 x1 c2 x2, NI Iw (RJ K) (RJ K) (release c1 x1 ;;; release c2 x2).
  Proof. intros. apply NI_mbind; [apply NI_release|intros; apply NI_release]. Qed.

  (* [m ;;; delete_metadata p None ;;; delete_marked l] and the like *)
  Lemma RF_then_R2 : forall A B (m : M A) (f : A -> M B),
    RF Iw R2 m isExn -> (forall a, RF Iw R2 (f a) isExn) -> (forall a, NI Iw R2 R2 (f a)) ->
    RF Iw R2 (mbind m f) isExn.
  Proof.
    intros A B m f Hm Hf HN.
    eapply (RF_mbind Iw Ipres) with (R1 := R2) (P1 := isExn); auto. intros a [].
  Qed.

  Lemma dlK2_one : forall a, dlK K2 [ADel a].
  Proof. intros a x [<-|[]]. reflexivity. Qed.

  (* d <- rename_for_deletion (APidRef p);; delete_metadata p None;;; delete_marked [d] *)
  Lemma RF_orphan_branch : forall p,
    RF Iw R2 (d <- rename_for_deletion (APidRef p) ;; delete_metadata p None ;;; delete_marked [d]) isExn.
  Proof.
    intros p.
    eapply (RF_mbind_eqQ Iw Ipres);
      [apply RJ_refl|apply OkB_RF; apply (OkB_rename_for_deletion Iw Ipres)|apply Always_rfd|].
    intros d ->. apply RF_then_R2.
    - apply (RF_delete_metadata_all Iw Ipres).
    - intros _. apply (RF_delete_marked Iw Ipres). apply dlK2_one.
    - intros _. apply NI_delete_marked. apply dlK2_one.
  Qed.

  Lemma RF_delete_object : forall p, RF Iw R2 (delete_object p) isExn.
  Proof.
    intros p. unfold delete_object.
    apply (RF_try_finally Iw Ipres); [|apply nosite_release2|apply NI_release2].
    apply (RF_mbind_eq Iw Ipres); [apply RJ_refl|apply OkB_RF; apply (OkB_acquire Iw Ipres)|]. intros _.
    apply (RF_mbind_eq Iw Ipres); [apply RJ_refl|apply OkB_RF; apply (OkB_acquire Iw Ipres)|]. intros _.
    eapply (RF_mbind Iw Ipres) with (R1 := eq)
      (P1 := fun r => match r with Val r' => isOS r' | Exn _ => False end).
    { intros a b <-. apply RJ_refl. }
    { apply RF_catch. apply RFS_find_object. }
    2:{ intros r. apply NI_eq_R. apply RJ_refl. }
    2:{ intros [x|e] Hx; [discriminate Hx|]. inversion Hx; subst. apply Always_raise. }
    2:{ intros e []. }
    intros [c|e].
    - (* the pid is bound to c *)
      apply (RF_mbind_eq Iw Ipres); [apply RJ_refl|apply OkB_RF; apply (OkB_acquire Iw Ipres)|]. intros _.
      apply (RF_try_finally Iw Ipres); [|apply nosite_release|apply NI_release].
      eapply (RF_mbind_eqQ Iw Ipres);
        [apply RJ_refl|apply OkB_RF; apply (OkB_rename_for_deletion Iw Ipres)|apply Always_rfd|].
      intros d1 ->.
      apply (RF_mbind_eq Iw Ipres);
        [apply RJ_refl|apply OkB_RF; apply (OkB_update_refs_remove Iw Ipres)|]. intros _.
      apply (RF_mbind_eq Iw Ipres); [apply RJ_refl|apply OkB_RF; apply (OkB_size_lines Iw Ipres)|].
      intros n.
      eapply (RF_mbind_eqQ Iw Ipres) with (V := dlK K1); [apply RJ_refl| | |].
      + apply OkB_RF. destruct (Nat.eqb n 0); [|apply OkB_ret].
        apply (OkB_mbind Iw Ipres); [apply (OkB_rename_for_deletion Iw Ipres)|]. intros d2.
        apply (OkB_mbind Iw Ipres); [apply (OkB_rename_for_deletion Iw Ipres)|]. intros d3.
        apply OkB_ret.
      + destruct (Nat.eqb n 0).
        * eapply Always_mbindQ; [apply Always_rfd| |intros; exact I]. intros d2 ->.
          eapply Always_mbindQ; [apply Always_rfd| |intros; exact I]. intros d3 ->.
          apply Always_ret. intros x [<-|[<-|[<-|[]]]]; reflexivity.
        * apply Always_ret. intros x [<-|[]]. reflexivity.
      + intros l Hl.
        eapply (RF_mbind Iw Ipres) with (R1 := RJ K1) (P1 := isExn).
        * apply RJ_K1_K2.
        * apply (RF_delete_marked Iw Ipres). exact Hl.
        * intros _. apply (RF_delete_metadata_all Iw Ipres).
        * intros _. apply NI_delete_metadata_all.
        * intros x [].
        * auto.
    - destruct e; try (apply RF_nosite; exact I).
      + (* OrphanPidRefsFileFound *) apply RF_orphan_branch.
      + (* RefsFileExistsButCidObjMissing *)
        apply (RF_mbind_eq Iw Ipres); [apply RJ_refl|apply OkB_RF; apply (OkB_read_cid Iw Ipres)|].
        intros c.
        eapply (RF_mbind_eqQ Iw Ipres);
          [apply RJ_refl|apply OkB_RF; apply (OkB_rename_for_deletion Iw Ipres)|apply Always_rfd|].
        intros d ->.
        eapply (RF_mbind_eqQ Iw Ipres) with (V := dlK K2); [apply RJ_refl| | |].
        * apply OkB_RF. apply (OkB_try_finally Iw Ipres); [|apply nosite_release].
          apply (OkB_mbind Iw Ipres); [apply (OkB_acquire Iw Ipres)|]. intros _.
          apply (OkB_mbind Iw Ipres); [apply (OkB_is_in_refs Iw Ipres)|]. intros m.
          apply (OkB_mbind Iw Ipres);
            [destruct m; [apply (OkB_update_refs_remove Iw Ipres)|apply OkB_ret]|]. intros _.
          apply (OkB_mbind Iw Ipres); [apply (OkB_size_lines Iw Ipres)|]. intros n.
          destruct (Nat.eqb n 0); [|apply OkB_ret].
          apply (OkB_mbind Iw Ipres); [apply (OkB_rename_for_deletion Iw Ipres)|]. intros d2.
          apply OkB_ret.
        * apply Always_try_finallyQ.
          eapply Always_mbindQ with (Q1 := fun _ => True); [apply Always_any| |intros; exact I].
          intros _ _.
          eapply Always_mbindQ with (Q1 := fun _ => True); [apply Always_any| |intros; exact I].
          intros m _.
          eapply Always_mbindQ with (Q1 := fun _ => True); [apply Always_any| |intros; exact I].
          intros _ _.
          eapply Always_mbindQ with (Q1 := fun _ => True); [apply Always_any| |intros; exact I].
          intros n _. destruct (Nat.eqb n 0).
          -- eapply Always_mbindQ; [apply Always_rfd| |intros; exact I]. intros d2 ->.
             apply Always_ret. intros x [<-|[<-|[]]]; reflexivity.
          -- apply Always_ret. intros x [<-|[]]. reflexivity.
        * intros l Hl. apply RF_then_R2.
          -- apply (RF_delete_metadata_all Iw Ipres).
          -- intros _. apply (RF_delete_marked Iw Ipres). exact Hl.
          -- intros _. apply NI_delete_marked. exact Hl.
      + (* PidNotFoundInCidRefsFile *) apply RF_orphan_branch.
  Qed.

  Lemma RF_delete_object_unfixed : forall p, RF Iw R2 (delete_object_unfixed p) isExn.
  Proof.
    intros p. unfold delete_object_unfixed.
    apply (RF_try_finally Iw Ipres); [|apply nosite_release|apply NI_release].
    apply (RF_mbind_eq Iw Ipres); [apply RJ_refl|apply OkB_RF; apply (OkB_acquire Iw Ipres)|]. intros _.
    eapply (RF_mbind Iw Ipres) with (R1 := eq)
      (P1 := fun r => match r with Val r' => isOS r' | Exn _ => False end).
    { intros a b <-. apply RJ_refl. }
    { apply RF_catch. apply RFS_find_object. }
    2:{ intros r. apply NI_eq_R. apply RJ_refl. }
    2:{ intros [x|e] Hx; [discriminate Hx|]. inversion Hx; subst. apply Always_raise. }
    2:{ intros e []. }
    intros [c|e]; [apply RF_nosite; exact I|]. destruct e; try (apply RF_nosite; exact I).
    eapply (RF_mbind_eqQ Iw Ipres);
      [apply RJ_refl|apply OkB_RF; apply (OkB_rename_for_deletion Iw Ipres)|apply Always_rfd|].
    intros d ->.
    apply (RF_mbind_eq Iw Ipres); [apply RJ_refl|apply OkB_RF; apply (OkB_read_cid Iw Ipres)|].
    intros c.
    apply (RF_mbind_eq Iw Ipres); [apply RJ_refl| |].
    - apply OkB_RF. apply (OkB_try_finally Iw Ipres); [|apply nosite_release].
      apply (OkB_mbind Iw Ipres); [apply (OkB_acquire Iw Ipres)|]. intros _.
      apply (OkB_mbind Iw Ipres); [apply (OkB_is_in_refs Iw Ipres)|]. intros m.
      destruct m; [apply (OkB_update_refs_remove Iw Ipres)|apply OkB_ret].
    - intros _. apply RF_then_R2.
      + apply (RF_delete_metadata_all Iw Ipres).
      + intros _. apply (RF_delete_marked Iw Ipres). apply dlK2_one.
      + intros _. apply NI_delete_marked. apply dlK2_one.
  Qed.

  (* every call *)
  Theorem api_RF : forall c, RF Iw R2 (api c) isExn.
  Proof.
    intros c.
    assert (H : no_marker_call c -> RF Iw R2 (api c) isExn).
    { intros Hc. eapply RF_weakenR; [apply OkB_RF; apply (api_OkB Iw Ipres); exact Hc|].
      intros a b <-. apply RJ_refl. }
    destruct c; try (apply H; exact I).
    - apply (RF_lift_unit Iw Ipres). apply RF_delete_object.
    - destruct f as [f|]; [apply H; exact I|].
      apply (RF_lift_unit Iw Ipres). apply (RF_delete_metadata_all Iw Ipres).
    - apply (RF_lift_unit Iw Ipres). apply RF_delete_object_unfixed.
  Qed.
End DeleteObject.

(* ================================================================================== *)
(* 6. C13, first clause, ONE-OFF faults, all states                                    *)
(* ================================================================================== *)

(* same locks, same permanent files (CrashFault.permanent: everything except deletion markers and
   temporary files) *)
Definition same_permanent (w w0 : world) : Prop :=
  locks w = locks w0 /\ forall a, permanent a = true -> lookup a (fs w) = lookup a (fs w0).

(* the worlds differ at most by deletion markers (temp files are the same too) *)
Definition same_but_markers (w w0 : world) : Prop :=
  locks w = locks w0 /\ forall a, (forall x, a <> ADel x) -> lookup a (fs w) = lookup a (fs w0).

Lemma RJ_K2_spec : forall w w0, RJ K2 w w0 -> same_but_markers w w0.
Proof.
  intros w w0 [HL HP]. split; [exact HL|]. intros a Ha.
  assert (HK : K2 a = true) by (destruct a; try reflexivity; exfalso; eapply Ha; reflexivity).
  rewrite <- (@Indep.lookup_proj K2 a (fs w) HK), HP. apply Indep.lookup_proj. exact HK.
Qed.

Lemma same_but_markers_permanent : forall w w0, same_but_markers w w0 -> same_permanent w w0.
Proof.
  intros w w0 [HL H]. split; [exact HL|]. intros a Ha. apply H. intros x ->. discriminate Ha.
Qed.

(* A call that reports success after a ONE-OFF failure has done everything the undisturbed call
   does: the fault-free call gives the same answer, and the two final worlds have the same locks
   and the same files except deletion markers (the failure hit the removal of a marker, whose
   error _delete_marked_files swallows).  Every call, every k, every world with a sorted file map. *)
Theorem fault_success_markers : forall w c k w' v,
  Indep.fsorted (fs w) ->
  run_fault (FWait k false) w (api c) = Some (w', Val v) ->
  exists w0, run_seq w (api c) = Some (w0, Val v) /\ same_but_markers w' w0.
Proof.
  intros w c k w' v Hs H. rewrite rfs_run_fault in H.
  destruct (rfs (FWait k false) w (api c)) as [[[w1 r1] st1]|] eqn:E; [|discriminate].
  inversion H; subst.
  destruct (rfs_wait_cases _ _ _ _ _ _ _ _ E) as [[_ Hr]|[[_ ->]|[Hp _]]]; [| |discriminate].
  - exists w'. split; [exact Hr|]. apply RJ_K2_spec. apply RJ_refl.
  - destruct (api_RF c k w w' (Val v) Hs E) as [(w0 & Hr & HR)|[]].
    exists w0. split; [exact Hr|]. apply RJ_K2_spec. exact HR.
Qed.

Theorem fault_success_whole_effect : forall w c k w' v,
  Indep.fsorted (fs w) ->
  run_fault (FWait k false) w (api c) = Some (w', Val v) ->
  exists w0, run_seq w (api c) = Some (w0, Val v) /\ same_permanent w' w0.
Proof.
  intros w c k w' v Hs H. destruct (fault_success_markers w c k w' v Hs H) as (w0 & Hr & HS).
  exists w0. split; [exact Hr|]. apply same_but_markers_permanent. exact HS.
Qed.

(* every store built by the API from the empty store has a sorted file map *)
Corollary fault_success_whole_effect_reachable : forall h w rs c k w' v,
  run_history empty_world h = Some (w, rs) ->
  run_fault (FWait k false) w (api c) = Some (w', Val v) ->
  exists w0, run_seq w (api c) = Some (w0, Val v) /\ same_permanent w' w0.
Proof.
  intros h w rs c k w' v Hh. apply fault_success_whole_effect.
  eapply Indep.run_history_empty_sorted. exact Hh.
Qed.

(* NON-VACUITY: delete_object(1) on the store {1 -> 7}; fault site 7 is the removal of the deletion
   marker of the pid reference; its one-off failure is swallowed, the call reports success and the
   marker stays — the only difference with the fault-free run *)
Example swallowed_marker_removal :
  let w1 := mkWorld [(AObj 7, CData 7 1 1); (APidRef 1, CCid 7); (ACidRef 7, CLines [1])] [] in
  Indep.fsorted (fs w1) /\
  (site_op 7 w1 (api (CDelete 1)) = Some (Remove (ADel (APidRef 1)))) /\
  (run_fault (FWait 7 false) w1 (api (CDelete 1)) =
     Some (mkWorld [(ADel (APidRef 1), CCid 7)] [], Val VUnit)) /\
  (run_seq w1 (api (CDelete 1)) = Some (mkWorld [] [], Val VUnit)).
Proof.
  split; [|vm_compute; repeat split; reflexivity].
  simpl. repeat split; intros k' Hk; repeat (destruct Hk as [<-|Hk]; [reflexivity|]); destruct Hk.
Qed.
Print Assumptions fault_success_whole_effect_reachable.
Print Assumptions swallowed_marker_removal.
