(* SeqLemmas.v — helper lemmas for SeqProps.v: pointwise descriptions of what each call of the
   specification [sem] does to the file map, and preservation of the invariant [InvF] by each
   kind of effect.  Stdlib only, no axioms. *)
From HS Require Import Base PyVal FS Ops Spec.

(* ---------- small facts ---------- *)

Lemma memb_nat_In : forall x l, memb Nat.eqb x l = true <-> In x l.
Proof. intros. apply memb_In. - apply nat_eqb_true. - apply Nat.eqb_refl. Qed.

Lemma memb_nat_not_In : forall x l, memb Nat.eqb x l = false <-> ~ In x l.
Proof. intros. apply memb_false_not_In. - apply nat_eqb_true. - apply Nat.eqb_refl. Qed.

Lemma NoDup_snoc : forall (A : Type) (l : list A) (x : A), NoDup l -> ~ In x l -> NoDup (l ++ [x]).
Proof.
  induction l as [|y l IH]; simpl; intros x Hnd Hni.
  - constructor; [intros []|constructor].
  - inversion Hnd as [|y' l' Hy Hl]; subst. constructor.
    + intros Hin. apply in_app_or in Hin. destruct Hin as [Hin|Hin]; [contradiction|].
      simpl in Hin. destruct Hin as [Hin|[]]. apply Hni. left. symmetry. exact Hin.
    + apply IH; [exact Hl|]. intros Hin. apply Hni. right. exact Hin.
Qed.

Lemma In_filter_lines : forall p q l, In q (filter_lines p l) <-> In q l /\ q <> p.
Proof.
  intros p q l. unfold filter_lines. rewrite filter_In.
  split; intros [H1 H2]; split; auto.
  - intros E. subst. rewrite Nat.eqb_refl in H2. discriminate.
  - apply Nat.eqb_neq in H2. rewrite H2. reflexivity.
Qed.

Lemma NoDup_filter_lines : forall p l, NoDup l -> NoDup (filter_lines p l).
Proof. intros. unfold filter_lines. apply NoDup_filter. assumption. Qed.

Lemma filter_lines_nil : forall p l, filter_lines p l = [] -> forall q, In q l -> q = p.
Proof.
  intros p l H q Hq. destruct (Nat.eq_dec q p) as [E|E]; [exact E|].
  assert (Hin : In q (filter_lines p l)) by (apply In_filter_lines; auto).
  rewrite H in Hin. destruct Hin.
Qed.

Lemma filter_lines_not_In : forall p l, ~ In p (filter_lines p l).
Proof. intros p l H. apply In_filter_lines in H. destruct H as [_ H]. apply H. reflexivity. Qed.

Lemma lookup_In : forall a m x, lookup a m = Some x -> In (a, x) m.
Proof.
  induction m as [|[k v] m IH]; simpl; intros x H; [discriminate|].
  destruct (addr_eqb a k) eqn:E.
  - apply addr_eqb_true in E. subst. inversion H; subst. left. reflexivity.
  - right. apply IH. exact H.
Qed.

(* ---------- delete_all_meta, pointwise ---------- *)

Lemma lookup_dam : forall p a m,
  lookup a (delete_all_meta p m) = if owned_by p a then None else lookup a m.
Proof.
  intros p a. induction m as [|[k v] m IH]; simpl.
  - destruct (owned_by p a); reflexivity.
  - destruct (owned_by p k) eqn:Ek; simpl.
    + destruct (addr_eqb a k) eqn:E.
      * apply addr_eqb_true in E. subst. rewrite IH, Ek. reflexivity.
      * exact IH.
    + destruct (addr_eqb a k) eqn:E.
      * apply addr_eqb_true in E. subst. rewrite Ek. reflexivity.
      * exact IH.
Qed.

(* ---------- history ---------- *)

Lemma sem_history_cons : forall m c h,
  fst (sem_history m (c :: h)) = fst (sem_history (fst (sem m c)) h).
Proof.
  intros. simpl. destruct (sem m c) as [m1 r]. simpl.
  destruct (sem_history m1 h) as [m2 rs]. reflexivity.
Qed.

(* ---------- the invariant: content typing ---------- *)

Definition ok_content (a : addr) (x : fcontent) : Prop :=
  match a with
  | AObj c => exists n, x = CData c n n
  | APidRef _ => exists c, x = CCid c
  | ACidRef _ => exists l, x = CLines l
  | AMeta _ _ => exists v n, x = CData v n n
  | ATmp _ _ _ => False
  | ADel _ => False
  end.

Lemma well_typed_ok : forall m, well_typed m <-> forall a x, lookup a m = Some x -> ok_content a x.
Proof. intros. unfold well_typed, ok_content. reflexivity. Qed.

Lemma InvF_wt : forall m, InvF m -> well_typed m.
Proof. intros m [H _]. exact H. Qed.

Lemma InvF_pid : forall m p x, InvF m -> lookup (APidRef p) m = Some x -> exists c, x = CCid c.
Proof. intros m p x [H _] E. apply (H _ _ E). Qed.

Lemma InvF_cid : forall m c x, InvF m -> lookup (ACidRef c) m = Some x -> exists l, x = CLines l.
Proof. intros m c x [H _] E. apply (H _ _ E). Qed.

Lemma InvF_obj : forall m c x, InvF m -> lookup (AObj c) m = Some x -> exists n, x = CData c n n.
Proof. intros m c x [H _] E. apply (H _ _ E). Qed.

Lemma InvF_bound : forall m p c, InvF m -> lookup (APidRef p) m = Some (CCid c) ->
  exists l, lookup (ACidRef c) m = Some (CLines l) /\ In p l.
Proof. intros m p c [_ [H _]] E. apply H. exact E. Qed.

Lemma InvF_list : forall m c l, InvF m -> lookup (ACidRef c) m = Some (CLines l) ->
  l <> [] /\ NoDup l /\ forall p, In p l -> lookup (APidRef p) m = Some (CCid c).
Proof. intros m c l [_ [_ H]] E. apply H. exact E. Qed.

(* a map that agrees with [m] on all reference files and is well typed satisfies the invariant *)
Lemma InvF_frame : forall m m',
  InvF m -> well_typed m' ->
  (forall p, lookup (APidRef p) m' = lookup (APidRef p) m) ->
  (forall c, lookup (ACidRef c) m' = lookup (ACidRef c) m) ->
  InvF m'.
Proof.
  intros m m' HI Hwt Hp Hc. split; [exact Hwt|]. split.
  - intros p c E. rewrite Hp in E. destruct (InvF_bound _ _ _ HI E) as [l [El Hin]].
    exists l. rewrite Hc. auto.
  - intros c l E. rewrite Hc in E. destruct (InvF_list _ _ _ HI E) as [H1 [H2 H3]].
    repeat split; auto. intros p Hin. rewrite Hp. auto.
Qed.

(* ---------- adding an object ---------- *)

Definition add_obj (m : fmap) (b n : nat) : fmap :=
  if present (AObj b) m then m else update (AObj b) (CData b n n) m.

Lemma lookup_add_obj : forall a m b n,
  lookup a (add_obj m b n) =
  if addr_eqb a (AObj b)
  then match lookup (AObj b) m with Some x => Some x | None => Some (CData b n n) end
  else lookup a m.
Proof.
  intros. unfold add_obj, present. destruct (lookup (AObj b) m) eqn:E.
  - destruct (addr_eqb a (AObj b)) eqn:Ea; [|reflexivity].
    apply addr_eqb_true in Ea. subst. exact E.
  - apply lookup_update.
Qed.

Lemma InvF_add_obj : forall m b n, InvF m -> InvF (add_obj m b n).
Proof.
  intros m b n HI. apply InvF_frame with (m := m); auto.
  - intros a x E. rewrite lookup_add_obj in E.
    destruct (addr_eqb a (AObj b)) eqn:Ea.
    + apply addr_eqb_true in Ea. subst a.
      destruct (lookup (AObj b) m) eqn:Eo.
      * inversion E; subst. apply (InvF_wt _ HI _ _ Eo).
      * inversion E; subst. exists n. reflexivity.
    + apply (InvF_wt _ HI _ _ E).
  - intros p. rewrite lookup_add_obj. reflexivity.
  - intros c. rewrite lookup_add_obj. reflexivity.
Qed.

(* ---------- tagging ---------- *)

Definition tag_result (m : fmap) (p : pid) (c : cid) (a : addr) : option fcontent :=
  if addr_eqb a (APidRef p) then Some (CCid c)
  else if addr_eqb a (ACidRef c)
       then Some (CLines (match a_refs m c with Some l => l ++ [p] | None => [p] end))
       else lookup a m.

Lemma sem_tag_cases : forall m p c, InvF m ->
  (lookup (APidRef p) m <> None /\
   exists e, sem_tag m p c = (m, Exn e) /\ (e = EHashStoreRefsAlreadyExists \/ e = EPidRefsAlreadyExists))
  \/
  (lookup (APidRef p) m = None /\ snd (sem_tag m p c) = Val tt /\
   forall a, lookup a (fst (sem_tag m p c)) = tag_result m p c a).
Proof.
  intros m p c HI. unfold sem_tag.
  destruct (lookup (APidRef p) m) as [x|] eqn:Ep.
  - left. split; [discriminate|].
    destruct (lookup (ACidRef c) m); eexists; split; try reflexivity; auto.
  - right. split; [reflexivity|].
    destruct (lookup (ACidRef c) m) as [y|] eqn:Ec.
    + destruct (InvF_cid _ _ _ HI Ec) as [l ->].
      destruct (memb Nat.eqb p l) eqn:Em.
      * apply memb_nat_In in Em. destruct (InvF_list _ _ _ HI Ec) as [_ [_ H3]].
        rewrite (H3 _ Em) in Ep. discriminate.
      * split; [reflexivity|]. intros a. simpl. rewrite lookup_update. unfold tag_result.
        destruct (addr_eqb a (APidRef p)); [reflexivity|].
        rewrite lookup_update. unfold a_refs. rewrite Ec. reflexivity.
    + split; [reflexivity|]. intros a. simpl. rewrite lookup_update. unfold tag_result.
      destruct (addr_eqb a (APidRef p)); [reflexivity|].
      rewrite lookup_update. unfold a_refs. rewrite Ec. reflexivity.
Qed.

Lemma InvF_tag : forall m p b m',
  InvF m -> lookup (APidRef p) m = None ->
  (forall a, lookup a m' = tag_result m p b a) -> InvF m'.
Proof.
  intros m p b m' HI Ep Hm'.
  assert (Hpid : forall q, lookup (APidRef q) m' = if Nat.eqb q p then Some (CCid b) else lookup (APidRef q) m).
  { intros q. rewrite Hm'. unfold tag_result. cbn. reflexivity. }
  assert (Hcid : forall c, lookup (ACidRef c) m' =
             if Nat.eqb c b then Some (CLines (match a_refs m b with Some l => l ++ [p] | None => [p] end))
             else lookup (ACidRef c) m).
  { intros c. rewrite Hm'. unfold tag_result. cbn. reflexivity. }
  assert (Hnew : In p (match a_refs m b with Some l => l ++ [p] | None => [p] end)).
  { destruct (a_refs m b); [apply in_or_app; right|]; left; reflexivity. }
  split; [|split].
  - intros a x E. rewrite Hm' in E. unfold tag_result in E.
    destruct (addr_eqb a (APidRef p)) eqn:E1.
    { apply addr_eqb_true in E1. subst a. inversion E; subst. eexists; reflexivity. }
    destruct (addr_eqb a (ACidRef b)) eqn:E2.
    { apply addr_eqb_true in E2. subst a. inversion E; subst. eexists; reflexivity. }
    apply (InvF_wt _ HI _ _ E).
  - intros q c E. rewrite Hpid in E. destruct (Nat.eqb q p) eqn:Eq.
    + apply Nat.eqb_eq in Eq. subst q. inversion E; subst c.
      eexists. rewrite Hcid, Nat.eqb_refl. split; [reflexivity|exact Hnew].
    + destruct (InvF_bound _ _ _ HI E) as [l [El Hin]].
      rewrite Hcid. destruct (Nat.eqb c b) eqn:Ec.
      * apply Nat.eqb_eq in Ec. subst c. eexists. split; [reflexivity|].
        unfold a_refs. rewrite El. apply in_or_app. left. exact Hin.
      * exists l. auto.
  - intros c l E. rewrite Hcid in E. destruct (Nat.eqb c b) eqn:Ec.
    + apply Nat.eqb_eq in Ec. subst c. inversion E; subst l. clear E.
      unfold a_refs in *. destruct (lookup (ACidRef b) m) as [y|] eqn:El.
      * destruct (InvF_cid _ _ _ HI El) as [l ->].
        destruct (InvF_list _ _ _ HI El) as [H1 [H2 H3]].
        assert (Hni : ~ In p l).
        { intros Hin. rewrite (H3 _ Hin) in Ep. discriminate. }
        split; [|split].
        -- intros Hnil. apply app_eq_nil in Hnil. destruct Hnil as [_ Hnil]. discriminate.
        -- apply NoDup_snoc; assumption.
        -- intros q Hq. rewrite Hpid. destruct (Nat.eqb q p) eqn:Eq; [reflexivity|].
           apply in_app_or in Hq. destruct Hq as [Hq|Hq]; [auto|].
           simpl in Hq. destruct Hq as [Hq|[]]. subst q. rewrite Nat.eqb_refl in Eq. discriminate.
      * split; [discriminate|]. split.
        -- constructor; [intros []|constructor].
        -- intros q Hq. simpl in Hq. destruct Hq as [Hq|[]]. subst q.
           rewrite Hpid, Nat.eqb_refl. reflexivity.
    + destruct (InvF_list _ _ _ HI E) as [H1 [H2 H3]]. split; [exact H1|]. split; [exact H2|].
      intros q Hq. rewrite Hpid. destruct (Nat.eqb q p) eqn:Eq; [|auto].
      apply Nat.eqb_eq in Eq. subst q. rewrite (H3 _ Hq) in Ep. discriminate.
Qed.

(* ---------- deleting ---------- *)

Definition del_result (m : fmap) (p : pid) (c : cid) (l : list pid) (a : addr) : option fcontent :=
  if owned_by p a then None
  else if addr_eqb a (APidRef p) then None
  else if addr_eqb a (ACidRef c)
       then match filter_lines p l with [] => None | l' => Some (CLines l') end
  else if addr_eqb a (AObj c)
       then match filter_lines p l with [] => None | _ => lookup a m end
  else lookup a m.

Lemma sem_delete_cases : forall m p, InvF m ->
  (a_bind m p = None /\ sem_delete m p = (m, Exn EPidRefsDoesNotExist)) \/
  (exists c l, lookup (APidRef p) m = Some (CCid c) /\ lookup (ACidRef c) m = Some (CLines l) /\
     In p l /\ snd (sem_delete m p) = Val VUnit /\
     forall a, lookup a (fst (sem_delete m p)) = del_result m p c l a).
Proof.
  intros m p HI. unfold sem_delete, a_bind.
  destruct (lookup (APidRef p) m) as [x|] eqn:Ep; [|left; split; reflexivity].
  destruct (InvF_pid _ _ _ HI Ep) as [c ->].
  destruct (InvF_bound _ _ _ HI Ep) as [l [El Hin]].
  right. exists c, l. rewrite El. split; [reflexivity|]. split; [reflexivity|]. split; [exact Hin|].
  split; [reflexivity|].
  intros a. cbn [fst]. rewrite lookup_dam. unfold del_result.
  destruct (owned_by p a); [reflexivity|].
  destruct (filter_lines p l) as [|q l'] eqn:Ef.
  - rewrite !lookup_delete.
    destruct (addr_eqb a (APidRef p)) eqn:E1.
    { destruct (addr_eqb a (AObj c)); [reflexivity|]. destruct (addr_eqb a (ACidRef c)); reflexivity. }
    destruct (addr_eqb a (ACidRef c)) eqn:E2.
    { destruct (addr_eqb a (AObj c)); reflexivity. }
    destruct (addr_eqb a (AObj c)); reflexivity.
  - rewrite lookup_update, lookup_delete.
    destruct (addr_eqb a (APidRef p)) eqn:E1.
    { apply addr_eqb_true in E1. subst a. cbn. reflexivity. }
    destruct (addr_eqb a (ACidRef c)) eqn:E2; [reflexivity|].
    destruct (addr_eqb a (AObj c)); reflexivity.
Qed.

Lemma InvF_del : forall m p c l m',
  InvF m -> lookup (APidRef p) m = Some (CCid c) -> lookup (ACidRef c) m = Some (CLines l) ->
  (forall a, lookup a m' = del_result m p c l a) -> InvF m'.
Proof.
  intros m p c l m' HI Ep El Hm'.
  assert (Hpid : forall q, lookup (APidRef q) m' = if Nat.eqb q p then None else lookup (APidRef q) m).
  { intros q. rewrite Hm'. unfold del_result. cbn. reflexivity. }
  assert (Hcid : forall c', lookup (ACidRef c') m' =
             if Nat.eqb c' c then match filter_lines p l with [] => None | l' => Some (CLines l') end
             else lookup (ACidRef c') m).
  { intros c'. rewrite Hm'. unfold del_result. cbn. reflexivity. }
  destruct (InvF_list _ _ _ HI El) as [L1 [L2 L3]].
  split; [|split].
  - intros a x E. rewrite Hm' in E. unfold del_result in E.
    destruct (owned_by p a); [discriminate|].
    destruct (addr_eqb a (APidRef p)); [discriminate|].
    destruct (addr_eqb a (ACidRef c)) eqn:E2.
    { apply addr_eqb_true in E2. subst a. destruct (filter_lines p l); [discriminate|].
      inversion E; subst. eexists; reflexivity. }
    destruct (addr_eqb a (AObj c)) eqn:E3.
    { destruct (filter_lines p l); [discriminate|]. apply (InvF_wt _ HI _ _ E). }
    apply (InvF_wt _ HI _ _ E).
  - intros q c' E. rewrite Hpid in E. destruct (Nat.eqb q p) eqn:Eq; [discriminate|].
    apply Nat.eqb_neq in Eq.
    destruct (InvF_bound _ _ _ HI E) as [l0 [El0 Hin]].
    rewrite Hcid. destruct (Nat.eqb c' c) eqn:Ec.
    + apply Nat.eqb_eq in Ec. subst c'. rewrite El in El0. inversion El0; subst l0.
      assert (Hq : In q (filter_lines p l)) by (apply In_filter_lines; auto).
      destruct (filter_lines p l) as [|z l'] eqn:Ef; [destruct Hq|].
      eexists. split; [reflexivity|exact Hq].
    + exists l0. auto.
  - intros c' l0 E. rewrite Hcid in E. destruct (Nat.eqb c' c) eqn:Ec.
    + apply Nat.eqb_eq in Ec. subst c'.
      destruct (filter_lines p l) as [|z l'] eqn:Ef; [discriminate|].
      inversion E; subst l0. clear E. rewrite <- Ef.
      split; [rewrite Ef; discriminate|]. split; [apply NoDup_filter_lines; exact L2|].
      intros q Hq. apply In_filter_lines in Hq. destruct Hq as [Hq Hne].
      rewrite Hpid. apply Nat.eqb_neq in Hne. rewrite Hne. auto.
    + apply Nat.eqb_neq in Ec.
      destruct (InvF_list _ _ _ HI E) as [H1 [H2 H3]]. split; [exact H1|]. split; [exact H2|].
      intros q Hq. rewrite Hpid. destruct (Nat.eqb q p) eqn:Eq; [|auto].
      apply Nat.eqb_eq in Eq. subst q. rewrite (H3 _ Hq) in Ep. inversion Ep. congruence.
Qed.

(* ---------- the effect of one call, classified ---------- *)

Inductive effect (m : fmap) : call -> fmap -> Prop :=
| Eff_id : forall c0, effect m c0 m
| Eff_obj : forall p s b n sz ck,
    effect m (CStore p s b n sz ck) (add_obj m b n)
| Eff_tag : forall c0 m1 p b m',
    (c0 = CTag p b /\ m1 = m \/
     exists s n sz ck, c0 = CStore (Some p) s b n sz ck /\ m1 = add_obj m b n) ->
    InvF m1 -> lookup (APidRef p) m1 = None ->
    (forall a, lookup a m' = tag_result m1 p b a) ->
    effect m c0 m'
| Eff_del : forall c0 p c l m',
    (c0 = CDelete p \/ c0 = CDeleteUnfixed p) ->
    lookup (APidRef p) m = Some (CCid c) -> lookup (ACidRef c) m = Some (CLines l) -> In p l ->
    (forall a, lookup a m' = del_result m p c l a) ->
    effect m c0 m'
| Eff_delobj : forall c sz pre ok,
    lookup (ACidRef c) m = None ->
    effect m (CDelInvalid c sz pre ok) (delete (AObj c) m)
| Eff_smeta : forall p f s v n,
    effect m (CStoreMeta p f s v n) (update (AMeta p f) (CData v n n) m)
| Eff_dmeta : forall p f, effect m (CDelMeta p (Some f)) (delete (AMeta p f) m)
| Eff_dmeta_all : forall p, effect m (CDelMeta p None) (delete_all_meta p m).

Lemma sem_store_unfold : forall m p s b n sz ck,
  sem_store m p s b n sz ck =
  if negb (src_ok s) then (m, Exn EValueError) else
  match p with
  | None => (add_obj m b n, Val (VMeta b n))
  | Some p' =>
      match sz, ck with
      | VSzBad, _ => (m, Exn ENonMatchingObjSize)
      | _, VCkBad => (m, Exn ENonMatchingChecksum)
      | _, _ => match sem_tag (add_obj m b n) p' b with
                | (m2, Val _) => (m2, Val (VMeta b n))
                | (m2, Exn e) => (m2, Exn e)
                end
      end
  end.
Proof. reflexivity. Qed.

Lemma sem_del_invalid_fst : forall m c sz pre ok,
  fst (sem_del_invalid m c sz pre ok) = m \/
  (lookup (ACidRef c) m = None /\ fst (sem_del_invalid m c sz pre ok) = delete (AObj c) m).
Proof.
  intros. unfold sem_del_invalid, present.
  destruct (lookup (ACidRef c) m) eqn:Ec; destruct (lookup (AObj c) m) eqn:Eo;
    destruct sz, pre, ok; cbn; auto.
Qed.

Lemma sem_retrieve_fst : forall m p, fst (sem_retrieve m p) = m.
Proof.
  intros. unfold sem_retrieve. destruct (sem_find m p) as [c|e]; [|reflexivity].
  destruct (lookup (AObj c) m); reflexivity.
Qed.

Lemma sem_effect : forall m c0, InvF m -> effect m c0 (fst (sem m c0)).
Proof.
  intros m c0 HI. destruct c0 as [p s b n sz ck|p c|p|c sz pre ok|p f s v n|p f|p f|p|p|e|p]; cbn [sem].
  - (* store *)
    rewrite sem_store_unfold. destruct (negb (src_ok s)); [apply Eff_id|].
    destruct p as [p|]; [|apply Eff_obj].
    assert (Htag : effect m (CStore (Some p) s b n sz ck)
                     (fst (match sem_tag (add_obj m b n) p b with
                           | (m2, Val _) => (m2, Val (VMeta b n))
                           | (m2, Exn e) => (m2, Exn e)
                           end))).
    { pose proof (InvF_add_obj _ b n HI) as HI1.
      destruct (sem_tag_cases _ p b HI1) as [[Hne [e [Hs _]]]|[Hn [Hv Ha]]].
      - rewrite Hs. apply Eff_obj.
      - destruct (sem_tag (add_obj m b n) p b) as [m2 r]. cbn in Hv, Ha. subst r. cbn.
        eapply Eff_tag with (m1 := add_obj m b n) (p := p) (b := b); eauto.
        right. exists s, n, sz, ck. auto. }
    destruct sz; destruct ck; try apply Eff_id; exact Htag.
  - (* tag *)
    destruct (sem_tag_cases _ p c HI) as [[Hne [e [Hs _]]]|[Hn [Hv Ha]]].
    + rewrite Hs. apply Eff_id.
    + destruct (sem_tag m p c) as [m2 r]. cbn in Hv, Ha. subst r. cbn.
      eapply Eff_tag with (m1 := m) (p := p) (b := c); eauto.
  - (* delete *)
    destruct (sem_delete_cases _ p HI) as [[_ Hs]|[c [l [Ep [El [Hin [_ Ha]]]]]]].
    + rewrite Hs. apply Eff_id.
    + eapply Eff_del; eauto.
  - (* delete_if_invalid *)
    destruct (sem_del_invalid_fst m c sz pre ok) as [H|[Hc H]]; rewrite H.
    + apply Eff_id.
    + apply Eff_delobj. exact Hc.
  - unfold sem_store_meta. destruct (negb (src_ok s)); [apply Eff_id|apply Eff_smeta].
  - unfold sem_retr_meta. destruct (lookup (AMeta p f) m); apply Eff_id.
  - destruct f as [f|]; cbn; [apply Eff_dmeta|apply Eff_dmeta_all].
  - rewrite sem_retrieve_fst. apply Eff_id.
  - rewrite sem_retrieve_fst. apply Eff_id.
  - apply Eff_id.
  - destruct (sem_delete_cases _ p HI) as [[_ Hs]|[c [l [Ep [El [Hin [_ Ha]]]]]]].
    + rewrite Hs. apply Eff_id.
    + eapply Eff_del; eauto.
Qed.

Lemma effect_inv : forall m c0 m', InvF m -> effect m c0 m' -> InvF m'.
Proof.
  intros m c0 m' HI He. destruct He.
  - exact HI.
  - apply InvF_add_obj. exact HI.
  - eapply InvF_tag; eauto.
  - eapply InvF_del; eauto.
  - apply InvF_frame with (m := m); auto.
    + intros a x E. rewrite lookup_delete in E. destruct (addr_eqb a (AObj c)); [discriminate|].
      apply (InvF_wt _ HI _ _ E).
    + intros q. rewrite lookup_delete. reflexivity.
    + intros q. rewrite lookup_delete. reflexivity.
  - apply InvF_frame with (m := m); auto.
    + intros a x E. rewrite lookup_update in E. destruct (addr_eqb a (AMeta p f)) eqn:Ea.
      * apply addr_eqb_true in Ea. subst a. inversion E; subst. exists v, n. reflexivity.
      * apply (InvF_wt _ HI _ _ E).
    + intros q. rewrite lookup_update. reflexivity.
    + intros q. rewrite lookup_update. reflexivity.
  - apply InvF_frame with (m := m); auto.
    + intros a x E. rewrite lookup_delete in E. destruct (addr_eqb a (AMeta p f)); [discriminate|].
      apply (InvF_wt _ HI _ _ E).
    + intros q. rewrite lookup_delete. reflexivity.
    + intros q. rewrite lookup_delete. reflexivity.
  - apply InvF_frame with (m := m); auto.
    + intros a x E. rewrite lookup_dam in E. destruct (owned_by p a); [discriminate|].
      apply (InvF_wt _ HI _ _ E).
    + intros q. rewrite lookup_dam. reflexivity.
    + intros q. rewrite lookup_dam. reflexivity.
Qed.
