(* Mutex.v — mutual exclusion on identifiers, as a corollary of Bracket.v's global invariant
   (for property C07).

   For every pool of API calls, every start world without held locks and with typed reference
   files, and every configuration reachable by any schedule (of Sched.v's [exec], of Bracket.v's
   [reachable] with faults, of SchedCV.v's [cvreachable] with real condition variables):

     (1) [mutex_nodup]          no identifier is ever in a lock list twice;
     (2) [mutex_exclusive]      at most one thread is inside a given (class, identifier):
                                [holds ps c i l -> holds ps c j l -> i = j], where
                                [holds ps c i l] says that l is in the list obtained by replaying
                                thread i's history: every [Acquire] issued adds its identifier,
                                every [Release] issued removes it ([held]);
         [mutex_world]          and the world's lock list is exactly the union of these lists;
     (3) [cid_list_guarded]     whenever the next operation of thread i modifies a cid reference
                                list refs/cids/<c> — AppendOpen, AppendWrite, RewriteWrite,
                                Truncate on it, or a Rename from or onto it — thread i holds
                                (LCid, ICid c); hence ([cid_list_exclusive]) two threads are never
                                both about to modify the same cid list.

   (1) and (2) re-run Bracket.v's invariant with the per-thread held lists made explicit ([InvM];
   Bracket's [Inv] quantifies them existentially).  (3) uses a second, simpler discipline
   predicate over programs, [Cg]: each guarded operation finds its cid lock in the replayed
   list, for all answers of the right shape ([ans_okc]: Acquire/Release answered AUnit, a fresh
   temp name and the entries of a directory listing are not cid reference files). *)
From HS Require Import Base PyVal FS Ops Sched Spec Bracket SchedCV.

Set Implicit Arguments.

(* ====================================================================================== *)
(* §1  the guard discipline                                                                *)
(* ====================================================================================== *)

Definition notcid (a : addr) : Prop := match a with ACidRef _ => False | _ => True end.

(* address a may be modified while holding h *)
Definition guard (h : list lock) (a : addr) : Prop :=
  match a with ACidRef c => In (LCid, ICid c) h | _ => True end.

Lemma guard_notcid : forall h a, notcid a -> guard h a.
Proof. destruct a; simpl; tauto. Qed.

Definition prec (h : list lock) (o : op) : Prop :=
  match o with
  | AppendOpen a | AppendWrite a _ | RewriteWrite a _ | Truncate a _ => guard h a
  | Rename s d => guard h s /\ guard h d
  | _ => True
  end.

Definition ans_okc (o : op) (a : ans) : Prop :=
  match o with
  | Acquire _ _ | Release _ _ => a = AUnit
  | MkTmp _ _ => match a with AAddr t => notcid t | _ => True end
  | ListDir _ => match a with AList l => Forall notcid l | _ => True end
  | _ => True
  end.

Fixpoint Cg {A} (m : prog A) (h : list lock) (Q : A -> list lock -> Prop) : Prop :=
  match m with
  | Ret a => Q a h
  | Bad => True
  | Vis o k => prec h o /\ forall a, ans_okc o a -> Cg (k a) (next_h h o) Q
  end.

Lemma Cg_mono : forall A (m : prog A) h (Q Q' : A -> list lock -> Prop),
  Cg m h Q -> (forall a h', Q a h' -> Q' a h') -> Cg m h Q'.
Proof.
  induction m as [a|o k IH|]; simpl; intros h Q Q' H HQ; auto.
  destruct H as [Hp H]. split; auto. intros a Ha. eapply IH; eauto.
Qed.

Lemma Cg_bind : forall A B (m : prog A) (f : A -> prog B) h Q,
  Cg m h (fun a h' => Cg (f a) h' Q) -> Cg (bind m f) h Q.
Proof.
  induction m as [a|o k IH|]; simpl; intros f h Q H; auto.
  destruct H as [Hp H]. split; auto.
Qed.

Lemma Cg_mbind : forall A B (m : M A) (f : A -> M B) h Q,
  Cg m h (fun r h' => match r with Val a => Cg (f a) h' Q | Exn e => Q (Exn e) h' end) ->
  Cg (mbind m f) h Q.
Proof.
  intros. unfold mbind. apply Cg_bind. eapply Cg_mono; [exact H|].
  intros [a|e] h' H'; simpl; auto.
Qed.

Lemma Cg_catch : forall A (m : M A) h (Q : outcome (outcome A) -> _),
  Cg m h (fun r h' => Q (Val r) h') -> Cg (catch m) h Q.
Proof. intros. unfold catch. apply Cg_bind. eapply Cg_mono; [exact H|]. simpl. auto. Qed.

Lemma Cg_try_finally : forall A (m : M A) (fin : M unit) h Q,
  Cg m h (fun r h' =>
    Cg fin h' (fun rf h'' => match rf with Val _ => Q r h'' | Exn e => Q (Exn e) h'' end)) ->
  Cg (try_finally m fin) h Q.
Proof.
  intros. unfold try_finally. apply Cg_bind. eapply Cg_mono; [exact H|].
  intros r h' H'. simpl. apply Cg_bind. eapply Cg_mono; [exact H'|].
  intros [u|e] h'' H''; simpl; auto.
Qed.

(* [BalC S m P]: holding at least S, m respects the guards, returns holding exactly what it
   started with, and a returned value satisfies P *)
Definition BalC {A} (S : list lock) (m : M A) (P : A -> Prop) : Prop :=
  forall h, incl S h -> Cg m h (fun r h' => h' = h /\ forall a, r = Val a -> P a).

Lemma BalC_conseq : forall A S (m : M A) (P P' : A -> Prop),
  BalC S m P -> (forall a, P a -> P' a) -> BalC S m P'.
Proof.
  intros A S m P P' H HP h Hh. eapply Cg_mono; [apply H; exact Hh|].
  simpl. intros r h' (H1 & H2). split; auto.
Qed.

Lemma BalC_TT : forall A S (m : M A) P, BalC S m P -> BalC S m TT.
Proof. intros. eapply BalC_conseq; eauto. intros; exact I. Qed.

Lemma BalC_ret : forall A S (a : A) (P : A -> Prop), P a -> BalC S (ret a) P.
Proof. intros A S a P H h _. simpl. split; auto. intros a' E. inversion E; subst; auto. Qed.

Lemma BalC_raise : forall A S e (P : A -> Prop), BalC S (raise e) P.
Proof. intros A S e P h _. simpl. split; auto. intros a' E. discriminate. Qed.

Lemma BalC_bad : forall A S (P : A -> Prop), BalC S (@Bad (outcome A)) P.
Proof. intros A S P h _. exact I. Qed.

Lemma BalC_mbind : forall A B S (m : M A) (f : A -> M B) P1 P,
  BalC S m P1 -> (forall a, P1 a -> BalC S (f a) P) -> BalC S (mbind m f) P.
Proof.
  intros A B S m f P1 P Hm Hf h Hh. apply Cg_mbind.
  eapply Cg_mono; [apply Hm; exact Hh|]. simpl.
  intros [a|e] h' (-> & H3).
  - apply Hf; auto.
  - split; auto. intros a E; discriminate.
Qed.

Lemma BalC_catch_TT : forall A S (m : M A), BalC S m TT -> BalC S (catch m) TT.
Proof.
  intros A S m Hm h Hh. apply Cg_catch.
  eapply Cg_mono; [apply Hm; exact Hh|]. simpl.
  intros r h' (-> & H3). split; auto. intros; exact I.
Qed.

Lemma BalC_try_finally : forall A S (m : M A) fin P Pf,
  BalC S m P -> BalC S fin Pf -> BalC S (try_finally m fin) P.
Proof.
  intros A S m fin P Pf Hm Hf h Hh. apply Cg_try_finally.
  eapply Cg_mono; [apply Hm; exact Hh|]. simpl.
  intros r h' (-> & H3).
  eapply Cg_mono; [apply Hf; exact Hh|]. simpl.
  intros [u|e] h' (-> & _); split; auto. intros a E; discriminate.
Qed.

Lemma BalC_vis : forall A S o (k : ans -> M A) (P : A -> Prop),
  (forall h, incl S h -> prec h o) ->
  (forall h, next_h h o = h) ->
  (forall a, ans_okc o a -> BalC S (k a) P) ->
  BalC S (Vis o k) P.
Proof.
  intros A S o k P Hpre Hh Hc h Hlt. simpl. split; [auto|].
  intros a Ha. rewrite Hh. eapply Hc; eauto.
Qed.

Lemma incl_cons2 : forall (l : lock) S h, incl S h -> incl (l :: S) (l :: h).
Proof. intros l S h H x [<-|Hx]; [left; auto | right; auto]. Qed.

Lemma BalC_bracket_in : forall A S cls x (body : M A) P,
  BalC ((cls, x) :: S) body P ->
  BalC S (try_finally (acquire cls x ;;; body) (release cls x)) P.
Proof.
  intros A S cls x body P Hb h Hh. apply Cg_try_finally. apply Cg_mbind.
  cbn [acquire Cg]. split; [exact I|]. intros a ->. cbn [Cg ret next_h].
  eapply Cg_mono; [apply Hb; apply incl_cons2; exact Hh|].
  cbn beta. intros r h' (-> & H3).
  cbn [release Cg]. split; [exact I|]. intros a ->. cbn [Cg ret next_h]. rewrite remove1_head.
  destruct r; split; auto; intros a E; discriminate.
Qed.

Lemma BalC_bracket_in2 : forall A S c1 x1 c2 x2 (body : M A) P,
  BalC ((c2, x2) :: (c1, x1) :: S) body P ->
  BalC S (try_finally (acquire c1 x1 ;;; acquire c2 x2 ;;; body)
                      (release c2 x2 ;;; release c1 x1)) P.
Proof.
  intros A S c1 x1 c2 x2 body P Hb h Hh. apply Cg_try_finally. apply Cg_mbind.
  cbn [acquire Cg]. split; [exact I|]. intros a ->. cbn [Cg ret next_h].
  apply Cg_mbind. cbn [acquire Cg]. split; [exact I|]. intros a ->. cbn [Cg ret next_h].
  eapply Cg_mono; [apply Hb; apply incl_cons2; apply incl_cons2; exact Hh|].
  cbn beta. intros r h' (-> & H3).
  apply Cg_mbind. cbn [release Cg]. split; [exact I|]. intros a ->. cbn [Cg ret next_h].
  rewrite remove1_head.
  split; [exact I|]. intros a ->. cbn [Cg ret next_h]. rewrite remove1_head.
  destruct r; split; auto; intros a E; discriminate.
Qed.

Lemma BalC_bracket_out_bind : forall A B S cls x (body : M A) (f : A -> M B) P1 P,
  BalC ((cls, x) :: S) body P1 ->
  (forall d, P1 d -> BalC S (f d) P) ->
  BalC S (acquire cls x ;;; (d <- try_finally body (release cls x) ;; f d)) P.
Proof.
  intros A B S cls x body f P1 P Hb Hf h Hh. apply Cg_mbind.
  cbn [acquire Cg]. split; [exact I|]. intros a ->. cbn [Cg ret next_h].
  apply Cg_mbind. apply Cg_try_finally.
  eapply Cg_mono; [apply Hb; apply incl_cons2; exact Hh|].
  cbn beta. intros r h' (-> & H3).
  cbn [release Cg]. split; [exact I|]. intros a ->. cbn [Cg ret next_h]. rewrite remove1_head.
  destruct r as [d|e].
  - apply Hf; auto.
  - split; auto. discriminate.
Qed.

Lemma BalC_bracket_out : forall A S cls x (body : M A) P,
  BalC ((cls, x) :: S) body P ->
  BalC S (acquire cls x ;;; try_finally body (release cls x)) P.
Proof.
  intros A S cls x body P Hb h Hh. apply Cg_mbind.
  cbn [acquire Cg]. split; [exact I|]. intros a ->. cbn [Cg ret next_h].
  apply Cg_try_finally.
  eapply Cg_mono; [apply Hb; apply incl_cons2; exact Hh|].
  cbn beta. intros r h' (-> & H3).
  cbn [release Cg]. split; [exact I|]. intros a ->. cbn [Cg ret next_h]. rewrite remove1_head.
  auto.
Qed.

Lemma BalC_bracket_file : forall A S a (body : M A) P,
  BalC ((LFile, IDoc a) :: S) body P ->
  BalC S (try_finally (unit_op (Acquire LFile (IDoc a)) ;;; body) (funlock a)) P.
Proof.
  intros A S a body P Hb h Hh. apply Cg_try_finally. apply Cg_mbind.
  cbn [unit_op Cg]. split; [exact I|]. intros x ->. cbn [Cg ret next_h].
  eapply Cg_mono; [apply Hb; apply incl_cons2; exact Hh|].
  cbn beta. intros r h' (-> & H3).
  cbn [funlock Cg]. split; [exact I|]. intros x ->. cbn [Cg ret next_h]. rewrite remove1_head.
  destruct r; split; auto.
Qed.

(* ---------- leaves ---------- *)

Local Ltac leafc := let a := fresh "a" in let Ha := fresh "Ha" in
  intros a Ha; destruct a; simpl in Ha;
  first [apply BalC_bad | apply BalC_raise | (apply BalC_ret; first [exact I | exact Ha | assumption])].

Lemma BalC_probe : forall S a, BalC S (probe a) TT.
Proof. intros. apply BalC_vis; [intros; exact I | reflexivity | leafc]. Qed.
Lemma BalC_peek : forall S cls x, BalC S (peek cls x) TT.
Proof. intros. apply BalC_vis; [intros; exact I | reflexivity | leafc]. Qed.
Lemma BalC_held : forall S cls x, BalC S (held cls x) TT.
Proof. intros. apply BalC_vis; [intros; exact I | reflexivity | leafc]. Qed.
Lemma BalC_read : forall S a, BalC S (read a) TT.
Proof. intros. apply BalC_vis; [intros; exact I | reflexivity | leafc]. Qed.
Lemma BalC_size_lines : forall S a, BalC S (size_lines a) TT.
Proof. intros. apply BalC_vis; [intros; exact I | reflexivity | leafc]. Qed.
Lemma BalC_listdir : forall S p, BalC S (listdir p) (Forall notcid).
Proof. intros. apply BalC_vis; [intros; exact I | reflexivity | leafc]. Qed.
Lemma BalC_rewrite_write : forall S a p, (forall h, incl S h -> guard h a) ->
  BalC S (rewrite_write a p) TT.
Proof. intros. apply BalC_vis; [intros; simpl; auto | reflexivity | leafc]. Qed.

Lemma BalC_unit_op : forall S o,
  (forall h, incl S h -> prec h o) -> (forall h, next_h h o = h) -> BalC S (unit_op o) TT.
Proof. intros. apply BalC_vis; auto. leafc. Qed.
Lemma BalC_swallow_op : forall S o,
  (forall h, incl S h -> prec h o) -> (forall h, next_h h o = h) -> BalC S (swallow_op o) TT.
Proof. intros. apply BalC_vis; auto. leafc. Qed.

Lemma BalC_mktmp_bind : forall A S ar init (f : addr -> M A) P,
  (forall t, notcid t -> BalC S (f t) P) -> BalC S (mbind (mktmp ar init) f) P.
Proof.
  intros A S ar init f P H h Hh. apply Cg_mbind. simpl. split; [exact I|].
  intros a Ha. destruct a; simpl in *; auto.
  - apply H; auto.
  - split; auto. intros x E; discriminate.
Qed.

Global Hint Resolve BalC_probe BalC_peek BalC_held BalC_read BalC_size_lines BalC_listdir
  BalC_rewrite_write : balc.

(* a guard obligation: the address is not a cid list, or its lock is among those assumed *)
Ltac gd :=
  match goal with
  | |- guard _ _ => first [exact I | apply guard_notcid; assumption
                          | simpl; match goal with Hh : incl _ _ |- _ => apply Hh; simpl; tauto end
                          | simpl; match goal with Hh : incl _ _, Hs : In _ _ |- _ => apply Hh; exact Hs end]
  | |- _ /\ _ => split; gd
  | |- True => exact I
  end.
Global Hint Extern 1 (forall h, incl _ h -> guard h _) => (let h := fresh in let Hh := fresh in intros h Hh; gd) : balc.
Global Hint Extern 1 (In _ _) => (simpl; tauto) : balc.
Global Hint Extern 1 (notcid _) => exact I : balc.

Ltac opc_side :=
  first [apply BalC_unit_op | apply BalC_swallow_op];
  [ let h := fresh in let Hh := fresh in intros h Hh; cbn [prec]; gd | reflexivity ].

Ltac balc :=
  lazymatch goal with
  | |- BalC _ (ret _) _ =>
      apply BalC_ret; first [exact I | solve [repeat constructor; auto with balc] | auto with balc]
  | |- BalC _ (raise _) _ => apply BalC_raise
  | |- BalC _ Bad _ => apply BalC_bad
  | |- BalC _ (if ?b then _ else _) _ => destruct b; balc
  | |- BalC _ (match ?x with _ => _ end) _ => destruct x; balc
  | |- BalC _ (try_finally (mbind (unit_op (Acquire LFile (IDoc ?a))) _) (funlock ?a)) _ =>
      apply BalC_bracket_file; balc
  | |- BalC _ (try_finally (mbind (acquire ?c1 ?x1) (fun _ => mbind (acquire ?c2 ?x2) _))
                           (mbind (release ?c2 ?x2) (fun _ => release ?c1 ?x1))) _ =>
      apply BalC_bracket_in2; balc
  | |- BalC _ (try_finally (mbind (acquire ?c ?x) _) (release ?c ?x)) _ =>
      apply BalC_bracket_in; balc
  | |- BalC _ (mbind (acquire ?c ?x) (fun _ => try_finally _ (release ?c ?x))) _ =>
      apply BalC_bracket_out; balc
  | |- BalC _ (mbind _ _) _ =>
      first [ eapply BalC_mbind; [solve [eauto 4 with balc] | intros ? ?; balc]
            | eapply BalC_mbind with (P1 := TT); [balc | intros ? ?; balc] ]
  | |- BalC _ (catch _) _ => eapply BalC_catch_TT; balc
  | |- BalC _ (try_finally _ _) _ => eapply BalC_try_finally; balc
  | |- BalC _ (unit_op _) _ => first [solve [opc_side] | idtac]
  | |- BalC _ (swallow_op _) _ => first [solve [opc_side] | idtac]
  | |- _ => first [solve [eauto 4 with balc] | solve [eapply BalC_TT; eauto 4 with balc] | idtac]
  end.

(* ---------- the API programs ---------- *)

Section APIC.
  Variable S : list lock.

  Lemma BalC_read_cid : forall a, BalC S (read_cid a) TT.
  Proof. intros. unfold read_cid. balc. Qed.
  Lemma BalC_read_lines : forall a, BalC S (read_lines a) TT.
  Proof. intros. unfold read_lines. balc. Qed.
  Hint Resolve BalC_read_cid BalC_read_lines : balc.
  Lemma BalC_is_in_refs : forall p a, BalC S (is_in_refs p a) TT.
  Proof. intros. unfold is_in_refs. balc. Qed.
  Hint Resolve BalC_is_in_refs : balc.
  Lemma BalC_find_object : forall p, BalC S (find_object p) TT.
  Proof. intros. unfold find_object. balc. Qed.
  Hint Resolve BalC_find_object : balc.
  Lemma BalC_open_object : forall c, BalC S (open_object c) TT.
  Proof. intros. unfold open_object. balc. Qed.
  Hint Resolve BalC_open_object : balc.
  Lemma BalC_retrieve_object : forall p, BalC S (retrieve_object p) TT.
  Proof. intros. unfold retrieve_object. balc. Qed.
  Lemma BalC_get_hex_digest : forall p, BalC S (get_hex_digest p) TT.
  Proof. intros. unfold get_hex_digest. balc. Qed.
  Hint Resolve BalC_retrieve_object BalC_get_hex_digest : balc.
End APIC.

Global Hint Resolve BalC_read_cid BalC_read_lines BalC_is_in_refs BalC_find_object BalC_open_object
  BalC_retrieve_object BalC_get_hex_digest : balc.

Lemma BalC_rename_for_deletion : forall S a, (forall h, incl S h -> guard h a) ->
  BalC S (rename_for_deletion a) TT.
Proof.
  intros S a Ha. unfold rename_for_deletion.
  eapply BalC_mbind with (P1 := TT).
  - apply BalC_unit_op; [|reflexivity]. intros h Hh. simpl. split; [auto | exact I].
  - intros ? ?. balc.
Qed.
Global Hint Resolve BalC_rename_for_deletion : balc.

Lemma BalC_delete_marked : forall S l, BalC S (delete_marked l) TT.
Proof.
  induction l as [|a l IH]; simpl.
  - balc.
  - eapply BalC_mbind with (P1 := TT); [opc_side|]. intros ? ?. apply IH.
Qed.
Global Hint Resolve BalC_delete_marked : balc.

Lemma BalC_update_refs_remove : forall S c p, In (LCid, ICid c) S ->
  BalC S (update_refs_remove (ACidRef c) p) TT.
Proof.
  intros. unfold update_refs_remove. balc.
Qed.

Lemma BalC_update_refs_add : forall S c p, In (LCid, ICid c) S ->
  BalC S (update_refs_add (ACidRef c) p) TT.
Proof. intros. unfold update_refs_add. balc. Qed.
Global Hint Resolve BalC_update_refs_remove BalC_update_refs_add : balc.

Lemma BalC_verify_refs : forall S p c, BalC S (verify_refs p c) TT.
Proof. intros. unfold verify_refs. balc. Qed.
Lemma BalC_validate : forall S c c', BalC S (validate_and_check_cid_lock c c') TT.
Proof. intros. unfold validate_and_check_cid_lock. balc. Qed.
Lemma BalC_mark_pid_refs : forall S p, BalC S (mark_pid_refs p) TT.
Proof. intros. unfold mark_pid_refs. balc. Qed.
Global Hint Resolve BalC_verify_refs BalC_validate BalC_mark_pid_refs : balc.

Lemma BalC_remove_pid_and_handle_cid : forall S p c, In (LCid, ICid c) S ->
  BalC S (remove_pid_and_handle_cid p c) TT.
Proof. intros. unfold remove_pid_and_handle_cid. balc. Qed.
Global Hint Resolve BalC_remove_pid_and_handle_cid : balc.

Lemma BalC_untag_object : forall S p c, In (LCid, ICid c) S -> BalC S (untag_object p c) TT.
Proof. intros. unfold untag_object. balc. Qed.
Global Hint Resolve BalC_untag_object : balc.

Lemma BalC_write_refs_tmp : forall S content, BalC S (write_refs_tmp content) notcid.
Proof.
  intros. unfold write_refs_tmp. apply BalC_mktmp_bind. intros t Ht.
  eapply BalC_mbind with (P1 := TT); [opc_side|]. intros ? ?. apply BalC_ret. exact Ht.
Qed.
Global Hint Resolve BalC_write_refs_tmp : balc.

Lemma BalC_store_refs_body : forall S p c, In (LCid, ICid c) S -> BalC S (store_refs_body p c) TT.
Proof. intros. unfold store_refs_body, and_sc, notm. balc. Qed.
Global Hint Resolve BalC_store_refs_body : balc.

Lemma BalC_tag_object : forall S p c, BalC S (tag_object p c) TT.
Proof. intros. unfold tag_object. balc. Qed.
Global Hint Resolve BalC_tag_object : balc.

Lemma BalC_write_chunks : forall S t n, BalC S (write_chunks t n) TT.
Proof.
  induction n as [|n IH]; simpl.
  - balc.
  - eapply BalC_mbind with (P1 := TT); [opc_side|]. intros ? ?. apply IH.
Qed.
Lemma BalC_open_source : forall S s, BalC S (open_source s) TT.
Proof. intros. unfold open_source. balc. Qed.
Lemma BalC_delete_object_file : forall S c, BalC S (delete_object_file c) TT.
Proof. intros. unfold delete_object_file. balc. Qed.
Lemma BalC_verify_object : forall S g t sz ck, BalC S (verify_object g t sz ck) TT.
Proof. intros. unfold verify_object. balc. Qed.
Global Hint Resolve BalC_write_chunks BalC_open_source BalC_delete_object_file BalC_verify_object : balc.

Lemma BalC_move_and_get_checksums : forall S p b n sz ck,
  BalC S (move_and_get_checksums p b n sz ck) TT.
Proof.
  intros. unfold move_and_get_checksums. apply BalC_mktmp_bind. intros t Ht. balc.
Qed.
Global Hint Resolve BalC_move_and_get_checksums : balc.

Lemma BalC_store_object : forall S p s b n sz ck, BalC S (store_object p s b n sz ck) TT.
Proof. intros. unfold store_object. balc. Qed.

Lemma BalC_probe_all : forall S l, Forall notcid l -> BalC S (probe_all l) (Forall notcid).
Proof.
  induction l as [|a l IH]; intros Hl; simpl.
  - balc.
  - inversion Hl; subst.
    eapply BalC_mbind; [apply BalC_probe|]. intros b _.
    eapply BalC_mbind; [apply IH; assumption|]. intros r Hr.
    apply BalC_ret. destruct b; auto.
Qed.
Global Hint Resolve BalC_probe_all : balc.

Lemma BalC_mark_docs : forall S l, Forall notcid l -> BalC S (mark_docs l) TT.
Proof.
  induction l as [|a l IH]; intros Hl; simpl.
  - balc.
  - inversion Hl; subst.
    eapply BalC_bracket_out_bind with (P1 := TT).
    + balc.
    + intros d _. eapply BalC_mbind with (P1 := TT); [apply IH; assumption|]. intros ? ?. balc.
Qed.
Global Hint Resolve BalC_mark_docs : balc.

Lemma BalC_delete_metadata : forall S p f, BalC S (delete_metadata p f) TT.
Proof. intros. unfold delete_metadata. balc. Qed.
Global Hint Resolve BalC_delete_metadata : balc.

Lemma BalC_delete_object : forall S p, BalC S (delete_object p) TT.
Proof. intros. unfold delete_object. balc. Qed.
Lemma BalC_delete_object_unfixed : forall S p, BalC S (delete_object_unfixed p) TT.
Proof. intros. unfold delete_object_unfixed. balc. Qed.

Lemma BalC_store_metadata : forall S p f s v n, BalC S (store_metadata p f s v n) TT.
Proof.
  intros. unfold store_metadata. apply BalC_bracket_out.
  eapply BalC_mbind; [apply BalC_open_source|]. intros _ _.
  apply BalC_mktmp_bind. intros t Ht. balc.
Qed.
Lemma BalC_retrieve_metadata : forall S p f, BalC S (retrieve_metadata p f) TT.
Proof. intros. unfold retrieve_metadata. balc. Qed.
Lemma BalC_delete_object_only : forall S c, BalC S (delete_object_only c) TT.
Proof. intros. unfold delete_object_only. balc. Qed.
Global Hint Resolve BalC_delete_object_only : balc.
Lemma BalC_delete_if_invalid : forall S c sz pre ok, BalC S (delete_if_invalid c sz pre ok) TT.
Proof. intros. unfold delete_if_invalid. balc. Qed.
Global Hint Resolve BalC_store_object BalC_delete_object BalC_delete_object_unfixed
  BalC_store_metadata BalC_retrieve_metadata BalC_delete_if_invalid : balc.

Theorem api_guarded : forall c, Cg (api c) [] (fun _ _ => True).
Proof.
  intros c.
  assert (H : BalC [] (api c) TT) by (destruct c; unfold api, lift_unit; balc).
  eapply Cg_mono; [apply H; intros x []|]. auto.
Qed.

(* ====================================================================================== *)
(* §2  the held list of a thread, read off its history                                     *)
(* ====================================================================================== *)

(* replay the answers received so far: every Acquire issued adds its identifier, every Release
   issued removes it (under the invariant an Acquire is answered only when it succeeded and a
   Release always succeeds, so this is "acquired and not yet released") *)
Fixpoint hrun {A} (m : prog A) (hs : list ans) (h : list lock) {struct hs} : list lock :=
  match hs with
  | [] => h
  | a :: hs' => match m with Vis o k => hrun (k a) hs' (next_h h o) | _ => h end
  end.

Lemma hrun_snoc : forall A (hs : list ans) (m : prog A) h a,
  hrun m (hs ++ [a]) h =
  match resume m hs with Some (Vis o k) => next_h (hrun m hs h) o | _ => hrun m hs h end.
Proof.
  induction hs as [|a0 hs IH]; intros m h a; destruct m; simpl; auto.
Qed.

Section MutexPool.
  Variable A : Type.
  Variable ps : list (prog A).

  Definition held (c : cfg) (i : nat) : list lock :=
    match nth_error ps i, nth_error (fst c) i with
    | Some p, Some hist => hrun p (rev hist) []
    | _, _ => []
    end.

  (* thread i is inside l *)
  Definition holds (c : cfg) (i : nat) (l : lock) : Prop := In l (held c i).

  Definition pool_okc : Prop := forall i p, nth_error ps i = Some p -> Cg p [] (fun _ _ => True).

  (* Bracket.v's invariant with the held lists explicit, plus the guard discipline *)
  Definition InvM (c : cfg) : Prop :=
    length (fst c) = length ps /\
    refs_typed (fs (snd c)) /\
    LInv (held c) (locks (snd c)) /\
    exists K : nat -> knowl,
      (forall i, KInv i (K i) (fs (snd c))) /\
      (forall i, i < length ps -> exists m,
         residual ps c i = Some m /\
         Br i m (held c i) (K i) (@Qfin A) /\
         Cg m (held c i) (fun _ _ => True)).

  Lemma InvM_init : forall w0, pool_ok ps -> pool_okc -> locks w0 = [] -> refs_typed (fs w0) ->
    InvM (init_cfg ps w0).
  Proof.
    intros w0 Hok Hokc Hl Hrt. unfold InvM.
    assert (Hheld : forall i, held (init_cfg ps w0) i = []).
    { intros i. unfold held, init_cfg. simpl. destruct (nth_error ps i); auto.
      rewrite nth_error_map. destruct (nth_error ps i); auto. }
    split; [apply map_length|]. split; [exact Hrt|]. split.
    - eapply LInv_ext with (H := fun _ => []); [exact Hheld|].
      simpl. rewrite Hl. unfold LInv. repeat split; try constructor; simpl; try tauto.
    - exists (fun _ => []). split; [intros i; apply KInv_nil|].
      intros i Hi. destruct (nth_error ps i) as [p|] eqn:E; [|apply nth_error_None in E; lia].
      exists p. rewrite Hheld. split; [|split; [exact (Hok i p E) | exact (Hokc i p E)]].
      unfold residual, init_cfg. simpl. rewrite E, nth_error_map, E. simpl. apply resume_nil.
  Qed.

  Lemma held_adv_eq : forall c i hist o k a w',
    nth_error (fst c) i = Some hist -> residual ps c i = Some (Vis o k) ->
    held (upd_nth i (a :: hist) (fst c), w') i = next_h (held c i) o.
  Proof.
    intros [hs w] i hist o k a w' Hh Hres. unfold held, residual in *. simpl in *.
    destruct (nth_error ps i) as [p|]; [|discriminate].
    rewrite nth_error_upd_nth_eq by (apply nth_error_Some; congruence).
    rewrite Hh in *. simpl. rewrite hrun_snoc, Hres. reflexivity.
  Qed.

  Lemma held_adv_neq : forall c i j x w', j <> i -> held (upd_nth i x (fst c), w') j = held c j.
  Proof.
    intros c i j x w' Hne. unfold held. simpl. rewrite nth_error_upd_nth_neq by exact Hne. reflexivity.
  Qed.

  Lemma InvM_advance : forall c i hist o k a w',
    InvM c -> nth_error (fst c) i = Some hist -> residual ps c i = Some (Vis o k) ->
    effect i o (snd c) a w' ->
    (forall kn, ans_ok i kn o a -> ans_okc o a) ->
    InvM (upd_nth i (a :: hist) (fst c), w').
  Proof.
    intros c i hist o k a w' (Hlen & Hrt & HL & K & HK & HT) Hh Hres Heff Hokc.
    assert (Hi : i < length ps).
    { rewrite <- Hlen. apply nth_error_Some. congruence. }
    destruct (HT i Hi) as (m & Hm & Hbr & Hcg). rewrite Hres in Hm. inversion Hm; subst m. clear Hm.
    simpl in Hbr, Hcg. destruct Hbr as [Hpre Hbr]. destruct Hcg as [_ Hcg].
    assert (HLw := HL). destruct HLw as (_ & _ & Hsub & _).
    destruct (Heff (held c i) (K i) Hrt (HK i) (Hsub i) Hpre) as (Hans & Hrt' & HK' & Hfr & Hls).
    set (c' := (upd_nth i (a :: hist) (fst c), w')).
    assert (Hheld : forall j, held c' j = upd_fun (held c) i (next_h (held c i) o) j).
    { intros j. destruct (Nat.eq_dec j i) as [->|Hne].
      - rewrite upd_fun_eq. eapply held_adv_eq; eauto.
      - rewrite upd_fun_neq by exact Hne. apply held_adv_neq. exact Hne. }
    unfold InvM. split; [simpl; rewrite upd_nth_length; exact Hlen|]. split; [exact Hrt'|]. split.
    - eapply LInv_ext; [exact Hheld|]. simpl.
      eapply LInv_step; eauto. intros cls x ->. exact Hpre.
    - exists (upd_fun K i (next_k (K i) o a)). split.
      + intros j. simpl. destruct (Nat.eq_dec j i) as [->|Hne].
        * rewrite upd_fun_eq. exact HK'.
        * rewrite upd_fun_neq by exact Hne. eapply KInv_agree; [apply HK|].
          intros b kk Hin. apply Hfr. destruct (HK j b kk Hin) as [[n ->] _]. simpl. congruence.
      + intros j Hj. rewrite Hheld. destruct (Nat.eq_dec j i) as [->|Hne].
        * rewrite !upd_fun_eq. exists (k a).
          split; [|split; [apply Hbr; exact Hans | apply Hcg; eapply Hokc; exact Hans]].
          unfold residual in *. unfold c'. simpl in *.
          destruct (nth_error ps i) as [p|]; [|discriminate].
          rewrite nth_error_upd_nth_eq by (rewrite Hlen; exact Hi).
          rewrite Hh in Hres. simpl. rewrite resume_app, Hres. simpl. apply resume_nil.
        * rewrite !upd_fun_neq by exact Hne.
          destruct (HT j Hj) as (m & Hm & Hb). exists m. split; [|exact Hb].
          unfold residual in *. unfold c'. simpl in *.
          rewrite nth_error_upd_nth_neq by exact Hne. exact Hm.
  Qed.

  Lemma exec_okc : forall i kn o w a w',
    exec_op i o w = Some (a, w') -> ans_ok i kn o a -> ans_okc o a.
  Proof.
    intros i kn o w a w' He Hans. destruct o; simpl in *; auto.
    - destruct a; auto. destruct Hans as [[n ->] _]. exact I.
    - inversion He; subst. apply Forall_forall. intros x Hx. apply filter_In in Hx.
      destruct Hx as [_ Hx]. unfold owned_by in Hx. destruct x; simpl in Hx; try discriminate; exact I.
  Qed.

  Lemma fault_okc : forall o, faultable o = true -> ans_okc o (AErr EFault).
  Proof. intros o H. destruct o; simpl in *; auto; try discriminate. destruct cls; discriminate. Qed.

  Lemma InvM_gstep : forall c c', InvM c -> gstep ps c c' -> InvM c'.
  Proof.
    intros c c' HI Hs. destruct Hs as [c i c' H|c i c' H].
    - apply thread_step_inv in H. destruct H as (hist & o & k & a & w' & H1 & H2 & H3 & ->).
      eapply InvM_advance; eauto.
      + apply exec_effect. exact H3.
      + intros kn. eapply exec_okc; eauto.
    - apply fault_step_inv in H. destruct H as (hist & o & k & H1 & H2 & H3 & ->).
      eapply InvM_advance; eauto.
      + apply fault_effect. exact H3.
      + intros kn _. apply fault_okc. exact H3.
  Qed.

  Lemma InvM_reachable : forall w0 c,
    pool_ok ps -> pool_okc -> locks w0 = [] -> refs_typed (fs w0) -> reachable ps w0 c -> InvM c.
  Proof.
    intros w0 c Hok Hokc Hl Hrt Hr. induction Hr.
    - apply InvM_init; auto.
    - eapply InvM_gstep; eauto.
  Qed.

  (* the three consequences, for any configuration satisfying the invariant *)
  Lemma InvM_nodup : forall c, InvM c -> NoDup (locks (snd c)).
  Proof. intros c (_ & _ & (H & _) & _). exact H. Qed.

  Lemma InvM_exclusive : forall c i j l, InvM c -> holds c i l -> holds c j l -> i = j.
  Proof. intros c i j l (_ & _ & (_ & _ & _ & _ & H) & _). apply H. Qed.

  Lemma InvM_world : forall c l, InvM c -> (In l (locks (snd c)) <-> exists i, holds c i l).
  Proof.
    intros c l (_ & _ & (_ & _ & H3 & H4 & _) & _). split; [apply H4|].
    intros [i Hi]. eapply H3; eauto.
  Qed.

  Lemma InvM_guarded : forall c i o k, InvM c ->
    residual ps c i = Some (Vis o k) -> prec (held c i) o.
  Proof.
    intros c i o k (_ & _ & _ & K & _ & HT) Hres.
    assert (Hi : i < length ps).
    { unfold residual in Hres. destruct (nth_error ps i) eqn:E; [|discriminate].
      apply nth_error_Some. congruence. }
    destruct (HT i Hi) as (m & Hm & _ & Hcg). rewrite Hres in Hm. inversion Hm; subst m.
    simpl in Hcg. tauto.
  Qed.
End MutexPool.

(* ====================================================================================== *)
(* §3  the theorems for pools of API calls                                                 *)
(* ====================================================================================== *)

Lemma api_pool_okc : forall calls, pool_okc (map api calls).
Proof.
  intros calls i p H. rewrite nth_error_map in H.
  destruct (nth_error calls i) as [c|]; inversion H; subst. apply api_guarded.
Qed.

Lemma mutex_inv : forall calls w0 c,
  locks w0 = [] -> refs_typed (fs w0) -> reachable (map api calls) w0 c -> InvM (map api calls) c.
Proof.
  intros. eapply InvM_reachable; eauto. apply api_pool_ok. apply api_pool_okc.
Qed.

(* (1) no identifier is ever held twice *)
Theorem mutex_nodup : forall calls w0 c,
  locks w0 = [] -> refs_typed (fs w0) -> reachable (map api calls) w0 c ->
  NoDup (locks (snd c)).
Proof. intros. eapply InvM_nodup. eapply mutex_inv; eauto. Qed.

(* (2) at most one thread is inside a given (class, identifier) *)
Theorem mutex_exclusive : forall calls w0 c i j l,
  locks w0 = [] -> refs_typed (fs w0) -> reachable (map api calls) w0 c ->
  holds (map api calls) c i l -> holds (map api calls) c j l -> i = j.
Proof. intros. eapply InvM_exclusive; eauto. eapply mutex_inv; eauto. Qed.

(* and the world's lock list is exactly what the threads are inside *)
Theorem mutex_world : forall calls w0 c l,
  locks w0 = [] -> refs_typed (fs w0) -> reachable (map api calls) w0 c ->
  (In l (locks (snd c)) <-> exists i, holds (map api calls) c i l).
Proof. intros. eapply InvM_world. eapply mutex_inv; eauto. Qed.

(* (3) every modification of a cid reference list happens under that cid's lock *)
Theorem cid_list_guarded : forall calls w0 c i o k,
  locks w0 = [] -> refs_typed (fs w0) -> reachable (map api calls) w0 c ->
  residual (map api calls) c i = Some (Vis o k) ->
  prec (held (map api calls) c i) o.
Proof. intros. eapply InvM_guarded; eauto. eapply mutex_inv; eauto. Qed.

(* the same, spelled out operation by operation *)
Theorem cid_list_guarded_ops : forall calls w0 c i o k cc,
  locks w0 = [] -> refs_typed (fs w0) -> reachable (map api calls) w0 c ->
  residual (map api calls) c i = Some (Vis o k) ->
  ((exists p, o = AppendWrite (ACidRef cc) p) \/
   (exists p, o = RewriteWrite (ACidRef cc) p) \/
   (exists n, o = Truncate (ACidRef cc) n) \/
   (exists s, o = Rename s (ACidRef cc)) \/
   (exists d, o = Rename (ACidRef cc) d) \/
   o = AppendOpen (ACidRef cc)) ->
  holds (map api calls) c i (LCid, ICid cc).
Proof.
  intros calls w0 c i o k cc Hl Hrt Hr Hres Ho.
  pose proof (cid_list_guarded _ _ Hl Hrt Hr Hres) as Hp. unfold holds.
  destruct Ho as [[p ->]|[[p ->]|[[n ->]|[[s ->]|[[d ->]| ->]]]]]; simpl in Hp; tauto.
Qed.

Definition writes_cid_list (o : op) (cc : cid) : Prop :=
  (exists p, o = AppendWrite (ACidRef cc) p) \/
  (exists p, o = RewriteWrite (ACidRef cc) p) \/
  (exists n, o = Truncate (ACidRef cc) n) \/
  (exists s, o = Rename s (ACidRef cc)) \/
  (exists d, o = Rename (ACidRef cc) d) \/
  o = AppendOpen (ACidRef cc).

(* hence two threads are never both about to modify the same cid list *)
Theorem cid_list_exclusive : forall calls w0 c i j oi ki oj kj cc,
  locks w0 = [] -> refs_typed (fs w0) -> reachable (map api calls) w0 c ->
  residual (map api calls) c i = Some (Vis oi ki) -> writes_cid_list oi cc ->
  residual (map api calls) c j = Some (Vis oj kj) -> writes_cid_list oj cc ->
  i = j.
Proof.
  intros calls w0 c i j oi ki oj kj cc Hl Hrt Hr Hi Hwi Hj Hwj.
  eapply mutex_exclusive with (l := (LCid, ICid cc)); eauto.
  - eapply cid_list_guarded_ops; eauto.
  - eapply cid_list_guarded_ops; eauto.
Qed.

(* ---- the same for the other two notions of reachability ---- *)

Lemma exec_is_reachable : forall A (ps : list (prog A)) w0 sched c,
  exec ps sched (init_cfg ps w0) = Some c -> reachable ps w0 c.
Proof. intros. eapply exec_reachable; [apply reach_init | eassumption]. Qed.

Theorem mutex_exec : forall calls w0 sched c,
  locks w0 = [] -> refs_typed (fs w0) ->
  exec (map api calls) sched (init_cfg (map api calls) w0) = Some c ->
  NoDup (locks (snd c)) /\
  (forall i j l, holds (map api calls) c i l -> holds (map api calls) c j l -> i = j) /\
  (forall i o k, residual (map api calls) c i = Some (Vis o k) ->
                 prec (held (map api calls) c i) o).
Proof.
  intros calls w0 sched c Hl Hrt He. apply exec_is_reachable in He.
  pose proof (mutex_inv _ Hl Hrt He) as HI.
  split; [eapply InvM_nodup; eauto|]. split.
  - intros. eapply InvM_exclusive; eauto.
  - intros. eapply InvM_guarded; eauto.
Qed.

Theorem mutex_cv : forall fl calls w0 C,
  locks w0 = [] -> refs_typed (fs w0) ->
  cvreachable (map api calls) fl w0 C ->
  NoDup (locks (snd (fst C))) /\
  (forall i j l, holds (map api calls) (fst C) i l -> holds (map api calls) (fst C) j l -> i = j) /\
  (forall i o k, residual (map api calls) (fst C) i = Some (Vis o k) ->
                 prec (held (map api calls) (fst C) i) o).
Proof.
  intros fl calls w0 C Hl Hrt Hr. apply cv_reachable_gstep in Hr.
  pose proof (mutex_inv _ Hl Hrt Hr) as HI.
  split; [eapply InvM_nodup; eauto|]. split.
  - intros. eapply InvM_exclusive; eauto.
  - intros. eapply InvM_guarded; eauto.
Qed.
