(* Layout.v — layer A: where every file of the store lives, as a function of hex digests only.

   The token-level model (FS.v) treats the path of an object, a reference file, a metadata
   document or a deletion marker as an injective token ([addr]).  This file justifies that: the
   relative path of every such file, rendered from hex digests exactly as the README layout
   (property C15) prescribes,

       objects/<shard(cid)>      refs/pids/<shard(H(pid))>      refs/cids/<shard(cid)>
       metadata/<shard(H(pid))>/<H(pid+format)>      deletion marker: last component + "_delete"

   (1) stays inside the store root: every component is one of the fixed directory names, or a
       non-empty string over [0-9a-f], or such a string followed by one or more "_delete" — in
       particular never "", "." or "..", and it contains no "/"        [render_contained]
   (2) is injective: distinct addresses never share a path                [render_injective]
   (3) is prefix-free: no file is a directory on the way to another file  [render_prefix_free]
   (4) has a first component that names its tree                          [render_first_component]

   Hypotheses: 0 < width, depth * width < length of every digest that is sharded, all digests are
   non-empty strings over [0-9a-f] ([wf]).  Coq stdlib only (String, Ascii, List). *)
From Coq Require Import List Arith Lia PeanoNat Bool String Ascii.
From HS Require Import Shard.
Import ListNotations.
Open Scope string_scope.

(* ---------- strings as lists of characters ---------- *)

Notation chars := list_ascii_of_string.

Lemma chars_app : forall s1 s2, chars (s1 ++ s2) = (chars s1 ++ chars s2)%list.
Proof. induction s1 as [|c s1 IH]; intros s2; simpl; auto. f_equal. apply IH. Qed.

Lemma chars_inj : forall s1 s2, chars s1 = chars s2 -> s1 = s2.
Proof.
  intros s1 s2 H. rewrite <- (string_of_list_ascii_of_string s1), <- (string_of_list_ascii_of_string s2), H.
  reflexivity.
Qed.

Lemma chars_length : forall s, List.length (chars s) = String.length s.
Proof. induction s; simpl; auto. Qed.

Lemma append_inv_tail : forall s1 s2 t, s1 ++ t = s2 ++ t -> s1 = s2.
Proof.
  intros s1 s2 t H. apply chars_inj. apply (f_equal chars) in H. rewrite !chars_app in H.
  eapply app_inv_tail. exact H.
Qed.

(* ---------- hex strings ---------- *)

Definition hexchar (c : ascii) : bool :=
  let n := nat_of_ascii c in
  (Nat.leb 48 n && Nat.leb n 57) || (Nat.leb 97 n && Nat.leb n 102).

Definition allhex (s : string) : bool := forallb hexchar (chars s).

(* a hex digest: non-empty, every character in 0-9a-f *)
Definition hexstr (s : string) : bool :=
  match s with EmptyString => false | _ => allhex s end.

Definition del_suffix : string := "_delete".

Lemma allhex_del_false : forall x, allhex (x ++ del_suffix) = false.
Proof.
  intros x. unfold allhex. rewrite chars_app, forallb_app.
  replace (forallb hexchar (chars del_suffix)) with false by reflexivity.
  apply andb_false_r.
Qed.

Lemma hexstr_allhex : forall s, hexstr s = true -> allhex s = true.
Proof. destruct s; simpl; auto; discriminate. Qed.

Lemma hexstr_nonempty : forall s, hexstr s = true -> s <> "".
Proof. destruct s; simpl; intros H E; discriminate. Qed.

(* ---------- addresses and their rendering ---------- *)

(* hp = hex digest of the pid; doc = hex digest of pid + format; cid = hex digest of the content *)
Inductive saddr :=
| SObj (cid : string)
| SPidRef (hp : string)
| SCidRef (cid : string)
| SMeta (hp doc : string)
| SDel (a : saddr).

Definition mark (x : string) : string := x ++ del_suffix.

(* append "_delete" to the last component *)
Fixpoint mark_last (l : list string) : list string :=
  match l with
  | [] => []
  | [x] => [mark x]
  | x :: l' => x :: mark_last l'
  end.

(* the relative path, as components *)
Fixpoint render (d w : nat) (a : saddr) : list string :=
  match a with
  | SObj cid => "objects" :: shard_string d w cid
  | SPidRef hp => "refs" :: "pids" :: shard_string d w hp
  | SCidRef cid => "refs" :: "cids" :: shard_string d w cid
  | SMeta hp doc => "metadata" :: (shard_string d w hp ++ [doc])%list
  | SDel x => mark_last (render d w x)
  end.

(* the relative path, as a string *)
Definition render_string (d w : nat) (a : saddr) : string := String.concat "/" (render d w a).

(* the digests of an address are hex digests long enough to be sharded *)
Fixpoint wf (d w : nat) (a : saddr) : Prop :=
  match a with
  | SObj s | SPidRef s | SCidRef s => hexstr s = true /\ d * w < String.length s
  | SMeta hp doc => hexstr hp = true /\ d * w < String.length hp /\ hexstr doc = true
  | SDel x => wf d w x
  end.

Inductive tree := TObjects | TRefs | TMetadata.

Fixpoint tree_of (a : saddr) : tree :=
  match a with
  | SObj _ => TObjects
  | SPidRef _ | SCidRef _ => TRefs
  | SMeta _ _ => TMetadata
  | SDel x => tree_of x
  end.

Definition tree_name (t : tree) : string :=
  match t with TObjects => "objects" | TRefs => "refs" | TMetadata => "metadata" end.

(* ---------- facts about sharding a hex digest ---------- *)

Lemma shard_string_length : forall d w s, 0 < w -> d * w < String.length s ->
  List.length (shard_string d w s) = S d.
Proof.
  intros d w s Hw Hl. unfold shard_string. rewrite map_length.
  apply (shard_lengths d w (chars s) Hw). rewrite chars_length. exact Hl.
Qed.

Lemma shard_string_hex : forall d w s t, allhex s = true -> In t (shard_string d w s) -> hexstr t = true.
Proof.
  intros d w s t Hs Ht. unfold shard_string in Ht. apply in_map_iff in Ht.
  destruct Ht as (l & <- & Hl).
  pose proof (shard_nonempty_tokens d w _ _ Hl) as Hne.
  assert (Hall : forallb hexchar l = true).
  { apply forallb_forall. intros x Hx. unfold allhex in Hs. rewrite forallb_forall in Hs.
    apply Hs. eapply shard_tokens_from_input; eauto. }
  destruct l as [|c l]; [congruence|]. simpl. unfold allhex. simpl.
  rewrite list_ascii_of_string_of_list_ascii. exact Hall.
Qed.

Lemma shard_string_inj : forall d w s1 s2, shard_string d w s1 = shard_string d w s2 -> s1 = s2.
Proof.
  intros d w s1 s2 H. apply chars_inj. apply (shard_injective d w). unfold shard_string in H.
  assert (Hinj : forall l1 l2 : list (list ascii),
            map string_of_list_ascii l1 = map string_of_list_ascii l2 -> l1 = l2).
  { induction l1 as [|x l1 IH]; destruct l2 as [|y l2]; simpl; intros E; try discriminate; auto.
    inversion E as [[E1 E2]]. f_equal; auto.
    rewrite <- (list_ascii_of_string_of_list_ascii x), <- (list_ascii_of_string_of_list_ascii y), E1.
    reflexivity. }
  apply Hinj. exact H.
Qed.

(* ---------- mark_last ---------- *)

Lemma mark_last_length : forall l, List.length (mark_last l) = List.length l.
Proof.
  induction l as [|x l IH]; simpl; auto. destruct l; simpl in *; auto.
Qed.

Lemma mark_last_snoc : forall l x, mark_last (l ++ [x])%list = (l ++ [mark x])%list.
Proof.
  induction l as [|y l IH]; intros x; simpl; auto.
  rewrite IH. destruct l; reflexivity.
Qed.

Lemma mark_last_hd : forall l, 2 <= List.length l -> hd "" (mark_last l) = hd "" l.
Proof. intros [|x [|y l]] H; simpl in *; auto; lia. Qed.

Lemma mark_last_inj : forall l1 l2, mark_last l1 = mark_last l2 -> l1 = l2.
Proof.
  intros l1 l2 H.
  assert (Hlen : List.length l1 = List.length l2).
  { rewrite <- (mark_last_length l1), <- (mark_last_length l2), H. reflexivity. }
  destruct l1 as [|y1 l1]; [destruct l2; [reflexivity | discriminate]|].
  destruct l2 as [|y2 l2]; [discriminate|].
  destruct (@exists_last _ (y1 :: l1)) as (l1' & x1 & E1); [discriminate|].
  destruct (@exists_last _ (y2 :: l2)) as (l2' & x2 & E2); [discriminate|].
  rewrite E1, E2 in *. rewrite !mark_last_snoc in H. apply app_inj_tail in H. destruct H as [H1 H2].
  subst. f_equal. f_equal. unfold mark in H2. eapply append_inv_tail. exact H2.
Qed.

Lemma last_mark_last : forall l, l <> [] -> last (mark_last l) "" = last l "" ++ del_suffix.
Proof.
  intros l Hl. destruct (exists_last Hl) as (l' & x & ->).
  rewrite mark_last_snoc, !last_last. reflexivity.
Qed.

(* ---------- (4) the first component names the tree; lengths ---------- *)

Section Layout.
  Variables d w : nat.
  Hypothesis Hw : 0 < w.

  Lemma render_length : forall a, wf d w a ->
    List.length (render d w a) = match tree_of a with TObjects => d + 2 | _ => d + 3 end.
  Proof.
    induction a as [s|s|s|hp doc|x IH]; simpl; intros H.
    - destruct H. rewrite shard_string_length; auto. lia.
    - destruct H. rewrite shard_string_length; auto. lia.
    - destruct H. rewrite shard_string_length; auto. lia.
    - destruct H as (H1 & H2 & H3). rewrite app_length, shard_string_length; auto. simpl. lia.
    - rewrite mark_last_length. auto.
  Qed.

  Lemma render_length_ge2 : forall a, wf d w a -> 2 <= List.length (render d w a).
  Proof. intros a H. rewrite (render_length a H). destruct (tree_of a); lia. Qed.

  Theorem render_first_component : forall a, wf d w a ->
    hd "" (render d w a) = tree_name (tree_of a).
  Proof.
    induction a as [s|s|s|hp doc|x IH]; simpl; intros H; auto.
    rewrite mark_last_hd; auto. apply render_length_ge2. exact H.
  Qed.

  Lemma tree_name_inj : forall t1 t2, tree_name t1 = tree_name t2 -> t1 = t2.
  Proof. destruct t1, t2; simpl; intros H; try discriminate; reflexivity. Qed.

  (* ---------- (1) containment ---------- *)

  Fixpoint add_del (k : nat) (s : string) : string :=
    match k with 0 => s | S k' => add_del k' s ++ del_suffix end.

  Definition fixed_name (c : string) : Prop :=
    c = "objects" \/ c = "refs" \/ c = "pids" \/ c = "cids" \/ c = "metadata".

  (* a fixed directory name, or a hex string followed by k >= 0 copies of "_delete" *)
  Definition ok_comp (c : string) : Prop :=
    fixed_name c \/ exists h k, hexstr h = true /\ c = add_del k h.

  Lemma ok_mark_last : forall l, (forall c, In c l -> ok_comp c) ->
    (forall c, l <> [] -> last l "" = c -> ~ fixed_name c) ->
    forall c, In c (mark_last l) -> ok_comp c.
  Proof.
    intros l Hok Hlast c Hc. destruct l as [|y l]; [contradiction|].
    destruct (@exists_last _ (y :: l)) as (l' & x & E); [discriminate|]. rewrite E in *.
    rewrite mark_last_snoc in Hc. apply in_app_or in Hc. destruct Hc as [Hc|[<-|[]]].
    - apply Hok. apply in_or_app. auto.
    - assert (Hx : ok_comp x) by (apply Hok; apply in_or_app; right; left; reflexivity).
      destruct Hx as [Hx|(h & k & Hh & ->)].
      + exfalso. apply (Hlast x); [destruct l'; discriminate | apply last_last | exact Hx].
      + right. exists h, (S k). auto.
  Qed.

  (* the last component of a rendered path is a hex string with k >= 0 markers, never a fixed name *)
  Lemma render_last : forall a, wf d w a ->
    exists h k, hexstr h = true /\ last (render d w a) "" = add_del k h.
  Proof.
    induction a as [s|s|s|hp doc|x IH]; simpl render; intros H.
    - destruct H as [H1 H2].
      assert (Hn : shard_string d w s <> []).
      { intros E. pose proof (shard_string_length d w s Hw H2) as L. rewrite E in L. discriminate. }
      destruct (exists_last Hn) as (l & t & E). exists t, 0. split.
      + eapply shard_string_hex; [apply hexstr_allhex; exact H1|]. rewrite E. apply in_or_app. right. left. reflexivity.
      + rewrite E. change ("objects" :: (l ++ [t])%list) with (("objects" :: l) ++ [t])%list. apply last_last.
    - destruct H as [H1 H2].
      assert (Hn : shard_string d w s <> []).
      { intros E. pose proof (shard_string_length d w s Hw H2) as L. rewrite E in L. discriminate. }
      destruct (exists_last Hn) as (l & t & E). exists t, 0. split.
      + eapply shard_string_hex; [apply hexstr_allhex; exact H1|]. rewrite E. apply in_or_app. right. left. reflexivity.
      + rewrite E. change ("refs" :: "pids" :: (l ++ [t])%list) with (("refs" :: "pids" :: l) ++ [t])%list. apply last_last.
    - destruct H as [H1 H2].
      assert (Hn : shard_string d w s <> []).
      { intros E. pose proof (shard_string_length d w s Hw H2) as L. rewrite E in L. discriminate. }
      destruct (exists_last Hn) as (l & t & E). exists t, 0. split.
      + eapply shard_string_hex; [apply hexstr_allhex; exact H1|]. rewrite E. apply in_or_app. right. left. reflexivity.
      + rewrite E. change ("refs" :: "cids" :: (l ++ [t])%list) with (("refs" :: "cids" :: l) ++ [t])%list. apply last_last.
    - destruct H as (H1 & H2 & H3). exists doc, 0. split; auto.
      change ("metadata" :: (shard_string d w hp ++ [doc])%list)
        with (("metadata" :: shard_string d w hp) ++ [doc])%list. apply last_last.
    - destruct (IH H) as (h & k & Hh & E). exists h, (S k). split; auto.
      rewrite last_mark_last, E; [reflexivity|].
      intros E'. pose proof (render_length_ge2 x H) as L. rewrite E' in L. simpl in L. lia.
  Qed.

  Lemma add_del_not_fixed : forall h k, hexstr h = true -> ~ fixed_name (add_del k h).
  Proof.
    intros h k Hh Hf.
    assert (Hcase : allhex (add_del k h) = true \/ exists x, add_del k h = x ++ del_suffix).
    { destruct k; simpl; [left; apply hexstr_allhex; exact Hh | right; eauto]. }
    destruct Hcase as [Ha|[x Hx]].
    - destruct Hf as [E|[E|[E|[E|E]]]]; rewrite E in Ha; vm_compute in Ha; discriminate.
    - (* a fixed name does not end in "_delete": none of them contains '_' *)
      assert (Hu : In "_"%char (chars (add_del k h))).
      { rewrite Hx, chars_app. apply in_or_app. right. left. reflexivity. }
      destruct Hf as [E|[E|[E|[E|E]]]]; rewrite E in Hu; simpl in Hu;
        repeat (destruct Hu as [Hu|Hu]; [discriminate|]); contradiction.
  Qed.

  Theorem render_contained : forall a, wf d w a -> forall c, In c (render d w a) -> ok_comp c.
  Proof.
    induction a as [s|s|s|hp doc|x IH]; simpl render; intros H c Hc.
    - destruct H as [H1 H2]. destruct Hc as [<-|Hc]; [left; unfold fixed_name; auto|].
      right. exists c, 0. split; auto. eapply shard_string_hex; [apply hexstr_allhex|]; eauto.
    - destruct H as [H1 H2]. destruct Hc as [<-|[<-|Hc]]; [left; unfold fixed_name; auto | left; unfold fixed_name; auto|].
      right. exists c, 0. split; auto. eapply shard_string_hex; [apply hexstr_allhex|]; eauto.
    - destruct H as [H1 H2]. destruct Hc as [<-|[<-|Hc]]; [left; unfold fixed_name; auto | left; unfold fixed_name; auto|].
      right. exists c, 0. split; auto. eapply shard_string_hex; [apply hexstr_allhex|]; eauto.
    - destruct H as (H1 & H2 & H3). destruct Hc as [<-|Hc]; [left; unfold fixed_name; auto|].
      apply in_app_or in Hc. destruct Hc as [Hc|[<-|[]]].
      + right. exists c, 0. split; auto.
        eapply (shard_string_hex d w hp); [apply hexstr_allhex; exact H1 | exact Hc].
      + right. exists doc, 0. auto.
    - eapply ok_mark_last; [intros c' Hc'; exact (IH H c' Hc') | | exact Hc].
      intros c2 _ E. destruct (render_last x H) as (h & k & Hh & E'). rewrite E' in E. subst c2.
      apply add_del_not_fixed. exact Hh.
  Qed.

  (* consequences: a component never leaves the directory it is in *)
  Definition safechar (c : ascii) : bool :=
    negb (Ascii.eqb c "/") && negb (Ascii.eqb c ".").

  Lemma hexchar_safe : forall c, hexchar c = true -> safechar c = true.
  Proof.
    intros c H. unfold safechar.
    destruct (Ascii.eqb c "/") eqn:E1; [apply Ascii.eqb_eq in E1; subst; discriminate|].
    destruct (Ascii.eqb c ".") eqn:E2; [apply Ascii.eqb_eq in E2; subst; discriminate|].
    reflexivity.
  Qed.

  Lemma add_del_safe : forall h k, allhex h = true -> forallb safechar (chars (add_del k h)) = true.
  Proof.
    intros h k Hh. induction k as [|k IH]; simpl.
    - unfold allhex in Hh. apply forallb_forall. intros x Hx. apply hexchar_safe.
      rewrite forallb_forall in Hh. auto.
    - rewrite chars_app, forallb_app, IH. reflexivity.
  Qed.

  Lemma add_del_nonempty : forall h k, h <> "" -> add_del k h <> "".
  Proof.
    intros h k Hh. induction k as [|k IH]; simpl; auto.
    destruct (add_del k h); [congruence | discriminate].
  Qed.

  Theorem ok_comp_safe : forall c, ok_comp c ->
    c <> "" /\ c <> "." /\ c <> ".." /\ ~ In "/"%char (chars c) /\ forallb safechar (chars c) = true.
  Proof.
    intros c Hc.
    assert (Hs : c <> "" /\ forallb safechar (chars c) = true).
    { destruct Hc as [[E|[E|[E|[E|E]]]]|(h & k & Hh & ->)]; try (subst; split; [discriminate | reflexivity]).
      split; [apply add_del_nonempty; apply hexstr_nonempty; exact Hh
             | apply add_del_safe; apply hexstr_allhex; exact Hh]. }
    destruct Hs as [Hne Hsafe]. split; auto.
    split; [intros ->; discriminate|]. split; [intros ->; discriminate|]. split; auto.
    intros Hin. rewrite forallb_forall in Hsafe. specialize (Hsafe _ Hin). discriminate.
  Qed.

  Corollary render_safe : forall a, wf d w a -> forall c, In c (render d w a) ->
    c <> "" /\ c <> "." /\ c <> ".." /\ ~ In "/"%char (chars c).
  Proof.
    intros a H c Hc. destruct (ok_comp_safe c (render_contained a H c Hc)) as (H1 & H2 & H3 & H4 & _).
    auto.
  Qed.

  (* ---------- (2) injectivity ---------- *)

  Definition is_del (a : saddr) : bool := match a with SDel _ => true | _ => false end.

  (* the last component of a plain (unmarked) address is all hex *)
  Lemma plain_last_hex : forall a, is_del a = false -> wf d w a -> allhex (last (render d w a) "") = true.
  Proof.
    intros a Hp H. destruct (render_last a H) as (h & k & Hh & E).
    destruct a; try discriminate; simpl render in *;
      match goal with
      | H0 : hexstr ?s = true /\ _ |- _ => idtac
      | _ => idtac
      end.
    all: rewrite E.
    all: destruct k; [apply hexstr_allhex; exact Hh|].
    (* k = S _ is impossible for a plain address: show directly *)
    all: exfalso.
    - destruct H as [H1 H2].
      assert (Hn : shard_string d w cid <> []).
      { intros E'. pose proof (shard_string_length d w cid Hw H2) as L. rewrite E' in L. discriminate. }
      destruct (exists_last Hn) as (l & t & E').
      assert (Ht : hexstr t = true).
      { eapply shard_string_hex; [apply hexstr_allhex; exact H1|]. rewrite E'. apply in_or_app. right. left. reflexivity. }
      rewrite E' in E. change ("objects" :: (l ++ [t])%list) with (("objects" :: l) ++ [t])%list in E.
      rewrite last_last in E. apply hexstr_allhex in Ht. rewrite E in Ht. simpl in Ht.
      rewrite allhex_del_false in Ht. discriminate.
    - destruct H as [H1 H2].
      assert (Hn : shard_string d w hp <> []).
      { intros E'. pose proof (shard_string_length d w hp Hw H2) as L. rewrite E' in L. discriminate. }
      destruct (exists_last Hn) as (l & t & E').
      assert (Ht : hexstr t = true).
      { eapply shard_string_hex; [apply hexstr_allhex; exact H1|]. rewrite E'. apply in_or_app. right. left. reflexivity. }
      rewrite E' in E. change ("refs" :: "pids" :: (l ++ [t])%list) with (("refs" :: "pids" :: l) ++ [t])%list in E.
      rewrite last_last in E. apply hexstr_allhex in Ht. rewrite E in Ht. simpl in Ht.
      rewrite allhex_del_false in Ht. discriminate.
    - destruct H as [H1 H2].
      assert (Hn : shard_string d w cid <> []).
      { intros E'. pose proof (shard_string_length d w cid Hw H2) as L. rewrite E' in L. discriminate. }
      destruct (exists_last Hn) as (l & t & E').
      assert (Ht : hexstr t = true).
      { eapply shard_string_hex; [apply hexstr_allhex; exact H1|]. rewrite E'. apply in_or_app. right. left. reflexivity. }
      rewrite E' in E. change ("refs" :: "cids" :: (l ++ [t])%list) with (("refs" :: "cids" :: l) ++ [t])%list in E.
      rewrite last_last in E. apply hexstr_allhex in Ht. rewrite E in Ht. simpl in Ht.
      rewrite allhex_del_false in Ht. discriminate.
    - destruct H as (H1 & H2 & H3).
      change ("metadata" :: (shard_string d w hp ++ [doc])%list)
        with (("metadata" :: shard_string d w hp) ++ [doc])%list in E.
      rewrite last_last in E. apply hexstr_allhex in H3. rewrite E in H3. simpl in H3.
      rewrite allhex_del_false in H3. discriminate.
  Qed.

  Lemma del_last_not_hex : forall x, wf d w x -> allhex (last (render d w (SDel x)) "") = false.
  Proof.
    intros x H. simpl render. rewrite last_mark_last.
    - apply allhex_del_false.
    - intros E. pose proof (render_length_ge2 x H) as L. rewrite E in L. simpl in L. lia.
  Qed.

  Theorem render_injective : forall a b, wf d w a -> wf d w b ->
    render d w a = render d w b -> a = b.
  Proof.
    induction a as [s|s|s|hp doc|x IH]; intros b Ha Hb E.
    - destruct b as [s'|s'|s'|hp' doc'|y]; cbn [render] in E; try discriminate.
      + inversion E as [E1]. f_equal. eapply shard_string_inj; eauto.
      + exfalso. pose proof (plain_last_hex (SObj s) eq_refl Ha) as P. cbn [render] in P.
        rewrite E in P. change (mark_last (render d w y)) with (render d w (SDel y)) in P.
        rewrite (del_last_not_hex y Hb) in P. discriminate.
    - destruct b as [s'|s'|s'|hp' doc'|y]; cbn [render] in E; try discriminate.
      + inversion E as [E1]. f_equal. eapply shard_string_inj; eauto.
      + exfalso. pose proof (plain_last_hex (SPidRef s) eq_refl Ha) as P. cbn [render] in P.
        rewrite E in P. change (mark_last (render d w y)) with (render d w (SDel y)) in P.
        rewrite (del_last_not_hex y Hb) in P. discriminate.
    - destruct b as [s'|s'|s'|hp' doc'|y]; cbn [render] in E; try discriminate.
      + inversion E as [E1]. f_equal. eapply shard_string_inj; eauto.
      + exfalso. pose proof (plain_last_hex (SCidRef s) eq_refl Ha) as P. cbn [render] in P.
        rewrite E in P. change (mark_last (render d w y)) with (render d w (SDel y)) in P.
        rewrite (del_last_not_hex y Hb) in P. discriminate.
    - destruct b as [s'|s'|s'|hp' doc'|y]; cbn [render] in E; try discriminate.
      + inversion E as [E1]. apply app_inj_tail in E1. destruct E1 as [E1 E2]. subst.
        f_equal. eapply shard_string_inj; eauto.
      + exfalso. pose proof (plain_last_hex (SMeta hp doc) eq_refl Ha) as P. cbn [render] in P.
        rewrite E in P. change (mark_last (render d w y)) with (render d w (SDel y)) in P.
        rewrite (del_last_not_hex y Hb) in P. discriminate.
    - destruct b as [s'|s'|s'|hp' doc'|y].
      + exfalso. pose proof (plain_last_hex (SObj s') eq_refl Hb) as P.
        rewrite <- E, (del_last_not_hex x Ha) in P. discriminate.
      + exfalso. pose proof (plain_last_hex (SPidRef s') eq_refl Hb) as P.
        rewrite <- E, (del_last_not_hex x Ha) in P. discriminate.
      + exfalso. pose proof (plain_last_hex (SCidRef s') eq_refl Hb) as P.
        rewrite <- E, (del_last_not_hex x Ha) in P. discriminate.
      + exfalso. pose proof (plain_last_hex (SMeta hp' doc') eq_refl Hb) as P.
        rewrite <- E, (del_last_not_hex x Ha) in P. discriminate.
      + cbn [render] in E. apply mark_last_inj in E. f_equal. apply IH; auto.
  Qed.

  (* ---------- (3) prefix-freeness ---------- *)

  (* no rendered path is a proper prefix of another: a file is never a directory on the way to
     another file (whatever the digest lengths, as long as they can be sharded) *)
  Theorem render_prefix_free : forall a b l, wf d w a -> wf d w b ->
    render d w a = (render d w b ++ l)%list -> l = [] /\ a = b.
  Proof.
    intros a b l Ha Hb E.
    assert (Ht : tree_of a = tree_of b).
    { apply tree_name_inj. rewrite <- (render_first_component a Ha), <- (render_first_component b Hb), E.
      pose proof (render_length_ge2 b Hb) as L. destruct (render d w b); simpl in *; [lia | reflexivity]. }
    assert (Hl : l = []).
    { apply (f_equal (@List.length string)) in E. rewrite app_length, (render_length a Ha), (render_length b Hb), Ht in E.
      destruct l; auto. simpl in E. lia. }
    split; auto. subst l. rewrite app_nil_r in E. apply render_injective; auto.
  Qed.
End Layout.

(* ---------- examples (depth 3, width 2, as in the default configuration) ---------- *)

Definition ex_cid : string := "0d555ed77052d7e166017f779cbc193357c3a5006ee8b8457230bcf7abcef65e".
Definition ex_hp : string := "a8241925740d5dcd719596639e780e0a090c9d55a5d0372b0eaf55ed711d4edf".
Definition ex_doc : string := "ddf07952ef28efc099d10d8b682480f7d2da60015f5d8873b6e1ea75b4baf689".

Example render_ex_obj :
  render_string 3 2 (SObj ex_cid)
  = "objects/0d/55/5e/d77052d7e166017f779cbc193357c3a5006ee8b8457230bcf7abcef65e".
Proof. vm_compute. reflexivity. Qed.

Example render_ex_pidref :
  render_string 3 2 (SPidRef ex_hp)
  = "refs/pids/a8/24/19/25740d5dcd719596639e780e0a090c9d55a5d0372b0eaf55ed711d4edf".
Proof. vm_compute. reflexivity. Qed.

Example render_ex_cidref :
  render_string 3 2 (SCidRef ex_cid)
  = "refs/cids/0d/55/5e/d77052d7e166017f779cbc193357c3a5006ee8b8457230bcf7abcef65e".
Proof. vm_compute. reflexivity. Qed.

Example render_ex_meta :
  render_string 3 2 (SMeta ex_hp ex_doc)
  = "metadata/a8/24/19/25740d5dcd719596639e780e0a090c9d55a5d0372b0eaf55ed711d4edf/ddf07952ef28efc099d10d8b682480f7d2da60015f5d8873b6e1ea75b4baf689".
Proof. vm_compute. reflexivity. Qed.

Example render_ex_del :
  render_string 3 2 (SDel (SCidRef ex_cid))
  = "refs/cids/0d/55/5e/d77052d7e166017f779cbc193357c3a5006ee8b8457230bcf7abcef65e_delete".
Proof. vm_compute. reflexivity. Qed.

Example render_ex_del_del :
  render 3 2 (SDel (SDel (SObj "0d555ed7")))
  = ["objects"; "0d"; "55"; "5e"; "d7_delete_delete"].
Proof. vm_compute. reflexivity. Qed.

Example render_ex_wf :
  wf 3 2 (SObj ex_cid) /\ wf 3 2 (SPidRef ex_hp) /\ wf 3 2 (SMeta ex_hp ex_doc) /\
  wf 3 2 (SDel (SCidRef ex_cid)).
Proof. vm_compute. repeat split; auto; lia. Qed.
