(* IndepMeta.v — independence with PER-DOCUMENT footprints for the single-format metadata calls
   (properties C11 / C12 beyond the menus).  Extends Indep.v, which is used unchanged.

   Indep.v gives every call with a pid the whole metadata directory of that pid, so two metadata
   calls on the same pid count as dependent.  Here the footprint of a call is

     - a DOCUMENT footprint for store_metadata p f, retrieve_metadata p f, delete_metadata p (Some f):
       AMeta p f, its deletion markers, the thread's own temp files, the lock (LMeta, IDoc (AMeta p f));
     - an OBJECT footprint for store_object, tag_object, delete_if_invalid_object, retrieve_object,
       get_hex_digest: the pid reference, the cids (named, and bound in the start state) with their
       object and cid-list files and locks, the temp files, and ONE metadata document: AMeta p 0,
       the system-metadata document that _find_object probes (its answer is discarded, but the
       simulation is answer-exact, so a WRITE to (p, 0) is not treated as independent of an
       object call on the same pid p; any other (pid, format) is);
     - the WHOLE-PID footprint of Indep.v for delete_object p and delete_metadata p None, which
       list the directory of p.

   [gindep w0 calls]: pairwise, the pids whose references are used differ, the cid sets are
   disjoint, the metadata sets are disjoint ([gindepb] decides it).  Theorems: [gindep_calls],
   [gindep_linearizable] — the statements of Indep.indep_calls / indep_linearizable with these
   finer footprints — and the C11 isolation corollary [meta_isolation]. *)
From HS Require Import Base PyVal FS Ops Sched Spec SeqLemmas Bracket SchedCV Mutex Indep.

Set Implicit Arguments.

(* ====================================================================================== *)
(* §1  footprints with a metadata set                                                      *)
(* ====================================================================================== *)

(* thread t, reference pid po, metadata documents mf, cids cs *)
Fixpoint gF (t : nat) (po : option pid) (mf : pid -> fmt -> bool) (cs : list cid) (a : addr) : bool :=
  match a with
  | AObj c | ACidRef c => cid_in cs c
  | APidRef p => pid_in po p
  | AMeta p f => mf p f
  | ATmp _ t' _ => Nat.eqb t' t
  | ADel x => gF t po mf cs x
  end.

Definition gL (t : nat) (po : option pid) (mf : pid -> fmt -> bool) (cs : list cid) (l : lock) : bool :=
  match l with
  | (LObjPid, IPid p) | (LRefPid, IPid p) => pid_in po p
  | (LCid, ICid c) => cid_in cs c
  | (LMeta, IDoc a) | (LFile, IDoc a) => gF t po mf cs a
  | _ => false
  end.

Lemma owned_gF : forall t po mf cs p a,
  (forall f, mf p f = true) -> owned_by p a = true -> gF t po mf cs a = true.
Proof.
  intros t po mf cs p a Hp. unfold owned_by. induction a; simpl; intros H; try discriminate; auto.
  apply Nat.eqb_eq in H. subst. apply Hp.
Qed.

(* ====================================================================================== *)
(* §2  every API program is local to such a footprint (the proofs of Indep.v, re-run)        *)
(* ====================================================================================== *)

Section APILocalG.
  Variable t : nat.
  Variable po : option pid.
  Variable cs : list cid.
  Variable mf : pid -> fmt -> bool.

  Notation F := (gF t po mf cs).
  Notation Lk := (gL t po mf cs).
  Notation csb := (cid_in cs).
  Notation LBf := (@LB t F Lk csb _).
  Notation okc := (cok csb).

  Definition Fl (l : list addr) : Prop := Forall (fun a => F a = true) l.
  Definition Fa (a : addr) : Prop := F a = true.
  Definition Cin (c : cid) : Prop := csb c = true.
  (* the pid reference of p and the system-metadata document probed by find_object *)
  Definition Rp (p : pid) : Prop := pid_in po p = true /\ mf p sysmeta_fmt = true.
  (* the whole metadata directory of p *)
  Definition Dp (p : pid) : Prop := forall f, mf p f = true.
  (* one document *)
  Definition Mp (p : pid) (f : fmt) : Prop := mf p f = true.

  Lemma okc_cid : forall c, csb c = true -> okc (CCid c).
  Proof. intros c H x E. inversion E; subst. exact H. Qed.

  Ltac loc :=
    unfold Rp, Dp, Mp in *;
    repeat match goal with H : _ /\ _ |- _ => destruct H end;
    repeat match goal with
           | |- _ /\ _ => split
           | |- True => exact I
           | |- forall _, _ => intro
           | |- okc (CCid _) => apply okc_cid
           | |- okc _ => let x := fresh in let E := fresh in intros x E; discriminate
           | |- Fa _ => unfold Fa
           | |- Cin _ => unfold Cin
           end;
    simpl; rewrite ?Nat.eqb_refl; auto;
    try match goal with H : Fa _ |- _ => exact H end;
    try match goal with H : Cin _ |- _ => exact H end;
    try assumption;
    try match goal with H : forall f, mf _ f = true |- _ => apply H end.

  Ltac leafl := let a := fresh "a" in let Ha := fresh "Ha" in
    intros a Ha; destruct a; simpl in Ha;
    first [apply LB_bad | apply LB_raise | (apply LB_ret; first [exact I | exact Ha | assumption | loc])].

  Lemma LB_probe : forall a, F a = true -> LBf (probe a) TT.
  Proof. intros. apply LB_vis; [exact H | leafl]. Qed.
  Lemma LB_peek : forall cls x, Lk (cls, x) = true -> LBf (peek cls x) TT.
  Proof. intros. apply LB_vis; [exact H | leafl]. Qed.
  Lemma LB_held : forall cls x, Lk (cls, x) = true -> LBf (Ops.held cls x) TT.
  Proof. intros. apply LB_vis; [exact H | leafl]. Qed.
  Lemma LB_acquire : forall cls x, Lk (cls, x) = true -> LBf (acquire cls x) TT.
  Proof. intros. apply LB_vis; [exact H | leafl]. Qed.
  Lemma LB_release : forall cls x, Lk (cls, x) = true -> LBf (release cls x) TT.
  Proof. intros. apply LB_vis; [exact H | leafl]. Qed.
  Lemma LB_funlock : forall a, F a = true -> LBf (funlock a) TT.
  Proof. intros. apply LB_vis; [exact H | leafl]. Qed.
  Lemma LB_read : forall a, F a = true -> LBf (read a) okc.
  Proof. intros. apply LB_vis; [exact H | leafl]. Qed.
  Lemma LB_size_lines : forall a, F a = true -> LBf (size_lines a) TT.
  Proof. intros. apply LB_vis; [exact H | leafl]. Qed.
  Lemma LB_rewrite_write : forall a p, F a = true -> LBf (rewrite_write a p) TT.
  Proof. intros. apply LB_vis; [exact H | leafl]. Qed.
  Lemma LB_listdir : forall p, Dp p -> LBf (listdir p) Fl.
  Proof.
    intros p Hp. apply LB_vis; [intros a Ha; eapply owned_gF; eauto|].
    intros a Ha; destruct a; simpl in Ha; first [apply LB_bad | apply LB_raise | idtac].
    apply LB_ret. unfold Fl. eapply Forall_impl; [|exact Ha]. intros x Hx. eapply owned_gF; eauto.
  Qed.
  Lemma LB_unit_op : forall o, op_local t F Lk okc o -> LBf (unit_op o) TT.
  Proof. intros. apply LB_vis; [exact H | leafl]. Qed.
  Lemma LB_swallow_op : forall o, op_local t F Lk okc o -> LBf (swallow_op o) TT.
  Proof. intros. apply LB_vis; [exact H | leafl]. Qed.

  Lemma LB_mktmp_bind : forall A ar init (f : addr -> M A) P,
    okc init -> (forall n, LBf (f (ATmp ar t n)) P) -> LBf (mbind (mktmp ar init) f) P.
  Proof.
    intros A ar init f P Hi H. unfold LB, mbind. apply Lc_bind. simpl. split.
    - split; auto. intros n. rewrite Nat.eqb_refl. reflexivity.
    - intros a Ha. destruct a; simpl in *; auto; try (intros ? E; discriminate).
      destruct Ha as [n ->]. apply H.
  Qed.

  Hint Resolve LB_probe LB_peek LB_held LB_acquire LB_release LB_funlock LB_read LB_size_lines
    LB_rewrite_write LB_listdir : lb.
  Hint Extern 1 (gF _ _ _ _ _ = true) => loc : lb.
  Hint Extern 1 (gL _ _ _ _ _ = true) => loc : lb.
  Hint Extern 1 (mf _ _ = true) => loc : lb.
  Hint Extern 1 (Fa _) => loc : lb.
  Hint Extern 1 (Cin _) => loc : lb.
  Hint Extern 1 (Rp _) => (assumption || (unfold Rp in *; tauto)) : lb.
  Hint Extern 1 (Dp _) => (assumption || (unfold Rp, Dp in *; tauto)) : lb.
  Hint Extern 1 (Mp _ _) => (assumption || loc) : lb.
  Hint Extern 1 (pid_in _ _ = true) => loc : lb.
  Hint Extern 1 (cid_in _ _ = true) => loc : lb.
  Hint Extern 1 (Fl _) => (unfold Fl; repeat constructor; loc) : lb.

  Ltac op_sidel := first [apply LB_unit_op | apply LB_swallow_op]; loc.

  Ltac lb :=
    lazymatch goal with
    | |- LB _ _ _ _ (ret _) _ =>
        apply LB_ret; first [exact I | solve [unfold Fl; repeat constructor; loc] | loc]
    | |- LB _ _ _ _ (raise _) _ => apply LB_raise
    | |- LB _ _ _ _ Bad _ => apply LB_bad
    | |- LB _ _ _ _ (if ?b then _ else _) _ => destruct b; lb
    | |- LB _ _ _ _ (match ?x with _ => _ end) _ => destruct x; lb
    | |- LB _ _ _ _ (mbind _ _) _ =>
        first [ eapply LB_mbind; [solve [eauto 4 with lb] | intros ? ?; lb]
              | eapply LB_mbind with (P1 := Fl); [solve [lb] | intros ? ?; lb]
              | eapply LB_mbind with (P1 := TT); [lb | intros ? ?; lb] ]
    | |- LB _ _ _ _ (catch _) _ => apply LB_catch_TT; lb
    | |- LB _ _ _ _ (try_finally _ _) _ => eapply LB_try_finally; lb
    | |- LB _ _ _ _ (unit_op _) _ => first [solve [op_sidel] | idtac]
    | |- LB _ _ _ _ (swallow_op _) _ => first [solve [op_sidel] | idtac]
    | |- _ => first [solve [eauto 4 with lb] | solve [eapply LB_TT; eauto 4 with lb] | idtac]
    end.

  Lemma LB_read_cid : forall a, F a = true -> LBf (read_cid a) Cin.
  Proof.
    intros. unfold read_cid. eapply LB_mbind; [apply LB_read; exact H|].
    intros c Hc. destruct c; try apply LB_bad. apply LB_ret. apply Hc. reflexivity.
  Qed.
  Lemma LB_read_lines : forall a, F a = true -> LBf (read_lines a) TT.
  Proof. intros. unfold read_lines. lb. Qed.
  Hint Resolve LB_read_cid LB_read_lines : lb.
  Lemma LB_is_in_refs : forall p a, F a = true -> LBf (is_in_refs p a) TT.
  Proof. intros. unfold is_in_refs. lb. Qed.
  Hint Resolve LB_is_in_refs : lb.

  Lemma LB_find_object : forall p, Rp p -> LBf (find_object p) Cin.
  Proof.
    intros p Hp. unfold find_object.
    eapply LB_mbind with (P1 := TT); [lb|]. intros b _. destruct b; simpl; [|lb].
    eapply LB_mbind; [apply LB_read_cid; loc|]. intros c Hc. lb.
  Qed.
  Hint Resolve LB_find_object : lb.

  Lemma LB_open_object : forall c, Cin c -> LBf (open_object c) TT.
  Proof. intros. unfold open_object. lb. Qed.
  Hint Resolve LB_open_object : lb.
  Lemma LB_retrieve_object : forall p, Rp p -> LBf (retrieve_object p) TT.
  Proof. intros. unfold retrieve_object. lb. Qed.
  Lemma LB_get_hex_digest : forall p, Rp p -> LBf (get_hex_digest p) TT.
  Proof. intros. unfold get_hex_digest. lb. Qed.
  Hint Resolve LB_retrieve_object LB_get_hex_digest : lb.

  Lemma LB_rename_for_deletion : forall a, Fa a -> LBf (rename_for_deletion a) Fa.
  Proof. intros. unfold rename_for_deletion. lb. Qed.
  Hint Resolve LB_rename_for_deletion : lb.

  Lemma LB_delete_marked : forall l, Fl l -> LBf (delete_marked l) TT.
  Proof.
    induction l as [|a l IH]; intros Hl; simpl.
    - lb.
    - inversion Hl; subst. eapply LB_mbind with (P1 := TT); [op_sidel|]. intros ? ?. apply IH. assumption.
  Qed.
  Hint Resolve LB_delete_marked : lb.

  Lemma LB_update_refs_remove : forall c p, Cin c -> LBf (update_refs_remove (ACidRef c) p) TT.
  Proof. intros. unfold update_refs_remove. lb. Qed.
  Lemma LB_update_refs_add : forall c p, Cin c -> LBf (update_refs_add (ACidRef c) p) TT.
  Proof. intros. unfold update_refs_add. lb. Qed.
  Hint Resolve LB_update_refs_remove LB_update_refs_add : lb.

  Lemma LB_verify_refs : forall p c, Rp p -> Cin c -> LBf (verify_refs p c) TT.
  Proof. intros. unfold verify_refs. lb. Qed.
  Lemma LB_validate : forall c c', Cin c -> LBf (validate_and_check_cid_lock c c') TT.
  Proof. intros. unfold validate_and_check_cid_lock. lb. Qed.
  Hint Resolve LB_verify_refs LB_validate : lb.

  Lemma LB_mark_pid_refs : forall p, Rp p -> LBf (mark_pid_refs p) Fl.
  Proof.
    intros. unfold mark_pid_refs.
    eapply LB_mbind; [apply LB_catch; apply LB_rename_for_deletion; loc|].
    intros [d|e] Hd; apply LB_ret; unfold Fl; auto.
  Qed.

  Lemma LB_remove_pid_and_handle_cid : forall p c, Cin c -> LBf (remove_pid_and_handle_cid p c) Fl.
  Proof.
    intros. unfold remove_pid_and_handle_cid.
    eapply LB_mbind with (P1 := fun r => match r with Val l => Fl l | Exn _ => True end).
    - apply LB_catch. lb.
    - intros [l|e] Hl; apply LB_ret; unfold Fl; auto.
  Qed.
  Hint Resolve LB_mark_pid_refs LB_remove_pid_and_handle_cid : lb.

  Lemma Fl_app : forall l1 l2, Fl l1 -> Fl l2 -> Fl (l1 ++ l2).
  Proof. intros. apply Forall_app. split; assumption. Qed.
  Hint Resolve Fl_app : lb.

  Lemma LB_untag_object : forall p c, Rp p -> Cin c -> LBf (untag_object p c) TT.
  Proof. intros. unfold untag_object. lb. Qed.
  Hint Resolve LB_untag_object : lb.

  Lemma LB_write_refs_tmp : forall content, okc content -> LBf (write_refs_tmp content) Fa.
  Proof.
    intros. unfold write_refs_tmp. apply LB_mktmp_bind; [loc|]. intros n.
    eapply LB_mbind with (P1 := TT); [op_sidel|]. intros ? ?. lb.
  Qed.
  Hint Resolve LB_write_refs_tmp : lb.
  Hint Extern 1 (cok _ _) => loc : lb.

  Lemma LB_store_refs_body : forall p c, Rp p -> Cin c -> LBf (store_refs_body p c) TT.
  Proof. intros. unfold store_refs_body, and_sc, notm. lb. Qed.
  Hint Resolve LB_store_refs_body : lb.

  Lemma LB_tag_object : forall p c, Rp p -> Cin c -> LBf (tag_object p c) TT.
  Proof. intros. unfold tag_object. lb. Qed.
  Hint Resolve LB_tag_object : lb.

  Lemma LB_write_chunks : forall a n, Fa a -> LBf (write_chunks a n) TT.
  Proof.
    induction n as [|n IH]; intros Ha; simpl.
    - lb.
    - eapply LB_mbind with (P1 := TT); [op_sidel|]. intros ? ?. apply IH. assumption.
  Qed.
  Lemma LB_open_source : forall s, LBf (open_source s) TT.
  Proof. intros. unfold open_source. lb. Qed.
  Lemma LB_delete_object_file : forall c, Cin c -> LBf (delete_object_file c) TT.
  Proof. intros. unfold delete_object_file. lb. Qed.
  Lemma LB_verify_object : forall g a sz ck, Fa a -> LBf (verify_object g a sz ck) TT.
  Proof. intros. unfold verify_object. lb. Qed.
  Hint Resolve LB_write_chunks LB_open_source LB_delete_object_file LB_verify_object : lb.

  Lemma LB_move_and_get_checksums : forall p b n sz ck,
    (forall q, p = Some q -> Rp q) -> Cin b ->
    LBf (move_and_get_checksums p b n sz ck) Cin.
  Proof.
    intros p b n sz ck Hp Hb. unfold move_and_get_checksums. apply LB_mktmp_bind; [loc|]. intros n0.
    assert (Ht : Fa (ATmp ArObj t n0)) by loc.
    destruct p as [q|]; [specialize (Hp q eq_refl)|]; lb.
  Qed.
  Hint Resolve LB_move_and_get_checksums : lb.

  Lemma LB_store_object : forall p s b n sz ck,
    (forall q, p = Some q -> Rp q) -> Cin b ->
    LBf (store_object p s b n sz ck) TT.
  Proof.
    intros p s b n sz ck Hp Hb. unfold store_object.
    destruct p as [q|]; [specialize (Hp q eq_refl)|].
    - eapply LB_mbind with (P1 := TT); [lb|]. intros busy _. destruct busy; [lb|].
      eapply LB_try_finally; [|lb].
      eapply LB_mbind with (P1 := TT); [lb|]. intros _ _.
      eapply LB_mbind with (P1 := TT); [lb|]. intros _ _.
      eapply LB_mbind; [apply LB_move_and_get_checksums; [intros q' E; inversion E; subst; exact Hp | exact Hb]|].
      intros c Hc. lb.
    - eapply LB_mbind with (P1 := TT); [lb|]. intros _ _.
      eapply LB_mbind; [apply LB_move_and_get_checksums; [intros q' E; discriminate | exact Hb]|].
      intros c Hc. lb.
  Qed.

  Lemma LB_probe_all : forall l, Fl l -> LBf (probe_all l) Fl.
  Proof.
    induction l as [|a l IH]; intros Hl; simpl.
    - lb.
    - inversion Hl; subst.
      eapply LB_mbind; [apply LB_probe; assumption|]. intros b _.
      eapply LB_mbind; [apply IH; assumption|]. intros r Hr.
      apply LB_ret. destruct b; unfold Fl; auto.
  Qed.
  Hint Resolve LB_probe_all : lb.

  Lemma LB_mark_one : forall a, Fa a ->
    LBf (r <- catch (rename_for_deletion a) ;;
         match r with
         | Val d => ret [d]
         | Exn EFileNotFound => ret []
         | Exn e => raise e
         end) Fl.
  Proof.
    intros a Ha.
    eapply LB_mbind; [apply LB_catch; apply LB_rename_for_deletion; exact Ha|].
    intros [d|e] Hd; [apply LB_ret; unfold Fl; auto | destruct e; lb].
  Qed.

  Lemma LB_mark_docs : forall l, Fl l -> LBf (mark_docs l) Fl.
  Proof.
    induction l as [|a l IH]; intros Hl; simpl.
    - lb.
    - inversion Hl; subst.
      eapply LB_mbind with (P1 := TT); [lb|]. intros _ _.
      eapply LB_mbind with (P1 := Fl).
      + eapply LB_try_finally; [|lb].
        eapply LB_mbind with (P1 := TT); [lb|]. intros b _.
        destruct b; [apply LB_mark_one; assumption | lb].
      + intros d Hd. eapply LB_mbind; [apply IH; assumption|]. intros r Hr.
        apply LB_ret. apply Fl_app; assumption.
  Qed.
  Hint Resolve LB_mark_docs : lb.

  Lemma LB_delete_metadata : forall p f,
    match f with None => Dp p | Some g => Mp p g end -> LBf (delete_metadata p f) TT.
  Proof. intros p f H. unfold delete_metadata. destruct f; lb. Qed.

  Lemma LB_delete_metadata_all : forall p, Dp p -> LBf (delete_metadata p None) TT.
  Proof. intros p H. apply (LB_delete_metadata p None). exact H. Qed.
  Hint Resolve LB_delete_metadata_all : lb.
  Hint Resolve LB_delete_metadata : lb.

  Lemma LB_delete_object : forall p, Rp p -> Dp p -> LBf (delete_object p) TT.
  Proof.
    intros p Hp Hd. unfold delete_object. eapply LB_try_finally; [|lb].
    eapply LB_mbind with (P1 := TT); [lb|]. intros _ _.
    eapply LB_mbind with (P1 := TT); [lb|]. intros _ _.
    eapply LB_mbind; [apply LB_catch; apply LB_find_object; exact Hp|].
    intros [c|e] Hc; [|destruct e]; lb.
  Qed.

  Lemma LB_delete_object_unfixed : forall p, Rp p -> Dp p -> LBf (delete_object_unfixed p) TT.
  Proof.
    intros p Hp Hd. unfold delete_object_unfixed. eapply LB_try_finally; [|lb].
    eapply LB_mbind with (P1 := TT); [lb|]. intros _ _.
    eapply LB_mbind; [apply LB_catch; apply LB_find_object; exact Hp|].
    intros [c|e] Hc; [|destruct e]; lb.
  Qed.

  Lemma LB_store_metadata : forall p f s v n, Mp p f -> LBf (store_metadata p f s v n) TT.
  Proof.
    intros p f s v n Hp. unfold store_metadata.
    eapply LB_mbind with (P1 := TT); [lb|]. intros _ _.
    eapply LB_try_finally; [|lb].
    eapply LB_mbind with (P1 := TT); [lb|]. intros _ _.
    apply LB_mktmp_bind; [loc|]. intros n0.
    assert (Ht : Fa (ATmp ArMeta t n0)) by loc. lb.
  Qed.

  Lemma LB_retrieve_metadata : forall p f, Mp p f -> LBf (retrieve_metadata p f) TT.
  Proof. intros. unfold retrieve_metadata. lb. Qed.
  Lemma LB_delete_object_only : forall c, Cin c -> LBf (delete_object_only c) TT.
  Proof. intros. unfold delete_object_only. lb. Qed.
  Hint Resolve LB_delete_object_only : lb.
  Lemma LB_delete_if_invalid : forall c sz pre ok, Cin c -> LBf (delete_if_invalid c sz pre ok) TT.
  Proof. intros. unfold delete_if_invalid. lb. Qed.
  Hint Resolve LB_store_object LB_delete_object LB_delete_object_unfixed LB_store_metadata
    LB_retrieve_metadata LB_delete_if_invalid : lb.
End APILocalG.

(* ====================================================================================== *)
(* §3  the footprint of a call                                                             *)
(* ====================================================================================== *)

(* a set of metadata documents: none, the whole directory of a pid, or one document *)
Inductive mset := MNone | MAll (p : pid) | MOne (p : pid) (f : fmt).

Definition msin (m : mset) (p : pid) (f : fmt) : bool :=
  match m with
  | MNone => false
  | MAll q => Nat.eqb p q
  | MOne q g => Nat.eqb p q && Nat.eqb f g
  end.

(* the pid whose reference file (and pid locks) the call uses *)
Definition ref_pid (c : call) : option pid :=
  match c with
  | CStore p _ _ _ _ _ => p
  | CTag p _ | CDelete p | CRetrieve p | CGetHex p | CDeleteUnfixed p => Some p
  | _ => None
  end.

(* the metadata documents the call may touch *)
Definition meta_of (c : call) : mset :=
  match c with
  | CStore (Some p) _ _ _ _ _ | CTag p _ | CRetrieve p | CGetHex p => MOne p sysmeta_fmt
  | CDelete p | CDelMeta p None | CDeleteUnfixed p => MAll p
  | CStoreMeta p f _ _ _ | CRetrMeta p f | CDelMeta p (Some f) => MOne p f
  | _ => MNone
  end.

Definition gcids (w0 : world) (c : call) : list cid := call_cids c ++ bound w0 (ref_pid c).

Definition gfp_addr (w0 : world) (calls : list call) (i : nat) : addr -> bool :=
  gF i (ref_pid (callat calls i)) (msin (meta_of (callat calls i))) (gcids w0 (callat calls i)).
Definition gfp_lock (w0 : world) (calls : list call) (i : nat) : lock -> bool :=
  gL i (ref_pid (callat calls i)) (msin (meta_of (callat calls i))) (gcids w0 (callat calls i)).

Theorem api_glocal : forall t c cs,
  (forall x, In x (call_cids c) -> cid_in cs x = true) ->
  Lc t (gF t (ref_pid c) (msin (meta_of c)) cs) (gL t (ref_pid c) (msin (meta_of c)) cs)
     (cid_in cs) (api c) (fun _ => True).
Proof.
  intros t c cs Hc.
  assert (H : LB t (gF t (ref_pid c) (msin (meta_of c)) cs) (gL t (ref_pid c) (msin (meta_of c)) cs)
                 (cid_in cs) (api c) TT).
  { assert (Hrp : forall p f, Rp (Some p) (msin (MOne p sysmeta_fmt)) p /\ Rp (Some p) (msin (MAll p)) p /\
                              Dp (msin (MAll p)) p /\ Mp (msin (MOne p f)) p f).
    { intros p f. unfold Rp, Dp, Mp. simpl. rewrite !Nat.eqb_refl. simpl. auto. }
    destruct c; simpl in Hc; unfold api, lift_unit; simpl ref_pid; simpl meta_of;
      try (eapply LB_mbind with (P1 := TT); [|intros ? ?; apply LB_ret; exact I]).
    - destruct p as [p|].
      + apply LB_store_object; [intros q E; inversion E; subst; apply (Hrp q 0) | apply Hc; left; reflexivity].
      + apply LB_store_object; [intros q E; discriminate | apply Hc; left; reflexivity].
    - apply LB_tag_object; [apply (Hrp p 0) | apply Hc; left; reflexivity].
    - apply LB_delete_object; apply (Hrp p 0).
    - apply LB_delete_if_invalid. apply Hc. left. reflexivity.
    - apply LB_store_metadata. apply (Hrp p f).
    - apply LB_retrieve_metadata. apply (Hrp p f).
    - destruct f as [f|]; apply LB_delete_metadata; [apply (Hrp p f) | apply (Hrp p 0)].
    - apply LB_retrieve_object. apply (Hrp p 0).
    - apply LB_get_hex_digest. apply (Hrp p 0).
    - apply LB_raise.
    - apply LB_delete_object_unfixed; apply (Hrp p 0). }
  eapply Lc_mono; [exact H|]. auto.
Qed.

Lemma api_glocal_fp : forall w0 calls i,
  Lc i (gfp_addr w0 calls i) (gfp_lock w0 calls i) (cid_in (gcids w0 (callat calls i)))
     (api (callat calls i)) (fun _ => True).
Proof.
  intros. unfold gfp_addr, gfp_lock. apply api_glocal.
  intros x H. apply cid_in_In. unfold gcids. apply in_or_app. left. exact H.
Qed.

(* two calls are independent: the reference pids differ, the cid sets and the metadata sets are
   disjoint *)
Definition gdisj (w0 : world) (c c' : call) : Prop :=
  (forall p, ref_pid c = Some p -> ref_pid c' <> Some p) /\
  (forall x, In x (gcids w0 c) -> ~ In x (gcids w0 c')) /\
  (forall p f, msin (meta_of c) p f = true -> msin (meta_of c') p f = false).

Definition gindep (w0 : world) (calls : list call) : Prop :=
  forall i j, i <> j -> gdisj w0 (callat calls i) (callat calls j).

Lemma gF_disj : forall i j po mf cs po' mf' cs' a, i <> j ->
  (forall p, po = Some p -> po' <> Some p) -> (forall x, In x cs -> ~ In x cs') ->
  (forall p f, mf p f = true -> mf' p f = false) ->
  gF i po mf cs a = true -> gF j po' mf' cs' a = false.
Proof.
  intros i j po mf cs po' mf' cs' a Hij Hp Hc Hm. induction a; simpl; intros H; auto.
  - apply cid_in_In in H. destruct (cid_in cs' c) eqn:E; auto. apply cid_in_In in E. exfalso. eapply Hc; eauto.
  - apply pid_in_Some in H. destruct (pid_in po' p) eqn:E; auto. apply pid_in_Some in E. exfalso. eapply Hp; eauto.
  - apply cid_in_In in H. destruct (cid_in cs' c) eqn:E; auto. apply cid_in_In in E. exfalso. eapply Hc; eauto.
  - apply Nat.eqb_eq in H. subst. apply Nat.eqb_neq. auto.
Qed.

Lemma gL_disj : forall i j po mf cs po' mf' cs' l, i <> j ->
  (forall p, po = Some p -> po' <> Some p) -> (forall x, In x cs -> ~ In x cs') ->
  (forall p f, mf p f = true -> mf' p f = false) ->
  gL i po mf cs l = true -> gL j po' mf' cs' l = false.
Proof.
  intros i j po mf cs po' mf' cs' [cls x] Hij Hp Hc Hm H.
  destruct cls, x; simpl in *; auto; try discriminate;
    try (eapply gF_disj; eauto).
  - apply pid_in_Some in H. destruct (pid_in po' p) eqn:E; auto. apply pid_in_Some in E. exfalso. eapply Hp; eauto.
  - apply pid_in_Some in H. destruct (pid_in po' p) eqn:E; auto. apply pid_in_Some in E. exfalso. eapply Hp; eauto.
  - apply cid_in_In in H. destruct (cid_in cs' c) eqn:E; auto. apply cid_in_In in E. exfalso. eapply Hc; eauto.
Qed.

Lemma gfp_addr_disj : forall w0 calls, gindep w0 calls ->
  forall i j a, i <> j -> gfp_addr w0 calls i a = true -> gfp_addr w0 calls j a = false.
Proof.
  intros w0 calls Hind i j a Hij. destruct (Hind i j Hij) as (H1 & H2 & H3).
  unfold gfp_addr. eapply gF_disj; eauto.
Qed.

Lemma gfp_lock_disj : forall w0 calls, gindep w0 calls ->
  forall i j l, i <> j -> gfp_lock w0 calls i l = true -> gfp_lock w0 calls j l = false.
Proof.
  intros w0 calls Hind i j l Hij. destruct (Hind i j Hij) as (H1 & H2 & H3).
  unfold gfp_lock. eapply gL_disj; eauto.
Qed.

Lemma Wf_gstart : forall w0 calls i, Spec.Inv w0 ->
  Wf (gfp_addr w0 calls i) (cid_in (gcids w0 (callat calls i))) (fs w0).
Proof.
  intros w0 calls i [HI _] a x Ha Hl. apply InvF_wt in HI.
  assert (Hwt := HI a (CCid x) Hl). unfold gfp_addr in Ha.
  destruct a; simpl in Hwt.
  - destruct Hwt as [n E]; discriminate.
  - simpl in Ha. apply pid_in_Some in Ha. apply cid_in_In. unfold gcids. apply in_or_app. right.
    rewrite Ha. simpl. rewrite Hl. left. reflexivity.
  - destruct Hwt as [l E]; discriminate.
  - destruct Hwt as (v & n & E); discriminate.
  - contradiction.
  - contradiction.
Qed.

(* ====================================================================================== *)
(* §4  the theorems (the proofs of Indep.indep_calls / indep_linearizable, re-run)           *)
(* ====================================================================================== *)

Theorem gindep_calls : forall calls w0 sched c,
  Spec.Inv w0 -> fsorted (fs w0) -> gindep w0 calls ->
  exec (map api calls) sched (init_cfg (map api calls) w0) = Some c ->
  stuck (map api calls) c ->
  finished (map api calls) c = true /\ locks (snd c) = [] /\
  (forall i ci, nth_error calls i = Some ci ->
     exists wi ri,
       run_as i w0 (api ci) = Some (wi, ri) /\
       thread_result (map api calls) c i = Some ri /\
       (forall a, gfp_addr w0 calls i a = true -> lookup a (fs (snd c)) = lookup a (fs wi)) /\
       (forall a, gfp_addr w0 calls i a = false -> lookup a (fs wi) = lookup a (fs w0))) /\
  (forall a, (forall i, i < length calls -> gfp_addr w0 calls i a = false) ->
             lookup a (fs (snd c)) = lookup a (fs w0)).
Proof.
  intros calls w0 sched c HI Hs0 Hind He Hst.
  assert (Hdisj : forall i j a, i <> j -> gfp_addr w0 calls i a = true -> gfp_addr w0 calls j a = false).
  { intros i j a Hij. eapply gfp_addr_disj; eauto. }
  assert (Ldisj : forall i j l, i <> j -> gfp_lock w0 calls i l = true -> gfp_lock w0 calls j l = false).
  { intros i j l Hij. eapply gfp_lock_disj; eauto. }
  assert (Hl0 : locks w0 = []) by (destruct HI; auto).
  assert (Hrt0 : refs_typed (fs w0)).
  { apply well_typed_refs_typed. apply InvF_wt. destruct HI; auto. }
  destruct (@indep_pool _ (map api calls) (gfp_addr w0 calls) (gfp_lock w0 calls)
              (fun i => cid_in (gcids w0 (callat calls i))) w0 Hdisj Ldisj) with (sched := sched) (c := c)
    as (F1 & F2 & F3 & F4); auto.
  - intros i p Hp. rewrite (nth_error_callat _ _ Hp). apply api_glocal_fp.
  - apply api_pool_ok.
  - apply api_pool_okc.
  - intros i. apply Wf_gstart. exact HI.
  - split; [exact F1|]. split; [exact F2|]. split.
    + intros i ci Hci.
      assert (Hp : nth_error (map api calls) i = Some (api ci)) by (rewrite nth_error_map, Hci; reflexivity).
      destruct (F3 i _ Hp) as (r & Hr & Hrun).
      assert (Hca : callat calls i = ci) by (unfold callat; apply nth_error_nth; exact Hci).
      pose proof (api_glocal_fp w0 calls i) as Hloc. rewrite Hca in Hloc.
      assert (HW : Wf (gfp_addr w0 calls i) (cid_in (gcids w0 ci)) (fs w0)).
      { rewrite <- Hca. apply Wf_gstart. exact HI. }
      rewrite (@solo_equiv i _ _ _ _ (api ci) w0 _ Hloc HW Hs0) in Hrun.
      destruct (run_as i w0 (api ci)) as [[wi ri]|] eqn:Er; [|discriminate].
      inversion Hrun as [[Hpw Hri]]. subst ri.
      exists wi, r. split; auto. split; auto. split.
      * intros a Ha. unfold pw in Hpw. inversion Hpw as [[Hpf _]].
        rewrite <- (@lookup_proj _ a (fs (snd c)) Ha), <- Hpf, (@lookup_proj _ a (fs wi) Ha). reflexivity.
      * intros a Ha.
        destruct (@solo_keeps i _ _ _ _ (api ci) w0 _ wi r Hloc HW Hs0 Er) as (_ & _ & Hfr).
        specialize (Hfr (fun x => negb (gfp_addr w0 calls i x)) (fun _ => false)).
        assert (Hpw' : pw (fun x => negb (gfp_addr w0 calls i x)) (fun _ => false) wi =
                       pw (fun x => negb (gfp_addr w0 calls i x)) (fun _ => false) w0).
        { apply Hfr; [intros x Hx; rewrite Hx; reflexivity | reflexivity]. }
        unfold pw in Hpw'. inversion Hpw' as [Hpf].
        assert (Hn : negb (gfp_addr w0 calls i a) = true) by (rewrite Ha; reflexivity).
        rewrite <- (@lookup_proj (fun x => negb (gfp_addr w0 calls i x)) a (fs wi) Hn), Hpf.
        apply (@lookup_proj (fun x => negb (gfp_addr w0 calls i x)) a (fs w0) Hn).
    + intros a Ha.
      assert (Ho : Fout (map api calls) (gfp_addr w0 calls) a = true).
      { unfold Fout. apply negb_true_iff. destruct (existsb _ _) eqn:E; auto.
        apply existsb_exists in E. destruct E as (i & Hi & Hai). apply in_seq in Hi.
        rewrite map_length in Hi. rewrite Ha in Hai; [discriminate | lia]. }
      unfold pw in F4. inversion F4 as [Hpf].
      rewrite <- (@lookup_proj _ a (fs (snd c)) Ho), Hpf. apply (@lookup_proj _ a (fs w0) Ho).
Qed.

Section GSeqOrder.
  Variable calls : list call.
  Variable w0 : world.
  Hypothesis HI : Spec.Inv w0.
  Hypothesis Hs0 : fsorted (fs w0).
  Hypothesis Hind : gindep w0 calls.

  Notation Fi i := (gfp_addr w0 calls i).
  Notation Li i := (gfp_lock w0 calls i).
  Notation Ci i := (cid_in (gcids w0 (callat calls i))).


  Lemma gsolo_exists : forall i, exists wi ri, run_as i w0 (api (callat calls i)) = Some (wi, ri).
  Proof.
    intros i.
    destruct (@run_as_total _ i (api (callat calls i)) [] [] w0) as (w' & r & H & _).
    - apply api_bracketed.
    - apply well_typed_refs_typed. apply InvF_wt. destruct HI; auto.
    - apply KInv_nil.
    - apply LInv_empty. destruct HI; auto.
    - eauto.
  Qed.

  Lemma gseq_run_spec : forall ord w,
    NoDup ord -> fsorted (fs w) ->
    (forall j, In j ord -> pw (Fi j) (Li j) w = pw (Fi j) (Li j) w0 /\ Wf (Fi j) (Ci j) (fs w)) ->
    exists w' rs,
      seq_run calls ord w = Some (w', rs) /\
      Forall2 (fun i r => exists wi, run_as i w0 (api (callat calls i)) = Some (wi, r) /\
                                     pw (Fi i) (Li i) w' = pw (Fi i) (Li i) wi) ord rs /\
      (forall (F' : addr -> bool) (Lk' : lock -> bool),
         (forall j x, In j ord -> Fi j x = true -> F' x = false) ->
         (forall j l, In j ord -> Li j l = true -> Lk' l = false) ->
         pw F' Lk' w' = pw F' Lk' w).
  Proof.
    induction ord as [|i ord IH]; intros w Hnd Hs Hinv.
    - exists w, []. simpl. split; auto.
    - inversion Hnd as [|? ? Hni Hnd']; subst.
      destruct (Hinv i (or_introl eq_refl)) as [Hpw HW].
      pose proof (api_glocal_fp w0 calls i) as Hloc.
      destruct (gsolo_exists i) as (wi & ri & Hsolo).
      assert (HW0 : Wf (Fi i) (Ci i) (fs w0)) by (apply Wf_gstart; exact HI).
      pose proof (@solo_equiv i _ _ _ _ (api (callat calls i)) w0 _ Hloc HW0 Hs0) as E0.
      pose proof (@solo_equiv i _ _ _ _ (api (callat calls i)) w _ Hloc HW Hs) as E1.
      rewrite Hsolo in E0. rewrite Hpw, E0 in E1.
      destruct (run_as i w (api (callat calls i))) as [[w1 r1]|] eqn:Er; [|discriminate].
      assert (Hpw1 : pw (Fi i) (Li i) w1 = pw (Fi i) (Li i) wi) by congruence.
      assert (Hr1 : r1 = ri) by congruence. subst r1. clear E1.
      destruct (@solo_keeps i _ _ _ _ (api (callat calls i)) w _ w1 ri Hloc HW Hs Er) as (_ & Hs1 & Hfr1).
      destruct (IH w1 Hnd' Hs1) as (w' & rs & Hrun & Hall & Hfr).
      { intros j Hj. assert (Hji : j <> i) by (intros ->; contradiction).
        destruct (Hinv j (or_intror Hj)) as [Hpj HWj].
        assert (Hfj : pw (Fi j) (Li j) w1 = pw (Fi j) (Li j) w).
        { apply Hfr1; [intros x Hx; eapply (gfp_addr_disj Hind); [|exact Hx]; congruence
                      | intros l Hl; eapply (gfp_lock_disj Hind); [|exact Hl]; congruence]. }
        split; [rewrite Hfj; exact Hpj|].
        eapply Wf_proj_eq; [|exact HWj]. unfold pw in Hfj. inversion Hfj. reflexivity. }
      exists w', (ri :: rs). simpl. rewrite Er, Hrun. split; auto. split.
      + constructor; auto. exists wi. split; auto.
        rewrite <- Hpw1. apply Hfr.
        * intros j x Hj Hx. eapply (gfp_addr_disj Hind); [|exact Hx]. intros ->. contradiction.
        * intros j l Hj Hl. eapply (gfp_lock_disj Hind); [|exact Hl]. intros ->. contradiction.
      + intros F' Lk' HF HL. rewrite (Hfr F' Lk').
        * apply Hfr1; [intros x Hx; eapply HF; [left; reflexivity | exact Hx]
                      | intros l Hl; eapply HL; [left; reflexivity | exact Hl]].
        * intros j x Hj. apply HF. right. exact Hj.
        * intros j l Hj. apply HL. right. exact Hj.
  Qed.
End GSeqOrder.

(* fs_eq: the two file maps have the same content at every address (Spec.fs_eq) *)
Theorem gindep_linearizable : forall calls w0 sched c ord,
  Spec.Inv w0 -> fsorted (fs w0) -> gindep w0 calls ->
  exec (map api calls) sched (init_cfg (map api calls) w0) = Some c ->
  stuck (map api calls) c ->
  NoDup ord -> (forall i, In i ord <-> i < length calls) ->
  exists w' rs,
    seq_run calls ord w0 = Some (w', rs) /\
    fs_eq (fs (snd c)) (fs w') /\
    map (thread_result (map api calls) c) ord = map Some rs.
Proof.
  intros calls w0 sched c ord HI Hs0 Hind He Hst Hnd Hperm.
  destruct (@gindep_calls calls w0 sched c HI Hs0 Hind He Hst) as (_ & _ & Hth & Hout).
  destruct (@gseq_run_spec calls w0 HI Hs0 Hind ord w0 Hnd Hs0) as (w' & rs & Hrun & Hall & Hfr).
  { intros j _. split; auto. apply Wf_gstart. exact HI. }
  exists w', rs. split; auto. split.
  - intros a.
    destruct (existsb (fun i => gfp_addr w0 calls i a) ord) eqn:Ex.
    + apply existsb_exists in Ex. destruct Ex as (i & Hi & Ha).
      assert (Hilt : i < length calls) by (apply Hperm; exact Hi).
      destruct (nth_error calls i) as [ci|] eqn:Eci; [|apply nth_error_None in Eci; lia].
      destruct (Hth i ci Eci) as (wi & ri & Hsolo & _ & Hagree & _).
      rewrite (Hagree a Ha).
      assert (Hca : callat calls i = ci) by (unfold callat; apply nth_error_nth; exact Eci).
      (* the i-th entry of Hall *)
      clear - Hall Hi Ha Hsolo Hca.
      induction Hall as [|j r ord' rs' Hj Hrest IH]; [contradiction|].
      destruct Hi as [->|Hi]; [|apply IH; exact Hi].
      destruct Hj as (wi' & Hs' & Hpw). rewrite Hca, Hsolo in Hs'. inversion Hs'; subst wi'.
      assert (Hpf := f_equal fs Hpw). simpl in Hpf.
      rewrite <- (@lookup_proj _ a (fs wi) Ha), <- Hpf. apply (@lookup_proj _ a (fs w') Ha).
    + assert (Hno : forall i, i < length calls -> gfp_addr w0 calls i a = false).
      { intros i Hi. apply Hperm in Hi. destruct (gfp_addr w0 calls i a) eqn:E; auto.
        assert (existsb (fun i => gfp_addr w0 calls i a) ord = true)
          by (apply existsb_exists; eauto). congruence. }
      rewrite (Hout a Hno).
      pose (G := fun x : addr => negb (existsb (fun i => gfp_addr w0 calls i x) ord)).
      assert (Hpw : pw G (fun _ => false) w' = pw G (fun _ => false) w0).
      { apply Hfr; [|reflexivity]. intros j x Hj Hx. unfold G. apply negb_false_iff.
        apply existsb_exists. eauto. }
      assert (Hpf := f_equal fs Hpw). simpl in Hpf.
      assert (Hn : G a = true) by (unfold G; rewrite Ex; reflexivity).
      rewrite <- (@lookup_proj G a (fs w') Hn), Hpf. symmetry. apply (@lookup_proj G a (fs w0) Hn).
  - assert (Hin : forall i, In i ord -> i < length calls) by (intros i Hi; apply Hperm; exact Hi).
    clear - Hall Hth Hin.
    induction Hall as [|j r ord' rs' Hj Hrest IH]; simpl; auto.
    f_equal; [|apply IH; intros i Hi; apply Hin; right; exact Hi].
    assert (Hjlt : j < length calls) by (apply Hin; left; reflexivity).
    destruct (nth_error calls j) as [cj|] eqn:Ecj; [|apply nth_error_None in Ecj; lia].
    destruct (Hth j cj Ecj) as (wj & rj & Hsolo & Hres & _).
    assert (Hca : callat calls j = cj) by (unfold callat; apply nth_error_nth; exact Ecj).
    destruct Hj as (wj' & Hs' & _). rewrite Hca, Hsolo in Hs'. inversion Hs'; subst. exact Hres.
Qed.

(* ====================================================================================== *)
(* §5  deciding independence; the isolation corollary for metadata documents                *)
(* ====================================================================================== *)

Definition ms_disjb (m m' : mset) : bool :=
  match m, m' with
  | MNone, _ | _, MNone => true
  | MAll p, MAll q | MAll p, MOne q _ | MOne q _, MAll p => negb (Nat.eqb p q)
  | MOne p f, MOne q g => negb (Nat.eqb p q && Nat.eqb f g)
  end.

Lemma ms_disjb_sound : forall m m' p f, ms_disjb m m' = true -> msin m p f = true -> msin m' p f = false.
Proof.
  intros m m' p f H Hin. destruct m as [|a|a b], m' as [|c|c e]; simpl in *; auto; try discriminate.
  - apply Nat.eqb_eq in Hin. subst a. apply negb_true_iff in H. exact H.
  - apply Nat.eqb_eq in Hin. subst a. apply negb_true_iff in H. rewrite H. reflexivity.
  - apply andb_true_iff in Hin. destruct Hin as [H1 _]. apply Nat.eqb_eq in H1. subst a.
    apply negb_true_iff in H. rewrite Nat.eqb_sym. exact H.
  - apply andb_true_iff in Hin. destruct Hin as [H1 H2]. apply Nat.eqb_eq in H1, H2. subst a b.
    apply negb_true_iff in H. exact H.
Qed.

Definition gdisjb (w0 : world) (c c' : call) : bool :=
  negb (pid_clash (ref_pid c) (ref_pid c')) &&
  forallb (fun x => negb (cid_in (gcids w0 c') x)) (gcids w0 c) &&
  ms_disjb (meta_of c) (meta_of c').

Definition gindepb (w0 : world) (calls : list call) : bool := pairwiseb (gdisjb w0) calls.

Lemma gdisjb_sound : forall w0 c c', gdisjb w0 c c' = true -> gdisj w0 c c'.
Proof.
  intros w0 c c' H. apply andb_true_iff in H. destruct H as [H12 H3].
  apply andb_true_iff in H12. destruct H12 as [H1 H2]. split; [|split].
  - intros p Hp Hp'. rewrite Hp, Hp' in H1. simpl in H1. rewrite Nat.eqb_refl in H1. discriminate.
  - intros x Hx Hx'. rewrite forallb_forall in H2. specialize (H2 x Hx).
    apply cid_in_In in Hx'. rewrite Hx' in H2. discriminate.
  - intros p f. apply ms_disjb_sound. exact H3.
Qed.

Lemma gdisj_rejected_l : forall w0 e c, gdisj w0 (CRejected e) c.
Proof. intros. split; [|split]; simpl; [intros p H; discriminate | intros x [] | intros; discriminate]. Qed.
Lemma gdisj_rejected_r : forall w0 e c, gdisj w0 c (CRejected e).
Proof. intros. split; [|split]; simpl; [intros p _ H; discriminate | intros x _ [] | auto]. Qed.

Lemma gindepb_sound : forall w0 calls, gindepb w0 calls = true -> gindep w0 calls.
Proof.
  intros w0 calls H i j Hij. unfold callat.
  destruct (le_lt_dec (length calls) i) as [Hi|Hi].
  { rewrite (nth_overflow calls _ Hi). apply gdisj_rejected_l. }
  destruct (le_lt_dec (length calls) j) as [Hj|Hj].
  { rewrite (nth_overflow calls _ Hj). apply gdisj_rejected_r. }
  apply gdisjb_sound.
  destruct (lt_eq_lt_dec i j) as [[Hlt|He]|Hgt]; [|contradiction|].
  - apply (pairwiseb_nth (gdisjb w0) (CRejected EGeneric) calls H Hlt Hj).
  - apply (pairwiseb_nth (gdisjb w0) (CRejected EGeneric) calls H Hgt Hi).
Qed.

(* the single-format metadata calls and the document they work on *)
Definition doc_of (c : call) : option (pid * fmt) :=
  match c with
  | CStoreMeta p f _ _ _ | CRetrMeta p f | CDelMeta p (Some f) => Some (p, f)
  | _ => None
  end.

(* a pool of single-format metadata calls on pairwise different (pid, format) pairs — the pids
   may coincide — is independent, in every start state *)
Lemma docs_gindep : forall w0 calls,
  (forall c, In c calls -> doc_of c <> None) -> NoDup (map doc_of calls) -> gindep w0 calls.
Proof.
  intros w0 calls Hdoc Hnd i j Hij. unfold callat.
  destruct (le_lt_dec (length calls) i) as [Hi|Hi].
  { rewrite (nth_overflow calls _ Hi). apply gdisj_rejected_l. }
  destruct (le_lt_dec (length calls) j) as [Hj|Hj].
  { rewrite (nth_overflow calls _ Hj). apply gdisj_rejected_r. }
  set (ci := nth i calls (CRejected EGeneric)). set (cj := nth j calls (CRejected EGeneric)).
  assert (Hci : doc_of ci <> None) by (apply Hdoc; apply nth_In; exact Hi).
  assert (Hcj : doc_of cj <> None) by (apply Hdoc; apply nth_In; exact Hj).
  assert (Hne : doc_of ci <> doc_of cj).
  { intros E. apply Hij.
    apply (proj1 (NoDup_nth (map doc_of calls) (doc_of (CRejected EGeneric))) Hnd i j);
      rewrite ?map_length; auto. rewrite !map_nth. exact E. }
  assert (Hshape : forall c, doc_of c <> None ->
            exists p f, doc_of c = Some (p, f) /\ ref_pid c = None /\ call_cids c = [] /\ meta_of c = MOne p f).
  { intros c Hc. destruct c; simpl in *; try congruence; eauto 6.
    destruct f; simpl in *; try congruence; eauto 6. }
  destruct (Hshape ci Hci) as (p & f & E1 & R1 & C1 & M1).
  destruct (Hshape cj Hcj) as (q & g & E2 & R2 & C2 & M2).
  split; [|split].
  - intros x Hx. rewrite R1 in Hx. discriminate.
  - intros x Hx. unfold gcids in Hx. rewrite R1, C1 in Hx. simpl in Hx. contradiction.
  - intros p' f' Hin. rewrite M1 in Hin. rewrite M2. simpl in *.
    apply andb_true_iff in Hin. destruct Hin as [H1 H2]. apply Nat.eqb_eq in H1, H2. subst p' f'.
    destruct (Nat.eqb p q) eqn:Epq; auto. destruct (Nat.eqb f g) eqn:Efg; auto.
    apply Nat.eqb_eq in Epq, Efg. subst. exfalso. apply Hne. congruence.
Qed.

(* C11's isolation clause in concurrent form: any number of store / retrieve / delete calls on
   pairwise different (pid, format) pairs, under any schedule: each returns what it returns when
   run alone, and the final store is the start store with each call's document as that call
   alone leaves it *)
Theorem meta_isolation : forall calls w0 sched c,
  Spec.Inv w0 -> fsorted (fs w0) ->
  (forall ci, In ci calls -> doc_of ci <> None) -> NoDup (map doc_of calls) ->
  exec (map api calls) sched (init_cfg (map api calls) w0) = Some c ->
  stuck (map api calls) c ->
  finished (map api calls) c = true /\ locks (snd c) = [] /\
  (forall i ci, nth_error calls i = Some ci ->
     exists wi ri,
       run_as i w0 (api ci) = Some (wi, ri) /\
       thread_result (map api calls) c i = Some ri /\
       (forall a, gfp_addr w0 calls i a = true -> lookup a (fs (snd c)) = lookup a (fs wi)) /\
       (forall a, gfp_addr w0 calls i a = false -> lookup a (fs wi) = lookup a (fs w0))) /\
  (forall a, (forall i, i < length calls -> gfp_addr w0 calls i a = false) ->
             lookup a (fs (snd c)) = lookup a (fs w0)).
Proof.
  intros calls w0 sched c HI Hs Hdoc Hnd He Hst.
  eapply gindep_calls; eauto. apply docs_gindep; auto.
Qed.

(* the footprint of a single-format metadata call is its document, the markers of it, and the
   thread's own temp files: nothing else *)
Fixpoint addr_root (a : addr) : addr := match a with ADel x => addr_root x | _ => a end.

Lemma doc_footprint : forall w0 calls i p f a,
  doc_of (callat calls i) = Some (p, f) ->
  gfp_addr w0 calls i a = true ->
  addr_root a = AMeta p f \/ exists ar n, addr_root a = ATmp ar i n.
Proof.
  intros w0 calls i p f a Hd. unfold gfp_addr.
  assert (Hs : ref_pid (callat calls i) = None /\ gcids w0 (callat calls i) = [] /\
               meta_of (callat calls i) = MOne p f).
  { destruct (callat calls i); simpl in *; try discriminate.
    - inversion Hd; subst. auto.
    - inversion Hd; subst. auto.
    - destruct f0; inversion Hd; subst. auto. }
  destruct Hs as (-> & -> & ->).
  induction a; simpl; intros H; try discriminate; auto.
  - apply andb_true_iff in H. destruct H as [H1 H2]. apply Nat.eqb_eq in H1, H2. subst. left. reflexivity.
  - apply Nat.eqb_eq in H. subst. right. eauto.
Qed.

(* ---------- the statement, in full ---------- *)

Definition C12_indep_statement : Prop :=
  forall (calls : list call) (w0 : world) (sched : list nat) (c : cfg),
    Spec.Inv w0 -> fsorted (fs w0) -> gindep w0 calls ->
    exec (map api calls) sched (init_cfg (map api calls) w0) = Some c ->
    stuck (map api calls) c ->
    finished (map api calls) c = true /\ locks (snd c) = [] /\
    (forall i ci, nth_error calls i = Some ci ->
       exists wi ri,
         run_as i w0 (api ci) = Some (wi, ri) /\
         thread_result (map api calls) c i = Some ri /\
         (forall a, gfp_addr w0 calls i a = true -> lookup a (fs (snd c)) = lookup a (fs wi)) /\
         (forall a, gfp_addr w0 calls i a = false -> lookup a (fs wi) = lookup a (fs w0))) /\
    (forall a, (forall i, i < length calls -> gfp_addr w0 calls i a = false) ->
               lookup a (fs (snd c)) = lookup a (fs w0)).

Theorem C12_indep_holds : C12_indep_statement.
Proof. exact gindep_calls. Qed.
