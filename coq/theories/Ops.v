(* Ops.v — the public API of FileHashStore transcribed, call by call and branch by branch, as
   programs over the operations of FS.v (DESIGN.md §3.2).  Line numbers refer to
   src/hashstore/filehashstore.py.  Where the tree carries a repaired defect (D3, D4) the model
   follows the repaired code; the un-repaired behaviour is kept as a separate definition
   (suffix [_unfixed]) so that the refutation theorems can exhibit the witness. *)
From HS Require Import Base PyVal FS.

Inductive outcome (A : Type) : Type := Val (a : A) | Exn (e : exn).
Arguments Val {A} a.
Arguments Exn {A} e.

Definition M (A : Type) := prog (outcome A).

Definition ret {A} (a : A) : M A := Ret (Val a).
Definition raise {A} (e : exn) : M A := Ret (Exn e).
Definition mbind {A B} (m : M A) (f : A -> M B) : M B :=
  bind m (fun r => match r with Val a => f a | Exn e => Ret (Exn e) end).
Definition catch {A} (m : M A) : M (outcome A) := bind m (fun r => Ret (Val r)).
(* try: m finally: fin   — an exception raised by [fin] replaces the pending result *)
Definition try_finally {A} (m : M A) (fin : M unit) : M A :=
  bind m (fun r => bind fin (fun rf => match rf with Val _ => Ret r | Exn e => Ret (Exn e) end)).

Notation "x <- m ;; f" := (mbind m (fun x => f)) (at level 61, m at next level, right associativity).
Notation "m ;;; f" := (mbind m (fun _ => f)) (at level 61, right associativity).

Definition exn_of_err (e : err) : exn :=
  match e with ENoEnt => EFileNotFound | EFault => EOSError end.

(* typed wrappers around the operations *)
Definition probe (a : addr) : M bool :=
  Vis (Probe a) (fun x => match x with ABool b => ret b | _ => Bad end).
Definition read (a : addr) : M fcontent :=
  Vis (Read a) (fun x => match x with ACont c => ret c | AErr e => raise (exn_of_err e) | _ => Bad end).
Definition unit_op (o : op) : M unit :=
  Vis o (fun x => match x with AUnit => ret tt | AErr e => raise (exn_of_err e) | _ => Bad end).
Definition size_lines (a : addr) : M nat :=
  Vis (SizeLines a) (fun x => match x with ANat n => ret n | AErr e => raise (exn_of_err e) | _ => Bad end).
Definition mktmp (ar : area) (init : fcontent) : M addr :=
  Vis (MkTmp ar init) (fun x => match x with AAddr a => ret a | AErr e => raise (exn_of_err e) | _ => Bad end).
Definition listdir (p : pid) : M (list addr) :=
  Vis (ListDir p) (fun x => match x with AList l => ret l | AErr e => raise (exn_of_err e) | _ => Bad end).
Definition rewrite_write (a : addr) (p : pid) : M nat :=
  Vis (RewriteWrite a p) (fun x => match x with ANat n => ret n | AErr e => raise (exn_of_err e) | _ => Bad end).
Definition acquire (cls : lockcls) (i : ident) : M unit :=
  Vis (Acquire cls i) (fun x => match x with AUnit => ret tt | _ => Bad end).
(* list.remove(x) raises ValueError when x is absent *)
Definition release (cls : lockcls) (i : ident) : M unit :=
  Vis (Release cls i) (fun x => match x with AUnit => ret tt | AErr _ => raise EValueError | _ => Bad end).
Definition peek (cls : lockcls) (i : ident) : M bool :=
  Vis (Peek cls i) (fun x => match x with ABool b => ret b | _ => Bad end).
Definition held (cls : lockcls) (i : ident) : M bool :=
  Vis (Held cls i) (fun x => match x with ABool b => ret b | _ => Bad end).
(* closing a file releases its flock, if it was obtained: never raises *)
Definition funlock (a : addr) : M unit :=
  Vis (Release LFile (IDoc a)) (fun x => match x with AUnit | AErr _ => ret tt | _ => Bad end).
(* an operation whose failure is swallowed (logged) by the caller *)
Definition swallow_op (o : op) : M unit :=
  Vis o (fun x => match x with AUnit | AErr _ => ret tt | _ => Bad end).

Definition read_cid (a : addr) : M cid :=
  c <- read a ;; match c with CCid c' => ret c' | _ => Bad end.
Definition read_lines (a : addr) : M (list pid) :=
  c <- read a ;; match c with CLines l => ret l | CEmpty => ret [] | _ => Bad end.
(* _is_string_in_refs_file, :1915-1929 *)
Definition is_in_refs (p : pid) (a : addr) : M bool :=
  l <- read_lines a ;; ret (memb Nat.eqb p l).

Definition sysmeta_fmt : fmt := 0.

(* _find_object, :1027-1105 *)
Definition find_object (p : pid) : M cid :=
  b <- probe (APidRef p) ;;
  if negb b then raise EPidRefsDoesNotExist else
  c <- read_cid (APidRef p) ;;
  b2 <- probe (ACidRef c) ;;
  if negb b2 then raise EOrphanPidRefsFileFound else
  m <- is_in_refs p (ACidRef c) ;;
  if negb m then raise EPidNotFoundInCidRefsFile else
  e <- probe (AObj c) ;;                       (* self._exists("objects", cid) *)
  if negb e then raise ERefsFileExistsButCidObjMissing else
  e2 <- probe (AObj c) ;;                      (* _get_hashstore_data_object_path for the result dict *)
  if negb e2 then raise EFileNotFound else
  probe (AMeta p sysmeta_fmt) ;;;              (* sysmeta_path *)
  ret c.

(* _open("objects", cid), :2315-2338 *)
Definition open_object (c : cid) : M fcontent :=
  e <- probe (AObj c) ;;
  if negb e then raise EFileNotFound else read (AObj c).

(* retrieve_object, :707-726 *)
Definition retrieve_object (p : pid) : M fcontent :=
  c <- find_object p ;; open_object c.

(* get_hex_digest, :1006-1023 — the answer is the content that was hashed *)
Definition get_hex_digest (p : pid) : M fcontent :=
  c <- find_object p ;;
  e <- probe (AObj c) ;;
  if negb e then raise EValueError else open_object c.

(* _rename_path_for_deletion, :2680-2692 *)
Definition rename_for_deletion (a : addr) : M addr :=
  unit_op (Rename a (ADel a)) ;;; ret (ADel a).

(* _delete_marked_files, :1750-1763: errors are logged and swallowed *)
Fixpoint delete_marked (l : list addr) : M unit :=
  match l with
  | [] => ret tt
  | a :: l' => swallow_op (Remove a) ;;; delete_marked l'
  end.

(* _update_refs_file(..., "remove"), :1887-1900 *)
Definition update_refs_remove (a : addr) (p : pid) : M unit :=
  b <- probe a ;;
  if negb b then raise EFileNotFound else
  unit_op (OpenRW a) ;;;
  try_finally
    (unit_op (Acquire LFile (IDoc a)) ;;;
     k <- rewrite_write a p ;;
     unit_op (Truncate a k))
    (funlock a).

(* _update_refs_file(..., "add"), :1879-1886 *)
Definition update_refs_add (a : addr) (p : pid) : M unit :=
  b <- probe a ;;
  if negb b then raise EFileNotFound else
  m <- is_in_refs p a ;;
  if m then ret tt else
  unit_op (AppendOpen a) ;;;
  try_finally
    (unit_op (Acquire LFile (IDoc a)) ;;; unit_op (AppendWrite a p))
    (funlock a).

(* _verify_hashstore_references, :2016-2071 *)
Definition verify_refs (p : pid) (c : cid) : M unit :=
  b <- probe (APidRef p) ;;
  if negb b then raise EPidRefsFileNotFound else
  b2 <- probe (ACidRef c) ;;
  if negb b2 then raise ECidRefsFileNotFound else
  c' <- read_cid (APidRef p) ;;
  if negb (Nat.eqb c' c) then raise EPidRefsContentError else
  m <- is_in_refs p (ACidRef c) ;;
  if negb m then raise ECidRefsContentError else ret tt.

(* _write_refs_file, :1829-1858 *)
Definition write_refs_tmp (content : fcontent) : M addr :=
  t <- mktmp ArRefs CEmpty ;;
  unit_op (OpenWr t content) ;;;
  ret t.

(* _validate_and_check_cid_lock, :1807-1827 *)
Definition validate_and_check_cid_lock (c c' : cid) : M unit :=
  if negb (Nat.eqb c c') then raise EValueError else
  h <- held LCid (ICid c) ;;
  if negb h then raise EIdentifierNotLocked else ret tt.

(* _mark_pid_refs_file_for_deletion, :1765-1781: errors swallowed *)
Definition mark_pid_refs (p : pid) : M (list addr) :=
  r <- catch (rename_for_deletion (APidRef p)) ;;
  match r with Val d => ret [d] | Exn _ => ret [] end.

(* _remove_pid_and_handle_cid_refs_deletion, :1783-1805: errors swallowed *)
Definition remove_pid_and_handle_cid (p : pid) (c : cid) : M (list addr) :=
  r <- catch (update_refs_remove (ACidRef c) p ;;;
              n <- size_lines (ACidRef c) ;;
              if Nat.eqb n 0 then d <- rename_for_deletion (ACidRef c) ;; ret [d] else ret []) ;;
  match r with Val l => ret l | Exn _ => ret [] end.

(* _untag_object, :1554-1676 *)
Definition untag_object (p : pid) (c : cid) : M unit :=
  h <- held LRefPid (IPid p) ;;
  if negb h then raise EIdentifierNotLocked else
  r <- catch (find_object p) ;;
  match r with
  | Val c' =>
      validate_and_check_cid_lock c c' ;;;
      l1 <- mark_pid_refs p ;;
      l2 <- remove_pid_and_handle_cid p c ;;
      delete_marked (l1 ++ l2)
  | Exn EOrphanPidRefsFileFound =>
      c' <- read_cid (APidRef p) ;;
      validate_and_check_cid_lock c c' ;;;
      l1 <- mark_pid_refs p ;;
      delete_marked l1
  | Exn ERefsFileExistsButCidObjMissing =>
      c' <- read_cid (APidRef p) ;;
      validate_and_check_cid_lock c c' ;;;
      l1 <- mark_pid_refs p ;;
      l2 <- remove_pid_and_handle_cid p c ;;
      delete_marked (l1 ++ l2)
  | Exn EPidNotFoundInCidRefsFile =>
      c' <- read_cid (APidRef p) ;;
      validate_and_check_cid_lock c c' ;;;
      l1 <- mark_pid_refs p ;;
      delete_marked l1
  | Exn EPidRefsDoesNotExist =>
      h2 <- held LCid (ICid c) ;;
      if negb h2 then raise EIdentifierNotLocked else
      l2 <- remove_pid_and_handle_cid p c ;;
      delete_marked l2
  | Exn e => raise e
  end.

Definition and_sc (m1 m2 : M bool) : M bool := b <- m1 ;; if b then m2 else ret false.
Definition notm (m : M bool) : M bool := b <- m ;; ret (negb b).

(* the body of _store_hashstore_refs_files between the acquisitions and the handlers, :1459-1533.
   Python's short-circuit [and] and the three successive if/elif tests are kept probe for probe. *)
Definition store_refs_body (p : pid) (c : cid) : M unit :=
  unit_op (MkDirs (APidRef p)) ;;;
  unit_op (MkDirs (ACidRef c)) ;;;
  c1 <- and_sc (probe (APidRef p)) (probe (ACidRef c)) ;;
  if c1 then
    (* both exist: verify, then HashStoreRefsAlreadyExists whatever the verification said *)
    catch (verify_refs p c) ;;; raise EHashStoreRefsAlreadyExists
  else
  c2 <- and_sc (probe (APidRef p)) (notm (probe (ACidRef c))) ;;
  if c2 then raise EPidRefsAlreadyExists
  else
  c3 <- and_sc (notm (probe (APidRef p))) (probe (ACidRef c)) ;;
  if c3 then
    t <- write_refs_tmp (CCid c) ;;
    unit_op (Rename t (APidRef p)) ;;;
    m <- is_in_refs p (ACidRef c) ;;
    (if m then ret tt else update_refs_add (ACidRef c) p) ;;;
    verify_refs p c
  else
    t1 <- write_refs_tmp (CCid c) ;;
    t2 <- write_refs_tmp (CLines [p]) ;;
    unit_op (Rename t1 (APidRef p)) ;;;
    unit_op (Rename t2 (ACidRef c)) ;;;
    verify_refs p c.

(* _store_hashstore_refs_files, :1447-1552  (= tag_object, :584-598, whose handlers re-raise the
   same classes) *)
Definition tag_object (p : pid) (c : cid) : M unit :=
  try_finally
    (acquire LRefPid (IPid p) ;;;
     acquire LCid (ICid c) ;;;
     r <- catch (store_refs_body p c) ;;
     match r with
     | Val _ => ret tt
     | Exn EHashStoreRefsAlreadyExists => raise EHashStoreRefsAlreadyExists
     | Exn EPidRefsAlreadyExists => raise EPidRefsAlreadyExists
     | Exn ue => untag_object p c ;;; raise ue
     end)
    (release LCid (ICid c) ;;; release LRefPid (IPid p)).

(* validation arguments, abstracted by layer A (Verdict.v): what the comparison will say *)
Inductive vsz := VSzNone | VSzOk | VSzBad.
Inductive vck := VCkNone | VCkOk | VCkBad.

(* _verify_object_information as called from _move_and_get_checksums (pre-computed path only:
   _refine_algorithm_list always adds the checksum algorithm), :1954-2014 *)
Definition verify_object (pid_given : bool) (t : addr) (sz : vsz) (ck : vck) : M unit :=
  match sz with
  | VSzBad => (if pid_given then unit_op (Remove t) else ret tt) ;;; raise ENonMatchingObjSize
  | _ =>
      match ck with
      | VCkBad => (if pid_given then unit_op (Remove t) else ret tt) ;;; raise ENonMatchingChecksum
      | _ => ret tt
      end
  end.

Fixpoint write_chunks (t : addr) (n : nat) : M unit :=
  match n with
  | 0 => ret tt
  | S n' => unit_op (WriteChunk t) ;;; write_chunks t n'
  end.

(* _delete("objects", abs_path) on an object address, :2340-2371 *)
Definition delete_object_file (c : cid) : M unit :=
  e <- probe (AObj c) ;;
  if e then unit_op (Remove (AObj c)) else raise EFileNotFound.

(* _write_to_tmp_file_and_get_hex_digests + _move_and_get_checksums, :1198-1416.
   Content b has cid b. *)
Definition move_and_get_checksums (p : option pid) (b n : nat) (sz : vsz) (ck : vck) : M cid :=
  let pid_given := match p with Some _ => true | None => false end in
  t <- mktmp ArObj (CData b n 0) ;;
  w <- catch (write_chunks t n) ;;
  match w with
  | Exn _ => swallow_op (Remove t) ;;; raise EGeneric        (* :1395-1416 *)
  | Val _ =>
  let c := b in
  e <- probe (AObj c) ;;
  if negb e then
    verify_object pid_given t sz ck ;;;
    unit_op (MkDirs (AObj c)) ;;;
    r <- catch (unit_op (Rename t (AObj c))) ;;
    match r with
    | Val _ => ret c
    | Exn err =>                                              (* :1259-1296 *)
        e2 <- probe (AObj c) ;;
        if e2 then
          match p with
          | None => raise EValueError                        (* get_hex_digest(None, ...) *)
          | Some p' =>
              d <- get_hex_digest p' ;;
              match d with
              | CData b' _ _ => if Nat.eqb b' c then raise err else delete_object_file c ;;; raise err
              | _ => delete_object_file c ;;; raise err
              end
          end
        else unit_op (Remove t) ;;; raise err
    end
  else
    r <- catch (verify_object pid_given t sz ck) ;;          (* :1297-1332 *)
    match r with
    | Val _ => unit_op (Remove t) ;;; ret c
    | Exn ENonMatchingObjSize =>
        (if pid_given then ret tt else unit_op (Remove t)) ;;; raise ENonMatchingObjSize
    | Exn ENonMatchingChecksum =>
        (if pid_given then ret tt else unit_op (Remove t)) ;;; raise ENonMatchingChecksum
    | Exn other => unit_op (Remove t) ;;; raise other
    end
  end.

Inductive src := SrcPath | SrcMissing | SrcStream.

(* Stream(data), :2806-2823 *)
Definition open_source (s : src) : M unit :=
  match s with
  | SrcPath => unit_op OpenSrc
  | SrcMissing => raise EValueError
  | SrcStream => ret tt
  end.

Inductive value :=
| VUnit
| VMeta (c : cid) (n : nat)          (* ObjectMetadata: cid and content (as chunk count) *)
| VBytes (c : fcontent)              (* an open stream on that content / its digest *)
| VPath (a : addr).

(* store_object, :509-582 *)
Definition store_object (p : option pid) (s : src) (b n : nat) (sz : vsz) (ck : vck) : M value :=
  match p with
  | None =>
      open_source s ;;;
      c <- move_and_get_checksums None b n VSzNone VCkNone ;;
      ret (VMeta c n)
  | Some p' =>
      busy <- peek LObjPid (IPid p') ;;
      if busy then raise EStoreObjectForPidAlreadyInProgress else
      try_finally
        (acquire LObjPid (IPid p') ;;;
         open_source s ;;;
         c <- move_and_get_checksums (Some p') b n sz ck ;;
         tag_object p' c ;;;
         ret (VMeta c n))
        (release LObjPid (IPid p'))
  end.

(* delete_metadata, :886-1004 (repaired D4: waits on the document name, and re-tests the document
   under its lock before renaming it) *)
Fixpoint probe_all (l : list addr) : M (list addr) :=
  match l with
  | [] => ret []
  | a :: l' => b <- probe a ;; r <- probe_all l' ;; ret (if b then a :: r else r)
  end.

Fixpoint mark_docs (l : list addr) : M (list addr) :=
  match l with
  | [] => ret []
  | a :: l' =>
      acquire LMeta (IDoc a) ;;;
      d <- try_finally
             (b <- probe a ;;
              if b then
                (* a deletion marker of a concurrent delete may be removed by its owner between the
                   test and the rename: tolerated (repaired DD) *)
                r <- catch (rename_for_deletion a) ;;
                match r with
                | Val d => ret [d]
                | Exn EFileNotFound => ret []
                | Exn e => raise e
                end
              else ret [])
             (release LMeta (IDoc a)) ;;
      r <- mark_docs l' ;;
      ret (d ++ r)
  end.

Definition delete_metadata (p : pid) (f : option fmt) : M unit :=
  match f with
  | None =>
      l <- listdir p ;;
      l' <- probe_all l ;;
      ds <- mark_docs l' ;;
      delete_marked ds
  | Some f' =>
      let a := AMeta p f' in
      acquire LMeta (IDoc a) ;;;
      try_finally
        (b <- probe a ;; if b then unit_op (Remove a) else ret tt)
        (release LMeta (IDoc a))
  end.

(* delete_object, :753-884 (repaired D3: the cid is read before the pid reference is renamed and
   an emptied cid list is removed; repaired U1: the pid is also claimed in the reference-locked
   list, which is what tag_object synchronises on) *)
Definition delete_object (p : pid) : M unit :=
  try_finally
    (acquire LObjPid (IPid p) ;;;
     acquire LRefPid (IPid p) ;;;
     r <- catch (find_object p) ;;
     match r with
     | Val c =>
         acquire LCid (ICid c) ;;;
         try_finally
           (d1 <- rename_for_deletion (APidRef p) ;;
            update_refs_remove (ACidRef c) p ;;;
            n <- size_lines (ACidRef c) ;;
            l <- (if Nat.eqb n 0
                  then d2 <- rename_for_deletion (ACidRef c) ;;
                       d3 <- rename_for_deletion (AObj c) ;;
                       ret [d1; d2; d3]
                  else ret [d1]) ;;
            delete_marked l ;;;
            delete_metadata p None)
           (release LCid (ICid c))
     | Exn EOrphanPidRefsFileFound =>
         d <- rename_for_deletion (APidRef p) ;;
         delete_metadata p None ;;;
         delete_marked [d]
     | Exn ERefsFileExistsButCidObjMissing =>
         c <- read_cid (APidRef p) ;;
         d <- rename_for_deletion (APidRef p) ;;
         l <- try_finally
                (acquire LCid (ICid c) ;;;
                 m <- is_in_refs p (ACidRef c) ;;
                 (if m then update_refs_remove (ACidRef c) p else ret tt) ;;;
                 n <- size_lines (ACidRef c) ;;
                 if Nat.eqb n 0 then d2 <- rename_for_deletion (ACidRef c) ;; ret [d; d2] else ret [d])
                (release LCid (ICid c)) ;;
         delete_metadata p None ;;;
         delete_marked l
     | Exn EPidNotFoundInCidRefsFile =>
         d <- rename_for_deletion (APidRef p) ;;
         delete_metadata p None ;;;
         delete_marked [d]
     | Exn e => raise e
     end)
    (release LRefPid (IPid p) ;;; release LObjPid (IPid p)).

(* the RefsFileExistsButCidObjMissing handler as it stood before the repair (D3), :843-864 *)
Definition delete_object_unfixed (p : pid) : M unit :=
  try_finally
    (acquire LObjPid (IPid p) ;;;
     r <- catch (find_object p) ;;
     match r with
     | Exn ERefsFileExistsButCidObjMissing =>
         d <- rename_for_deletion (APidRef p) ;;
         c <- read_cid (APidRef p) ;;
         try_finally
           (acquire LCid (ICid c) ;;;
            m <- is_in_refs p (ACidRef c) ;;
            (if m then update_refs_remove (ACidRef c) p else ret tt))
           (release LCid (ICid c)) ;;;
         delete_metadata p None ;;;
         delete_marked [d]
     | _ => raise EGeneric     (* other branches are as in [delete_object]; not needed for the witness *)
     end)
    (release LObjPid (IPid p)).

(* store_metadata / _put_metadata / _mktmpmetadata, :647-705, 1678-1745 *)
Definition store_metadata (p : pid) (f : fmt) (s : src) (v n : nat) : M value :=
  let a := AMeta p f in
  acquire LMeta (IDoc a) ;;;
  try_finally
    (open_source s ;;;
     t <- mktmp ArMeta (CData v n 0) ;;
     write_chunks t n ;;;
     r <- catch (unit_op (MkDirs a) ;;; unit_op (Rename t a)) ;;
     match r with
     | Val _ => ret (VPath a)
     | Exn e => unit_op (Remove t) ;;; raise e
     end)
    (release LMeta (IDoc a)).

(* retrieve_metadata, :728-751 *)
Definition retrieve_metadata (p : pid) (f : fmt) : M value :=
  let a := AMeta p f in
  b <- probe a ;;
  if b then
    b2 <- probe a ;;
    if negb b2 then raise EFileNotFound else c <- read a ;; ret (VBytes c)
  else raise EValueError.

(* _delete_object_only, :2073-2095 *)
Definition delete_object_only (c : cid) : M unit :=
  try_finally
    (acquire LCid (ICid c) ;;;
     b <- probe (ACidRef c) ;;
     if b then ret tt else delete_object_file c)
    (release LCid (ICid c)).

(* delete_if_invalid_object, :600-645.  [pre]: the checksum algorithm is a key of the supplied
   hex_digests (pre-computed path) — otherwise the stored object is opened and hashed. *)
Definition delete_if_invalid (c : cid) (sz : vsz) (pre ok : bool) : M unit :=
  r <- catch
         (match sz with
          | VSzBad => raise ENonMatchingObjSize
          | _ =>
              if pre then (if ok then ret tt else raise ENonMatchingChecksum)
              else open_object c ;;; (if ok then ret tt else raise ENonMatchingChecksum)
          end) ;;
  match r with
  | Val _ => ret tt
  | Exn ENonMatchingObjSize => delete_object_only c ;;; raise ENonMatchingObjSize
  | Exn ENonMatchingChecksum => delete_object_only c ;;; raise ENonMatchingChecksum
  | Exn e => raise e
  end.

(* ---------- the call vocabulary ---------- *)

Inductive call :=
| CStore (p : option pid) (s : src) (b n : nat) (sz : vsz) (ck : vck)
| CTag (p : pid) (c : cid)
| CDelete (p : pid)
| CDelInvalid (c : cid) (sz : vsz) (pre ok : bool)
| CStoreMeta (p : pid) (f : fmt) (s : src) (v n : nat)
| CRetrMeta (p : pid) (f : fmt)
| CDelMeta (p : pid) (f : option fmt)
| CRetrieve (p : pid)
| CGetHex (p : pid)
| CRejected (e : exn)            (* rejected by the argument checks of Args.v: no operation *)
| CDeleteUnfixed (p : pid).      (* witness vehicle for D3 only; never generated by the harness *)

Definition lift_unit (m : M unit) : M value := m ;;; ret VUnit.

Definition api (c : call) : M value :=
  match c with
  | CStore p s b n sz ck => store_object p s b n sz ck
  | CTag p c => lift_unit (tag_object p c)
  | CDelete p => lift_unit (delete_object p)
  | CDelInvalid c sz pre ok => lift_unit (delete_if_invalid c sz pre ok)
  | CStoreMeta p f s v n => store_metadata p f s v n
  | CRetrMeta p f => retrieve_metadata p f
  | CDelMeta p f => lift_unit (delete_metadata p f)
  | CRetrieve p => c <- retrieve_object p ;; ret (VBytes c)
  | CGetHex p => c <- get_hex_digest p ;; ret (VBytes c)
  | CRejected e => raise e
  | CDeleteUnfixed p => lift_unit (delete_object_unfixed p)
  end.

(* sequential execution of a history from a world; every call's outcome is recorded *)
Fixpoint run_history (w : world) (h : list call) : option (world * list (outcome value)) :=
  match h with
  | [] => Some (w, [])
  | c :: h' =>
      match run_seq w (api c) with
      | Some (w', r) =>
          match run_history w' h' with
          | Some (w'', rs) => Some (w'', r :: rs)
          | None => None
          end
      | None => None
      end
  end.
